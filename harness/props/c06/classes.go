package c06

import (
	"fmt"
	"sort"
	"strings"

	"verif/engine"
)

// Sharing classes of the first-generation families (development aid, spec "classes:<depth>"; the result is what the
// small alphabet of the fifth BFS step - core5 in ops.go - was chosen from).
//
// Every distinct implementation state reachable by at most <depth> (default 2) operations of the first-generation quick
// alphabet is taken (state-key deduplication, one history kept per state); from each of them every operation of the
// whole first generation is executed on the real interpreter (so the transitions measured are histories of length <=
// depth+1 = 3) and the transition is reduced to its SHARING BEHAVIOUR, contents dropped:
//
//	for each of a, b, c after the step: absent | which array it lives in (N: an array that did not exist before, S / T:
//	the array of the first / second operand, X: the array of another variable), offset relative to that operand (0 / +),
//	length relative to the operand (= < >), spare capacity (0 / +); for every variable that the step did not assign:
//	whether its slice header changed (H) and whether its elements changed (E).
//
// A family's signature is the sorted list of (state, operand pattern, behaviour); two families are in one class when the
// signatures are equal.
func classes(arg string) (res engine.Result) {
	depth := 2
	if arg == "1" {
		depth = 1
	}
	quick := opsOf(alphabet("old-quick"))
	all := opsOf(alphabet("all"))
	type node struct{ hist []*opDef }
	seen := map[string]bool{}
	frontier := []node{{}}
	states := []node{{}}
	for d := 1; d <= depth; d++ {
		var next []node
		for _, nd := range frontier {
			for _, o := range quick {
				if len(nd.hist) == 0 && mentions(o, 2) {
					continue
				}
				h := append(append([]*opDef(nil), nd.hist...), o)
				r := runHistory(&slipImpl{}, h, true)
				if r.Key == "" || seen[r.Key] {
					continue
				}
				seen[r.Key] = true
				next = append(next, node{h})
				states = append(states, node{h})
			}
		}
		frontier = next
	}
	sig := map[string][]string{}
	transitions := 0
	for si, nd := range states {
		for _, o := range all {
			if len(nd.hist) == 0 && mentions(o, 2) {
				continue
			}
			g, ok := geometry(nd.hist, o)
			if !ok {
				continue
			}
			transitions++
			pat := fmt.Sprintf("%d%d%d", o.dst, o.s, o.t)
			sig[o.name] = append(sig[o.name], fmt.Sprintf("%d|%s|%s", si, pat, g))
		}
	}
	groups := map[string][]string{}
	for name, l := range sig {
		sort.Strings(l)
		k := digest(strings.Join(l, "\n"))
		groups[k] = append(groups[k], name)
	}
	var lines []string
	for _, names := range groups {
		sort.Strings(names)
		lines = append(lines, strings.Join(names, " "))
	}
	sort.Strings(lines)
	res.Outcome = fmt.Sprintf("\nstates(depth<=%d)=%d transitions=%d families=%d classes=%d\n%s", depth, len(states), transitions, len(sig), len(lines), strings.Join(lines, "\n"))
	return
}

// geometry replays hist, executes o and returns the sharing behaviour of that last step.
func geometry(hist []*opDef, o *opDef) (string, bool) {
	im := &slipImpl{}
	full := append(append([]*opDef(nil), hist...), o)
	im.reset(full)
	t := newTrack()
	post := im.observe()
	var pre state
	for _, p := range full {
		pre = post
		if !applicable(p, &pre, t) {
			return "", false
		}
		if im.exec(p, freshNumber(&pre)) != nil {
			return "", false
		}
		post = im.observe()
		for i := range post {
			if post[i].bad != "" {
				return "", false
			}
		}
		t.advance(p, &pre, &post)
	}
	var b strings.Builder
	within := func(x, y *obsVar) bool { return 0 < len(x.segs) && 0 < len(y.segs) && overlap(x, y) }
	for v := 0; v < 3; v++ {
		pv := &post[v]
		b.WriteString(varNames[v])
		b.WriteByte(':')
		if !pv.present || len(pv.segs) == 0 {
			b.WriteString("- ")
		} else {
			ref := -1
			switch {
			case 0 <= o.s && within(pv, &pre[o.s]):
				b.WriteByte('S')
				ref = o.s
			case 0 <= o.t && within(pv, &pre[o.t]):
				b.WriteByte('T')
				ref = o.t
			default:
				hit := false
				for w := 0; w < 3; w++ {
					if w != v && within(pv, &pre[w]) {
						hit = true
					}
				}
				if within(pv, &pre[v]) {
					b.WriteByte('O') // its own old array
				} else if hit {
					b.WriteByte('X')
				} else {
					b.WriteByte('N')
				}
			}
			cmpTo := ref
			if cmpTo < 0 && 0 <= o.s {
				cmpTo = o.s
			}
			if 0 <= ref && 0 < len(pre[ref].segs) {
				if pv.segs[0].si.ptr == pre[ref].segs[0].si.ptr {
					b.WriteByte('0')
				} else {
					b.WriteByte('+')
				}
			}
			if 0 <= cmpTo {
				switch l := len(pre[cmpTo].elems); {
				case len(pv.elems) == l:
					b.WriteByte('=')
				case len(pv.elems) < l:
					b.WriteByte('<')
				default:
					b.WriteByte('>')
				}
			}
			if pv.segs[0].si.len < pv.segs[0].si.cap {
				b.WriteByte('c')
			}
			b.WriteByte(' ')
		}
		if v != o.dst {
			if len(pv.segs) != len(pre[v].segs) || 0 < len(pv.segs) && pv.segs[0].si != pre[v].segs[0].si {
				b.WriteByte('H')
			}
			if !sameElems(pv.elems, pre[v].elems) {
				b.WriteByte('E')
			}
		}
		b.WriteByte(' ')
	}
	return b.String(), true
}
