//go:build verif

package c01

import (
	"fmt"
	"strconv"
	"strings"
)

// node is the harness' own S-expression: the program generator builds it, the
// writer renders it to the text handed to slip.ReadString, and the reference
// evaluator interprets the very same tree.
type node struct {
	kind  byte    // 'i' integer, 's' symbol, 'l' list, 'x' raw text (quoted datum, never evaluated by the reference)
	i     int64   // kind 'i'
	s     string  // kind 's' (lower case) / 'x'
	l     []*node // kind 'l'
	short byte    // for 2-element lists (quote X) / (function X): '\'' or '#' = written in the shorthand form
}

func nInt(i int64) *node     { return &node{kind: 'i', i: i} }
func nSym(s string) *node    { return &node{kind: 's', s: s} }
func nList(l ...*node) *node { return &node{kind: 'l', l: l} }
func nQuote(x *node) *node   { return &node{kind: 'l', l: []*node{nSym("quote"), x}, short: '\''} }

func (n *node) isSym(s string) bool { return n != nil && n.kind == 's' && n.s == s }

func (n *node) String() string {
	var b strings.Builder
	n.write(&b)
	return b.String()
}

func (n *node) write(b *strings.Builder) {
	switch n.kind {
	case 'i':
		b.WriteString(strconv.FormatInt(n.i, 10))
	case 's', 'x':
		b.WriteString(n.s)
	case 'l':
		if n.short != 0 && len(n.l) == 2 {
			if n.short == '#' {
				b.WriteString("#'")
			} else {
				b.WriteByte('\'')
			}
			n.l[1].write(b)
			return
		}
		b.WriteByte('(')
		for i, e := range n.l {
			if 0 < i {
				b.WriteByte(' ')
			}
			e.write(b)
		}
		b.WriteByte(')')
	}
}

// parseSexpr reads one form of the small notation the templates are written in:
// lists, integers, symbols, 'x and #'x.
func parseSexpr(src string) *node {
	p := &sparser{src: src}
	n := p.form()
	p.ws()
	if p.pos != len(p.src) {
		panic(fmt.Sprintf("c01: trailing text in template %q", src))
	}
	return n
}

type sparser struct {
	src string
	pos int
}

func (p *sparser) ws() {
	for p.pos < len(p.src) && (p.src[p.pos] == ' ' || p.src[p.pos] == '\n' || p.src[p.pos] == '\t') {
		p.pos++
	}
}

func (p *sparser) form() *node {
	p.ws()
	if len(p.src) <= p.pos {
		panic(fmt.Sprintf("c01: unexpected end of template %q", p.src))
	}
	switch c := p.src[p.pos]; {
	case c == '(':
		p.pos++
		n := &node{kind: 'l'}
		for {
			p.ws()
			if len(p.src) <= p.pos {
				panic(fmt.Sprintf("c01: unterminated list in template %q", p.src))
			}
			if p.src[p.pos] == ')' {
				p.pos++
				return n
			}
			n.l = append(n.l, p.form())
		}
	case c == ')':
		panic(fmt.Sprintf("c01: unexpected ) in template %q", p.src))
	case c == '\'':
		p.pos++
		return &node{kind: 'l', l: []*node{nSym("quote"), p.form()}, short: '\''}
	case c == '#' && p.pos+1 < len(p.src) && p.src[p.pos+1] == '\'':
		p.pos += 2
		return &node{kind: 'l', l: []*node{nSym("function"), p.form()}, short: '#'}
	}
	start := p.pos
	for p.pos < len(p.src) && !strings.ContainsRune(" \n\t()", rune(p.src[p.pos])) {
		p.pos++
	}
	tok := p.src[start:p.pos]
	if i, err := strconv.ParseInt(tok, 10, 64); err == nil {
		return nInt(i)
	}
	return nSym(tok)
}
