package c09

import (
	"fmt"
	"regexp"
	"runtime/debug"
	"strings"

	"github.com/ohler55/slip"

	"verif/lisp"
)

// obs is what one evaluation was observed to do.
type obs struct {
	kind     string // value | condition | partial | raw
	val      slip.Object
	class    string   // most specific condition class
	hier     []string // condition hierarchy
	msg      string
	catchAll bool   // the condition was manufactured by slip's catch-all from a non-Lisp Go panic
	rawType  string // %T of a raw (non-condition) panic value
	site     string // Go function in which the original panic was raised (faults only)
	anyClass bool   // the function called is documented to raise arbitrary objects
}

// faultRule maps a message fragment of a Go runtime fault to a fault class.
// ORDER MATTERS: first match wins.
type faultRule struct{ mark, class string }

var realRules = []faultRule{
	{"interface conversion:", "interface-conversion"},
	{"index out of range", "index-out-of-range"},
	{"slice bounds out of range", "slice-bounds"},
	{"invalid memory address or nil pointer", "nil-deref"},
	{"hash of unhashable", "unhashable"},
	{"unhashable", "unhashable"},
	{"assignment to entry in nil map", "nil-map"},
	{"makeslice", "makeslice"},
	{"makechan", "makechan"},
	{"integer divide by zero", "int-divide-by-zero"},
	{"negative shift amount", "negative-shift"},
	{"reflect:", "reflect"},
	{"invalid number base", "library-panic"}, // math/big refusing a radix slip handed on unchecked
	{"negative Repeat count", "library-panic"},
	{"Repeat output length overflow", "library-panic"},
	{"runtime error:", "runtime-other"},
}

// classifier is the oracle: it decides whether an observation is a fault and
// names the fault class. The real one uses realRules; the self-test swaps in
// mutated rule tables / flags.
type classifier struct {
	rules          []faultRule
	needCatchAll   bool // a *slip.Panic is a fault only if it came through the catch-all
	rawIsFault     bool // a raw (non-condition) panic value is a fault
	checkHierarchy bool // a condition whose hierarchy lacks `condition` is a fault
}

var realClassifier = classifier{rules: realRules, needCatchAll: true, rawIsFault: true, checkHierarchy: true}

func (c *classifier) faultOfMessage(msg string) string {
	for _, r := range c.rules {
		if strings.Contains(msg, r.mark) {
			return r.class
		}
	}
	return ""
}

// classify returns "" when the observation is acceptable (a value, a partial
// read, or a genuine Lisp condition), else the fault class.
// throwsAnything: functions DOCUMENTED to raise whatever object they are given
// (so the class of what arrives is the caller's choice, not a fault).
var throwsAnything = map[string]bool{"gi:panic": true}

func (c *classifier) classify(o *obs) string {
	switch o.kind {
	case "value", "partial":
		return ""
	case "raw":
		if fc := c.faultOfMessage(o.msg); fc != "" {
			return fc
		}
		if c.rawIsFault {
			return "raw-go-panic"
		}
		return ""
	case "condition":
		if !c.needCatchAll || o.catchAll {
			if fc := c.faultOfMessage(o.msg); fc != "" {
				return fc
			}
		}
		if c.checkHierarchy && !o.anyClass {
			ok := false
			for _, h := range o.hier {
				if h == "condition" {
					ok = true
				}
			}
			if !ok {
				return "not-a-condition-class"
			}
		}
	}
	return ""
}

// observe runs fn and records what happened. Nothing escapes.
func observe(fn func() slip.Object) (o *obs) {
	o = &obs{}
	defer func() {
		rec := recover()
		if rec == nil {
			return
		}
		o.val = nil
		switch tr := rec.(type) {
		case *slip.Panic:
			o.kind = "condition"
			o.catchAll = tr.Value != nil
		case *slip.PartialPanic:
			o.kind = "partial"
		case slip.Instance:
			o.kind = "condition"
		default:
			o.kind = "raw"
			o.rawType = fmt.Sprintf("%T", rec)
		}
		e := lisp.ErrFromRecovered(rec)
		o.class, o.hier, o.msg = e.Class, e.Hier, e.Message
		if o.kind == "raw" || o.catchAll {
			o.site = faultSite(string(debug.Stack()))
		}
	}()
	o.val = fn()
	o.kind = "value"
	return
}

// faultSite extracts, from a stack captured in the outermost recover, the
// function in which the ORIGINAL panic was raised: the first non-runtime frame
// below the deepest panic() frame (re-panics by slip's catch-all stack on top).
func faultSite(stack string) string {
	lines := strings.Split(stack, "\n")
	last := -1
	for i, l := range lines {
		if strings.HasPrefix(l, "panic(") {
			last = i
		}
	}
	if last < 0 {
		return "?"
	}
	std := ""
	for i := last + 2; i < len(lines); i += 2 {
		fn := lines[i]
		if p := strings.LastIndexByte(fn, '('); 0 < p {
			fn = fn[:p]
		}
		if strings.HasPrefix(fn, "runtime.") || strings.HasPrefix(fn, "runtime/") {
			continue
		}
		if strings.HasPrefix(fn, "github.com/ohler55/slip") {
			fn = strings.TrimPrefix(fn, "github.com/ohler55/slip")
			fn = strings.TrimPrefix(fn, "/pkg/")
			fn = strings.TrimPrefix(fn, "/")
			if strings.HasPrefix(fn, ".") {
				fn = "slip" + fn
			}
			fn = genericRe.ReplaceAllString(fn, "")
			if std != "" {
				return fn + "<-" + std
			}
			return fn
		}
		if strings.HasPrefix(fn, "verif/") {
			return strings.TrimPrefix(fn, "verif/")
		}
		if std == "" {
			// a panic raised inside another library (strings.Repeat, math/big ...): keep it, go on to the slip caller
			std = fn
			if j := strings.LastIndexByte(std, '/'); 0 <= j {
				std = std[j+1:]
			}
			std = genericRe.ReplaceAllString(std, "")
		}
	}
	if std != "" {
		return std
	}
	return "?"
}

var genericRe = regexp.MustCompile(`\[\.\.\.\]|\.func\d+(\.\d+)*`)

var (
	nameRe = regexp.MustCompile(`c09[sfpv]\d+`)
	hexRe  = regexp.MustCompile(`\b(0x)?[0-9a-f]{8,16}\b`)
)

// digest normalises a text for Outcome strings (no per-process names, no addresses).
func digest(s string, n int) string {
	s = nameRe.ReplaceAllString(s, "c09")
	s = hexRe.ReplaceAllString(s, "H")
	if n < len(s) {
		s = s[:n]
	}
	return s
}

func (o *obs) outcome() string {
	switch o.kind {
	case "value":
		return "v:" + digest(showCapped(o.val), 80)
	case "partial":
		return "partial"
	case "raw":
		return "raw:" + o.rawType + ":" + digest(o.msg, 80)
	}
	ca := ""
	if o.catchAll {
		ca = "!"
	}
	return "c" + ca + ":" + o.class + ":" + digest(o.msg, 80)
}

func (o *obs) describe() string {
	switch o.kind {
	case "value":
		return "value " + digest(showCapped(o.val), 200)
	case "partial":
		return "partial read: " + o.msg
	case "raw":
		return fmt.Sprintf("raw Go panic %s: %s (raised in %s)", o.rawType, o.msg, o.site)
	}
	if o.catchAll {
		return fmt.Sprintf("condition %s manufactured by the catch-all: %q (raised in %s)", o.class, o.msg, o.site)
	}
	return fmt.Sprintf("condition %s: %q", o.class, o.msg)
}

// showCapped renders a value but refuses to walk huge structures.
func showCapped(v slip.Object) string {
	switch tv := v.(type) {
	case slip.List:
		if 64 < len(tv) {
			return fmt.Sprintf("#<list of %d>", len(tv))
		}
	case slip.String:
		if 200 < len(tv) {
			return fmt.Sprintf("#<string of %d>", len(tv))
		}
	case slip.Octets:
		if 64 < len(tv) {
			return fmt.Sprintf("#<octets of %d>", len(tv))
		}
	case *slip.Bignum, *slip.Ratio, *slip.LongFloat:
		s := lisp.Show(v)
		if 80 < len(s) {
			return fmt.Sprintf("#<number of %d digits>", len(s))
		}
		return s
	case *slip.Array:
		return fmt.Sprintf("#<array %v>", tv.Dimensions())
	}
	var s string
	func() {
		defer func() {
			if rec := recover(); rec != nil {
				s = fmt.Sprintf("#<unshowable %T>", v)
			}
		}()
		s = lisp.Show(v)
	}()
	return s
}
