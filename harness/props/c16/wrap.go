//go:build verif

package c16

import (
	"fmt"
	"sort"
	"strings"

	"github.com/ohler55/slip"

	"verif/engine"
	"verif/lisp"
)

// The wrap family (round 8).
//
// The relation universe holds a hand-picked list of containers. A container-walking routine (equal, equalp, sxhash)
// treats its elements by their POSITION relative to other elements (a copy made from the first element that needs
// it, a fast path for the common kinds), so whether two representations of one number are treated alike INSIDE a
// container is not settled by treating them alike at top level or in a one-element list. This family puts every
// two keys of one class of the pair alphabet (pairs.go: each numeric class of slip's eql in every representation that
// can hold the value - fixnum, bignum-held, ratio, single, double, long-float, complex; -0.0; infinities; NaN; case-
// differing characters / strings / symbols) into every container shape below, one key per container, and applies
// the pair laws (checkPair: boolean answers, symmetry, eq => eql => equal => equalp, equal => same sxhash) to the two
// containers. Exhaustive: shapes x unordered pairs (k1 <= k2, k1 = k2 included: two separately built containers).

type wrapShape struct {
	name, src string // X = the element
}

var wrapShapes = []wrapShape{
	{"list-1", "(list X)"},
	{"list-after-symbol", "(list 'a X)"},
	{"list-before-symbol", "(list X 'a)"},
	{"list-between-symbol-and-string", "(list 'a X \"s\" 1)"},
	{"list-after-fixnum", "(list 1 X)"},
	{"list-after-double", "(list 1.5d0 X)"},
	{"list-before-ratio", "(list X 1/3)"},
	{"list-before-nested", "(list X (list 'b))"},
	{"list-twice", "(list X X)"},
	{"dotted", "(cons 'a X)"},
	{"vector-1", "(vector X)"},
	{"vector-after-symbol", "(vector 'a X)"},
	{"vector-before-fixnum", "(vector X 1)"},
	{"nested-list", "(list (list 'b X) 2)"},
	{"nested-vector", "(list (vector X) 'c)"},
	{"deep", "(list 'a (list 'b (list X)))"},
}

var wrapShapeByName = func() map[string]*wrapShape {
	m := map[string]*wrapShape{}
	for i := range wrapShapes {
		m[wrapShapes[i].name] = &wrapShapes[i]
	}
	return m
}()

func enumerateWrap(tier string, emit func(string)) {
	for _, sh := range wrapShapes {
		for _, g := range pairGroups {
			for i, k1 := range g.keys {
				for _, k2 := range g.keys[i:] {
					emit("w|" + sh.name + "|" + k1 + "|" + k2)
				}
			}
		}
	}
}

func wrapCaseCount() (n int) {
	enumerateWrap("", func(string) { n++ })
	return
}

func execWrap(parts []string) (res engine.Result) {
	if len(parts) != 4 || wrapShapeByName[parts[1]] == nil || elemByName[parts[2]] == nil || elemByName[parts[3]] == nil {
		res.Fail("harness:bad-spec", strings.Join(parts, "|"))
		return
	}
	prep()
	sh := wrapShapeByName[parts[1]]
	sys := &realRel{objs: map[string]slip.Object{}, errs: map[string]*lisp.Err{}}
	var srcs, fines [2]string
	for i, k := range parts[2:4] {
		e := elemByName[k]
		el, err := e.build()
		if err != nil {
			res.Fail("harness:cannot-build-element", k+": "+err.String())
			return
		}
		fines[i] = fineKind(el)
		srcs[i] = strings.ReplaceAll(sh.src, "X", e.src)
		o, err := lisp.Eval(srcs[i])
		if err != nil {
			res.Fail("harness:cannot-build-element", srcs[i]+": "+err.String())
			return
		}
		sys.objs[[]string{"x", "y"}[i]] = o
	}
	v := checkPair(sys, "x", "y", srcs[0], srcs[1])
	fs := []string{fines[0], fines[1]}
	sort.Strings(fs)
	for i := range v.fails {
		v.fails[i].Sig = fmt.Sprintf("wrap shape=%s elements=%s :: %s", sh.name, strings.Join(fs, ","), v.fails[i].Sig)
	}
	v.into(&res)
	res.Hit("wrap-case")
	for _, h := range v.hits {
		if h == "sxhash-on-equal-distinct-objects" && fines[0] != fines[1] {
			res.Hit("wrap-equal-containers-of-different-representations")
		}
	}
	return
}
