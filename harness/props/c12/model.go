package c12

import (
	"fmt"
	"strconv"
	"strings"
)

// ---------------------------------------------------------------- observation protocol

// world is what the observation protocol drives: the real slip (real.go) or a
// simulated implementation (sim.go, used by the oracle-sensitivity self-test).
type world interface {
	defclass(i int, d classDef) string              // "" or "ERR:<class>"
	defmethods(i int) string                        // generic function g: one :before and one primary per class
	precedence(i int) string                        // "c2 c0 standard-object t" | "nil" | "ERR:<class>"
	make(i int, sigma []string) (h int, res string) // instance handle, "ok" | "ERR:<class>"
	evaluated() string                              // labels of the default-initarg forms the last make evaluated, in order, "," separated
	slots(h int) []string                           // per slotNames: "none" | "unb" | "v:<value>" | "ERR:<class>"
	slotValue(h int, slot string) string            // (slot-value inst 'slot): "v:<value>" | "ERR:<class>"
	typeps(h int, n int) string                     // "c0=t c1=nil so=t"
	classOf(h int, i int) string                    // "eq=t name=c2"
	dispatch(h int) string                          // "val=c2 trace=c2,c0"
	accessor(hx, hy int, slot string) string        // see judgeAccessor
	warm(i int)                                     // make an instance and call g on it (fills dispatch caches)
	close()

	// extended probes (case flag x), see ext.go
	setExt()
	initTrace(h int) string
	slotops(hx, hy int, slot string) string
	subtypeps(i, n int) string
	share(hx, hy int, others []int, slot string, cls int) string
	changeClass(h, j, n int) string // "res=ok;after=<slots>;cof=..;typep=..;disp=.." | "res=ERR.."
	makeLogged(i int, sigma []string) (h int, res string)
	oldInst(i int) (h int, ok bool)
	precOf(h int) string
	flushDispatch()
}

type obsMap map[string]string

func cname(i int) string { return "c" + strconv.Itoa(i) }

// observeFinal collects every observation of the end state.
func observeFinal(w world, defs []classDef, ext bool) obsMap {
	o := obsMap{}
	n := len(defs)
	for i := 0; i < n; i++ {
		o[fmt.Sprintf("P|%d", i)] = w.precedence(i)
	}
	for i := 0; i < n; i++ {
		for _, sigma := range subsets(validArgs(defs, i)) {
			st := sigmaText(sigma)
			h, res := w.make(i, sigma)
			o[fmt.Sprintf("M|%d|%s", i, st)] = res
			if res != "ok" {
				continue
			}
			if usesDefaults(defs) {
				o[fmt.Sprintf("E|%d|%s", i, st)] = "ev=" + w.evaluated()
			}
			states := w.slots(h)
			for k, sl := range slotNames {
				o[fmt.Sprintf("S|%d|%s|%s", i, st, sl)] = states[k]
			}
			if len(sigma) == 0 {
				for k, sl := range slotNames {
					if states[k] == "unb" {
						o[fmt.Sprintf("U|%d|%s", i, sl)] = w.slotValue(h, sl)
					}
				}
				o[fmt.Sprintf("T|%d", i)] = w.typeps(h, n)
				o[fmt.Sprintf("C|%d", i)] = w.classOf(h, i)
				o[fmt.Sprintf("D|%d", i)] = w.dispatch(h)
			}
		}
		as := accSigma(defs, i)
		var hx, hy int
		made := false
		for _, sl := range slotNames {
			if !slotExists(defs, i, sl) {
				continue
			}
			if !made {
				var r1, r2 string
				hx, r1 = w.make(i, as)
				hy, r2 = w.make(i, as)
				if r1 != "ok" || r2 != "ok" {
					break // already reported through M
				}
				made = true
			}
			o[fmt.Sprintf("A|%d|%s", i, sl)] = w.accessor(hx, hy, sl)
		}
	}
	if ext {
		observeExt(w, defs, o)
	}
	return o
}

func slotExists(defs []classDef, i int, slot string) bool {
	anc, _ := ancestors(defs, nil, i)
	anc[i] = true
	for x := range anc {
		if _, ok := defs[x].slot(x, slot); ok {
			return true
		}
	}
	return false
}

// ---------------------------------------------------------------- the oracle (from the statement)

type finding struct {
	key    string
	cls    int
	aspect string
	kind   string
	extra  string // further signature fields
	obs    string // dispatch: the observation
	got    string // slot-init: class of the observed state
	shared bool   // slot-init: the wanted value comes from an initarg that names two slots
	short  string // a complete trigger-based signature (replaces aspect/kind/... and carries no order class)
	detail string
}

// parsePrec splits an observed precedence list; ok is false for nil / errors.
func parsePrec(obs string) ([]string, bool) {
	if obs == "" || obs == "nil" || strings.HasPrefix(obs, "ERR") {
		return nil, false
	}
	return strings.Fields(obs), true
}

// checkPrec applies exactly the constraints of the statement: the class first;
// its direct superclasses in the order written and before the indirect ones;
// every ancestor exactly once and nothing else; standard-object and t last.
func checkPrec(defs []classDef, i int, obs string) string {
	tok, ok := parsePrec(obs)
	if !ok {
		return "not-ready"
	}
	if len(tok) < 3 {
		return "too-short"
	}
	if tok[0] != cname(i) {
		return "first-not-class"
	}
	if tok[len(tok)-1] != "t" || tok[len(tok)-2] != "standard-object" {
		return "tail"
	}
	mid := tok[1 : len(tok)-2]
	anc, _ := ancestors(defs, nil, i)
	pos := map[int]int{}
	for p, t := range mid {
		if !strings.HasPrefix(t, "c") {
			return "extra-class"
		}
		j, err := strconv.Atoi(t[1:])
		if err != nil || !anc[j] {
			return "extra-class"
		}
		if _, dup := pos[j]; dup {
			return "duplicate"
		}
		pos[j] = p
	}
	for a := range anc {
		if _, has := pos[a]; !has {
			return "missing-ancestor"
		}
	}
	direct := map[int]bool{}
	last := -1
	for _, d := range defs[i].supers {
		if direct[d] {
			continue
		}
		direct[d] = true
		if pos[d] < last {
			return "direct-order"
		}
		last = pos[d]
	}
	for a := range anc {
		if !direct[a] && pos[a] < last {
			return "direct-after-indirect"
		}
	}
	return ""
}

// orderFor: the precedence order used for "most specific" and for which slots
// exist: the OBSERVED list whenever it can be read (S3: a wrong precedence
// list is reported once, as such), else the canonical reading.
func orderFor(defs []classDef, i int, obs string) []int {
	if tok, ok := parsePrec(obs); ok {
		var out []int
		good := true
		for _, t := range tok {
			if t == "standard-object" || t == "t" {
				continue
			}
			j, err := strconv.Atoi(strings.TrimPrefix(t, "c"))
			if err != nil || !strings.HasPrefix(t, "c") || j < 0 || len(defs) <= j {
				good = false
				break
			}
			out = append(out, j)
		}
		if good && 0 < len(out) {
			return out
		}
	}
	return canonPrec(defs, i)
}

type slotWant struct {
	exists  bool
	alts    []string // acceptable states
	src     string   // initarg | initarg-multi | default | default-multi | initform | unbound | none
	keys    []string // supplied matching initargs
	shared  bool     // the most specific declaration says :allocation :class
	labels  []string // default: trace labels of the default forms whose value may be used
	defFrom string   // default: own | inherited (where the winning default is written, seen from the class)
}

// defaultLabel is what the default form of initarg a in class x logs when it is evaluated.
func defaultLabel(x int, a string) string { return fmt.Sprintf("d%d%s", x, a) }

func expectSlot(defs []classDef, order []int, slot string, sigma []string) slotWant {
	w := slotWant{}
	declared := map[string]bool{}
	for _, x := range order {
		if sd, ok := defs[x].slot(x, slot); ok {
			w.exists = true
			for _, a := range sd.initargs {
				declared[a] = true
			}
		}
	}
	if !w.exists {
		w.alts = []string{"none"}
		w.src = "none"
		return w
	}
	for _, x := range order {
		if sd, ok := defs[x].slot(x, slot); ok {
			w.shared = sd.shared // the most specific declaration decides the allocation
			break
		}
	}
	for _, a := range sigma {
		if declared[a] {
			w.keys = append(w.keys, a)
			w.alts = append(w.alts, "v:"+strconv.Itoa(argValue[a]))
		}
	}
	switch {
	case len(w.keys) == 1:
		w.src = "initarg"
		return w
	case 1 < len(w.keys):
		w.src = "initarg-multi"
		return w
	}
	// :default-initargs: for every initarg of the slot the default of the most specific class that gives one
	for _, a := range argOrder {
		if !declared[a] {
			continue
		}
		for k, x := range order {
			if v, has := defs[x].defaults(x)[a]; has {
				w.alts = append(w.alts, "v:"+strconv.Itoa(v))
				w.labels = append(w.labels, defaultLabel(x, a))
				if k == 0 {
					w.defFrom = "own"
				} else if w.defFrom == "" {
					w.defFrom = "inherited"
				}
				break
			}
		}
	}
	switch {
	case len(w.alts) == 1:
		w.src = "default"
		return w
	case 1 < len(w.alts):
		w.src = "default-multi"
		return w
	}
	for _, x := range order {
		if sd, ok := defs[x].slot(x, slot); ok && sd.form != 0 {
			w.src = "initform"
			if sd.form == 2 {
				w.alts = []string{"v:nil"}
			} else {
				w.alts = []string{"v:" + strconv.Itoa(sd.val)}
			}
			return w
		}
	}
	w.src = "unbound"
	w.alts = []string{"unb"}
	return w
}

// classAlloc: some declaration of the slot along the precedence order says :allocation :class.
func classAlloc(defs []classDef, order []int, slot string) bool {
	for _, x := range order {
		if sd, ok := defs[x].slot(x, slot); ok && sd.shared {
			return true
		}
	}
	return false
}

// classSlotSig: findings about a slot with a class-allocated declaration anywhere in the precedence list get one family of
// short signatures (what fails, the effective allocation, where the slot is declared), without redefinition and order classes.
func classSlotSig(defs []classDef, order []int, i int, slot, what string) string {
	return fmt.Sprintf("aspect=class-slot kind=%s effective-allocation=%s", what, allocText(expectSlot(defs, order, slot, nil).shared))
}

func inList(s string, l []string) bool {
	for _, x := range l {
		if x == s {
			return true
		}
	}
	return false
}

func isErr(s string) bool     { return strings.HasPrefix(s, "ERR") }
func isGoFault(s string) bool { return strings.HasSuffix(s, ":gofault") }

func declRel(defs []classDef, i int, slot string) string {
	_, own := defs[i].slot(i, slot)
	anc, _ := ancestors(defs, nil, i)
	inh := 0
	for a := range anc {
		if _, ok := defs[a].slot(a, slot); ok {
			inh++
		}
	}
	switch {
	case own && inh == 0:
		return "own"
	case !own && inh == 1:
		return "inherited"
	case !own && inh == 0:
		return "none"
	}
	return "shadowed"
}

func gotClass(state string) string {
	switch {
	case state == "unb":
		return "unbound"
	case state == "none":
		return "no-slot"
	case isGoFault(state):
		return "go-fault"
	case isErr(state):
		return "error"
	case state == "v:nil":
		return "initform"
	case strings.HasPrefix(state, "v:"):
		n, err := strconv.Atoi(state[2:])
		if err != nil {
			return "other"
		}
		for _, v := range argValue {
			if v == n {
				return "initarg"
			}
		}
		if 900 <= n {
			return "written"
		}
		if 300 <= n && n < 400 {
			return "default-initarg"
		}
		return "initform"
	}
	return "other"
}

func nilFormRel(defs []classDef, order []int) string {
	for k, x := range order {
		if sd, ok := defs[x].slot(x, "s"); ok && sd.form != 0 {
			if sd.form == 2 {
				if k == 0 {
					return "own"
				}
				return "inherited"
			}
			break
		}
	}
	for _, x := range order {
		if sd, ok := defs[x].slot(x, "s"); ok && sd.form == 2 {
			return "shadowed"
		}
	}
	return "none"
}

// judgeFinal applies the oracle to the observations of one end state.
// only: when non-nil restricts the verdict to these classes.
func judgeFinal(defs []classDef, o obsMap, jc judgeCtx) []finding {
	var out []finding
	n := len(defs)
	add := func(key string, cls int, aspect, kind, extra, detail string) {
		out = append(out, finding{key: key, cls: cls, aspect: aspect, kind: kind, extra: extra, detail: detail})
	}
	for i := 0; i < n; i++ {
		pk := fmt.Sprintf("P|%d", i)
		pobs := o[pk]
		if k := checkPrec(defs, i, pobs); k != "" {
			add(pk, i, "precedence", k, "", fmt.Sprintf("class-precedence of %s (direct superclasses %s) = %s; canonical reading %s",
				cname(i), supNames(defs[i].supers), pobs, precText(canonPrec(defs, i))))
			// S3: a class whose precedence list is wrong is reported once, as that; what its
			// instances look like is judged in the orders and cases where the list is right.
			continue
		}
		order := orderFor(defs, i, pobs)
		listed := map[string]bool{}
		var listedClasses []string
		if tok, ok := parsePrec(pobs); ok {
			for _, t := range tok {
				listed[t] = true
				if strings.HasPrefix(t, "c") && t != "condition" {
					listedClasses = append(listedClasses, t)
				}
			}
		} else {
			for _, x := range order {
				listed[cname(x)] = true
				listedClasses = append(listedClasses, cname(x))
			}
			listed["standard-object"] = true
		}
		for _, sigma := range subsets(validArgs(defs, i)) {
			st := sigmaText(sigma)
			mk := fmt.Sprintf("M|%d|%s", i, st)
			mres := o[mk]
			multi := false
			wants := map[string]slotWant{}
			for _, sl := range slotNames {
				w := expectSlot(defs, order, sl, sigma)
				wants[sl] = w
				if w.src == "initarg-multi" || w.src == "default-multi" {
					multi = true
				}
			}
			if mres != "ok" {
				if multi && isErr(mres) && !isGoFault(mres) {
					continue // two supplied initargs name one slot: an error is acceptable (statement silent)
				}
				kind := "error"
				if isGoFault(mres) {
					kind = "go-fault"
				}
				add(mk, i, "make-instance", kind, "nil-initform="+nilFormRel(defs, order),
					fmt.Sprintf("(make-instance '%s%s) => %s", cname(i), sigmaArgs(sigma), mres))
				continue
			}
			evs := map[string]bool{}
			ek := fmt.Sprintf("E|%d|%s", i, st)
			if eobs, has := o[ek]; has {
				for _, l := range strings.Split(strings.TrimPrefix(eobs, "ev="), ",") {
					evs[l] = true
				}
			}
			for _, sl := range slotNames {
				sk := fmt.Sprintf("S|%d|%s|%s", i, st, sl)
				got := o[sk]
				w := wants[sl]
				if w.shared && got != "none" && !isErr(got) {
					continue // a class slot: which value it holds after make-instance is judged by the sharing probe (ext.go)
				}
				if inList(got, w.alts) {
					if w.src == "default" && !evs[w.labels[0]] {
						add(ek, i, "default-initargs", "value-without-evaluation-at-make-instance", "",
							fmt.Sprintf("(make-instance '%s%s): slot %s holds the value of the default form %s but that form was not evaluated during this call (evaluated: %s)",
								cname(i), sigmaArgs(sigma), sl, w.labels[0], o[ek]))
					}
					continue
				}
				shared := 0
				for _, k := range w.keys {
					if s := len(argSlots(defs, i, k)); shared < s {
						shared = s
					}
				}
				extra := fmt.Sprintf("want=%s got=%s decl=%s", w.src, gotClass(got), declRel(defs, i, sl))
				if 0 < shared {
					extra += fmt.Sprintf(" initarg-names-slots=%d", shared)
				}
				if w.defFrom != "" {
					extra += " default-written-in=" + w.defFrom
				}
				if w.shared {
					extra += " allocation=class"
				}
				add(sk, i, "slot-init", "wrong-state", extra,
					fmt.Sprintf("(make-instance '%s%s): slot %s is %s, expected %s (%s; precedence %s)", cname(i), sigmaArgs(sigma), sl, got,
						strings.Join(w.alts, " or "), w.src, precText(order)))
				out[len(out)-1].got = gotClass(got)
				out[len(out)-1].shared = w.src == "initarg" && shared == 2 && (gotClass(got) == "unbound" || gotClass(got) == "initform")
				if classAlloc(defs, order, sl) {
					out[len(out)-1].short = classSlotSig(defs, order, i, sl, fmt.Sprintf("state-after-make-instance want=%s got=%s", w.src, gotClass(got)))
				}
				if strings.HasPrefix(w.src, "default") && gotClass(got) == "default-initarg" {
					// the default initarg of another class than the most specific one was used
					out[len(out)-1].short = "aspect=slot-init kind=default-initarg-of-less-specific-class-used most-specific-default-written-in=" + w.defFrom
				}
				if strings.HasPrefix(w.src, "default") && w.defFrom == "inherited" {
					// trigger: the class inherits a default initarg; the slot is in the state it would have if only the
					// class' OWN :default-initargs counted
					own := append([]classDef(nil), defs...)
					for x := range own {
						if x != i {
							own[x].dopt = ""
						}
					}
					if inList(got, expectSlot(own, order, sl, sigma).alts) {
						out[len(out)-1].short = "aspect=slot-init kind=inherited-default-initarg-not-applied got=" + gotClass(got)
					}
				}
			}
			if len(sigma) != 0 {
				continue
			}
			for _, sl := range slotNames {
				uk := fmt.Sprintf("U|%d|%s", i, sl)
				if got, has := o[uk]; has && (!isErr(got) || isGoFault(got)) {
					add(uk, i, "slot-unbound", "slot-value-of-unbound-returns", "got="+gotClass(got),
						fmt.Sprintf("slot %s of a fresh %s is unbound by slot-boundp but (slot-value) => %s", sl, cname(i), got))
				}
			}
			// typep against the observed precedence list
			tk := fmt.Sprintf("T|%d", i)
			if tobs, has := o[tk]; has {
				if isErr(tobs) {
					add(tk, i, "typep", "error", "", fmt.Sprintf("typep on an instance of %s => %s", cname(i), tobs))
				} else {
					anc, _ := ancestors(defs, nil, i)
					for _, f := range strings.Fields(tobs) {
						kv := strings.SplitN(f, "=", 2)
						name := kv[0]
						full := name
						if name == "so" {
							full = "standard-object"
						}
						want := "nil"
						if listed[full] {
							want = "t"
						}
						if kv[1] == want {
							continue
						}
						rel := "standard-object"
						if name != "so" {
							j, _ := strconv.Atoi(name[1:])
							rel = relTo(defs, i, j, anc)
						}
						kind := "false-for-listed-class"
						if want == "nil" {
							kind = "true-for-unlisted-class"
						}
						add(tk, i, "typep", kind, "target="+rel,
							fmt.Sprintf("(typep <%s> '%s) => %s but class-precedence of %s = %s", cname(i), full, kv[1], cname(i), pobs))
					}
				}
			}
			ck := fmt.Sprintf("C|%d", i)
			if cobs, has := o[ck]; has && cobs != "eq=t name="+cname(i) {
				kind := "wrong-class"
				if isErr(cobs) {
					kind = "error"
				}
				add(ck, i, "class-of", kind, "", fmt.Sprintf("class-of an instance of %s: %s", cname(i), cobs))
			}
			dk := fmt.Sprintf("D|%d", i)
			if dobs, has := o[dk]; has {
				want := expectedDispatch(listedClasses, jc.ext)
				if dobs != want {
					add(dk, i, "dispatch", dispatchKind(dobs, want), "",
						fmt.Sprintf("generic call on an instance of %s: %s; the precedence list %s requires %s", cname(i), dobs, pobs, want))
					out[len(out)-1].obs = dobs
				}
			}
		}
		for _, sl := range slotNames {
			ak := fmt.Sprintf("A|%d|%s", i, sl)
			if aobs, has := o[ak]; has && expectSlot(defs, order, sl, nil).exists {
				if kind, detail := judgeAccessor(aobs, sl, expectSlot(defs, order, sl, nil).shared); kind != "" {
					add(ak, i, "accessor", kind, "slot-decl="+declRel(defs, i, sl),
						fmt.Sprintf("reader/accessor/writer of slot %s on an instance of %s: %s (%s)", sl, cname(i), detail, aobs))
					if classAlloc(defs, order, sl) {
						out[len(out)-1].short = classSlotSig(defs, order, i, sl, "accessor-"+kind)
					}
				}
			}
		}
		if jc.ext {
			// the extended probes have signatures of their own: aspect, kind, qualifiers (and the kind of redefinition for the
			// instances made before it); no order class
			judgeExt(defs, o, i, order, pobs, listedClasses, jc, func(key string, cls int, aspect, kind, extra, detail string) {
				add(key, cls, aspect, kind, extra, detail)
				sig := "aspect=" + aspect + " kind=" + kind
				if extra != "" {
					sig += " " + extra
				}
				if aspect == "old-instance" {
					sig += " redef=" + jc.redefKind
				}
				out[len(out)-1].short = sig
			})
		}
	}
	return out
}

func relTo(defs []classDef, i, j int, anc map[int]bool) string {
	if i == j {
		return "self"
	}
	for _, d := range defs[i].supers {
		if d == j {
			return "direct-super"
		}
	}
	if anc[j] {
		return "indirect-super"
	}
	ja, _ := ancestors(defs, nil, j)
	if ja[i] {
		return "subclass"
	}
	return "unrelated"
}

func dispatchKind(obs, wantObs string) string {
	if isGoFault(obs) {
		return "go-fault"
	}
	if isErr(obs) {
		return "error"
	}
	f := strings.Fields(obs)
	if len(f) != 2 || !strings.HasPrefix(f[0], "val=") || !strings.HasPrefix(f[1], "trace=") {
		return "malformed"
	}
	split := func(o string) []string {
		if k := strings.Index(o, "trace="); 0 <= k && o[k+6:] != "" {
			return strings.Split(o[k+6:], ",")
		}
		return nil
	}
	got, want := split(obs), split(wantObs)
	if sameSet(got, want) {
		if strings.Join(got, ",") != strings.Join(want, ",") {
			// which group of methods is out of order (tokens without a prefix are :before methods)
			group := func(l []string, p string) string {
				var out []string
				for _, t := range l {
					if strings.HasPrefix(t, p) {
						out = append(out, t)
					}
				}
				return strings.Join(out, ",")
			}
			for _, g := range []struct{ p, name string }{{"r-", "around"}, {"a-", "after"}} {
				if group(got, g.p) != group(want, g.p) {
					return g.name + "-methods-order"
				}
			}
			return "before-methods-order"
		}
		return "primary-not-most-specific"
	}
	for _, g := range got {
		if !inList(g, want) {
			return "method-of-unlisted-class-applied"
		}
	}
	return "method-of-listed-class-not-applied"
}

// judgeAccessor checks "readers, writers and accessors act on that slot only"
// relative to the OBSERVED start state (S3).
// format: x0=<s>,<u>;y0=..;read=<r>,<a>|unb;x1=..;y1=..;x2=..;y2=..   or ERR:...
func judgeAccessor(obs, slot string, shared bool) (kind, detail string) {
	if isGoFault(obs) {
		return "go-fault", obs
	}
	if isErr(obs) {
		return "error", obs
	}
	f := map[string][]string{}
	for _, part := range strings.Split(obs, ";") {
		kv := strings.SplitN(part, "=", 2)
		if len(kv) != 2 {
			return "malformed", obs
		}
		f[kv[0]] = strings.Split(kv[1], ",")
	}
	idx := 0
	for k, n := range slotNames {
		if n == slot {
			idx = k
		}
	}
	for _, k := range []string{"x0", "y0", "x1", "y1", "x2", "y2"} {
		if len(f[k]) != len(slotNames) {
			return "malformed", obs
		}
	}
	x0 := f["x0"]
	if strings.HasPrefix(x0[idx], "v:") {
		r := f["read"]
		if len(r) != 2 {
			return "malformed", obs
		}
		if "v:"+r[0] != x0[idx] {
			return "reader-wrong-value", fmt.Sprintf("reader returned %s, slot holds %s", r[0], x0[idx])
		}
		if "v:"+r[1] != x0[idx] {
			return "accessor-wrong-value", fmt.Sprintf("accessor returned %s, slot holds %s", r[1], x0[idx])
		}
	}
	eq := func(a, b []string) bool { return strings.Join(a, ",") == strings.Join(b, ",") }
	step := func(name string, before, after, other0, other1 []string, val string) (string, string) {
		want := append([]string(nil), before...)
		want[idx] = "v:" + val
		if after[idx] != want[idx] {
			return name + "-did-not-write-slot", fmt.Sprintf("slot %s is %s after writing %s", slot, after[idx], val)
		}
		if !eq(after, want) {
			return name + "-changed-other-slot", fmt.Sprintf("slots %v -> %v after writing only %s", before, after, slot)
		}
		if !shared && !eq(other0, other1) { // a class slot is judged by the sharing probe
			return name + "-changed-other-instance", fmt.Sprintf("another instance went %v -> %v", other0, other1)
		}
		return "", ""
	}
	if k, d := step("setf-accessor", x0, f["x1"], f["y0"], f["y1"], "901"); k != "" {
		return k, d
	}
	if k, d := step("writer", f["x1"], f["x2"], f["y1"], f["y2"], "902"); k != "" {
		return k, d
	}
	return "", ""
}

func supNames(s []int) string {
	var out []string
	for _, x := range s {
		out = append(out, cname(x))
	}
	return "(" + strings.Join(out, " ") + ")"
}

func precText(p []int) string {
	var out []string
	for _, x := range p {
		out = append(out, cname(x))
	}
	return strings.Join(out, " ")
}

func sigmaArgs(sigma []string) string {
	var b strings.Builder
	for _, a := range sigma {
		fmt.Fprintf(&b, " :%s %d", a, argValue[a])
	}
	return b.String()
}

// redefKind names what the redefinition changes.
func redefKind(old, nw classDef) string {
	if old.String() == nw.String() && !nw.bump {
		return "unchanged"
	}
	if supText(old.supers) == supText(nw.supers) && old.sopt == nw.sopt && old.uopt == nw.uopt && old.dopt != nw.dopt {
		if nw.dopt == "" {
			return "default-initargs-removed"
		}
		return "default-initargs-added"
	}
	if supText(old.supers) != supText(nw.supers) {
		os, ns := map[int]bool{}, map[int]bool{}
		for _, x := range old.supers {
			os[x] = true
		}
		for _, x := range nw.supers {
			ns[x] = true
		}
		added, dropped := false, false
		for x := range ns {
			if !os[x] {
				added = true
			}
		}
		for x := range os {
			if !ns[x] {
				dropped = true
			}
		}
		switch {
		case added:
			return "super-added"
		case dropped:
			return "super-dropped"
		}
		return "supers-reordered"
	}
	has := func(o string) bool { return o != "-" && o != "" }
	removed := (has(old.sopt) && !has(nw.sopt)) || (has(old.uopt) && !has(nw.uopt))
	added := (!has(old.sopt) && has(nw.sopt)) || (!has(old.uopt) && has(nw.uopt))
	switch {
	case removed:
		return "slot-removed"
	case added:
		return "slot-added"
	}
	return "slot-options"
}
