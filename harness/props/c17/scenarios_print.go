//go:build verif

package c17

import (
	"regexp"
	"strings"
)

// Printer state (round 8): two routines print, at the same time, one object of every printed kind through every
// printer entry point. The table is kinds (in four groups, one list holding one object of each kind of the group) x
// entry points; each routine prints its OWN list (same kinds, different values) through the same entry point. Oracle:
// the two texts equal what a sequential execution gives (differential; addresses of unreadable objects masked), no
// error; the race pass runs every schedule with at most one preemption: printing has no synchronisation operation
// inside (only the lookups of the printer variables in the shared scopes before the text is built), so a work buffer
// or table shared by the "private" printers of two routines is visible to the detector only.

type printKinds struct {
	name       string
	setup      string // definitions the values need (fresh names)
	v1, v2     string // forms building the main routine's / the started routine's list
	noReadably bool
}

var printGroups = []printKinds{
	{name: "numbers",
		v1: `(list 42 (expt 2 70) 2/3 1.5s0 1.25d0 1.5l0 -0.001d0 1.0d20)`,
		v2: `(list -17 (expt 3 50) -5/7 2.75s0 3.125d0 2.5l0 123.456d0 6.5s-3)`},
	{name: "text",
		v1: `(list #\a #\Space "a\"b\\c" '|Foo Bar| 'plain :key "")`,
		v2: `(list #\Z #\Newline "q\\r\"s t" '|x Y z| 'other :word "plain text")`},
	{name: "containers",
		v1: `(list '(1 (2 3) . 4) (vector 1 2 3) (make-array '(2 2) :initial-contents '((1 2) (3 4))) nil)`,
		v2: `(list '((5) 6 (7 . 8)) (vector 'a "b" 2.5) (make-array '(2 3) :initial-contents '((5 6 7) (8 9 10))) '(nil))`},
	{name: "objects", noReadably: true,
		setup: `(defflavor @L ((x 1)) () :gettable-instance-variables) (defclass @C () ((a :initform 1))) (defstruct @T (a 0) (b nil))`,
		v1:    `(list #C(1 2) (make-hash-table) (make-instance '@L) (make-instance '@C) (make-@T :a 1 :b "x") (lambda (x) x) (find-package 'cl))`,
		v2:    `(list #C(3 4) (make-hash-table) (make-instance '@L) (make-instance '@C) (make-@T :a 2.5 :b '(y)) (lambda (y z) y) (find-package 'keyword))`},
}

type printEntry struct {
	name     string
	form     string // %V is the value variable
	readably bool
}

var printEntries = []printEntry{
	{name: "prin1-to-string", form: `(prin1-to-string %V)`, readably: true},
	{name: "princ-to-string", form: `(princ-to-string %V)`},
	{name: "format-S", form: `(format nil "~S" %V)`, readably: true},
	{name: "format-A", form: `(format nil "<~A>" %V)`},
	{name: "write-pretty", form: `(write-to-string %V :pretty t :right-margin 30)`},
	{name: "write-base16-radix", form: `(write-to-string %V :base 16 :radix t)`},
	{name: "write-readably", form: `(write-to-string %V :readably t)`, readably: true},
	{name: "write-array-noescape-upcase", form: `(write-to-string %V :array t :escape nil :case :upcase)`},
	{name: "stream-prin1-print", form: `(let ((s (make-string-output-stream))) (prin1 %V s) (print %V s) (get-output-stream-string s))`, readably: true},
	{name: "stream-princ-write", form: `(let ((s (make-string-output-stream))) (princ %V s) (write %V :stream s) (get-output-stream-string s))`},
}

var (
	addrRe  = regexp.MustCompile(`(?i)(#<[a-z0-9-]+ )[0-9a-f]{6,}>|\{[0-9a-f]{6,}\}`)
	freshRe = regexp.MustCompile(`(?i)c17-([a-z])[0-9]+`)
)

// maskAddr hides what differs from one execution to the next by construction: object addresses and the per-execution
// counter in the fresh names.
func maskAddr(s string) string {
	s = freshRe.ReplaceAllString(s, "c17-$1")
	return addrRe.ReplaceAllStringFunc(s, func(m string) string {
		if strings.HasPrefix(m, "{") {
			return "{ADDR}"
		}
		return m[:strings.LastIndex(m, " ")+1] + "ADDR>"
	})
}

func maskedVal(o *obs) string {
	if o.err != nil {
		return "error:" + o.err.Class
	}
	return maskAddr(o.val)
}

func noError(o *obs) []string {
	if o.err != nil {
		return []string{"error: " + o.err.String()}
	}
	if !strings.HasPrefix(o.val, `("`) {
		return []string{"final-value: two texts expected, got " + o.val}
	}
	return nil
}

func printScenarios() (list []*scenario) {
	for _, g := range printGroups {
		for _, e := range printEntries {
			if e.readably && g.noReadably {
				continue // complex numbers, hash tables, instances, structure objects, functions, packages have no readable text in slip: the prin1 family raises print-not-readable for them by contract
			}
			src := `(progn ` + g.setup + `
  (let ((d (make-channel 2)) (v1 ` + g.v1 + `)
        (v2 ` + g.v2 + `) (r1 nil) (r2 nil))
    (run (progn (setq r2 ` + strings.ReplaceAll(e.form, "%V", "v2") + `) (channel-push d t)))
    (setq r1 ` + strings.ReplaceAll(e.form, "%V", "v1") + `)
    (channel-pop d)
    (list r1 r2)))`
			list = append(list, &scenario{name: "p-" + g.name + "-" + e.name, group: "p", src: src,
				quick: 1, thorough: 2, raceThorough: 1, shards: 1, shardsThorough: 2,
				check: noError, canon: maskedVal})
		}
	}
	return
}
