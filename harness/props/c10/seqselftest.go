//go:build verif

package c10

// Oracle-sensitivity self-test (S6): mutated reference models, each encoding
// one realistic dispatch or cache bug. The histories explored by the tier
// (enumerated here in pure Go, shortest first, over the same alphabets and
// with the same probes) must contain one on which the oracle's comparison
// tells the mutant from the real reference.

import (
	"fmt"
	"strings"
)

type refMutant struct {
	name string
	opts refOpts
	in   string // the configuration whose alphabet has the body kind the mutant is about ("" = search all)
}

var refMutants = []refMutant{
	{"cache-not-cleared-by-remove-method", refOpts{staleOnRemove: true}, ""},
	{"cache-not-cleared-by-defmethod-on-a-new-specialiser-tuple", refOpts{staleOnNewKey: true}, ""},
	{"replaced-method-body-still-served-from-cache", refOpts{staleOnReplace: true}, ""},
	{"single-method-fast-path-not-recomputed-by-remove-method", refOpts{staleDefault: true}, ""},
	{"after-methods-most-specific-first", refOpts{aftersForward: true}, ""},
	{"second-argument-decides-specificity-first", refOpts{rightToLeft: true}, ""},
	{"every-second-around-skipped-by-call-next-method", refOpts{aroundSkipSecond: true}, ""},
	{"least-specific-primary-chosen", refOpts{primaryLeast: true}, ""},
	{"around-without-call-next-method-still-runs-the-rest", refOpts{stopRunsInner: true}, ""},
	{"remove-method-no-op-when-the-tuple-was-first-defined-with-an-unspecialised-parameter", refOpts{removeKeepsUnspecialised: true}, ""},
	// round 8: the new body kinds, lambda lists and defgeneric evaluated again
	{"second-call-next-method-of-one-around-skips-the-next-around", refOpts{secondCnmSkips: true}, "k1"},
	{"call-next-method-from-a-primary-or-daemon-below-an-around-runs-the-inner-methods-again", refOpts{primaryCnmReruns: true}, "x1"},
	{"call-next-method-passes-the-original-arguments-not-the-given-ones", refOpts{cnmIgnoresArgs: true}, "k2"},
	{"after-a-nested-call-the-outer-around-skips-the-remaining-arounds", refOpts{nestedClobbersOuter: true}, "g1"},
	{"call-next-method-in-a-nested-call-without-around-continues-the-outer-call", refOpts{cnmLeaksToOuter: true}, "g1"},
	{"optional-key-rest-argument-takes-part-in-dispatch", refOpts{tailDecides: true}, "o1"},
	{"defgeneric-evaluated-again-is-ignored-even-its-method-option", refOpts{regenIgnored: true}, "rg1"},
}

// wouldFlag mirrors checker.check on the level of expectations: would the
// oracle report a failure if slip behaved like `got` where the reference
// demands `want`?
func wouldFlag(want, got expect) bool {
	gotErr := got.kind == exNone || got.kind == exError
	switch want.kind {
	case exStrict:
		return gotErr || !equalStrings(want.trace, got.trace) || want.value != got.value
	case exNone:
		return got.kind != exNone
	case exError:
		return !gotErr || !equalStrings(want.trace, got.trace)
	}
	// lenient: only entries that are not applicable under the current table, or that run more often than the bodies ask for, are flagged
	ok := map[string]bool{}
	for t := range want.mayRun {
		ok[t] = true
	}
	expCount := map[string]int{}
	for _, e := range want.trace {
		if !strings.HasSuffix(e, "-out") && !strings.HasPrefix(e, "(") {
			expCount[baseTag(e)]++
		}
	}
	seen := map[string]int{}
	for _, e := range got.trace {
		if strings.HasSuffix(e, "-out") || strings.HasPrefix(e, "(") {
			continue
		}
		t := baseTag(e)
		seen[t]++
		if !ok[t] || (1 <= expCount[t] && expCount[t] < seen[t]) || (expCount[t] == 0 && 1 < seen[t]) {
			return true
		}
	}
	return false
}

// distinguish searches the histories of cfg of exactly length limit for one
// that tells the mutant from the reference.
func distinguish(cfg *config, mut refOpts, limit int) (hist []string, found bool) {
	ops := cfg.ops()
	var cur []string
	replay := func(h []string, o refOpts) *model {
		md := newModel(cfg, o)
		for _, s := range h {
			po, _ := parseOp(s)
			if po.kind == 'c' {
				md.call(po.spec)
			} else {
				md.apply(po)
			}
		}
		return md
	}
	var search func(limit int) bool
	search = func(limit int) bool {
		var dfs func() bool
		dfs = func() bool {
			if len(cur) == limit {
				// oracle on the last op and the probes, as exec does
				ref := replay(cur[:len(cur)-1], refOpts{})
				m := replay(cur[:len(cur)-1], mut)
				po, _ := parseOp(cur[len(cur)-1])
				if po.kind == 'c' {
					if wouldFlag(ref.call(po.spec), m.call(po.spec)) {
						return true
					}
				} else {
					ref.apply(po)
					m.apply(po)
					if po.kind == 'G' || po.kind == 'M' {
						// the driver compares the implementation's table with the two admissible ones
						if sl := m.t.slots(); !equalStrings(sl, ref.t.slots()) && !equalStrings(sl, ref.regenAlt.slots()) {
							return true
						}
					}
				}
				for _, a := range cfg.calls {
					if wouldFlag(ref.call(a), m.call(a)) {
						return true
					}
				}
				return false
			}
			ref := replay(cur, refOpts{})
			for _, o := range ops {
				po, _ := parseOp(o)
				if po.kind == 'r' && !ref.removable(slotOf(po.variant), po.spec) {
					continue
				}
				cur = append(cur, o)
				if dfs() {
					return true
				}
				cur = cur[:len(cur)-1]
			}
			return false
		}
		return dfs()
	}
	if search(limit) {
		return append([]string(nil), cur...), true
	}
	return nil, false
}

func selftest(tier string) (killed, total int, notes []string) {
	maxLen := histLen(tier)
	if 4 < maxLen {
		maxLen = 4
	}
	for _, mu := range refMutants {
		total++
		done := false
		for limit := 1; limit <= maxLen && !done; limit++ {
			for _, cfg := range tierConfigs(tier) {
				if limit > cfg.maxLen || (mu.in != "" && mu.in != cfg.id) {
					continue
				}
				if h, ok := distinguish(cfg.config, mu.opts, limit); ok {
					killed++
					done = true
					notes = append(notes, fmt.Sprintf("%s: distinguished by history [cfg:%s %s] (+ probes)", mu.name, cfg.id, strings.Join(h, " ")))
					break
				}
			}
		}
		if !done {
			notes = append(notes, fmt.Sprintf("%s: NOT distinguished by any history of length <= %d", mu.name, maxLen))
		}
	}
	return
}
