#!/usr/bin/env python3
# run every C17 quick spec directly with a1/a3 bounded; usage: c17run.py <bound> [filter]
import sys, os, json, subprocess, re
from concurrent.futures import ThreadPoolExecutor
B=int(sys.argv[1]) if len(sys.argv)>1 else 3
flt=sys.argv[2] if len(sys.argv)>2 else ''
env=dict(os.environ, VERIF_REPO='/tmp/fixE-repo', VERIF_BUILD_DIR='/verif/.build/alt_tmp_fixE-repo', VERIF_OUT='/verif/.build/alt_tmp_fixE-repo/out')
BIN='/verif/.build/alt_tmp_fixE-repo/vcheck-C17'
q={'a1-buffered1-close-range':B,'a2-two-producers-cap2':2,'a3-unbuffered-two-producers':B,'a4-two-consumers':2,'a5-unbuffered-close-range-two-consumers':2,'b1-mutex-counter-2':2,'b2-mutex-counter-3':2,'b3-mutex-return-from':2,'b4-mutex-error-inside':2,'a6-two-producers-consumer-thread':1,'a7-buffered-close-range-two-consumers':2,'c1-hash-of-counters':2,'c2-synchronized-instance':2,'c3-synchronized-flavor-instance':2,'d1-concurrent-defvar':2,'d2-concurrent-pretty-print':2,'d3-defmethod-vs-first-call':2,'d4-remove-method-vs-call':2,'d5-before-daemon-vs-call':2,'d6-two-callers-and-defmethod':2,'e1-unsynchronised-counter':2}
specs=[]
for sc,b in q.items():
    for sh in range(16): specs.append('explore|%s|%d|%d|16'%(sc,b,sh))
    for sh in range(4): specs.append('race|%s|%d|%d|4'%(sc,min(1,b),sh))
specs=[s for s in specs if flt in s]
def run(sp):
    try:
        p=subprocess.run([BIN,'exec','C17','--spec',sp],env=env,cwd='/verif',capture_output=True,text=True,timeout=1500)
        d=json.loads(p.stdout)
    except Exception as e:
        return sp,None,'BAD %r'%e,0
    f=d.get('failures') or []
    c=d.get('counters',{})
    return sp,sorted(set(x['sig'] for x in f)),d.get('outcome','')[-200:],c.get('executions',c.get('race-executions',0))
tot=0; bad=0
with ThreadPoolExecutor(8) as ex:
    for sp,sigs,out,n in ex.map(run,specs):
        tot+=n or 0
        if sigs is None or sigs:
            bad+=1
            print(sp,sigs,out)
print('specs',len(specs),'with-failures',bad,'executions',tot)
