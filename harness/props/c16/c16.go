//go:build verif

// Package c16: equality, hashing and type predicates are mutually coherent.
//
// Three exhaustive parts, all executed on the real slip through source text:
//
//	relations  every unordered pair and every ordered triple of a generated universe of objects:
//	           eq => eql => equal => equalp, reflexive, symmetric, transitive, equal => same sxhash
//	tables     explicit-state BFS over histories of (setf gethash)/remhash/clrhash on tables of every :test,
//	           with gethash of every key, hash-table-count and maphash after every step, against a finite map
//	           keyed by the classes of slip's OWN predicate measured on the key objects; three alphabets: every
//	           hashable kind (depth-limited), a few keys to the fixpoint, and the representations of one number
//	           (ratio / long-float / double / single / bignum-held / ratio-held) to the fixpoint
//	pairs      every ORDERED pair of keys of an alphabet that holds every equivalence class of numbers in every
//	           representation: store under one, look up / overwrite / remove under the other (pairs.go)
//	types      every object x every class of the registry: typep of type-of, typep of every supertype,
//	           subtypep reflexive / transitive (all triples) / agreeing with typep, coerce result of the requested type
package c16

import (
	"fmt"
	"strings"

	"verif/engine"
)

func init() {
	engine.Register(&engine.Prop{
		ID:    "C16",
		Level: "model_checking",
		Rule: "static part: every case of the bound (see bound_completed), objects built afresh per case by ReadString+Eval of their source, " +
			"predicates called through source text on variables bound to those objects, answers read by Go type switch. " +
			"A pair case is non-trivial when it is a reflexivity case or two separately built objects are related by some predicate; " +
			"a triple case when p(x,y) and p(y,z) both hold for some predicate p; a type case when the antecedent of its law holds " +
			"(subtypep true / typep true / coerce returned). BFS part: state = operation history replayed on a fresh table, " +
			"key = the contents of the Go map behind the table (keys by identity); oracle of a step computed from the observed " +
			"pre-state; a step is non-trivial when the table is non-empty afterwards or the operation addressed a stored key through an equivalent one. " +
			"Pair family (static cases tp|test|bystanders|history): a fresh table per case, the history replayed with the step oracle of the BFS after EVERY operation " +
			"(gethash of every key of the history and of the bystanders, hash-table-count, maphash); classes measured per step with slip's own predicate on the key objects of the case " +
			"and on every key object the table is seen to hold (a table may keep another object than it was given)",
		Assumptions: []string{
			"the hash-table model is keyed by the equivalence classes of slip's OWN eql (make-hash-table documents that :test is ignored and eql always used) measured on the key objects; a table that honours the requested :test is accepted too",
			"a predicate that signals or faults on a pair is reported under its own signature and takes no part in the laws for that pair",
			"coerce: a Lisp-level error is an accepted outcome; a returned object is accepted when slip's typep or the Common Lisp definition (Go check) puts it in the requested type; nil is accepted as a member of every sequence type (slip's tests pin (coerce nil 'vector) => nil)",
			"type symbols = the classes visible from the user package (find-class); t, list, null, cons, keyword are not classes in slip and take part only through type-of / coerce",
			"Go map iteration order is not controlled; no verdict depends on it (contents are compared as sorted sets)",
			"a NaN (reachable as infinity minus infinity) is eql to itself by slip's eq (same object); it is a key of the pair alphabet and a table that cannot find it again is reported under key=double-float-nan",
			"type universe: classes that cannot be instantiated without the network (watch-*, http-server-flavor, http-response-writer-flavor) and the classes byte, short-float, input-stream, output-stream, which no object slip makes is typep of, have no inhabitant",
		},
		Enumerate: enumerate,
		Exec:      exec,
		BFS: &engine.BFS{
			Ops:          bfsOpsTier,
			MaxDepth:     func(string) int { return 13 },
			NoDedupDepth: func(tier string) int { return 2 },
			StateCap:     func(string) int { return 0 },
		},
		Required: append(append([]string{}, pairRequired...),
			"rep-mode-table-set-via-equivalent-key", "rep-mode-table-rem-via-equivalent-key", "rep-mode-table-lookup-via-equivalent-key",
			"wrap-case", "wrap-equal-containers-of-different-representations",
			"reflexive-checked", "distinct-objects-related", "cross-representation-numbers-related", "chain-antecedent-true",
			"sxhash-on-equal-distinct-objects", "transitive-antecedent-true", "transitive-mixed-representations",
			"typep-of-own-type-of", "proper-supertype-of-type-of", "subtypep-reflexive-checked", "subtypep-transitive-proper-chain",
			"subtypep-vs-typep-antecedent", "coerce-returned", "coerce-changed-representation",
			"table-pointer-represented-key", "table-set-via-equivalent-key", "table-rem-via-equivalent-key",
			"table-lookup-via-equivalent-key", "table-overwrite", "table-remove-present", "table-clear-nonempty",
		),
		Bound:         bound,
		Selftest:      selftest,
		CaseDeadlineS: 30,
	})
}

func bfsOpsTier(tier string) []string {
	var ops []string
	for _, op := range newOps() {
		if tier == engine.Thorough {
			op += ":T"
		}
		ops = append(ops, op)
	}
	return append(append(ops, opsFor(fullKeys(tier))...), "stop")
}

func bound(tier string) string {
	u := relUniverse(tier)
	n := len(u)
	nt := len(registryTypes())
	return fmt.Sprintf("relations: all %d unordered pairs (incl. x with itself) and all %d ordered triples (x,y,z) with y distinct from x and z over a universe of %d objects, 4 predicates + sxhash; "+
		"types: %d objects x %d registry classes (typep/subtypep agreement), all %d ordered pairs of classes each against every third class (all %d triples) and every object, coerce of %d objects to %d result types; "+
		"tables: BFS over histories of (setf gethash) x {a, nil} / remhash / clrhash on tables of 4 :test values, every step followed by gethash of every key + hash-table-count + maphash: "+
		"full alphabet of %d keys to %d operations, sub-alphabet of %d keys and representation alphabet of %d keys (%s) to the fixpoint of the reachable contents (every history of any length, in particular <= 12, ends in an explored state); "+
		"table pair family: %d keys in %d groups [%s], 4 :test values: every single store, every ORDERED pair (k1,k2) of the %d x %d with store k1 then (setf gethash) k2 / remhash k2, each on an empty table and on a table holding %d bystander entries; "+
		"3-operation histories (a further store / removal under k1 or k2) %s; %d cases, every step followed by gethash of every key involved + hash-table-count + maphash; "+
		"wrap family: every unordered pair of keys of one group of the pair alphabet, each key placed in each of %d container shapes (one-element list, after / before a symbol, between a symbol and a string, after a fixnum / a double, before a ratio / a nested list, twice, dotted, vectors, nested list / vector, three levels deep), the pair laws on the two containers (%d cases)",
		n*(n+1)/2, n*(n-1)*(n-1), n, len(universe), nt, nt*nt, nt*nt*nt, len(universe), len(coerceMenu),
		len(fullKeys(tier)), fullDepth(tier), len(subKeys(tier)), len(repKeys(tier)), keySrcs(repKeys(tier)),
		len(pairKeys), len(pairGroups), pairAlphabetText(), len(pairKeys), len(pairKeys), len(pairBystanders),
		map[bool]string{false: "for the pairs inside a group and across neighbouring groups", true: "for every ordered pair with and without bystanders, plus two stores and a third operation for every ordered triple of distinct keys inside a group"}[tier == engine.Thorough],
		pairCaseCount(tier), len(wrapShapes), wrapCaseCount())
}

func keySrcs(keys []string) string {
	var s []string
	for _, k := range keys {
		s = append(s, elemByName[k].src)
	}
	return strings.Join(s, ", ")
}

func enumerate(tier string, emit func(string)) {
	u := relUniverse(tier)
	// pairs (unordered, both orders are evaluated inside the case), simplest first
	for i, x := range u {
		for _, y := range u[i:] {
			emit("p|" + x.name + "|" + y.name)
		}
	}
	// containers holding one number in two representations (round 8)
	enumerateWrap(tier, emit)
	// tables: the pair family
	enumeratePairs(tier, emit)
	// types
	types := registryTypes()
	for _, x := range universe {
		emit("to|" + x.name)
	}
	for _, x := range universe {
		for _, T := range coerceMenu {
			emit("co|" + x.name + "|" + T)
		}
	}
	for _, x := range universe {
		for _, S := range types {
			emit("ty|" + x.name + "|" + S)
		}
	}
	for _, A := range types {
		for _, B := range types {
			emit("st|" + A + "|" + B)
		}
	}
	// triples
	for _, x := range u {
		for _, y := range u {
			if x == y {
				continue
			}
			for _, z := range u {
				if y == z {
					continue
				}
				emit("t|" + x.name + "|" + y.name + "|" + z.name)
			}
		}
	}
}

func exec(spec string) (res engine.Result) {
	if hist, ok := engine.ParseBFSSpec(spec); ok {
		return execBFS(hist)
	}
	parts := strings.Split(spec, "|")
	switch parts[0] {
	case "p":
		return execPair(parts)
	case "t":
		return execTriple(parts)
	case "to", "ty", "st", "co":
		return execType(parts)
	case "tp":
		return execPairCase(parts)
	case "w":
		return execWrap(parts)
	}
	res.Fail("harness:bad-spec", spec)
	return
}
