//go:build verif

package slip

// VerifForgetFunction removes every trace of a function defined with defun
// from the package tables. Package.Undefine clears funcs but leaves the
// entry in the unexported lambdas map, which pins the Lambda, its closure
// scope and its forms for the life of the process (about 1.5 KB per defun).
// The C01 harness defines uniquely named functions in millions of cases per
// worker process and calls this after each case, once the observation has
// been taken. Added by build overlay only; nothing is written into the
// repository.
func VerifForgetFunction(pkg *Package, name string) {
	pkg.Undefine(name)
	pkg.mu.Lock()
	delete(pkg.lambdas, name)
	pkg.mu.Unlock()
}
