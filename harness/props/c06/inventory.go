package c06

import (
	"fmt"
	"sort"
	"strings"

	"github.com/ohler55/slip"

	"verif/engine"
)

// inventory (development aid, `vcheck-C06 exec C06 --spec 'funcs:cl,gi,bag,flavors,clos'`): every exported function
// of the named packages whose FuncDoc has an argument or a return value of a type that can carry a list (list,
// sequence, cons, alist, plist, tree, object, &rest ...), one line each: package, name, kind, argument list with
// types, return type, and whether the documentation text calls it destructive. The line also says whether the
// alphabet of this package has an operation whose Lisp form calls the function.
func inventory(pkgs string) (res engine.Result) {
	used := map[string]bool{}
	for _, o := range allOps {
		form := o.lisp(9)
		for _, tok := range strings.FieldsFunc(form, func(r rune) bool { return strings.ContainsRune("() '#`,", r) }) {
			used[strings.ToLower(tok)] = true
		}
	}
	listy := func(t string) bool {
		t = strings.ToLower(t)
		for _, w := range []string{"list", "sequence", "cons", "tree", "object", "form", "place", "bag", "t"} {
			if t == w || strings.Contains(t, w) && w != "t" {
				return true
			}
		}
		return false
	}
	var lines []string
	for _, pn := range strings.Split(pkgs, ",") {
		p := slip.FindPackage(strings.TrimSpace(pn))
		if p == nil {
			lines = append(lines, "no package "+pn)
			continue
		}
		p.EachFuncInfo(func(fi *slip.FuncInfo) {
			if fi.Doc == nil || fi.Pkg != p {
				return
			}
			var args []string
			hit := listy(fi.Doc.Return)
			for _, a := range fi.Doc.Args {
				if strings.HasPrefix(a.Name, "&") {
					args = append(args, a.Name)
					if a.Name == "&rest" || a.Name == "&body" {
						hit = true
					}
					continue
				}
				args = append(args, a.Name+":"+a.Type)
				if listy(a.Type) {
					hit = true
				}
			}
			if !hit {
				return
			}
			text := strings.ToLower(fi.Doc.Text)
			destr := ""
			for _, w := range []string{"destructive", "modif", "in place", "in-place", "altered", "alter"} {
				if strings.Contains(text, w) {
					destr = " DESTR(" + w + ")"
					break
				}
			}
			in := "missing"
			if used[strings.ToLower(fi.Name)] {
				in = "present"
			}
			lines = append(lines, fmt.Sprintf("%s %s:%s [%s] (%s) => %s%s", in, p.Name, fi.Name, fi.Kind, strings.Join(args, " "), fi.Doc.Return, destr))
		})
	}
	sort.Strings(lines)
	res.Outcome = "\n" + strings.Join(lines, "\n")
	return
}
