// Package jsonpath is a small, boring reference evaluator for the JSONPath
// subset the C18 check uses: optional root `$`, child `a` / `.a`, index `[n]`
// (negative counts from the end), wildcard `*` / `[*]` and descent `..`.
// It works on plain Go trees (nil, bool, numbers, string, []any,
// map[string]any) and returns *locations* (concrete key/index sequences), so
// that get / has / walk / remove expectations are all derived from one notion.
//
// It shares no code with ojg/jp (which slip uses): it is a direct recursive
// reading of the JSONPath definitions.
package jsonpath

import (
	"fmt"
	"sort"
	"strconv"
	"strings"
)

// FragKind enumerates fragment kinds.
type FragKind int

const (
	Root FragKind = iota
	Child
	Nth
	Wildcard
	Descent
)

// Frag is one path fragment.
type Frag struct {
	Kind FragKind
	Key  string
	N    int
}

// Path is a parsed path.
type Path []Frag

// Step is one element of a concrete location: a key or a non-negative index.
type Step struct {
	Key   string
	Index int
	IsKey bool
}

// Loc is a concrete location in a tree.
type Loc []Step

func (l Loc) String() string {
	var b strings.Builder
	b.WriteByte('$')
	for _, s := range l {
		if s.IsKey {
			b.WriteByte('.')
			b.WriteString(s.Key)
		} else {
			fmt.Fprintf(&b, "[%d]", s.Index)
		}
	}
	return b.String()
}

// Overlaps reports whether one location is a prefix of the other (or equal):
// the two are NOT disjoint.
func (l Loc) Overlaps(o Loc) bool {
	n := len(l)
	if len(o) < n {
		n = len(o)
	}
	for i := 0; i < n; i++ {
		if l[i] != o[i] {
			return false
		}
	}
	return true
}

// Mutation switches the reference into one of its deliberately wrong variants
// (oracle-sensitivity self-test only).
type Mutation int

const (
	None             Mutation = iota
	NegIndexOffByOne          // a[-1] addresses the element before the last
	NullNotALocation          // a member holding null does not count as a location
	WildcardMapsOnly          // * does not enumerate array elements
	DescentSkipsSelf          // ..b does not look at the node the descent starts from
	DescentOneLevel           // .. only visits direct children
	NthOnMap                  // [0] on an object addresses its first key in sorted order
)

// Parse parses the supported subset; anything else is an error.
func Parse(s string) (Path, error) {
	var p Path
	i := 0
	if strings.HasPrefix(s, "$") {
		p = append(p, Frag{Kind: Root})
		i = 1
	}
	first := true
	for i < len(s) {
		switch {
		case strings.HasPrefix(s[i:], ".."):
			p = append(p, Frag{Kind: Descent})
			i += 2
			if i < len(s) && s[i] != '[' {
				j := i
				for j < len(s) && s[j] != '.' && s[j] != '[' {
					j++
				}
				name := s[i:j]
				if name == "*" {
					p = append(p, Frag{Kind: Wildcard})
				} else if name != "" {
					p = append(p, Frag{Kind: Child, Key: name})
				}
				i = j
			}
		case s[i] == '.':
			i++
			j := i
			for j < len(s) && s[j] != '.' && s[j] != '[' {
				j++
			}
			name := s[i:j]
			if name == "" {
				return nil, fmt.Errorf("empty member name in %q", s)
			}
			if name == "*" {
				p = append(p, Frag{Kind: Wildcard})
			} else {
				p = append(p, Frag{Kind: Child, Key: name})
			}
			i = j
		case s[i] == '[':
			j := strings.IndexByte(s[i:], ']')
			if j < 0 {
				return nil, fmt.Errorf("unterminated [ in %q", s)
			}
			in := s[i+1 : i+j]
			if in == "*" {
				p = append(p, Frag{Kind: Wildcard})
			} else {
				n, err := strconv.Atoi(in)
				if err != nil {
					return nil, fmt.Errorf("unsupported bracket %q in %q", in, s)
				}
				p = append(p, Frag{Kind: Nth, N: n})
			}
			i += j + 1
		default:
			if !first {
				return nil, fmt.Errorf("unexpected %q in %q", s[i:], s)
			}
			j := i
			for j < len(s) && s[j] != '.' && s[j] != '[' {
				j++
			}
			name := s[i:j]
			if name == "*" {
				p = append(p, Frag{Kind: Wildcard})
			} else {
				p = append(p, Frag{Kind: Child, Key: name})
			}
			i = j
		}
		first = false
	}
	if len(p) == 0 {
		return nil, fmt.Errorf("empty path")
	}
	return p, nil
}

// MustParse panics on error.
func MustParse(s string) Path {
	p, err := Parse(s)
	if err != nil {
		panic(err)
	}
	return p
}

// Definite reports whether the path can address at most one location
// (only root / child / index fragments).
func (p Path) Definite() bool {
	for _, f := range p {
		if f.Kind == Wildcard || f.Kind == Descent {
			return false
		}
	}
	return true
}

// Kind is a coarse name of the path shape for signatures, e.g. "child",
// "child.child", "child[neg]", "child.*", "..child".
func (p Path) Kind() string {
	var parts []string
	for _, f := range p {
		switch f.Kind {
		case Root:
			parts = append(parts, "$")
		case Child:
			parts = append(parts, "child")
		case Nth:
			if f.N < 0 {
				parts = append(parts, "[neg]")
			} else {
				parts = append(parts, "[n]")
			}
		case Wildcard:
			parts = append(parts, "*")
		case Descent:
			parts = append(parts, "..")
		}
	}
	return strings.Join(parts, "/")
}

// Locate returns every location of doc the path matches, in document order
// (object members in sorted key order). A member whose value is null IS a
// location.
func Locate(doc any, p Path, m Mutation) []Loc {
	type at struct {
		loc Loc
		val any
	}
	cur := []at{{loc: Loc{}, val: doc}}
	for _, f := range p {
		var next []at
		for _, c := range cur {
			switch f.Kind {
			case Root:
				next = append(next, c)
			case Child:
				if mp, ok := c.val.(map[string]any); ok {
					if v, has := mp[f.Key]; has {
						if m == NullNotALocation && v == nil {
							continue
						}
						next = append(next, at{loc: ext(c.loc, Step{Key: f.Key, IsKey: true}), val: v})
					}
				}
			case Nth:
				if arr, ok := c.val.([]any); ok {
					n := f.N
					if n < 0 {
						n += len(arr)
						if m == NegIndexOffByOne {
							n--
						}
					}
					if 0 <= n && n < len(arr) {
						next = append(next, at{loc: ext(c.loc, Step{Index: n}), val: arr[n]})
					}
				} else if mp, ok := c.val.(map[string]any); ok && m == NthOnMap && 0 <= f.N && f.N < len(mp) {
					k := sortedKeys(mp)[f.N]
					next = append(next, at{loc: ext(c.loc, Step{Key: k, IsKey: true}), val: mp[k]})
				}
			case Wildcard:
				switch tv := c.val.(type) {
				case []any:
					if m == WildcardMapsOnly {
						break
					}
					for i, v := range tv {
						next = append(next, at{loc: ext(c.loc, Step{Index: i}), val: v})
					}
				case map[string]any:
					for _, k := range sortedKeys(tv) {
						next = append(next, at{loc: ext(c.loc, Step{Key: k, IsKey: true}), val: tv[k]})
					}
				}
			case Descent:
				var walk func(a at, depth int)
				walk = func(a at, depth int) {
					if !(m == DescentSkipsSelf && depth == 0) {
						next = append(next, a)
					}
					if m == DescentOneLevel && 1 <= depth {
						return
					}
					switch tv := a.val.(type) {
					case []any:
						for i, v := range tv {
							walk(at{loc: ext(a.loc, Step{Index: i}), val: v}, depth+1)
						}
					case map[string]any:
						for _, k := range sortedKeys(tv) {
							walk(at{loc: ext(a.loc, Step{Key: k, IsKey: true}), val: tv[k]}, depth+1)
						}
					}
				}
				walk(c, 0)
			}
		}
		cur = next
	}
	// a path may reach one location several times only through descent; dedupe
	seen := map[string]bool{}
	var out []Loc
	for _, c := range cur {
		k := c.loc.String()
		if !seen[k] {
			seen[k] = true
			out = append(out, c.loc)
		}
	}
	return out
}

func ext(l Loc, s Step) Loc {
	n := make(Loc, len(l)+1)
	copy(n, l)
	n[len(l)] = s
	return n
}

func sortedKeys(m map[string]any) []string {
	ks := make([]string, 0, len(m))
	for k := range m {
		ks = append(ks, k)
	}
	sort.Strings(ks)
	return ks
}

// At returns the value at a location and whether the location exists.
func At(doc any, l Loc) (any, bool) {
	cur := doc
	for _, s := range l {
		if s.IsKey {
			mp, ok := cur.(map[string]any)
			if !ok {
				return nil, false
			}
			v, has := mp[s.Key]
			if !has {
				return nil, false
			}
			cur = v
		} else {
			arr, ok := cur.([]any)
			if !ok || s.Index < 0 || len(arr) <= s.Index {
				return nil, false
			}
			cur = arr[s.Index]
		}
	}
	return cur, true
}

// Leaves returns the location of every scalar and every empty container of
// doc (the maximal locations), in document order.
func Leaves(doc any) []Loc {
	var out []Loc
	var walk func(v any, l Loc)
	walk = func(v any, l Loc) {
		switch tv := v.(type) {
		case []any:
			if len(tv) == 0 {
				out = append(out, l)
			}
			for i, e := range tv {
				walk(e, ext(l, Step{Index: i}))
			}
		case map[string]any:
			if len(tv) == 0 {
				out = append(out, l)
			}
			for _, k := range sortedKeys(tv) {
				walk(tv[k], ext(l, Step{Key: k, IsKey: true}))
			}
		default:
			out = append(out, l)
		}
	}
	walk(doc, Loc{})
	return out
}

// Intended resolves a definite path against doc as far as the document
// allows: the concrete steps of the location the path denotes. open is true
// when a negative index could not be resolved (no array there, or out of
// range); the returned prefix then stops before that fragment.
func Intended(doc any, p Path) (loc Loc, open bool) {
	cur, have := doc, true
	for _, f := range p {
		switch f.Kind {
		case Root:
		case Child:
			loc = append(loc, Step{Key: f.Key, IsKey: true})
			if have {
				if mp, ok := cur.(map[string]any); ok {
					cur, have = mp[f.Key]
				} else {
					have = false
				}
			}
		case Nth:
			n := f.N
			if n < 0 {
				arr, ok := cur.([]any)
				if !have || !ok || len(arr)+n < 0 {
					return loc, true
				}
				n += len(arr)
			}
			loc = append(loc, Step{Index: n})
			if have {
				if arr, ok := cur.([]any); ok && n < len(arr) {
					cur = arr[n]
				} else {
					have = false
				}
			}
		default:
			return loc, true
		}
	}
	return loc, false
}

// Remove returns a copy of doc with the given locations removed: object
// members are deleted, array elements are taken out and the rest closes up.
// Locations nested inside another removed location are ignored.
func Remove(doc any, locs []Loc) any {
	return removeAt(doc, Loc{}, locs)
}

func removeAt(v any, here Loc, locs []Loc) any {
	gone := func(l Loc) bool {
		for _, r := range locs {
			if len(r) == len(l) && r.Overlaps(l) {
				return true
			}
		}
		return false
	}
	switch tv := v.(type) {
	case []any:
		out := make([]any, 0, len(tv))
		for i, e := range tv {
			l := ext(here, Step{Index: i})
			if gone(l) {
				continue
			}
			out = append(out, removeAt(e, l, locs))
		}
		return out
	case map[string]any:
		out := make(map[string]any, len(tv))
		for k, e := range tv {
			l := ext(here, Step{Key: k, IsKey: true})
			if gone(l) {
				continue
			}
			out[k] = removeAt(e, l, locs)
		}
		return out
	}
	return v
}
