package c14

// mapdirect.go: the mapping functions called with a BUILT-IN function as the function argument. For every exported
// function f of every slip package (macros and a short list of blocking / external ones excepted) and a few argument
// shapes:   (mapcar #'f L1 L2 ...)  must be the list of the results of the direct calls (f a1 b1 ...) (f a2 b2 ...),
// and so must (map 'list ...), (map 'vector ...) and (mapcan (lambda (...) (list (f ...))) ...). The direct calls are
// made twice; f is judged only when they agree (so gensym, random and the like drop out) and do not signal.
// What this reaches and the hand-written map family does not: a mapping function that hands the SAME argument list
// to every call, and a built-in that keeps the list it was called with (vector and values did).
//
// spec: mapdirect|<pkg:fn>|<shape>

import (
	"fmt"
	"sort"
	"strings"
	"sync"

	"github.com/ohler55/slip"

	"verif/engine"
	"verif/lisp"
)

var mapShapes = []struct {
	name  string
	lists []string // Lisp source of the argument lists (each holds two elements)
}{
	{"int2", []string{"(list 1 2)", "(list 3 4)"}},
	{"int1", []string{"(list 1 2)"}},
	{"int3", []string{"(list 1 2)", "(list 3 4)", "(list 5 6)"}},
	{"str2", []string{`(list "ab" "cd")`, `(list "ef" "gh")`}},
	{"list2", []string{"(list (list 1 2) (list 3))", "(list (list 4) (list 5 6))"}},
	{"sym2", []string{"(list 'a 'b)", "(list 'c 'd)"}},
	{"listint", []string{"(list (list 1 2 3) (list 4 5 6))", "(list 1 2)"}},
	{"intlist", []string{"(list 1 2)", "(list (list 1 2 3) (list 4 5 6))"}},
}

// functions that block, reach outside the process or change it for good when called with such arguments
var mapDeny = map[string]string{
	"common-lisp:sleep": "sleeps", "gi:send-signal": "signals processes", "gi:signal-wait": "waits for a signal", "gi:run": "spawns",
	"gi:make-app": "builds an application", "test:benchmark": "runs for seconds", "common-lisp:read": "reads standard input",
	"common-lisp:read-line": "reads standard input", "common-lisp:read-char": "reads standard input", "common-lisp:y-or-n-p": "reads standard input",
	"common-lisp:yes-or-no-p": "reads standard input", "gi:setenv": "edits the environment", "gi:unsetenv": "edits the environment",
	"gi:clearenv": "edits the environment", "common-lisp:delete-package": "removes packages", "common-lisp:in-package": "changes the current package",
	"common-lisp:comma-at": "backquote splice marker (a list of it is spliced by design)", "common-lisp:comma": "backquote marker", "common-lisp:backquote": "backquote marker",
	"common-lisp:random": "random", "common-lisp:make-random-state": "random", "common-lisp:gensym": "fresh names", "common-lisp:gentemp": "fresh names",
	"common-lisp:use-package": "edits packages", "common-lisp:unuse-package": "edits packages", "common-lisp:set": "assigns globals",
}

var mapDenyPkgs = map[string]bool{"swank": true, "net": true, "repl": true, "watch": true, "common-lisp-user": true, "keyword": true}

var (
	mapFnOnce sync.Once
	mapFns    []string
)

func mapFunctions() []string {
	mapFnOnce.Do(func() {
		for _, p := range slip.AllPackages() {
			if mapDenyPkgs[p.Name] {
				continue
			}
			p := p
			p.EachFuncInfo(func(fi *slip.FuncInfo) {
				if fi.Pkg != p || !fi.Export {
					return
				}
				name := p.Name + ":" + fi.Name
				if mapDeny[name] != "" || strings.ContainsAny(fi.Name, "|\"()';`, ") {
					return
				}
				macro := false
				func() {
					defer func() { _ = recover() }()
					if f, ok := fi.Create(nil).(interface{ SkipArgEval(i int) bool }); ok {
						for i := 0; i < 4; i++ {
							macro = macro || f.SkipArgEval(i)
						}
					}
				}()
				if !macro {
					mapFns = append(mapFns, name)
				}
			})
		}
		sort.Strings(mapFns)
	})
	return mapFns
}

func enumMapDirect(tier string, emit func(string)) {
	shapes := mapShapes
	if tier != engine.Thorough {
		shapes = mapShapes[:4]
	}
	for _, fn := range mapFunctions() {
		for _, sh := range shapes {
			emit("mapdirect|" + fn + "|" + sh.name)
		}
	}
}

func execMapDirect(spec string) (res engine.Result) {
	parts := strings.Split(spec, "|")
	if len(parts) != 3 {
		res.Fail("harness:bad-spec", spec)
		return
	}
	fn := parts[1]
	if fn == "?" { // development aid: the function list
		res.Outcome = strings.Join(mapFunctions(), " ")
		return
	}
	var lists []string
	for _, sh := range mapShapes {
		if sh.name == parts[2] {
			lists = sh.lists
		}
	}
	if lists == nil {
		res.Fail("harness:bad-spec", spec)
		return
	}
	n := len(lists)
	// (let ((l1 ..) (l2 ..)) (list (f (nth 0 l1) (nth 0 l2)) (f (nth 1 l1) (nth 1 l2))))   with fresh lists for every evaluation
	var binds, e0, e1, ls, params []string
	for i, l := range lists {
		v := fmt.Sprintf("l%d", i+1)
		binds = append(binds, "("+v+" "+l+")")
		e0 = append(e0, "(nth 0 "+v+")")
		e1 = append(e1, "(nth 1 "+v+")")
		ls = append(ls, v)
		params = append(params, fmt.Sprintf("p%d", i+1))
	}
	let := "(let (" + strings.Join(binds, " ") + ") "
	sink := "(let ((*standard-output* (make-string-output-stream))) "
	direct := sink + let + "(list (" + fn + " " + strings.Join(e0, " ") + ") (" + fn + " " + strings.Join(e1, " ") + "))))"
	eval := func(src string) (string, bool) {
		v, err := lisp.Eval(src)
		if err != nil {
			return "", false
		}
		// slip's mapping functions keep a multiple-values result as one element where CL keeps the primary value
		// (accepted, S2 of C01): compare the primary values
		if l, isList := v.(slip.List); isList {
			c := make(slip.List, len(l))
			for i, e := range l {
				if vs, isValues := e.(slip.Values); isValues {
					e = nil
					if 0 < len(vs) {
						e = vs[0]
					}
				}
				c[i] = e
			}
			v = c
		}
		return lisp.Show(v), true
	}
	d1, ok1 := eval(direct)
	d2, ok2 := eval(direct)
	res.Hit("fam:map-direct")
	if !ok1 || !ok2 || d1 != d2 || strings.Contains(d1, "#<") {
		// the direct calls signal, disagree with each other, or return objects that only print by identity
		res.Outcome = "not-judged"
		return
	}
	res.Nontrivial = true
	res.Hit("map-direct:judged")
	_ = n
	mappers := []struct{ name, src, want string }{
		{"mapcar", sink + let + "(mapcar #'" + fn + " " + strings.Join(ls, " ") + ")))", d1},
		{"map-list", sink + let + "(map 'list #'" + fn + " " + strings.Join(ls, " ") + ")))", d1},
		{"map-vector", sink + let + "(coerce (map 'vector #'" + fn + " " + strings.Join(ls, " ") + ") 'list)))", d1},
		{"mapcan-list", sink + let + "(mapcan (lambda (" + strings.Join(params, " ") + ") (list (" + fn + " " + strings.Join(params, " ") + "))) " + strings.Join(ls, " ") + ")))", d1},
	}
	for _, m := range mappers {
		got, ok := eval(m.src)
		switch {
		case !ok:
			v, err := lisp.Eval(m.src)
			_ = v
			res.Fail(fmt.Sprintf("fn=%s seq=list kw=none kind=map-direct:error-where-direct-calls-succeed", m.name),
				fmt.Sprintf("%s => %s; the direct calls give %s (function %s, shape %s)", m.src, err.String(), d1, fn, parts[2]))
		case got != m.want:
			res.Fail(fmt.Sprintf("fn=%s seq=list kw=none kind=map-direct:differs-from-direct-calls", m.name),
				fmt.Sprintf("%s => %s; the direct calls give %s (function %s, shape %s)", m.src, got, d1, fn, parts[2]))
		}
	}
	res.Outcome = d1
	return
}
