//go:build verif

// Package vfs is an in-memory stand-in for the parts of package os that
// pkg/repl uses. It is mounted INTO the slip module by `go build -overlay`
// (virtual package github.com/ohler55/slip/vfs) and the import "os" of
// pkg/repl/{history,stash,repl,use-stash,pkg}.go is rewritten to it, so every
// file-system step of the real History/Stash/config code becomes a numbered
// step at which the harness can simulate process death.
//
// Death model: the process dies BEFORE state-changing step k (create, truncate,
// write, rename, remove, mkdir). Completed steps persist (page cache survives
// process death); after death every call is inert (deferred Close etc.).
package vfs

import (
	"errors"
	"io"
	"io/fs"
	realos "os"
	"path/filepath"
	"sort"
	"strings"
	"sync"
	"time"
)

// Re-exported names so that files written against package os keep compiling.
const (
	O_RDONLY = realos.O_RDONLY
	O_WRONLY = realos.O_WRONLY
	O_RDWR   = realos.O_RDWR
	O_APPEND = realos.O_APPEND
	O_CREATE = realos.O_CREATE
	O_EXCL   = realos.O_EXCL
	O_SYNC   = realos.O_SYNC
	O_TRUNC  = realos.O_TRUNC

	ModePerm = realos.ModePerm
	ModeDir  = realos.ModeDir
)

type (
	FileMode = fs.FileMode
	FileInfo = fs.FileInfo
	DirEntry = fs.DirEntry
	Signal   = realos.Signal
	PathError = fs.PathError
)

var (
	ErrNotExist   = fs.ErrNotExist
	ErrExist      = fs.ErrExist
	ErrPermission = fs.ErrPermission
	ErrClosed     = fs.ErrClosed
	ErrInvalid    = fs.ErrInvalid

	Stdin  = realos.Stdin
	Stdout = realos.Stdout
	Stderr = realos.Stderr
	Args   = realos.Args

	Interrupt = realos.Interrupt
	Kill      = realos.Kill
)

// Crash is the sentinel panic value raised at the death point.
type Crash struct{ Step int }

// ErrDead is returned by every call after the death point.
var ErrDead = errors.New("vfs: process is dead")

// Step is one state-changing file-system step.
type Step struct {
	Kind string // create | trunc | write | rename | remove | mkdir
	Path string
	N    int // bytes for write
}

type inode struct {
	data []byte
}

var (
	mu    sync.Mutex
	files = map[string]*inode{}
	dirs  = map[string]bool{"/": true}
	steps []Step
	dieAt int // die before the step with this 1-based number; 0 = never
	dead  bool
	env   = map[string]string{}
	home  = "/home/u"
)

// Reset wipes the file system and the step log.
func Reset() {
	mu.Lock()
	files = map[string]*inode{}
	dirs = map[string]bool{"/": true}
	steps = nil
	dieAt = 0
	dead = false
	pending = 0
	env = map[string]string{}
	mu.Unlock()
}

// Revive models the restart: the new process sees the surviving bytes.
func Revive() {
	mu.Lock()
	dead = false
	dieAt = 0
	mu.Unlock()
}

// StepCount returns the number of state-changing steps so far.
func StepCount() int {
	mu.Lock()
	defer mu.Unlock()
	return len(steps)
}

// Steps returns a copy of the step log.
func Steps() []Step {
	mu.Lock()
	defer mu.Unlock()
	return append([]Step(nil), steps...)
}

// DieBefore arms death before absolute step number k (1-based).
func DieBefore(k int) {
	mu.Lock()
	dieAt = k
	mu.Unlock()
}

// Dead reports whether the death point was reached.
func Dead() bool {
	mu.Lock()
	defer mu.Unlock()
	return dead
}

// Snapshot returns path -> contents of every file (for state keys).
func Snapshot() map[string]string {
	mu.Lock()
	defer mu.Unlock()
	out := map[string]string{}
	for p, in := range files {
		out[p] = string(in.data)
	}
	return out
}

// Dump renders the file system canonically.
func Dump() string {
	snap := Snapshot()
	keys := make([]string, 0, len(snap))
	for k := range snap {
		keys = append(keys, k)
	}
	sort.Strings(keys)
	var b strings.Builder
	for _, k := range keys {
		b.WriteString(k)
		b.WriteString("=")
		b.WriteString(snap[k])
		b.WriteString("\x00")
	}
	return b.String()
}

// Put writes a file directly (harness set-up, not a step).
func Put(path, data string) {
	mu.Lock()
	files[clean(path)] = &inode{data: []byte(data)}
	mkdirsLocked(filepath.Dir(clean(path)))
	mu.Unlock()
}

// Setenv sets a variable of the virtual environment.
func Setenv(k, v string) error {
	mu.Lock()
	env[k] = v
	mu.Unlock()
	return nil
}

func clean(p string) string {
	if !filepath.IsAbs(p) {
		p = filepath.Join("/cwd", p)
	}
	return filepath.Clean(p)
}

func mkdirsLocked(d string) {
	for d != "/" && d != "." && d != "" {
		dirs[d] = true
		d = filepath.Dir(d)
	}
}

var pending int

// crashIfPending raises the Crash sentinel once the lock has been released
// (deferred BEFORE the lock is taken, so it runs after the unlock).
func crashIfPending() {
	mu.Lock()
	k := pending
	pending = 0
	mu.Unlock()
	if k != 0 {
		panic(Crash{Step: k})
	}
}

// stepLocked registers a state-changing step; called with mu held. When the
// process dies before this step it marks death and returns ErrDead.
func stepLocked(kind, path string, n int) error {
	if dead {
		return ErrDead
	}
	if dieAt != 0 && len(steps)+1 == dieAt {
		dead = true
		pending = dieAt
		return ErrDead
	}
	steps = append(steps, Step{Kind: kind, Path: path, N: n})
	return nil
}

// File is the in-memory os.File.
type File struct {
	path   string
	in     *inode
	pos    int
	flag   int
	closed bool
}

func perr(op, path string, err error) error { return &fs.PathError{Op: op, Path: path, Err: err} }

// OpenFile is os.OpenFile.
func OpenFile(name string, flag int, perm FileMode) (*File, error) {
	defer crashIfPending()
	mu.Lock()
	defer mu.Unlock()
	if dead {
		return nil, perr("open", name, ErrDead)
	}
	p := clean(name)
	if dirs[p] {
		return &File{path: p, in: &inode{}, flag: flag}, nil
	}
	in := files[p]
	if in == nil {
		if flag&O_CREATE == 0 {
			return nil, perr("open", name, ErrNotExist)
		}
		if !dirs[filepath.Dir(p)] {
			return nil, perr("open", name, ErrNotExist)
		}
		if err := stepLocked("create", p, 0); err != nil {
			return nil, perr("open", name, err)
		}
		in = &inode{}
		files[p] = in
	} else {
		if flag&O_CREATE != 0 && flag&O_EXCL != 0 {
			return nil, perr("open", name, ErrExist)
		}
		if flag&O_TRUNC != 0 && 0 < len(in.data) {
			if err := stepLocked("trunc", p, 0); err != nil {
				return nil, perr("open", name, err)
			}
			in.data = nil
		}
	}
	return &File{path: p, in: in, flag: flag}, nil
}

// Open is os.Open.
func Open(name string) (*File, error) { return OpenFile(name, O_RDONLY, 0) }

// Create is os.Create.
func Create(name string) (*File, error) { return OpenFile(name, O_RDWR|O_CREATE|O_TRUNC, 0o666) }

var tmpSeq int

// CreateTemp is os.CreateTemp (deterministic names).
func CreateTemp(dir, pattern string) (*File, error) {
	if dir == "" {
		dir = "/tmp"
	}
	mu.Lock()
	tmpSeq++
	n := tmpSeq
	mkdirsLocked(clean(dir))
	mu.Unlock()
	name := strings.Replace(pattern, "*", itoa(n), 1)
	if name == pattern {
		name = pattern + itoa(n)
	}
	return OpenFile(filepath.Join(dir, name), O_RDWR|O_CREATE|O_EXCL, 0o600)
}

func itoa(n int) string {
	if n == 0 {
		return "0"
	}
	var b []byte
	for 0 < n {
		b = append([]byte{byte('0' + n%10)}, b...)
		n /= 10
	}
	return string(b)
}

// Write appends or overwrites at the position.
func (f *File) Write(b []byte) (int, error) {
	defer crashIfPending()
	mu.Lock()
	defer mu.Unlock()
	if dead {
		return 0, perr("write", f.path, ErrDead)
	}
	if f.closed {
		return 0, perr("write", f.path, ErrClosed)
	}
	if f.flag&(O_WRONLY|O_RDWR) == 0 {
		return 0, perr("write", f.path, ErrPermission)
	}
	if len(b) == 0 {
		return 0, nil
	}
	if err := stepLocked("write", f.path, len(b)); err != nil {
		return 0, perr("write", f.path, err)
	}
	if f.flag&O_APPEND != 0 {
		f.pos = len(f.in.data)
	}
	for len(f.in.data) < f.pos {
		f.in.data = append(f.in.data, 0)
	}
	n := copy(f.in.data[f.pos:], b)
	f.in.data = append(f.in.data, b[n:]...)
	f.pos += len(b)
	return len(b), nil
}

// WriteString is os.File.WriteString.
func (f *File) WriteString(s string) (int, error) { return f.Write([]byte(s)) }

// Read is os.File.Read.
func (f *File) Read(b []byte) (int, error) {
	mu.Lock()
	defer mu.Unlock()
	if dead {
		return 0, perr("read", f.path, ErrDead)
	}
	if f.closed {
		return 0, perr("read", f.path, ErrClosed)
	}
	if len(f.in.data) <= f.pos {
		return 0, io.EOF
	}
	n := copy(b, f.in.data[f.pos:])
	f.pos += n
	return n, nil
}

// Seek is os.File.Seek.
func (f *File) Seek(offset int64, whence int) (int64, error) {
	mu.Lock()
	defer mu.Unlock()
	switch whence {
	case io.SeekStart:
		f.pos = int(offset)
	case io.SeekCurrent:
		f.pos += int(offset)
	case io.SeekEnd:
		f.pos = len(f.in.data) + int(offset)
	}
	if f.pos < 0 {
		f.pos = 0
	}
	return int64(f.pos), nil
}

// Close is os.File.Close (no state change: written data is already in the page cache).
func (f *File) Close() error {
	mu.Lock()
	defer mu.Unlock()
	if f.closed {
		return perr("close", f.path, ErrClosed)
	}
	f.closed = true
	return nil
}

// Sync is a no-op (process death does not lose completed writes).
func (f *File) Sync() error { return nil }

// Name is os.File.Name.
func (f *File) Name() string { return f.path }

// Fd is a dummy.
func (f *File) Fd() uintptr { return ^uintptr(0) }

// Truncate is os.File.Truncate.
func (f *File) Truncate(size int64) error {
	defer crashIfPending()
	mu.Lock()
	defer mu.Unlock()
	if dead {
		return perr("truncate", f.path, ErrDead)
	}
	if err := stepLocked("trunc", f.path, int(size)); err != nil {
		return err
	}
	if int(size) < len(f.in.data) {
		f.in.data = f.in.data[:size]
	}
	return nil
}

type info struct {
	name string
	size int64
	dir  bool
}

func (i info) Name() string       { return i.name }
func (i info) Size() int64        { return i.size }
func (i info) Mode() FileMode     { if i.dir { return ModeDir | 0o755 }; return 0o644 }
func (i info) ModTime() time.Time { return time.Time{} }
func (i info) IsDir() bool        { return i.dir }
func (i info) Sys() any           { return nil }

// Stat is os.File.Stat.
func (f *File) Stat() (FileInfo, error) { return Stat(f.path) }

// Stat is os.Stat.
func Stat(name string) (FileInfo, error) {
	mu.Lock()
	defer mu.Unlock()
	if dead {
		return nil, perr("stat", name, ErrDead)
	}
	p := clean(name)
	if dirs[p] {
		return info{name: filepath.Base(p), dir: true}, nil
	}
	if in := files[p]; in != nil {
		return info{name: filepath.Base(p), size: int64(len(in.data))}, nil
	}
	return nil, perr("stat", name, ErrNotExist)
}

// Lstat is os.Lstat.
func Lstat(name string) (FileInfo, error) { return Stat(name) }

// Rename is os.Rename (atomic).
func Rename(oldpath, newpath string) error {
	defer crashIfPending()
	mu.Lock()
	defer mu.Unlock()
	if dead {
		return perr("rename", oldpath, ErrDead)
	}
	o, n := clean(oldpath), clean(newpath)
	in := files[o]
	if in == nil {
		return perr("rename", oldpath, ErrNotExist)
	}
	if err := stepLocked("rename", o+"->"+n, 0); err != nil {
		return err
	}
	delete(files, o)
	files[n] = in
	return nil
}

// Remove is os.Remove.
func Remove(name string) error {
	defer crashIfPending()
	mu.Lock()
	defer mu.Unlock()
	if dead {
		return perr("remove", name, ErrDead)
	}
	p := clean(name)
	if files[p] == nil {
		return perr("remove", name, ErrNotExist)
	}
	if err := stepLocked("remove", p, 0); err != nil {
		return err
	}
	delete(files, p)
	return nil
}

// RemoveAll is os.RemoveAll.
func RemoveAll(name string) error {
	defer crashIfPending()
	mu.Lock()
	defer mu.Unlock()
	if dead {
		return ErrDead
	}
	p := clean(name)
	for k := range files {
		if k == p || strings.HasPrefix(k, p+"/") {
			if err := stepLocked("remove", k, 0); err != nil {
				return err
			}
			delete(files, k)
		}
	}
	for k := range dirs {
		if k == p || strings.HasPrefix(k, p+"/") {
			delete(dirs, k)
		}
	}
	return nil
}

// MkdirAll is os.MkdirAll.
func MkdirAll(path string, perm FileMode) error {
	defer crashIfPending()
	mu.Lock()
	defer mu.Unlock()
	if dead {
		return perr("mkdir", path, ErrDead)
	}
	p := clean(path)
	if dirs[p] {
		return nil
	}
	if err := stepLocked("mkdir", p, 0); err != nil {
		return err
	}
	mkdirsLocked(p)
	return nil
}

// Mkdir is os.Mkdir.
func Mkdir(path string, perm FileMode) error { return MkdirAll(path, perm) }

// ReadFile is os.ReadFile.
func ReadFile(name string) ([]byte, error) {
	mu.Lock()
	defer mu.Unlock()
	if dead {
		return nil, perr("open", name, ErrDead)
	}
	in := files[clean(name)]
	if in == nil {
		return nil, perr("open", name, ErrNotExist)
	}
	return append([]byte(nil), in.data...), nil
}

// WriteFile is os.WriteFile: open(O_WRONLY|O_CREATE|O_TRUNC) + write + close,
// i.e. up to two state-changing steps, like the real one.
func WriteFile(name string, data []byte, perm FileMode) error {
	f, err := OpenFile(name, O_WRONLY|O_CREATE|O_TRUNC, perm)
	if err != nil {
		return err
	}
	_, err = f.Write(data)
	if cerr := f.Close(); err == nil {
		err = cerr
	}
	return err
}

// ReadDir is os.ReadDir (names only, sorted).
func ReadDir(name string) ([]DirEntry, error) {
	return nil, perr("readdir", name, errors.New("vfs: ReadDir not supported"))
}

// IsNotExist is os.IsNotExist.
func IsNotExist(err error) bool { return errors.Is(err, ErrNotExist) }

// IsExist is os.IsExist.
func IsExist(err error) bool { return errors.Is(err, ErrExist) }

// Getenv reads the virtual environment.
func Getenv(key string) string {
	mu.Lock()
	defer mu.Unlock()
	return env[key]
}

// LookupEnv reads the virtual environment.
func LookupEnv(key string) (string, bool) {
	mu.Lock()
	defer mu.Unlock()
	v, ok := env[key]
	return v, ok
}

// UserHomeDir is os.UserHomeDir.
func UserHomeDir() (string, error) { return home, nil }

// Getwd is os.Getwd.
func Getwd() (string, error) { return "/cwd", nil }

// Exit must never be reached from the code under test.
func Exit(code int) { panic("vfs: os.Exit called") }

// Getpid is os.Getpid.
func Getpid() int { return realos.Getpid() }
