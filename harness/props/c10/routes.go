//go:build verif

package c10

// routes.go: the other ways a generic function is reached. After every
// transition every probe tuple is called directly (judged against the
// reference) and then through each route below; a route must show the same
// ordered trace and the same value (or an error of the same class) as the
// direct call made a moment earlier on the same state - a differential
// relation, no reference model involved.
//
//	funcall   (funcall #'g a b)
//	apply     (apply #'g (list a b))
//	mapcar    (mapcar #'g (list a) (list b))           value = one-element list
//	fwd       (c10fwN a b)  where (defun c10fwN (x y) (g x y)) was compiled BEFORE (defgeneric g ...)
//	late      (c10ltN a b)  compiled after the defgeneric and before the first defmethod
//	goapply   slip.MustFindFunc("g").Apply(scope, quoted args, 0)
//	gocall    slip.MustFindFunc("g").Create(nil).(slip.Funky).Caller().Call(scope, args, 0)
//
// (fwd and late are left out when the lambda list has an &optional / &key /
// &rest part: the wrapper would have to be written with apply, which is the
// apply route.)

import (
	"fmt"
	"strings"

	"github.com/ohler55/slip"

	"verif/lisp"
)

var routeNames = []string{"funcall", "apply", "mapcar", "fwd", "late", "goapply", "gocall"}

type routeEnv struct {
	cfg   *config
	scope *slip.Scope
	name  string
	fwd   string
	late  string
	objs  map[string]slip.List
}

// goArgs evaluates the argument sources to objects (once per tuple and replay).
func (rt *routeEnv) goArgs(args string) (out slip.List, err *lisp.Err) {
	if objs, has := rt.objs[args]; has {
		return objs, nil
	}
	defer func() {
		if err == nil {
			if rt.objs == nil {
				rt.objs = map[string]slip.List{}
			}
			rt.objs[args] = out
		}
	}()
	for _, src := range callArgSrcs(rt.cfg, args) {
		var v slip.Object
		if v, err = lisp.EvalIn(rt.scope, src); err != nil {
			return nil, err
		}
		out = append(out, v)
	}
	return
}

func goRoute(f func() slip.Object) (o callObs) {
	lisp.ResetTrace()
	resetDepth()
	func() {
		defer func() {
			if rec := recover(); rec != nil {
				o.err = lisp.ErrFromRecovered(rec)
			}
		}()
		o.value = lisp.Show(f())
	}()
	o.trace = lisp.Trace()
	if o.err != nil {
		o.value = ""
	}
	return
}

// run makes the call through one route. ok = false: the route does not exist in this configuration.
func (rt *routeEnv) run(route, args string) (o callObs, ok bool) {
	srcs := callArgSrcs(rt.cfg, args)
	switch route {
	case "funcall":
		return doEval(rt.scope, fmt.Sprintf("(funcall #'%s %s)", rt.name, strings.Join(srcs, " "))), true
	case "apply":
		return doEval(rt.scope, fmt.Sprintf("(apply #'%s (list %s))", rt.name, strings.Join(srcs, " "))), true
	case "mapcar":
		var lists []string
		for _, s := range srcs {
			lists = append(lists, "(list "+s+")")
		}
		o = doEval(rt.scope, fmt.Sprintf("(mapcar #'%s %s)", rt.name, strings.Join(lists, " ")))
		if o.err == nil {
			if strings.HasPrefix(o.value, "(") && strings.HasSuffix(o.value, ")") {
				o.value = o.value[1 : len(o.value)-1]
			} else {
				o.value = "not-a-one-element-list:" + o.value
			}
		}
		return o, true
	case "fwd":
		if rt.fwd == "" {
			return o, false
		}
		return doEval(rt.scope, fmt.Sprintf("(%s %s)", rt.fwd, strings.Join(srcs, " "))), true
	case "late":
		if rt.late == "" {
			return o, false
		}
		return doEval(rt.scope, fmt.Sprintf("(%s %s)", rt.late, strings.Join(srcs, " "))), true
	case "goapply":
		objs, err := rt.goArgs(args)
		if err != nil {
			return callObs{err: err}, true
		}
		quoted := make(slip.List, len(objs))
		for i, v := range objs {
			quoted[i] = slip.List{slip.Symbol("quote"), v}
		}
		return goRoute(func() slip.Object { return slip.MustFindFunc(rt.name).Apply(rt.scope, quoted, 0) }), true
	case "gocall":
		objs, err := rt.goArgs(args)
		if err != nil {
			return callObs{err: err}, true
		}
		return goRoute(func() slip.Object {
			f, _ := slip.MustFindFunc(rt.name).Create(objs).(slip.Funky)
			return f.Caller().Call(rt.scope, objs, 0)
		}), true
	}
	return o, false
}

// routes compares every route with the direct call just made.
func (ck *checker) routes(rt *routeEnv, args string, direct callObs, path string, lastMutation byte) {
	for _, route := range routeNames {
		o, ok := rt.run(route, args)
		if !ok {
			continue
		}
		ck.res.Hit("route:" + route)
		if lastMutation == 'G' {
			ck.res.Hit("route-after-defgeneric-again:" + route)
		}
		kind := ""
		switch {
		case o.err != nil && o.err.GoFault:
			kind = "go-fault"
		case o.err != nil && direct.err == nil:
			kind = "error:" + o.err.Class + "-where-the-direct-call-returns"
		case o.err == nil && direct.err != nil:
			kind = "returns-where-the-direct-call-signals-" + direct.err.Class
		case o.err != nil && o.err.Class != direct.err.Class:
			kind = "error-class-differs-from-direct-call"
		case !equalStrings(o.trace, direct.trace):
			kind = "methods-run-differ-from-direct-call"
		case o.err == nil && o.value != direct.value:
			kind = "value-differs-from-direct-call"
		}
		if kind == "" {
			continue
		}
		got := strings.Join(o.trace, " ") + " => " + o.value
		if o.err != nil {
			got = strings.Join(o.trace, " ") + " => " + o.err.String()
		}
		want := strings.Join(direct.trace, " ") + " => " + direct.value
		if direct.err != nil {
			want = strings.Join(direct.trace, " ") + " => " + direct.err.String()
		}
		ck.fail(fmt.Sprintf("arity=%d route=%s kind=%s", ck.cfg.arity, route, kind),
			fmt.Sprintf("history %v, %s on methods {%s}: through the route %s the call gave %s; the direct call on the same state gave %s",
				ck.hist, callSrc(ck.cfg, "gf", args), ck.m.t.String(), route, trunc(got, 300), trunc(want, 300)))
	}
}
