// Package c07 (skeleton for probing)
package c07

import (
	"strings"

	"github.com/ohler55/slip"
	"verif/engine"
	"verif/lisp"
)

func init() {
	engine.Register(&engine.Prop{
		ID:        "C07",
		Level:     "exploration",
		Enumerate: func(tier string, emit func(string)) {},
		Exec:      exec,
	})
}

func exec(spec string) (res engine.Result) {
	if strings.HasPrefix(spec, "raw:") {
		v, tr, err := lisp.Run(spec[4:])
		res.Outcome = "val=" + v + " trace=" + strings.Join(tr, ",") + " err=" + err.String()
		return
	}
	if strings.HasPrefix(spec, "rawv:") {
		sc := slip.NewScope()
		sc.Let("n1", slip.Fixnum(41))
		lisp.ResetTrace()
		v, err := lisp.EvalIn(sc, spec[5:])
		res.Outcome = "val=" + lisp.Show(v) + " trace=" + strings.Join(lisp.Trace(), ",") + " err=" + err.String()
		return
	}
	return
}
