package c03

import "testing"

func benchSpec(b *testing.B, spec string) {
	for i := 0; i < b.N; i++ {
		exec(spec)
	}
}

func BenchmarkPassTop(b *testing.B)  { benchSpec(b, `rt b16r1cup0m120 top fixnum I255`) }
func BenchmarkPassList(b *testing.B) { benchSpec(b, `rt b16r1cup1m5 deep string-escape S"a\"b\\c"`) }
func BenchmarkFailArr(b *testing.B)  { benchSpec(b, `rt b16r1cup1m5 arr23 string-escape S"a\"b\\c"`) }
func BenchmarkFailPipe(b *testing.B) { benchSpec(b, `rt b16r1cup1m5 deep symbol-piped Y"a b"`) }
func BenchmarkBlock(b *testing.B)    { benchSpec(b, `blk 3000 30ff`) }
