package engine

import (
	"bufio"
	"encoding/binary"
	"encoding/json"
	"fmt"
	"hash/fnv"
	"os"
	"runtime/debug"
	"sort"
	"syscall"
)

// Hash64 is the case/outcome hash used for sharding and dedup.
func Hash64(s string) uint64 {
	h := fnv.New64a()
	_, _ = h.Write([]byte(s))
	return h.Sum64()
}

// SigAgg aggregates failures of one signature inside a worker.
type SigAgg struct {
	Sig    string   `json:"sig"`
	Count  int      `json:"count"`
	Specs  []string `json:"specs"`  // first few failing specs (enumeration order = smallest first)
	Detail string   `json:"detail"` // detail of the first
	First  int      `json:"first"`  // enumeration index of the first failing case
}

// Summary is a worker's final report.
type Summary struct {
	T          string         `json:"t"`
	Shard      int            `json:"shard"`
	Enumerated int            `json:"enumerated"` // specs seen by the enumerator (all shards)
	Mine       int            `json:"mine"`       // distinct specs of this shard
	Dups       int            `json:"dups"`
	Executed   int            `json:"executed"`
	Nontrivial int            `json:"nontrivial"`
	Outcomes   []uint64       `json:"outcomes"` // distinct outcome hashes (capped)
	OutcomeCap bool           `json:"outcome_cap"`
	Counters   map[string]int `json:"counters"`
	Sigs       []*SigAgg      `json:"sigs"`
	Samples    []string       `json:"samples"`
	NTSamples  []string       `json:"nt_samples"`
}

const (
	journalSize  = 1 << 20
	maxSpecsSig  = 3
	outcomeCap   = 200000
	maxSampleLen = 400
)

type journal struct {
	mem []byte
}

func openJournal(path string) *journal {
	if path == "" {
		return nil
	}
	f, err := os.OpenFile(path, os.O_RDWR|os.O_CREATE, 0o644)
	if err != nil {
		return nil
	}
	defer f.Close()
	if err = f.Truncate(journalSize); err != nil {
		return nil
	}
	mem, err := syscall.Mmap(int(f.Fd()), 0, journalSize, syscall.PROT_READ|syscall.PROT_WRITE, syscall.MAP_SHARED)
	if err != nil {
		return nil
	}
	return &journal{mem: mem}
}

func (j *journal) set(k int, spec string) {
	if j == nil {
		return
	}
	n := len(spec)
	if journalSize-16 < n {
		n = journalSize - 16
	}
	// length first set to 0 so that a reader never sees a torn spec as valid
	binary.LittleEndian.PutUint32(j.mem[8:], 0)
	copy(j.mem[12:], spec[:n])
	binary.LittleEndian.PutUint64(j.mem[0:], uint64(k))
	binary.LittleEndian.PutUint32(j.mem[8:], uint32(n))
}

// ReadJournal returns the in-flight case index and spec.
func ReadJournal(path string) (k int, spec string) {
	b, err := os.ReadFile(path)
	if err != nil || len(b) < 12 {
		return 0, ""
	}
	k = int(binary.LittleEndian.Uint64(b[0:]))
	n := int(binary.LittleEndian.Uint32(b[8:]))
	if len(b) < 12+n {
		n = len(b) - 12
	}
	return k, string(b[12 : 12+n])
}

// SafeExec runs Exec and converts an escaping Go panic into a failure.
func SafeExec(p *Prop, spec string) (r Result) {
	defer func() {
		if rec := recover(); rec != nil {
			r = Result{}
			r.Fail("harness:panic-escaped-exec", fmt.Sprintf("%v\n%s", rec, debug.Stack()))
		}
	}()
	return p.Exec(spec)
}

func setMemLimit(gib uint64) {
	if gib == 0 {
		return
	}
	lim := syscall.Rlimit{Cur: gib << 30, Max: gib << 30}
	_ = syscall.Setrlimit(syscall.RLIMIT_AS, &lim)
}

// ProtoOut is where a worker writes its protocol lines: file descriptor 3 when the parent set VERIF_PROTO_FD (the code
// under test may print to the process's standard output - a built-in called with odd arguments, a warning of the
// interpreter - and such text must not land inside a protocol line), standard output otherwise (manual runs).
func ProtoOut() *os.File {
	if protoFile != nil {
		return protoFile
	}
	return os.Stdout
}

var protoFile *os.File

func init() {
	// The variable is consumed here: processes started by a harness (the race binary, isolated children, snapshot
	// stages) talk to their parent over their standard output and must not inherit it.
	if os.Getenv("VERIF_PROTO_FD") == "3" {
		protoFile = os.NewFile(3, "proto")
		_ = os.Unsetenv("VERIF_PROTO_FD")
	}
}

// StaticWorker enumerates the tier's cases and executes those of its shard.
func StaticWorker(p *Prop, tier string, shard, n int, journalPath string, resume int, memGiB uint64) {
	setMemLimit(memGiB)
	j := openJournal(journalPath)
	out := bufio.NewWriterSize(ProtoOut(), 1<<16)
	defer out.Flush()
	enc := json.NewEncoder(out)
	sum := Summary{T: "sum", Shard: shard, Counters: map[string]int{}}
	seen := map[uint64]struct{}{}
	outcomes := map[uint64]struct{}{}
	sentOutcomes := map[uint64]struct{}{}
	sigs := map[string]*SigAgg{}
	k := 0
	ntSeen := 0
	p.Enumerate(tier, func(spec string) {
		sum.Enumerated++
		h := Hash64(spec)
		if p.RoundRobin {
			if (sum.Enumerated-1)%n != shard {
				return
			}
		} else if int(h%uint64(n)) != shard {
			return
		}
		if _, has := seen[h]; has {
			sum.Dups++
			return
		}
		seen[h] = struct{}{}
		k++
		if k <= resume {
			return
		}
		j.set(k, spec)
		r := SafeExec(p, spec)
		sum.Executed++
		if len(sum.Samples) < 3 && len(spec) < maxSampleLen {
			sum.Samples = append(sum.Samples, spec)
		}
		if r.Nontrivial {
			sum.Nontrivial++
			ntSeen++
			if len(sum.NTSamples) < 3 && ntSeen%97 == 1 && len(spec) < maxSampleLen {
				sum.NTSamples = append(sum.NTSamples, spec)
			}
		}
		if r.Outcome != "" && len(outcomes) < outcomeCap {
			outcomes[Hash64(r.Outcome)] = struct{}{}
		}
		for name, c := range r.Counters {
			sum.Counters[name] += c
		}
		if sum.Executed%4000 == 0 {
			// checkpoint: hand the counts so far to the parent so that a later death of this worker
			// does not lose them (vacuity guards are computed from the merged counters)
			part := Summary{T: "part", Shard: shard, Executed: sum.Executed, Nontrivial: sum.Nontrivial, Counters: sum.Counters}
			for h := range outcomes {
				if _, sent := sentOutcomes[h]; !sent {
					sentOutcomes[h] = struct{}{}
					part.Outcomes = append(part.Outcomes, h)
				}
			}
			_ = enc.Encode(&part)
			out.Flush()
			sum.Executed, sum.Nontrivial, sum.Counters = 0, 0, map[string]int{}
		}
		for _, f := range r.Failures {
			fspec := spec
			if f.Spec != "" {
				fspec = f.Spec
			}
			a := sigs[f.Sig]
			if a == nil {
				a = &SigAgg{Sig: f.Sig, Detail: f.Detail, First: sum.Enumerated}
				sigs[f.Sig] = a
				// stream the first occurrence so a later crash does not lose it
				_ = enc.Encode(map[string]any{"t": "fail", "sig": f.Sig, "spec": fspec, "detail": f.Detail, "first": sum.Enumerated})
				out.Flush()
			}
			a.Count++
			if len(a.Specs) < maxSpecsSig {
				a.Specs = append(a.Specs, fspec)
			}
		}
	})
	j.set(0, "")
	sum.Mine = k
	sum.OutcomeCap = outcomeCap <= len(outcomes)
	for h := range outcomes {
		if _, sent := sentOutcomes[h]; !sent {
			sum.Outcomes = append(sum.Outcomes, h)
		}
	}
	for _, a := range sigs {
		sum.Sigs = append(sum.Sigs, a)
	}
	sort.Slice(sum.Sigs, func(a, b int) bool { return sum.Sigs[a].Sig < sum.Sigs[b].Sig })
	_ = enc.Encode(&sum)
}

// ServeWorker answers exec requests (one spec per line, JSON string) with one
// Result line each. Used by the BFS driver.
func ServeWorker(p *Prop, journalPath string, memGiB uint64) {
	setMemLimit(memGiB)
	j := openJournal(journalPath)
	in := bufio.NewReaderSize(os.Stdin, 1<<20)
	out := bufio.NewWriterSize(ProtoOut(), 1<<16)
	enc := json.NewEncoder(out)
	k := 0
	for {
		line, err := in.ReadBytes('\n')
		if len(line) == 0 && err != nil {
			break
		}
		var specs []string
		if jerr := json.Unmarshal(line, &specs); jerr != nil {
			fmt.Fprintf(os.Stderr, "bad request: %s\n", jerr)
			os.Exit(2)
		}
		results := make([]Result, len(specs))
		for i, spec := range specs {
			k++
			j.set(k, spec)
			results[i] = SafeExec(p, spec)
		}
		j.set(0, "")
		_ = enc.Encode(results)
		out.Flush()
		if err != nil {
			break
		}
	}
}
