package c04

import (
	"fmt"
	"sort"
	"strconv"
	"strings"
	"sync/atomic"

	"github.com/ohler55/slip"

	"verif/engine"
	"verif/lisp"
)

// ---------------------------------------------------------------- bounds

type boundsA struct {
	maxReq, maxOpt, maxKey int
	maxPairs               int // key/value pairs after the positional arguments
	vias                   []string
}

func boundsFor(tier string) boundsA {
	if tier == engine.Thorough {
		return boundsA{maxReq: 3, maxOpt: 2, maxKey: 3, maxPairs: 3, vias: []string{"defun", "funcall", "apply", "applysym"}}
	}
	return boundsA{maxReq: 2, maxOpt: 2, maxKey: 2, maxPairs: 3, vias: []string{"defun", "funcall", "apply", "applysym"}}
}

func boolVecs(n int) [][]bool {
	if n == 0 {
		return [][]bool{nil}
	}
	var out [][]bool
	for m := 0; m < 1<<n; m++ {
		v := make([]bool, n)
		for i := 0; i < n; i++ {
			v[i] = m&(1<<i) != 0
		}
		out = append(out, v)
	}
	return out
}

// shapes enumerates the lambda-list shapes, simplest first.
func shapes(b boundsA) []*shape {
	var out []*shape
	for req := 0; req <= b.maxReq; req++ {
		for no := 0; no <= b.maxOpt; no++ {
			for _, opt := range boolVecs(no) {
				for _, rest := range []bool{false, true} {
					for nk := 0; nk <= b.maxKey; nk++ {
						for _, key := range boolVecs(nk) {
							for _, aux := range []bool{false, true} {
								out = append(out, &shape{req: req, opt: opt, rest: rest, key: key, aux: aux})
							}
						}
					}
				}
			}
		}
	}
	sort.SliceStable(out, func(i, j int) bool { return out[i].weight() < out[j].weight() })
	return out
}

func (sh *shape) weight() int {
	w := sh.req + len(sh.opt) + len(sh.key)
	if sh.rest {
		w++
	}
	if sh.aux {
		w++
	}
	return w
}

// keySections enumerates the argument tails that follow the positional arguments:
//
//	(a) every sequence of <= maxPairs key/value pairs over the declared keys and the unknown key zz
//	    (repetitions = duplicates, every order), and every such sequence of < maxPairs pairs
//	    followed by a lone key without a value;
//	(b) every sequence of <= 2 pairs in which one pair uses an unknown key named like one of the
//	    function's own non-key parameters (first required / first optional / rest / first aux);
//
// without &key in the lambda list only the tails {}, {:zz v}, {:zz} are used (they are ordinary
// positional values there).
func keySections(sh *shape, maxPairs int) [][]string {
	var out [][]string
	if len(sh.key) == 0 {
		return [][]string{nil, {"zz", "v"}, {"zz"}}
	}
	var alpha []string
	for i := range sh.key {
		alpha = append(alpha, keyName(i))
	}
	alpha = append(alpha, "zz")
	var seqs [][]string // sequences of keys
	var rec func(cur []string)
	rec = func(cur []string) {
		seqs = append(seqs, append([]string(nil), cur...))
		if len(cur) == maxPairs {
			return
		}
		for _, k := range alpha {
			rec(append(cur, k))
		}
	}
	rec(nil)
	sort.SliceStable(seqs, func(i, j int) bool { return len(seqs[i]) < len(seqs[j]) })
	toArgs := func(keys []string, lone string) []string {
		var a []string
		for _, k := range keys {
			a = append(a, k, "v")
		}
		if lone != "" {
			a = append(a, lone)
		}
		return a
	}
	for _, s := range seqs {
		out = append(out, toArgs(s, ""))
	}
	for _, s := range seqs {
		if len(s) < maxPairs {
			out = append(out, toArgs(s, alpha[0]))
			out = append(out, toArgs(s, "zz"))
		}
	}
	var aliases []string
	if 0 < sh.req {
		aliases = append(aliases, reqNames[0])
	}
	if 0 < len(sh.opt) {
		aliases = append(aliases, optName(0))
	}
	if sh.rest {
		aliases = append(aliases, "r")
	}
	if sh.aux {
		aliases = append(aliases, "x1")
	}
	for _, al := range aliases {
		out = append(out, toArgs([]string{al}, ""))
		for _, k := range alpha {
			out = append(out, toArgs([]string{al, k}, ""))
			out = append(out, toArgs([]string{k, al}, ""))
		}
	}
	return out
}

// argVectors enumerates the argument vectors of one shape.
func argVectors(sh *shape, b boundsA, emit func(args string)) {
	maxPos := sh.req + len(sh.opt) + 2
	tails := keySections(sh, b.maxPairs)
	for p := 0; p <= maxPos; p++ {
		pos := make([]string, p)
		for i := range pos {
			pos[i] = "v"
		}
		for _, t := range tails {
			emit(strings.Join(append(append([]string(nil), pos...), t...), ","))
		}
		// (d) one positional argument is an explicit nil (a supplied nil is a value, not an absent argument)
		for j := 0; j < p; j++ {
			np := append([]string(nil), pos...)
			np[j] = "n"
			tl := [][]string{nil}
			if 0 < len(sh.key) {
				tl = append(tl, []string{keyName(0), "v"})
			}
			for _, t := range tl {
				emit(strings.Join(append(append([]string(nil), np...), t...), ","))
			}
		}
		// (e) a declared key is given an explicit nil: alone, before and after another pair, and as the first of a duplicate
		for ki := range sh.key {
			k := keyName(ki)
			other := keyName((ki + 1) % len(sh.key))
			for _, t := range [][]string{{k, "n"}, {k, "n", other, "v"}, {other, "v", k, "n"}, {k, "n", k, "v"}, {k, "v", k, "n"}} {
				emit(strings.Join(append(append([]string(nil), pos...), t...), ","))
			}
		}
		// (c) one positional argument is itself a keyword naming a declared key (positional first!)
		if 0 < len(sh.key) && 0 < p {
			for j := 0; j < p; j++ {
				kp := append([]string(nil), pos...)
				kp[j] = keyName(0)
				for _, t := range [][]string{nil, {keyName(0), "v"}, {keyName(len(sh.key) - 1), "v", "zz", "v"}} {
					emit(strings.Join(append(append([]string(nil), kp...), t...), ","))
				}
			}
		}
	}
}

func enumerateA(tier string, emit func(string)) {
	b := boundsFor(tier)
	for _, sh := range shapes(b) {
		code := sh.code()
		for _, via := range b.vias {
			argVectors(sh, b, func(args string) {
				emit("A|" + via + "|" + code + "|" + args)
			})
		}
	}
	// redefinition: the name is first defined with ANOTHER lambda list (a different number of required parameters,
	// the optional section flipped) and called once, then redefined with the shape under test: nothing of the
	// earlier definition (a cached count, a cached binding plan) may survive. Positional arguments only.
	for _, sh := range shapes(b) {
		code := sh.code()
		maxPos := sh.req + len(sh.opt) + 2
		for p := 0; p <= maxPos; p++ {
			pos := make([]string, p)
			for i := range pos {
				pos[i] = "v"
			}
			emit("A|redefun|" + code + "|" + strings.Join(pos, ","))
		}
	}
	// maprows: the function is called by a multi-list mapcar (which may hand every call the same argument buffer) with
	// TWO rows of arguments - the vector under test first, then the same vector with other numbers; the result of the
	// FIRST call is what is compared: nothing bound in one call (the &rest list above all) may be changed by the next.
	for _, sh := range shapes(b) {
		code := sh.code()
		argVectors(sh, boundsA{maxPairs: 2}, func(args string) {
			if args != "" {
				emit("A|maprows|" + code + "|" + args)
			}
		})
	}
	for _, s := range defaultFormCases {
		emit(s)
	}
}

// ---------------------------------------------------------------- execution

var nameCounter int64

// freshName: names come from a per-process counter but cycle through 256 values: slip never forgets a
// defun'd name (Package.lambdas keeps the entry after Undefine, 2.6 kB per name), a redefinition replaces
// the old entry completely, and every case undefines its function when it ends.
func freshName() string {
	return "c04f" + strconv.FormatInt(atomic.AddInt64(&nameCounter, 1)%256, 10)
}

func parseShape(f []string) *shape {
	req, _ := strconv.Atoi(f[0])
	return &shape{req: req, opt: parseFlags(f[1]), rest: f[2] == "1", key: parseFlags(f[3]), aux: f[4] == "1"}
}

func argTexts(args []arg) []string {
	out := make([]string, len(args))
	for i, a := range args {
		out[i] = a.text()
	}
	return out
}

// callFeatures names the special ingredients of a call (part of the signature).
func callFeatures(sh *shape, args []arg) []string {
	var fs []string
	add := func(s string) {
		for _, x := range fs {
			if x == s {
				return
			}
		}
		fs = append(fs, s)
	}
	npos := sh.req + len(sh.opt)
	names, kinds := sh.params()
	seen := map[string]bool{}
	if len(args) == 0 {
		add("no-args")
	}
	for i, a := range args {
		if a.kw == "" {
			continue
		}
		if i < npos {
			add("keyword-as-positional-value")
			continue
		}
		if len(sh.key) == 0 {
			add("keyword-without-&key")
			continue
		}
		isKeyParam := false
		for k := range sh.key {
			if keyName(k) == a.kw {
				isKeyParam = true
			}
		}
		switch {
		case isKeyParam:
			if seen[a.kw] {
				add("duplicate-key")
			}
			seen[a.kw] = true
		case a.kw == "zz":
			add("unknown-key")
		default:
			for j, n := range names {
				if n == a.kw {
					add("unknown-key-named-like-" + kinds[j])
				}
			}
		}
	}
	sort.Strings(fs)
	return fs
}

func execA(spec string) (res engine.Result) {
	f := strings.Split(spec, "|")
	if len(f) != 8 {
		res.Fail("harness:bad-spec", spec)
		return
	}
	via := f[1]
	sh := parseShape(f[2:7])
	args := parseArgs(f[7])
	exp := acceptable(sh, args)

	ll := sh.lambdaList()
	names, kinds := sh.params()
	body := "(tr 'in) (list " + strings.Join(names, " ") + ")"
	at := argTexts(args)
	name := freshName()
	scope := slip.NewScope()
	lisp.ResetTrace()
	var val slip.Object
	var err *lisp.Err
	var src string
	define := func() bool {
		def := "(defun " + name + " " + ll + " " + body + ")"
		src = def + " "
		if _, derr := lisp.EvalIn(scope, def); derr != nil {
			res.Fail("A via="+via+" kind=definition-rejected err="+derr.Class, def+" => "+derr.String())
			return false
		}
		return true
	}
	defer slip.UserPkg.Undefine(name)
	switch via {
	case "defun":
		if !define() {
			return
		}
		call := "(" + name + " " + strings.Join(at, " ") + ")"
		src += call
		val, err = lisp.EvalIn(scope, call)
	case "redefun":
		decoy := &shape{req: (sh.req + 1) % 4}
		if len(sh.opt) == 0 {
			decoy.opt = []bool{true}
		}
		dnames, _ := decoy.params()
		ddef := "(defun " + name + " " + decoy.lambdaList() + " (list " + strings.Join(dnames, " ") + "))"
		dargs := make([]string, decoy.req)
		for i := range dargs {
			dargs[i] = strconv.Itoa(900 + i)
		}
		dcall := "(" + name + " " + strings.Join(dargs, " ") + ")"
		if _, derr := lisp.EvalIn(scope, ddef); derr != nil {
			res.Fail("harness:decoy-definition-rejected", ddef+" => "+derr.String())
			return
		}
		if _, derr := lisp.EvalIn(scope, dcall); derr != nil {
			res.Fail("harness:decoy-call-rejected", ddef+" "+dcall+" => "+derr.String())
			return
		}
		lisp.ResetTrace()
		if !define() {
			return
		}
		res.Hit("A:redefined-with-another-lambda-list")
		call := "(" + name + " " + strings.Join(at, " ") + ")"
		src = ddef + " " + dcall + " " + src + call
		val, err = lisp.EvalIn(scope, call)
	case "applysym":
		if !define() {
			return
		}
		var call string
		if len(at) == 0 {
			call = "(apply '" + name + " nil)"
		} else {
			call = "(apply '" + name + " " + at[0] + " (list " + strings.Join(at[1:], " ") + "))"
		}
		src += call
		val, err = lisp.EvalIn(scope, call)
	case "maprows":
		if !define() {
			return
		}
		cols := make([]string, len(args))
		for i, a := range args {
			second := a.text()
			if a.kw == "" && !a.isNil {
				second = strconv.Itoa(a.val + 700)
			}
			cols[i] = "(list " + a.text() + " " + second + ")"
		}
		call := "(let ((rows (mapcar '" + name + " " + strings.Join(cols, " ") + "))) (tr 'after) (car rows))"
		src += call
		res.Hit("A:called-twice-by-a-multi-list-mapcar")
		val, err = lisp.EvalIn(scope, call)
	case "funcall":
		src = "(funcall (lambda " + ll + " " + body + ") " + strings.Join(at, " ") + ")"
		val, err = lisp.EvalIn(scope, src)
	case "apply":
		src = "(apply (lambda " + ll + " " + body + ") (list " + strings.Join(at, " ") + "))"
		val, err = lisp.EvalIn(scope, src)
	default:
		res.Fail("harness:bad-spec", spec)
		return
	}
	trace := lisp.Trace()
	bodyRan := 0 < len(trace)

	// vacuity counters
	res.Nontrivial = 0 < len(sh.opt) || sh.rest || 0 < len(sh.key) || sh.aux || len(args) != sh.req
	feats := callFeatures(sh, args)
	for _, ft := range feats {
		res.Hit("A:" + ft)
	}
	if len(args) < sh.req {
		res.Hit("A:too-few")
	}
	if exp.errReasons["too-many"] {
		res.Hit("A:too-many")
	}
	if exp.errReasons["odd-key-tail"] {
		res.Hit("A:odd-key-tail")
	}
	if 0 < len(exp.values) {
		res.Hit("A:valid-call")
		o := exp.values[0]
		for i, k := range kinds {
			switch {
			case k == "optional" && sh.opt[indexOfKind(kinds, i)] && o.vals[i] == strconv.Itoa(optDefaultBase+indexOfKind(kinds, i)):
				res.Hit("A:optional-default-used")
			case k == "key" && sh.key[indexOfKind(kinds, i)] && o.vals[i] == strconv.Itoa(keyDefaultBase+indexOfKind(kinds, i)):
				res.Hit("A:key-default-used")
			case k == "rest" && o.vals[i] != "nil":
				res.Hit("A:rest-nonempty")
			case k == "aux" && i == len(kinds)-1:
				res.Hit("A:aux")
			}
		}
		if keysOutOfOrder(sh, args) {
			res.Hit("A:keys-out-of-order")
		}
	}

	// observed
	var observed string
	switch {
	case err != nil && err.GoFault:
		observed = "GOFAULT"
	case err != nil:
		observed = "ERR"
	default:
		observed = lisp.Show(val)
	}
	res.Outcome = observed
	if err != nil {
		res.Outcome += ":" + err.Class
		if bodyRan {
			res.Outcome += ":body-ran"
		}
	}

	// the signature names the call's special ingredient only where it can explain the failure: an unknown
	// key named like one of the function's own parameters (wrong binding), a call without arguments (rejected call)
	sig := func(kind string) string {
		s := "A via=" + via + " kind=" + kind
		pf := primaryFeature(feats)
		switch {
		case strings.HasPrefix(pf, "unknown-key-named-like-") && (strings.HasPrefix(kind, "wrong-binding") || strings.HasPrefix(kind, "valid-call-rejected") || kind == "go-fault"):
			s += " call=" + pf
		case pf == "no-args" && strings.HasPrefix(kind, "valid-call-rejected"):
			s += " call=no-args"
		}
		return s
	}
	detail := func() string {
		got := observed
		if err != nil {
			got = "error " + err.String()
			if bodyRan {
				got += " (raised AFTER the body had started to run)"
			}
		}
		return fmt.Sprintf("%s => %s; required: %s", src, got, exp.describe())
	}
	reason := func() string {
		for _, r := range []string{"too-few", "too-many", "non-keyword-in-key-position", "odd-key-tail", "unknown-key"} {
			if exp.errReasons[r] {
				return r
			}
		}
		return "?"
	}
	switch {
	case err != nil && err.GoFault:
		res.Fail(sig("go-fault"), detail())
	case err != nil && exp.onlyError():
		// an error is required; for a wrong argument count it must reject the call, not surface from a body that ran
		if bodyRan && (exp.errReasons["too-few"] || exp.errReasons["too-many"]) {
			res.Fail(sig(reason()+"-not-rejected:body-ran-then-"+err.Class), detail())
		}
	case err != nil && exp.set["ERR"]:
		// acceptable (unknown key rejected)
	case err != nil:
		kind := "valid-call-rejected:" + err.Class
		if strings.Contains(strings.ToLower(err.Message), "arguments to "+via) {
			kind = "valid-call-rejected-by-" + via + "-itself"
		}
		res.Fail(sig(kind), detail())
	case exp.set[observed]:
		// fine
	case exp.onlyError():
		res.Fail(sig(reason()+"-accepted"), detail())
	default:
		res.Fail(sig("wrong-binding:"+diffBindings(sh, args, val, exp)), detail())
	}
	return
}

var featurePriority = []string{
	"unknown-key-named-like-required", "unknown-key-named-like-optional", "unknown-key-named-like-rest", "unknown-key-named-like-aux",
	"duplicate-key", "unknown-key", "keyword-as-positional-value", "keyword-without-&key", "no-args",
}

func primaryFeature(feats []string) string {
	for _, p := range featurePriority {
		for _, f := range feats {
			if f == p {
				return p
			}
		}
	}
	return "plain"
}

func indexOfKind(kinds []string, i int) int {
	n := 0
	for j := 0; j < i; j++ {
		if kinds[j] == kinds[i] {
			n++
		}
	}
	return n
}

func keysOutOfOrder(sh *shape, args []arg) bool {
	last := -1
	for i := sh.req + len(sh.opt); i < len(args); i++ {
		for k := range sh.key {
			if args[i].kw == keyName(k) {
				if k < last {
					return true
				}
				last = k
			}
		}
	}
	return false
}

// diffBindings names which parameter kinds are bound wrongly and what they hold instead, relative
// to the closest acceptable value outcome.
func diffBindings(sh *shape, args []arg, val slip.Object, exp *expectation) string {
	names, kinds := sh.params()
	list, ok := val.(slip.List)
	if !ok || len(list) != len(names) {
		return "result-shape"
	}
	got := make([]string, len(list))
	for i, v := range list {
		got[i] = lisp.Show(v)
	}
	best, bestN := -1, 1<<30
	for oi, o := range exp.values {
		n := 0
		for i := range names {
			if o.vals[i] != got[i] {
				n++
			}
		}
		if n < bestN {
			best, bestN = oi, n
		}
	}
	o := exp.values[best]
	set := map[string]bool{}
	for i := range names {
		if o.vals[i] == got[i] {
			continue
		}
		what := "other"
		switch {
		case got[i] == "nil":
			what = "nil"
		case kinds[i] == "optional" && got[i] == strconv.Itoa(optDefaultBase+indexOfKind(kinds, i)),
			kinds[i] == "key" && got[i] == strconv.Itoa(keyDefaultBase+indexOfKind(kinds, i)),
			kinds[i] == "aux" && got[i] == strconv.Itoa(auxValue):
			what = "its-default"
		case kinds[i] == "rest":
			what = "other-list"
			if _, isList := list[i].(slip.List); !isList {
				what = "non-list"
			}
		default:
			for _, a := range args {
				if a.text() == got[i] {
					what = "another-argument"
				}
			}
		}
		set[kinds[i]+"="+what] = true
	}
	var parts []string
	for k := range set {
		parts = append(parts, k)
	}
	sort.Strings(parts)
	return strings.Join(parts, ",")
}
