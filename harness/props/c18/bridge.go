//go:build verif

package c18

import (
	"encoding/json"
	"fmt"
	"math"
	"math/big"
	"strconv"
	"strings"
	"time"

	"github.com/ohler55/slip"

	"verif/engine"
	"verif/lisp"
)

// A Go value is written in the spec as JSON: null / true / false are
// themselves, arrays are []any, objects are map[string]any and every other
// scalar is a tagged string "~type:text".

var goScalarsAll = []string{
	`null`, `true`, `false`,
	`"~i64:0"`, `"~i64:-1"`, `"~i64:1"`, `"~i64:2147483648"`, `"~i64:9007199254740993"`,
	`"~i64:9223372036854775807"`, `"~i64:-9223372036854775808"`,
	`"~i:5"`, `"~i8:-128"`, `"~i16:32767"`, `"~i32:-2147483648"`,
	`"~u8:255"`, `"~u16:65535"`, `"~u32:4294967295"`, `"~u:7"`, `"~u:18446744073709551615"`,
	`"~u64:9223372036854775807"`, `"~u64:9223372036854775808"`, `"~u64:18446744073709551615"`,
	`"~f64:0"`, `"~f64:1.5"`, `"~f64:-2.5"`, `"~f64:1e300"`, `"~f64:5e-324"`, `"~f64:-0"`, `"~f64:+Inf"`,
	`"~f32:0.1"`, `"~f32:1.5"`,
	`"~s:"`, `"~s:a"`, `"~s:é"`, `"~s:\"\n\\"`, `"~s:true"`,
	`"~t:5000000007:0"`, `"~t:1700000000123456789:7200"`,
}

var goScalarsNested = []string{
	`null`, `true`, `false`, `"~i64:1"`, `"~i64:9223372036854775807"`, `"~u64:9223372036854775808"`,
	`"~f64:1.5"`, `"~s:a"`, `"~s:"`, `"~t:5000000007:0"`,
}

func enumerateGo(tier string, emit func(string)) {
	for _, s := range goScalarsAll {
		emit("go|" + s)
		emit("go|[" + s + "]")
		emit(`go|{"a":` + s + `}`)
	}
	budget := 4
	if tier == engine.Thorough {
		budget = 5
	}
	enumTrees(budget, goScalarsNested, []string{`"a"`}, func(text string, nodes int) {
		emit("go|" + text)
	})
}

type goScalar struct {
	val  any
	kind string
	n    *big.Int // integer value
}

func parseGoScalar(s string) (any, error) {
	if !strings.HasPrefix(s, "~") {
		return nil, fmt.Errorf("untagged string %q", s)
	}
	i := strings.IndexByte(s, ':')
	if i < 0 {
		return nil, fmt.Errorf("bad scalar %q", s)
	}
	typ, text := s[1:i], s[i+1:]
	switch typ {
	case "s":
		return text, nil
	case "t":
		ps := strings.Split(text, ":")
		ns, _ := strconv.ParseInt(ps[0], 10, 64)
		off, _ := strconv.Atoi(ps[1])
		t := time.Unix(0, ns)
		if off == 0 {
			return t.UTC(), nil
		}
		return t.In(time.FixedZone("x", off)), nil
	case "f64":
		f, err := strconv.ParseFloat(text, 64)
		return f, err
	case "f32":
		f, err := strconv.ParseFloat(text, 32)
		return float32(f), err
	}
	if strings.HasPrefix(typ, "u") {
		u, err := strconv.ParseUint(text, 10, 64)
		if err != nil {
			return nil, err
		}
		switch typ {
		case "u":
			return uint(u), nil
		case "u8":
			return uint8(u), nil
		case "u16":
			return uint16(u), nil
		case "u32":
			return uint32(u), nil
		case "u64":
			return u, nil
		}
	}
	n, err := strconv.ParseInt(text, 10, 64)
	if err != nil {
		return nil, err
	}
	switch typ {
	case "i":
		return int(n), nil
	case "i8":
		return int8(n), nil
	case "i16":
		return int16(n), nil
	case "i32":
		return int32(n), nil
	case "i64":
		return n, nil
	}
	return nil, fmt.Errorf("bad scalar type %q", typ)
}

func buildGo(v any) (any, error) {
	switch tv := v.(type) {
	case nil, bool:
		return v, nil
	case string:
		return parseGoScalar(tv)
	case []any:
		out := make([]any, len(tv))
		for i, e := range tv {
			x, err := buildGo(e)
			if err != nil {
				return nil, err
			}
			out[i] = x
		}
		return out, nil
	case map[string]any:
		out := make(map[string]any, len(tv))
		for k, e := range tv {
			x, err := buildGo(e)
			if err != nil {
				return nil, err
			}
			out[k] = x
		}
		return out, nil
	}
	return nil, fmt.Errorf("unexpected %T in a go-value spec", v)
}

func goInt(v any) (*big.Int, bool) {
	switch tv := v.(type) {
	case int:
		return big.NewInt(int64(tv)), true
	case int8:
		return big.NewInt(int64(tv)), true
	case int16:
		return big.NewInt(int64(tv)), true
	case int32:
		return big.NewInt(int64(tv)), true
	case int64:
		return big.NewInt(tv), true
	case uint:
		return new(big.Int).SetUint64(uint64(tv)), true
	case uint8:
		return new(big.Int).SetUint64(uint64(tv)), true
	case uint16:
		return new(big.Int).SetUint64(uint64(tv)), true
	case uint32:
		return new(big.Int).SetUint64(uint64(tv)), true
	case uint64:
		return new(big.Int).SetUint64(tv), true
	}
	return nil, false
}

func goKind(v any) string {
	if n, ok := goInt(v); ok {
		t := fmt.Sprintf("%T", v)
		if !n.IsInt64() {
			return t + ">=2^63"
		}
		return t
	}
	switch tv := v.(type) {
	case nil:
		return "nil"
	case bool:
		return strconv.FormatBool(tv)
	case float64:
		if math.IsInf(tv, 0) {
			return "float64-inf"
		}
		return "float64"
	case float32:
		return "float32"
	case string:
		return stringKind(tv)
	case time.Time:
		if tv.Location() == time.UTC {
			return "time-utc"
		}
		return "time-zoned"
	case []any:
		if len(tv) == 0 {
			return "empty-slice"
		}
		return "slice"
	case map[string]any:
		if len(tv) == 0 {
			return "empty-map"
		}
		return "map"
	}
	return fmt.Sprintf("go:%T", v)
}

func goClass(v any) string {
	if n, ok := goInt(v); ok {
		if n.Sign() < 0 {
			return "negative-integer"
		}
		return "integer"
	}
	switch tv := v.(type) {
	case nil:
		return "nil"
	case bool:
		return strconv.FormatBool(tv)
	case float64, float32:
		return "float"
	case string:
		return "string"
	case json.Number:
		return "number-text"
	case time.Time:
		return "time"
	case []any:
		return "slice"
	case map[string]any:
		return "map"
	}
	return fmt.Sprintf("go:%T", v)
}

// bridgeModel is the reference: the round trip is the identity. The mutated
// variants (self-test) each encode one realistic conversion bug.
type bridgeMutation int

const (
	bmNone bridgeMutation = iota
	bmFalseIsNil
	bmUint64Wraps
	bmFloat32ViaText
	bmMapDropsSecondKey
	bmTimeToSeconds
	bmEmptySliceIsNil
)

func bridgeModel(v any, m bridgeMutation) any {
	switch tv := v.(type) {
	case bool:
		if !tv && m == bmFalseIsNil {
			return nil
		}
	case uint64:
		if m == bmUint64Wraps {
			return int64(tv)
		}
	case uint:
		if m == bmUint64Wraps {
			return int64(tv)
		}
	case float32:
		if m == bmFloat32ViaText {
			f, _ := strconv.ParseFloat(strconv.FormatFloat(float64(tv), 'g', -1, 32), 64)
			return f
		}
	case time.Time:
		if m == bmTimeToSeconds {
			return time.Unix(tv.Unix(), 0).UTC()
		}
	case []any:
		if len(tv) == 0 && m == bmEmptySliceIsNil {
			return nil
		}
		out := make([]any, len(tv))
		for i, e := range tv {
			out[i] = bridgeModel(e, m)
		}
		return out
	case map[string]any:
		out := map[string]any{}
		for i, k := range sortedKeys(tv) {
			if m == bmMapDropsSecondKey && i == 1 {
				continue
			}
			out[k] = bridgeModel(tv[k], m)
		}
		return out
	}
	return v
}

// diffGo compares the original Go value with what came back.
func diffGo(want, got any, loc string, out *[]mismatch) {
	add := func(got2 string) {
		*out = append(*out, mismatch{loc: loc, kind: goKind(want), got: got2,
			what: fmt.Sprintf("at %s: put in %T %v, got back %T %v", loc, want, want, got, got)})
	}
	if n, ok := goInt(want); ok {
		// any faithful representation of the same integer is accepted
		if g, gok := goInt(got); gok {
			if g.Cmp(n) != 0 {
				add(goClass(got))
			}
			return
		}
		switch tg := got.(type) {
		case string:
			if tg != n.String() {
				add("string")
			}
		case json.Number:
			if string(tg) != n.String() {
				add("number-text")
			}
		case float64:
			if r := new(big.Rat).SetFloat64(tg); r == nil || !r.IsInt() || r.Num().Cmp(n) != 0 {
				add("float")
			}
		default:
			add(goClass(got))
		}
		return
	}
	switch tw := want.(type) {
	case nil:
		if got != nil {
			add(goClass(got))
		}
	case bool:
		if g, ok := got.(bool); !ok || g != tw {
			add(goClass(got))
		}
	case float64:
		switch tg := got.(type) {
		case float64:
			if tg != tw {
				add("other-float")
			}
		case float32:
			if float64(tg) != tw {
				add("other-float")
			}
		default:
			add(goClass(got))
		}
	case float32:
		switch tg := got.(type) {
		case float64:
			if tg != float64(tw) {
				add("other-float")
			}
		case float32:
			if tg != tw {
				add("other-float")
			}
		default:
			add(goClass(got))
		}
	case string:
		if g, ok := got.(string); !ok || g != tw {
			add(goClass(got))
		}
	case time.Time:
		if g, ok := got.(time.Time); !ok {
			add(goClass(got))
		} else if !g.Equal(tw) {
			add("other-instant")
		}
	case []any:
		g, ok := got.([]any)
		if !ok {
			add(goClass(got))
			return
		}
		if len(g) != len(tw) {
			add("slice-of-other-length")
			return
		}
		for i := range tw {
			diffGo(tw[i], g[i], fmt.Sprintf("%s[%d]", loc, i), out)
		}
	case map[string]any:
		// accepted: a map with the same members, or the association-list
		// image slip documents for Simplify (a slice of [key value] pairs in
		// any order, every key once)
		var gm map[string]any
		switch tg := got.(type) {
		case map[string]any:
			gm = tg
		case []any:
			gm = map[string]any{}
			for _, e := range tg {
				pair, ok := e.([]any)
				if !ok || len(pair) != 2 {
					add("slice-not-of-pairs")
					return
				}
				k, ok := pair[0].(string)
				if !ok {
					add("slice-not-of-pairs")
					return
				}
				if _, dup := gm[k]; dup {
					add("pairs-with-duplicate-key")
					return
				}
				gm[k] = pair[1]
			}
		default:
			add(goClass(got))
			return
		}
		for _, k := range sortedKeys(tw) {
			gv, has := gm[k]
			if !has {
				*out = append(*out, mismatch{loc: loc + "." + k, kind: "map-member", got: "absent", what: fmt.Sprintf("at %s: member %q is gone", loc, k)})
				continue
			}
			diffGo(tw[k], gv, loc+"."+k, out)
		}
		for _, k := range sortedKeys(gm) {
			if _, has := tw[k]; !has {
				*out = append(*out, mismatch{loc: loc + "." + k, kind: "absent", got: "extra-member", what: fmt.Sprintf("at %s: member %q appeared", loc, k)})
			}
		}
	default:
		add(goClass(got))
	}
}

func execGo(spec string) (res engine.Result) {
	raw, derr := decodeJSON(strings.TrimPrefix(spec, "go|"))
	if derr != nil {
		res.Fail("harness:bad-go-spec", spec+": "+derr.Error())
		return
	}
	val, berr := buildGo(raw)
	if berr != nil {
		res.Fail("harness:bad-go-spec", spec+": "+berr.Error())
		return
	}
	var scan func(v any, depth int)
	scan = func(v any, depth int) {
		switch tv := v.(type) {
		case []any:
			if 0 < depth {
				res.Hit("go-nested")
			}
			for _, e := range tv {
				scan(e, depth+1)
			}
		case map[string]any:
			res.Hit("go-map")
			if 0 < depth {
				res.Hit("go-nested")
			}
			for _, e := range tv {
				scan(e, depth+1)
			}
		case time.Time:
			res.Hit("go-time")
		case bool:
			if !tv {
				res.Hit("go-false")
			}
		case uint64, uint:
			if n, _ := goInt(tv); !n.IsInt64() {
				res.Hit("go-uint-high")
			}
		case float32, float64:
			res.Hit("go-float")
		}
	}
	scan(val, 0)
	switch tv := val.(type) {
	case nil, string:
		res.Nontrivial = false
	case bool:
		res.Nontrivial = !tv
	case int64:
		res.Nontrivial = tv < -(1<<53) || 1<<53 < tv
	default:
		res.Nontrivial = true
	}
	orig := fmt.Sprintf("%#v", val)
	var obj slip.Object
	var back any
	var fault *lisp.Err
	func() {
		defer func() {
			if rec := recover(); rec != nil {
				fault = lisp.ErrFromRecovered(rec)
			}
		}()
		obj = slip.SimpleObject(val)
		back = slip.Simplify(obj)
	}()
	if fault != nil {
		res.Fail("stage=go-bridge kind="+goKind(val)+" got="+errKind(fault), fmt.Sprintf("Simplify(SimpleObject(%s)) => %s", trunc(orig, 200), fault.String()))
		res.Outcome = "fault"
		return
	}
	var ms []mismatch
	diffGo(val, back, "$", &ms)
	failDiffs(&res, "stage=go-bridge", ms, fmt.Sprintf("Simplify(SimpleObject(%s)) = %s via Lisp object %s", trunc(orig, 200), trunc(fmt.Sprintf("%#v", back), 200), trunc(lisp.Show(obj), 120)))
	if after := fmt.Sprintf("%#v", val); after != orig {
		res.Fail("stage=go-bridge kind=mutates-input", "input was "+trunc(orig, 200)+", now "+trunc(after, 200))
	}
	res.Outcome = trunc(fmt.Sprintf("%T|%s", back, lisp.Show(obj)), 300)
	return
}
