//go:build verif

package c19

// Oracle-sensitivity self-test (S6). The oracle is differential (original
// object / session against what the saved text rebuilds), so a "mutated
// reference" is a mutated save path: the text slip produced is rewritten the
// way a realistic defect in LoadForm, the pretty printer or the snapshot
// writer would have produced it, before it is read back. The case set must
// report, for every mutator, at least one failure signature that the same
// cases do not report on the unmutated text.

import (
	"fmt"
	"regexp"
	"sort"
	"strings"

	"verif/engine"
)

// matching returns the index just after the form starting at text[i]=='('.
func matching(text string, i int) int {
	depth := 0
	for k := i; k < len(text); k++ {
		switch text[k] {
		case '"':
			k++
			for k < len(text) && text[k] != '"' {
				if text[k] == '\\' {
					k++
				}
				k++
			}
		case ';':
			for k < len(text) && text[k] != '\n' {
				k++
			}
		case '(':
			depth++
		case ')':
			depth--
			if depth == 0 {
				return k + 1
			}
		}
	}
	return len(text)
}

func dropForm(text, head string, which int) string {
	idx := -1
	from := 0
	for n := 0; n <= which; n++ {
		j := strings.Index(text[from:], head)
		if j < 0 {
			if n == 0 {
				return text
			}
			break
		}
		idx = from + j
		from = idx + len(head)
	}
	if idx < 0 {
		return text
	}
	end := matching(text, idx)
	return text[:idx] + text[end:]
}

var floatRe = regexp.MustCompile(`([0-9]+\.[0-9]{4})[0-9]+`)

type lfMutant struct {
	name  string
	cases []string
	fn    func(kind, text string) string
}

// mutantAlready (by mutant name, optional): when the tree under test itself has the defect the mutant models, the
// unmutated run reports it already and the mutated run can add nothing: a base signature containing this text counts
// as distinguished.
var mutantAlready = map[string]string{}

var lfMutants = []lfMutant{
	{"wrapped layout drops its last element", []string{"list:14:fix", "vec:14:str", "lambda:long-call", "defun:let-long", "call:14:long"},
		func(kind, text string) string {
			if strings.Count(text, "\n") < 2 {
				return text
			}
			t := strings.TrimRight(text, ")\n ")
			k := strings.LastIndexAny(t, " \n(")
			if k < 0 {
				return text
			}
			return t[:k+1] + text[len(t):]
		}},
	{"let layout drops the last binding", []string{"lambda:let", "defun:let-star", "call:4:let", "flavor-instance:fix"},
		func(kind, text string) string {
			i := strings.Index(text, "(let")
			if i < 0 {
				return text
			}
			b := strings.Index(text[i:], "(")
			b2 := strings.Index(text[i+b+1:], "(") // the bindings list
			if b2 < 0 {
				return text
			}
			start := i + b + 1 + b2
			end := matching(text, start)
			// last binding inside text[start:end]
			inner := text[start+1 : end-1]
			k := strings.LastIndex(inner, "(")
			if k <= 0 {
				return text
			}
			// walk back to the start of the last top level binding
			depth := 0
			last := -1
			for p := 0; p < len(inner); p++ {
				switch inner[p] {
				case '"':
					p++
					for p < len(inner) && inner[p] != '"' {
						if inner[p] == '\\' {
							p++
						}
						p++
					}
				case '(':
					if depth == 0 {
						last = p
					}
					depth++
				case ')':
					depth--
				}
			}
			if last <= 0 {
				return text
			}
			return text[:start+1] + strings.TrimRight(inner[:last], " \n") + text[end-1:]
		}},
	{"hash table load form omits an entry", []string{"hash:many", "hash:key:str", "hash:val:fix"},
		func(kind, text string) string {
			if kind != "hash-table" {
				return text
			}
			return dropForm(text, "(setf", 0)
		}},
	{"generic load form loses the :around methods", []string{"generic:qualifiers", "generic:around-only-on-t"},
		func(kind, text string) string {
			for {
				i := strings.Index(text, ":around")
				if i < 0 {
					return text
				}
				j := strings.LastIndex(text[:i], "(:method")
				if j < 0 {
					return text
				}
				text = text[:j] + text[matching(text, j):]
			}
		}},
	{"printer forgets to escape backslashes in strings", []string{"str:4:backslash", "list:2:str-esc", "lambda:string-esc", "call:21:string-esc"},
		func(kind, text string) string { return strings.ReplaceAll(text, `\\`, `\`) }},
	{"floats printed with 4 fraction digits", []string{"num:123456789.125", "num:0.1", "list:2:dbl-tenth", "lambda:numbers", "num:1.23456789012345678901234567890L20"},
		func(kind, text string) string { return floatRe.ReplaceAllString(text, "$1") }},
	{"flavor load form loses :settable-instance-variables", []string{"flavor:all-accessors", "flavor:some-settable", "flavor:many-vars"},
		func(kind, text string) string {
			if kind != "flavor" {
				return text
			}
			text = strings.ReplaceAll(text, ":settable-instance-variables", ":gettable-instance-variables")
			return text
		}},
	{"defclass load form drops :initform of the last slot", []string{"class:initarg-initform", "class:many-slots", "class:inherit"},
		func(kind, text string) string {
			if kind != "class" {
				return text
			}
			i := strings.LastIndex(text, ":initform")
			if i < 0 {
				return text
			}
			// drop the keyword and the value token
			rest := strings.TrimLeft(text[i+len(":initform"):], " \n")
			k := 0
			if strings.HasPrefix(rest, "(") {
				k = matching(rest, 0)
			} else if strings.HasPrefix(rest, `"`) {
				k = 1 + strings.Index(rest[1:], `"`) + 1
			} else {
				k = strings.IndexAny(rest, " \n)")
			}
			return text[:i] + rest[k:]
		}},
	{"documentation string truncated when it wraps", []string{"lambda:doc-long", "defun:doc-long", "generic:long-bodies", "class:documentation-long"},
		func(kind, text string) string {
			i := strings.Index(text, `"Doc`)
			if i < 0 {
				return text
			}
			j := strings.Index(text[i+1:], `"`)
			doc := text[i : i+1+j+1]
			if k := strings.Index(doc, "\n"); 0 < k {
				return text[:i] + doc[:k] + `"` + text[i+1+j+1:]
			}
			return text
		}},
}

// leafForm finds the defining form (head = "(defflavor " / "(defclass ") of the leaf of an inheritance world: the
// definition whose name ends in "l" (inherit.go names the levels ...b, ...m, ...l).
func leafForm(text, head string) (start, end int) {
	from := 0
	for {
		i := strings.Index(text[from:], head)
		if i < 0 {
			return -1, -1
		}
		i += from
		rest := text[i+len(head):]
		k := strings.IndexAny(rest, " \n")
		if 0 < k && strings.HasSuffix(rest[:k], "l") {
			return i, matching(text, i)
		}
		from = i + len(head)
	}
}

var flavorVarRe = regexp.MustCompile(`\(v\s+[^()\s]+\)`)
var classSlotRe = regexp.MustCompile(`\(s\s+:initform\s+[^()\s]+\)`)

// dropRepeatedInLeaf: a writer that leaves a binding out of the leaf's form when ANY other definition of the text
// has the same binding (the correct rule looks at the nearest definition that has one).
func dropRepeatedInLeaf(text, head string, re *regexp.Regexp) string {
	i, j := leafForm(text, head)
	if i < 0 {
		return text
	}
	leaf := text[i:j]
	loc := re.FindStringIndex(leaf)
	if loc == nil {
		return text
	}
	binding := strings.Join(strings.Fields(leaf[loc[0]:loc[1]]), " ")
	others := text[:i] + text[j:]
	for _, m := range re.FindAllString(others, -1) {
		if strings.Join(strings.Fields(m), " ") == binding {
			return text[:i] + leaf[:loc[0]] + leaf[loc[1]:] + text[j:]
		}
	}
	return text
}

func init() {
	lfMutants = append(lfMutants,
		lfMutant{"defflavor load form leaves a variable out when ANY component (not the nearest one that has it) gives the same default",
			[]string{"inh:fl:default:chain:num:aba", "inh:fl:default:mixin:sym:bab", "inh:fl:default:chain:num:aab", "inh:fl:default:chain:num:a-a"},
			func(kind, text string) string {
				if kind != "flavor" {
					return text
				}
				return dropRepeatedInLeaf(text, "(defflavor ", flavorVarRe)
			}},
		lfMutant{"defclass load form leaves a slot out when an ancestor has the same slot description",
			[]string{"inh:cl:initform:chain:num:aba", "inh:cl:initform:mixin:num:bab", "inh:cl:initform:chain:num:a-a"},
			func(kind, text string) string {
				if kind != "class" {
					return text
				}
				return dropRepeatedInLeaf(text, "(defclass ", classSlotRe)
			}},
		lfMutant{"defgeneric load form writes one method per class chain: the leaf's method is left out when it has the body of an ancestor's",
			[]string{"inh:cl:generic-method:chain:x:aba", "inh:cl:generic-method:mixin:x:bab"},
			func(kind, text string) string {
				if kind != "generic" {
					return text
				}
				// (:method ((o ...l)) BODY) of the leaf: dropped when another (:method ...) has the same body text
				from := 0
				for {
					i := strings.Index(text[from:], "(:method")
					if i < 0 {
						return text
					}
					i += from
					j := matching(text, i)
					m := text[i:j]
					k := strings.Index(m, "))")
					if 0 < k && strings.HasSuffix(m[:k], "l") {
						body := strings.Join(strings.Fields(m[k+2:]), " ")
						if strings.Contains(strings.Join(strings.Fields(text[:i]+text[j:]), " "), body) {
							return text[:i] + text[j:]
						}
						return text
					}
					from = j
				}
			}})
	snapMutants = append(snapMutants,
		snapMutant{"snapshot leaves a flavor variable out when ANY component gives the same default",
			[]string{"snap|inh:fl:default:chain:num:aba", "snap|inh:fl:default:mixin:sym:bab"},
			func(text string) string { return dropRepeatedInLeaf(text, "(defflavor ", flavorVarRe) }},
		snapMutant{"snapshot leaves a slot out of a defclass form when an ancestor has the same slot description",
			[]string{"snap|inh:cl:initform:chain:num:aba"},
			func(text string) string { return dropRepeatedInLeaf(text, "(defclass ", classSlotRe) }})
	for _, m := range lfMutants[len(lfMutants)-3:] {
		switch {
		case strings.HasPrefix(m.name, "defflavor"):
			mutantAlready[m.name] = "probe-differs:value-of-v"
		case strings.HasPrefix(m.name, "defclass"):
			mutantAlready[m.name] = "probe-differs:value-of-s"
		default:
			mutantAlready[m.name] = "probe-differs:method-result"
		}
	}
	mutantAlready[snapMutants[len(snapMutants)-2].name] = "probe=value-of-v"
	mutantAlready[snapMutants[len(snapMutants)-1].name] = "probe=value-of-s"
}

func init() {
	lfMutants = append(lfMutants,
		lfMutant{"defclass / define-condition load form leaves an option out when its VALUE is nil",
			[]string{"ov:class:initform:nil", "ov:condition:initform:nil", "ov:class:initform:number", "ov:class:default-initargs:nil"},
			func(kind, text string) string {
				if kind != "class" {
					return text
				}
				return optNilRe.ReplaceAllString(text, "")
			}},
		lfMutant{"defun load form writes a parameter without its default when the default is 0 or the empty string",
			[]string{"ov:defun:optional-default:zero", "ov:defun:key-default:empty-string", "ov:defun:optional-default:number"},
			func(kind, text string) string {
				if kind != "defun" {
					return text
				}
				return falsyDefaultRe.ReplaceAllString(text, "$1")
			}},
		lfMutant{"every qualified method of a generic function is written with the lambda list of the primary method",
			[]string{"generic:qualifier-own-defaults", "generic:qualifier-own-parameter-names"},
			func(kind, text string) string {
				if kind != "generic" {
					return text
				}
				text = qualDefaultRe.ReplaceAllString(text, "${1}7)")
				return qualParamRe.ReplaceAllString(text, "((a${1}fixnum))")
			}})
	mutantAlready[lfMutants[len(lfMutants)-3].name] = "bound-s-of-new-instance"
	mutantAlready[lfMutants[len(lfMutants)-2].name] = "probe-differs:default-of"
	// the tree as it is has this defect (Aux.LoadForm, one lambda list per specializer key)
	mutantAlready[lfMutants[len(lfMutants)-1].name] = "feat=qualifier-own-"
	snapMutants = append(snapMutants,
		snapMutant{"snapshot leaves :initform out of a defclass form when the init form is nil",
			[]string{"snap|ov:class:initform:nil", "snap|ov:class:initform:t"},
			func(text string) string { return optNilRe.ReplaceAllString(text, "") }},
		snapMutant{"snapshot writes a macro after the function that uses it",
			[]string{"snap|macro-user-sorts-last"},
			func(text string) string {
				i := strings.Index(text, "(defmacro ab-quote")
				j := strings.Index(text, "(defun zy-user")
				if i < 0 || j < 0 || j < i {
					return text
				}
				ei, ej := matching(text, i), matching(text, j)
				return text[:i] + text[j:ej] + text[ei:j] + text[i:ei] + text[ej:]
			}},
		snapMutant{"snapshot writes no value for a variable whose value is nil",
			[]string{"snap|ov:defvar:value:nil", "snap|ov:defparameter:value:nil"},
			func(text string) string { return setqNilRe.ReplaceAllString(text, "") }})
	mutantAlready[snapMutants[len(snapMutants)-3].name] = "bound-s-of-new-instance"
	mutantAlready[snapMutants[len(snapMutants)-2].name] = "probe=function-using-macro"
	mutantAlready[snapMutants[len(snapMutants)-1].name] = "probe=bound"
}

var qualDefaultRe = regexp.MustCompile(`(\(b\s+)(9|11|13)\)`)
var qualParamRe = regexp.MustCompile(`\(\([xy](\s+)fixnum\)\)`)
var optNilRe = regexp.MustCompile(`\s+:(initform|s)\s+nil\b`)
var falsyDefaultRe = regexp.MustCompile(`\(([xk])\s+(0|"")\)`)
var setqNilRe = regexp.MustCompile(`\(setq common-lisp-user::\*ov-v\* nil\)`)

type snapMutant struct {
	name     string
	sessions []string
	fn       func(text string) string
}

var snapMutants = []snapMutant{
	{"snapshot omits the value of the last user variable", []string{"snap|defvar", "snap|defparameter,data-vars"},
		func(text string) string {
			i := strings.LastIndex(text, "(setq common-lisp-user::")
			if i < 0 {
				return text
			}
			return text[:i] + text[matching(text, i):]
		}},
	{"snapshot saves macros as functions", []string{"snap|defmacro"},
		func(text string) string { return strings.ReplaceAll(text, "(defmacro ", "(defun ") }},
	{"snapshot writes the derived flavor before its base", []string{"snap|flavor-tree"},
		func(text string) string {
			i := strings.Index(text, "(defflavor flz")
			j := strings.Index(text, "(defflavor fla")
			if i < 0 || j < 0 || j < i {
				return text
			}
			ei, ej := matching(text, i), matching(text, j)
			return text[:i] + text[j:ej] + text[ei:j] + text[i:ei] + text[ej:]
		}},
	{"snapshot drops &optional defaults of functions", []string{"snap|defun,defun-calls"},
		func(text string) string { return strings.ReplaceAll(text, "(y 3)", "y") }},
}

func alreadyIn(base map[string]bool, part string) string {
	if part == "" {
		return ""
	}
	for sig := range base {
		if strings.Contains(sig, part) {
			return sig
		}
	}
	return ""
}

func selftest(tier string) (killed, total int, notes []string) {
	sigsOf := func(labels []string) map[string]bool {
		m := map[string]bool{}
		for _, l := range labels {
			c := lfCaseOf(l)
			if c == nil {
				m["harness:selftest-unknown-case "+l] = true
				continue
			}
			var r engine.Result
			execLF(c, &r)
			for _, f := range r.Failures {
				m[f.Sig] = true
			}
		}
		return m
	}
	newSigs := func(base, mut map[string]bool) []string {
		var out []string
		for s := range mut {
			if !base[s] {
				out = append(out, s)
			}
		}
		sort.Strings(out)
		return out
	}
	for _, m := range lfMutants {
		total++
		textMutator = nil
		base := sigsOf(m.cases)
		textMutator = m.fn
		mut := sigsOf(m.cases)
		textMutator = nil
		if ns := newSigs(base, mut); 0 < len(ns) {
			killed++
			notes = append(notes, fmt.Sprintf("killed: %s (%d new signatures, e.g. %s)", m.name, len(ns), ns[0]))
		} else if sig := alreadyIn(base, mutantAlready[m.name]); sig != "" {
			killed++
			notes = append(notes, fmt.Sprintf("killed: %s (the tree under test already fails that way without the mutation: %s)", m.name, sig))
		} else {
			notes = append(notes, "SURVIVED: "+m.name)
		}
	}
	snapSigs := func(specs []string) map[string]bool {
		m := map[string]bool{}
		for _, s := range specs {
			var r engine.Result
			execSnap(s, &r)
			for _, f := range r.Failures {
				m[f.Sig] = true
			}
		}
		return m
	}
	for _, m := range snapMutants {
		total++
		snapMutator = nil
		base := snapSigs(m.sessions)
		snapMutator = m.fn
		mut := snapSigs(m.sessions)
		snapMutator = nil
		if ns := newSigs(base, mut); 0 < len(ns) {
			killed++
			notes = append(notes, fmt.Sprintf("killed: %s (%d new signatures, e.g. %s)", m.name, len(ns), ns[0]))
		} else if sig := alreadyIn(base, mutantAlready[m.name]); sig != "" {
			killed++
			notes = append(notes, fmt.Sprintf("killed: %s (the tree under test already fails that way without the mutation: %s)", m.name, sig))
		} else {
			notes = append(notes, "SURVIVED: "+m.name)
		}
	}
	return
}
