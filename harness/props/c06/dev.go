package c06

import (
	"fmt"
	"sort"
	"strings"

	"verif/engine"
)

// devSweep (development aid, spec "dev:<group or family prefix>"): runs, in this process, every history [new] and
// [core, new] whose last operation is a second-generation operation matching the filter, on the real interpreter, and
// prints the failures grouped by signature together with the hit counters that stayed at zero.
func devSweep(filter string) (res engine.Result) {
	core := opsOf(alphabet("core"))
	var news []*opDef
	for _, o := range allOps {
		if o.group != "" && (filter == "" || o.group == filter || strings.HasPrefix(o.name, filter)) {
			news = append(news, o)
		}
	}
	type agg struct {
		n      int
		detail string
	}
	sigs := map[string]*agg{}
	counters := map[string]int{}
	judged := 0
	run := func(h []*opDef) {
		if mentions(h[0], 2) {
			return
		}
		r := runHistory(&slipImpl{}, h, false)
		if r.Outcome == "inapplicable" || r.Outcome == "prefix-error" || r.Outcome == "prefix-malformed" {
			return
		}
		judged++
		for k, v := range r.Counters {
			counters[k] += v
		}
		for _, f := range r.Failures {
			a := sigs[f.Sig]
			if a == nil {
				a = &agg{detail: f.Detail}
				sigs[f.Sig] = a
			}
			a.n++
		}
	}
	for _, o := range news {
		run([]*opDef{o})
		for _, c := range core {
			run([]*opDef{c, o})
		}
	}
	var lines []string
	for s, a := range sigs {
		lines = append(lines, fmt.Sprintf("%6d  %s\n        %s", a.n, s, a.detail))
	}
	sort.Strings(lines)
	var zero []string
	for _, c := range requiredCounters() {
		if counters[c] == 0 && (filter == "" || strings.Contains(c, ":"+filter)) {
			zero = append(zero, c)
		}
	}
	res.Outcome = fmt.Sprintf("\nops=%d judged=%d signatures=%d\n%s\nZERO COUNTERS: %s", len(news), judged, len(sigs), strings.Join(lines, "\n"), strings.Join(zero, " "))
	return
}

// requiredCounters: the vacuity guards - the four of the earlier rounds, one per family of the second generation
// (judged at least once without an error) and one per keyword variant (the keyword changed the result at least once).
func requiredCounters() []string {
	out := []string{"judged", "shared-backing", "destructive-on-shared", "extend-with-spare-cap"}
	seen := map[string]bool{}
	for _, o := range allOps {
		if o.group == "" || !o.quick || seen[o.name] {
			continue
		}
		seen[o.name] = true
		out = append(out, "fam:"+o.name)
		if o.base != nil && o.want != nil {
			out = append(out, "kw:"+o.name)
		}
	}
	return out
}
