package c15

import (
	"fmt"
	"math/big"
	"strings"
	"unicode"
	"unicode/utf8"
)

// ---------------------------------------------------------------------------
// Reference renderer for the documented format directives, written from the
// directive definitions (slip's FuncDoc text of `format`, which follows the
// Common Lisp definitions). It never looks at slip's implementation. Where the
// definitions leave a choice (S2) the renderer consults a *variant flag*; the
// oracle accepts slip's text when ANY combination of the consulted flags
// reproduces it.

// Val is an argument as the reference sees it.
type Val struct {
	Kind byte // 'i' integer, 's' string, 'c' character, 'l' list (also nil), 'o' anything else
	I    *big.Int
	S    string
	C    rune
	L    []*Val
	Ref  any // opaque handle for the princ/prin1 callbacks (the slip object)
}

func (v *Val) isNil() bool { return v.Kind == 'l' && len(v.L) == 0 }

// Variant flags (S2 decisions).
const (
	vfAmpStart  = 1 << iota // ~& at the very start of the output emits a newline (no "previous character")
	vfTabSlip               // ~colnum,colincT: colnum counts columns of width colinc (slip's documentation)
	vfTabStay               // ~T with the cursor exactly at colnum outputs nothing
	vfAtStarOne             // bare ~@* goes to argument 1 (slip's doc: "default value of n is 1")
	vfHexUpper              // digits above 9 in upper case
	vfHyphen                // "twenty-one" instead of "twenty one"
	vfMinus                 // "minus" instead of "negative"
)

// Mutations of the reference used by the oracle-sensitivity self-test (S6).
const (
	refMutNone = iota
	refMutCommaInterval
	refMutSignDroppedWhenPadded
	refMutTeens
	refMutBackupTwo
	refMutDefaultClauseIgnored
	refMutIterMaxOffByOne
	refMutOrdinalTens
	// not a self-test mutant: the hypothesis "~R ignores its prefix parameters (v still consumes)" used to
	// name defect D5 by its cause
	refMutRadixIgnored
)

// Ref is one configured reference renderer.
type Ref struct {
	Princ    func(v *Val) string
	Prin1    func(v *Val) string
	CharName func(c rune) string // name used by ~:C for a non-graphic character
	Mask     uint32              // variant choices
	Touched  uint32              // variant flags consulted during the last Format
	Mut      int
}

type undefined struct{ why string }

func undef(format string, a ...any) { panic(undefined{fmt.Sprintf(format, a...)}) }

func (r *Ref) flag(f uint32) bool {
	r.Touched |= f
	return r.Mask&f != 0
}

// Format renders control with args. ok=false means the definitions do not
// determine a text for this call (wrong argument type, not enough arguments,
// directive outside the documented subset ...); why says which.
func (r *Ref) Format(control string, args []*Val) (text string, ok bool, why string) {
	r.Touched = 0
	defer func() {
		if rec := recover(); rec != nil {
			if u, isU := rec.(undefined); isU {
				text, ok, why = "", false, u.why
				return
			}
			panic(rec)
		}
	}()
	nodes := parseControl(control)
	var out []byte
	r.run(nodes, &actx{args: args}, &out)
	return string(out), true, ""
}

// ------------------------------------------------------------------ parser

type param struct {
	kind byte // 0 omitted, 'n' integer, 'c' character, 'v', '#'
	n    int
	c    rune
}

type node struct {
	lit         string
	ch          byte // directive character (upper case); 0 = literal text
	params      []param
	colon, at   bool
	body        []*node   // ~( ~{
	clauses     [][]*node // ~[
	defaultLast bool      // the last clause was introduced by ~:;
	closeColon  bool      // ~:}
}

type parser struct {
	s   string
	pos int
}

func parseControl(s string) []*node {
	p := &parser{s: s}
	nodes, term := p.seq()
	if term != nil {
		undef("parse: unbalanced ~%c", term.ch)
	}
	return nodes
}

// seq parses until the end or a closing/separator directive, which is returned.
func (p *parser) seq() (nodes []*node, term *node) {
	for p.pos < len(p.s) {
		if p.s[p.pos] != '~' {
			start := p.pos
			for p.pos < len(p.s) && p.s[p.pos] != '~' {
				p.pos++
			}
			nodes = append(nodes, &node{lit: p.s[start:p.pos]})
			continue
		}
		n := p.directive()
		switch n.ch {
		case ')', ']', '}', ';':
			return nodes, n
		case '(':
			var t *node
			n.body, t = p.seq()
			if t == nil || t.ch != ')' {
				undef("parse: ~( not closed by ~)")
			}
			if t.colon || t.at || 0 < len(t.params) {
				undef("parse: modifiers on ~)")
			}
		case '{':
			var t *node
			n.body, t = p.seq()
			if t == nil || t.ch != '}' {
				undef("parse: ~{ not closed by ~}")
			}
			if t.at || 0 < len(t.params) {
				undef("parse: @ or parameters on ~}")
			}
			n.closeColon = t.colon
		case '[':
			for {
				clause, t := p.seq()
				n.clauses = append(n.clauses, clause)
				if t == nil {
					undef("parse: ~[ not closed by ~]")
				}
				if t.ch == ']' {
					if t.colon || t.at || 0 < len(t.params) {
						undef("parse: modifiers on ~]")
					}
					break
				}
				if t.ch != ';' {
					undef("parse: ~[ closed by ~%c", t.ch)
				}
				if n.defaultLast {
					undef("parse: ~:; is not the last separator")
				}
				if t.at || 0 < len(t.params) {
					undef("parse: @ or parameters on ~;")
				}
				if t.colon {
					n.defaultLast = true
				}
			}
		}
		nodes = append(nodes, n)
	}
	return nodes, nil
}

func (p *parser) directive() *node {
	n := &node{}
	p.pos++ // ~
	// prefix parameters
	expectParam := true
	for p.pos < len(p.s) {
		b := p.s[p.pos]
		switch {
		case b == ',':
			if expectParam {
				n.params = append(n.params, param{})
			}
			expectParam = true
			p.pos++
			continue
		case !expectParam:
		case b == '\'':
			p.pos++
			if len(p.s) <= p.pos {
				undef("parse: control ends inside a parameter")
			}
			c, size := utf8.DecodeRuneInString(p.s[p.pos:])
			p.pos += size
			n.params = append(n.params, param{kind: 'c', c: c})
			expectParam = false
			continue
		case b == 'v' || b == 'V':
			p.pos++
			n.params = append(n.params, param{kind: 'v'})
			expectParam = false
			continue
		case b == '#':
			p.pos++
			n.params = append(n.params, param{kind: '#'})
			expectParam = false
			continue
		case b == '-' || b == '+' || ('0' <= b && b <= '9'):
			start := p.pos
			p.pos++
			for p.pos < len(p.s) && '0' <= p.s[p.pos] && p.s[p.pos] <= '9' {
				p.pos++
			}
			var v int
			if _, err := fmt.Sscanf(p.s[start:p.pos], "%d", &v); err != nil {
				undef("parse: bad numeric parameter %q", p.s[start:p.pos])
			}
			n.params = append(n.params, param{kind: 'n', n: v})
			expectParam = false
			continue
		}
		break
	}
	// a trailing comma means a trailing omitted parameter: harmless.
	for p.pos < len(p.s) {
		b := p.s[p.pos]
		if b == ':' {
			if n.colon {
				undef("parse: two colons")
			}
			n.colon = true
			p.pos++
			continue
		}
		if b == '@' {
			if n.at {
				undef("parse: two at-signs")
			}
			n.at = true
			p.pos++
			continue
		}
		break
	}
	if len(p.s) <= p.pos {
		undef("parse: control ends inside a directive")
	}
	b := p.s[p.pos]
	p.pos++
	if 'a' <= b && b <= 'z' {
		b -= 'a' - 'A'
	}
	n.ch = b
	return n
}

// -------------------------------------------------------------- interpreter

type actx struct {
	args []*Val
	pos  int
}

func (c *actx) next(what string) *Val {
	if c.pos < 0 || len(c.args) <= c.pos {
		undef("no argument left for %s", what)
	}
	v := c.args[c.pos]
	c.pos++
	return v
}

type pval struct {
	set    bool
	isChar bool
	n      int
	c      rune
}

func (r *Ref) evalParams(n *node, c *actx) []pval {
	out := make([]pval, len(n.params))
	for i, p := range n.params {
		switch p.kind {
		case 'n':
			out[i] = pval{set: true, n: p.n}
		case 'c':
			out[i] = pval{set: true, isChar: true, c: p.c}
		case '#':
			out[i] = pval{set: true, n: len(c.args) - c.pos}
		case 'v':
			v := c.next("a v parameter")
			switch {
			case v.isNil():
				// omitted
			case v.Kind == 'i':
				if !v.I.IsInt64() || v.I.Int64() < -1<<30 || 1<<30 < v.I.Int64() {
					undef("v parameter out of range")
				}
				out[i] = pval{set: true, n: int(v.I.Int64())}
			case v.Kind == 'c':
				out[i] = pval{set: true, isChar: true, c: v.C}
			default:
				undef("v parameter is neither integer nor character")
			}
		}
	}
	return out
}

func intParam(ps []pval, i, def int, what string) int {
	if i < len(ps) && ps[i].set {
		if ps[i].isChar {
			undef("%s: character where an integer parameter is expected", what)
		}
		if ps[i].n < 0 {
			undef("%s: negative parameter", what)
		}
		return ps[i].n
	}
	return def
}

func charParam(ps []pval, i int, def rune, what string) rune {
	if i < len(ps) && ps[i].set {
		if !ps[i].isChar {
			undef("%s: integer where a character parameter is expected", what)
		}
		return ps[i].c
	}
	return def
}

func maxParams(n *node, ps []pval, max int) {
	if max < len(ps) {
		undef("~%c: too many parameters", n.ch)
	}
}

func noMods(n *node) {
	if n.colon || n.at {
		undef("~%c: modifiers not defined", n.ch)
	}
}

func column(out []byte) int {
	i := len(out)
	for 0 < i && out[i-1] != '\n' {
		i--
	}
	return utf8.RuneCount(out[i:])
}

func spaces(out *[]byte, n int) {
	for ; 0 < n; n-- {
		*out = append(*out, ' ')
	}
}

func (r *Ref) run(nodes []*node, c *actx, out *[]byte) {
	for _, n := range nodes {
		r.one(n, c, out)
	}
}

func (r *Ref) one(n *node, c *actx, out *[]byte) {
	if n.ch == 0 {
		*out = append(*out, n.lit...)
		return
	}
	switch n.ch {
	case '%', '&', '~':
		noMods(n)
		ps := r.evalParams(n, c)
		maxParams(n, ps, 1)
		cnt := intParam(ps, 0, 1, "count")
		switch n.ch {
		case '%':
			*out = append(*out, strings.Repeat("\n", cnt)...)
		case '~':
			*out = append(*out, strings.Repeat("~", cnt)...)
		case '&':
			if cnt == 0 {
				return
			}
			var atStart bool
			if len(*out) == 0 {
				atStart = !r.flag(vfAmpStart)
			} else {
				atStart = (*out)[len(*out)-1] == '\n'
			}
			if atStart {
				cnt--
			}
			*out = append(*out, strings.Repeat("\n", cnt)...)
		}
	case 'T':
		if n.colon {
			undef("~:T is a pretty-printer directive")
		}
		ps := r.evalParams(n, c)
		maxParams(n, ps, 2)
		colnum := intParam(ps, 0, 1, "colnum")
		colinc := intParam(ps, 1, 1, "colinc")
		if colinc == 0 {
			undef("~T with colinc 0")
		}
		cur := column(*out)
		if n.at {
			spaces(out, colnum)
			cur += colnum
			spaces(out, (colinc-cur%colinc)%colinc)
			return
		}
		if len(ps) < 2 || !ps[1].set || colinc == 1 {
			// one flag less to consult: with colinc 1 both readings agree
		} else if r.flag(vfTabSlip) {
			target := colnum * colinc
			if target < cur {
				target = cur/colinc*colinc + colinc
			}
			spaces(out, target-cur)
			return
		}
		switch {
		case cur < colnum:
			spaces(out, colnum-cur)
		case cur == colnum && r.flag(vfTabStay):
		default:
			spaces(out, colinc-(cur-colnum)%colinc)
		}
	case '*':
		ps := r.evalParams(n, c)
		maxParams(n, ps, 1)
		if n.colon && n.at {
			undef("~:@*")
		}
		var to int
		switch {
		case n.at:
			def := 0
			if len(ps) == 0 || !ps[0].set {
				if r.flag(vfAtStarOne) {
					def = 1
				}
			}
			to = intParam(ps, 0, def, "~@*")
		case n.colon:
			k := intParam(ps, 0, 1, "~:*")
			if r.Mut == refMutBackupTwo {
				k++
			}
			to = c.pos - k
		default:
			to = c.pos + intParam(ps, 0, 1, "~*")
		}
		if to < 0 || len(c.args) < to {
			undef("~* moves outside the arguments")
		}
		c.pos = to
	case '?':
		if n.colon {
			undef("~:?")
		}
		if 0 < len(n.params) {
			undef("~? with parameters")
		}
		cs := c.next("~?")
		if cs.Kind != 's' {
			undef("~? needs a control string")
		}
		sub := parseControl(cs.S)
		if n.at {
			r.run(sub, c, out)
			return
		}
		l := c.next("~? argument list")
		if l.Kind != 'l' {
			undef("~? needs a list")
		}
		r.run(sub, &actx{args: l.L}, out)
	case '(':
		if 0 < len(n.params) {
			undef("~( with parameters")
		}
		start := len(*out)
		r.run(n.body, c, out)
		conv := convertCase(string((*out)[start:]), n.colon, n.at)
		*out = append((*out)[:start], conv...)
	case '[':
		r.cond(n, c, out)
	case '{':
		r.iter(n, c, out)
	case 'P':
		if 0 < len(n.params) {
			undef("~P with parameters")
		}
		if n.colon {
			if c.pos < 1 {
				undef("~:P with no previous argument")
			}
			c.pos--
		}
		v := c.next("~P")
		one := v.Kind == 'i' && v.I.IsInt64() && v.I.Int64() == 1
		switch {
		case n.at && one:
			*out = append(*out, 'y')
		case n.at:
			*out = append(*out, "ies"...)
		case !one:
			*out = append(*out, 's')
		}
	case 'C':
		if 0 < len(n.params) {
			undef("~C with parameters")
		}
		v := c.next("~C")
		if v.Kind != 'c' {
			undef("~C needs a character")
		}
		switch {
		case n.at && !n.colon:
			*out = append(*out, r.Prin1(v)...)
		case n.colon:
			if unicode.IsGraphic(v.C) && v.C != ' ' {
				*out = utf8.AppendRune(*out, v.C)
			} else {
				*out = append(*out, r.CharName(v.C)...)
			}
		default:
			*out = utf8.AppendRune(*out, v.C)
		}
	case 'A', 'S':
		ps := r.evalParams(n, c)
		maxParams(n, ps, 4)
		mincol := intParam(ps, 0, 0, "mincol")
		colinc := intParam(ps, 1, 1, "colinc")
		minpad := intParam(ps, 2, 0, "minpad")
		padchar := charParam(ps, 3, ' ', "padchar")
		if colinc == 0 {
			undef("colinc 0")
		}
		v := c.next("~A/~S")
		var text string
		switch {
		case n.colon && v.isNil():
			text = "()"
		case n.ch == 'A':
			text = r.Princ(v)
		default:
			text = r.Prin1(v)
		}
		pad := minpad
		for utf8.RuneCountInString(text)+pad < mincol {
			pad += colinc
		}
		ptxt := strings.Repeat(string(padchar), pad)
		if n.at {
			*out = append(*out, ptxt...)
			*out = append(*out, text...)
		} else {
			*out = append(*out, text...)
			*out = append(*out, ptxt...)
		}
	case 'D', 'B', 'O', 'X':
		base := map[byte]int{'D': 10, 'B': 2, 'O': 8, 'X': 16}[n.ch]
		ps := r.evalParams(n, c)
		maxParams(n, ps, 4)
		r.integer(n, ps, 0, base, c, out)
	case 'R':
		ps := r.evalParams(n, c)
		if 0 < len(ps) && r.Mut != refMutRadixIgnored {
			maxParams(n, ps, 5)
			if !ps[0].set {
				undef("~R with parameters but no radix")
			}
			base := intParam(ps, 0, 10, "radix")
			if base < 2 || 36 < base {
				undef("radix out of range")
			}
			r.integer(n, ps, 1, base, c, out)
			return
		}
		v := c.next("~R")
		if v.Kind != 'i' {
			undef("~R needs an integer")
		}
		if n.at {
			if !v.I.IsInt64() || v.I.Int64() < 1 || 3999 < v.I.Int64() {
				undef("Roman numerals are defined for 1..3999")
			}
			*out = append(*out, roman(int(v.I.Int64()), n.colon)...)
			return
		}
		var mut englishMutation
		switch r.Mut {
		case refMutTeens:
			mut = mutTeensShifted
		case refMutOrdinalTens:
			mut = mutOrdinalTens
		}
		// the hyphen question only arises when some group has tens >= 2 and units > 0
		hyphen := needsHyphen(new(big.Int).Abs(v.I)) && r.flag(vfHyphen)
		neg := "negative"
		if v.I.Sign() < 0 && r.flag(vfMinus) {
			neg = "minus"
		}
		text, ok := spellEnglish(v.I, n.colon, hyphen, neg, mut)
		if !ok {
			undef("number too large for English")
		}
		*out = append(*out, text...)
	default:
		undef("directive ~%c is outside the checked subset", n.ch)
	}
}

func needsHyphen(abs *big.Int) bool {
	s := abs.String()
	for len(s)%3 != 0 {
		s = "0" + s
	}
	for i := 0; i < len(s); i += 3 {
		if '2' <= s[i+1] && s[i+2] != '0' {
			return true
		}
	}
	return false
}

// integer renders ~D ~B ~O ~X ~nR; off is the index of mincol in ps.
func (r *Ref) integer(n *node, ps []pval, off, base int, c *actx, out *[]byte) {
	mincol := intParam(ps, off, 0, "mincol")
	padchar := charParam(ps, off+1, ' ', "padchar")
	commachar := charParam(ps, off+2, ',', "commachar")
	interval := intParam(ps, off+3, 3, "comma-interval")
	if interval < 1 {
		undef("comma-interval < 1")
	}
	v := c.next("integer directive")
	if v.Kind != 'i' {
		// "If a non-integer argument is given then the Aesthetic directive is used."
		// With prefix parameters the result is not pinned down; the modifiers mean something to ~A only for nil
		// (~:A) and together with a mincol (~mincol@A), so without parameters the text is the princ text.
		if 0 < len(ps) {
			undef("non-integer argument with parameters")
		}
		if (n.colon || n.at) && string(r.Princ(v)) == "nil" {
			undef("nil argument with modifiers")
		}
		*out = append(*out, r.Princ(v)...)
		return
	}
	digits := new(big.Int).Abs(v.I).Text(base)
	if 10 < base && hasLetter(digits) && r.flag(vfHexUpper) {
		digits = strings.ToUpper(digits)
	}
	if n.colon {
		iv := interval
		if r.Mut == refMutCommaInterval {
			iv++
		}
		var b []byte
		for i := 0; i < len(digits); i++ {
			if 0 < i && (len(digits)-i)%iv == 0 {
				b = utf8.AppendRune(b, commachar)
			}
			b = append(b, digits[i])
		}
		digits = string(b)
	}
	sign := ""
	switch {
	case v.I.Sign() < 0:
		sign = "-"
	case n.at:
		sign = "+"
		if r.Mut == refMutSignDroppedWhenPadded && 0 < mincol {
			sign = ""
		}
	}
	text := sign + digits
	for k := utf8.RuneCountInString(text); k < mincol; k++ {
		*out = utf8.AppendRune(*out, padchar)
	}
	*out = append(*out, text...)
}

func hasLetter(s string) bool {
	for i := 0; i < len(s); i++ {
		if 'a' <= s[i] && s[i] <= 'z' {
			return true
		}
	}
	return false
}

func (r *Ref) cond(n *node, c *actx, out *[]byte) {
	ps := r.evalParams(n, c)
	maxParams(n, ps, 1)
	switch {
	case n.colon && n.at:
		undef("~:@[")
	case n.colon:
		if 0 < len(ps) {
			undef("~:[ with a parameter")
		}
		if len(n.clauses) != 2 || n.defaultLast {
			undef("~:[ needs exactly two clauses")
		}
		v := c.next("~:[")
		if v.isNil() {
			r.run(n.clauses[0], c, out)
		} else {
			r.run(n.clauses[1], c, out)
		}
	case n.at:
		if 0 < len(ps) {
			undef("~@[ with a parameter")
		}
		if len(n.clauses) != 1 || n.defaultLast {
			undef("~@[ needs exactly one clause")
		}
		v := c.next("~@[")
		if !v.isNil() {
			c.pos--
			r.run(n.clauses[0], c, out)
		}
	default:
		var idx *big.Int
		if 0 < len(ps) && ps[0].set {
			if ps[0].isChar {
				undef("~[ with a character parameter")
			}
			if ps[0].n < 0 {
				undef("~[ with a negative parameter")
			}
			idx = big.NewInt(int64(ps[0].n))
		} else {
			v := c.next("~[")
			if v.Kind != 'i' {
				undef("~[ needs an integer")
			}
			if !v.I.IsInt64() {
				// slip asks for a fixnum; whether a bignum index must select "nothing" is not worth a dispute
				undef("~[ with a bignum index")
			}
			idx = v.I
		}
		k := len(n.clauses)
		if n.defaultLast {
			k--
		}
		if 0 <= idx.Sign() && idx.IsInt64() && idx.Int64() < int64(k) {
			r.run(n.clauses[idx.Int64()], c, out)
		} else if n.defaultLast && r.Mut != refMutDefaultClauseIgnored {
			r.run(n.clauses[len(n.clauses)-1], c, out)
		}
	}
}

const iterGuard = 200

func (r *Ref) iter(n *node, c *actx, out *[]byte) {
	ps := r.evalParams(n, c)
	maxParams(n, ps, 1)
	max := -1
	if 0 < len(ps) && ps[0].set {
		max = intParam(ps, 0, 0, "~{ max count")
		if r.Mut == refMutIterMaxOffByOne {
			max++
		}
	}
	if len(n.body) == 0 {
		undef("~{~} with an empty body")
	}
	passes := 0
	more := func() bool {
		if 0 <= max && max <= passes {
			return false
		}
		if iterGuard < passes {
			undef("~{ does not terminate")
		}
		return true
	}
	switch {
	case n.colon && n.at:
		if n.closeColon {
			undef("~:@{ ... ~:}")
		}
		for c.pos < len(c.args) && more() {
			v := c.next("~:@{")
			if v.Kind != 'l' {
				undef("~:@{ needs list arguments")
			}
			r.run(n.body, &actx{args: v.L}, out)
			passes++
		}
	case n.colon:
		if n.closeColon {
			undef("~:{ ... ~:}")
		}
		v := c.next("~:{")
		if v.Kind != 'l' {
			undef("~:{ needs a list")
		}
		for _, sub := range v.L {
			if !more() {
				break
			}
			if sub.Kind != 'l' {
				undef("~:{ needs a list of lists")
			}
			r.run(n.body, &actx{args: sub.L}, out)
			passes++
		}
	default:
		sub := c
		if !n.at {
			v := c.next("~{")
			if v.Kind != 'l' {
				undef("~{ needs a list")
			}
			sub = &actx{args: v.L}
		}
		for more() {
			if len(sub.args) <= sub.pos && !(n.closeColon && passes == 0) {
				break
			}
			before := sub.pos
			r.run(n.body, sub, out)
			passes++
			if sub.pos == before && sub.pos < len(sub.args) && max < 0 {
				undef("~{ body consumes nothing")
			}
		}
	}
}

func convertCase(s string, colon, at bool) string {
	switch {
	case colon && at:
		return strings.ToUpper(s)
	case colon:
		return capitalize(strings.ToLower(s), false)
	case at:
		return capitalize(strings.ToLower(s), true)
	}
	return strings.ToLower(s)
}

// capitalize upcases the first character of every word (a word is a run of
// letters and digits), or of the first word only. A word that starts with a
// digit and goes on with letters ("1st") is left undefined: the definitions do
// not say what a word is there.
func capitalize(s string, firstOnly bool) string {
	rs := []rune(s)
	isWord := func(c rune) bool { return unicode.IsLetter(c) || unicode.IsDigit(c) }
	done := false
	for i := 0; i < len(rs); {
		if !isWord(rs[i]) {
			i++
			continue
		}
		j := i
		hasLetter := false
		for j < len(rs) && isWord(rs[j]) {
			hasLetter = hasLetter || unicode.IsLetter(rs[j])
			j++
		}
		if !(firstOnly && done) {
			if !unicode.IsLetter(rs[i]) && hasLetter {
				undef("case conversion of a word that starts with a digit")
			}
			if hasLetter || !firstOnly {
				rs[i] = unicode.ToUpper(rs[i])
			}
			if hasLetter {
				done = true
			}
		}
		i = j
	}
	return string(rs)
}
