package c07

// looptags.go: the body of do, do*, dolist and dotimes is an implicit tagbody. A tag sits at the first, second or
// third place of the loop body and a go to it is written plain or inside when / let / unwind-protect, jumping forward
// (skipping a statement) or backward (one retry); an outer tagbody has a tag of the SAME name, so a go that does not
// find the loop's own tag lands there instead ("the lexically matching tag and nowhere else").
//
// spec: lt|<loop>|<tagpos>|<dir>|<wrap>

import (
	"fmt"
	"os"
	"strings"

	"github.com/ohler55/slip"

	"verif/engine"
	"verif/lisp"
	"verif/ref/eval"
)

func enumLoopTags(emit func(string)) {
	for _, loop := range []string{"do", "do*", "dolist", "dotimes"} {
		for pos := 0; pos <= 2; pos++ {
			for _, dir := range []string{"fwd", "back"} {
				for _, wrap := range []string{"plain", "when", "let", "unwind-protect"} {
					emit(fmt.Sprintf("lt|%s|%d|%s|%s", loop, pos, dir, wrap))
				}
			}
		}
	}
}

func loopTagForms(loop string, pos int, dir, wrap string) []eval.Node {
	S := func(s string) eval.Sym { return eval.Sym(s) }
	I := func(i int) eval.Node { return eval.Int(i) }
	trk := func(k int) eval.Node { return form("tr", form("+", I(k), S("i"))) } // logs k+i
	goForm := eval.Node(form("go", S("here")))
	switch wrap {
	case "when":
		goForm = form("when", S("t"), form("go", S("here")))
	case "let":
		goForm = form("let", eval.L(form("q", I(1))), form("go", S("here")))
	case "unwind-protect":
		goForm = form("unwind-protect", form("go", S("here")), trk(9000))
	}
	var body []eval.Node
	filler := []eval.Node{trk(1000), trk(2000)}
	switch dir {
	case "fwd":
		// [fillers before the go so that the tag can sit at pos] go ; skipped ; TAG ; landed
		// the tag must be at body index pos: put the go and the skipped statement BEFORE it only when pos allows;
		// otherwise the jump goes backward by construction, so fwd uses a guard: go only on the first pass
		body = append(body, filler[:pos]...)
		body = append(body, S("here"), trk(3000),
			form("when", form("<", S("n"), I(1)), form("setq", S("n"), form("+", S("n"), I(1))), goForm), trk(4000))
		// (with the tag before the go this is one retry per iteration of the loop: the jump is backward; the fwd
		// variant below places a second tag after the go)
		body = append(body, form("when", form("<", S("m"), I(1)), form("setq", S("m"), form("+", S("m"), I(1))), form("go", S("out"))),
			trk(5000), S("out"), trk(6000))
	default:
		body = append(body, filler[:pos]...)
		body = append(body, S("here"), trk(3000),
			form("when", form("<", S("n"), I(2)), form("setq", S("n"), form("+", S("n"), I(1))), goForm), trk(4000))
	}
	var loopForm eval.Node
	switch loop {
	case "do", "do*":
		loopForm = append(eval.List{S(loop), eval.L(form("i", I(0), form("+", S("i"), I(1)))), eval.L(form("<=", I(2), S("i")), form("list", S("n"), S("m")))}, body...)
	case "dolist":
		loopForm = append(eval.List{S("dolist"), form("i", eval.Q(eval.L(I(0), I(1))), form("list", S("n"), S("m")))}, body...)
	default:
		loopForm = append(eval.List{S("dotimes"), form("i", I(2), form("list", S("n"), S("m")))}, body...)
	}
	// the counters are per loop iteration for back (reset at every pass is not possible without another form, so they
	// are global to the loop: the first iteration retries, the later ones do not)
	prog := form("let", eval.L(form("n", I(0)), form("m", I(0)), form("r", eval.Q(S("none")))),
		form("tagbody",
			form("setq", S("r"), loopForm),
			form("go", S("end")),
			S("here"), form("tr", I(7777)), // the outer tag of the same name: must never be reached
			S("out"), form("tr", I(8888)),
			S("end")),
		S("r"))
	return []eval.Node{prog}
}

func execLoopTags(spec string) (res engine.Result) {
	parts := strings.Split(spec, "|")
	if len(parts) != 5 {
		res.Fail("harness:bad-spec", spec)
		return
	}
	pos := int(parts[2][0] - '0')
	forms := loopTagForms(parts[1], pos, parts[3], parts[4])
	in := eval.New(eval.Mutations{})
	out := in.Run(forms)
	if out.Budget || out.Deadlock || out.ErrClass != "" {
		res.Fail("harness:reference-did-not-finish", spec+": "+out.ErrClass+" "+out.ErrMsg)
		return
	}
	src := eval.RenderAll(forms)
	_ = os.Getpid()
	lisp.ResetTrace()
	val, err := lisp.EvalIn(slip.NewScope(), src)
	trace := strings.Join(lisp.Trace(), ",")
	res.Nontrivial = true
	res.Hit("go-to-a-tag-of-a-loop-body")
	expVal, expTrace := eval.Show(out.Value), strings.Join(out.Trace, ",")
	sig := func(kind string) string {
		return fmt.Sprintf("looptag loop=%s tag-at=%s dir=%s go-in=%s kind=%s", parts[1], parts[2], parts[3], parts[4], kind)
	}
	detail := fmt.Sprintf("%s\n=> slip: %s %v trace [%s]\n   language: %s trace [%s]", src, lisp.Show(val), err, trace, expVal, expTrace)
	switch {
	case err != nil && err.GoFault:
		res.Fail(sig("go-fault"), detail)
	case err != nil:
		res.Fail(sig("error:"+err.Class), detail)
	case lisp.Show(val) != expVal:
		res.Fail(sig("wrong-value"), detail)
	case trace != expTrace:
		res.Fail(sig("wrong-trace"), detail)
	default:
		res.Hit("nontrivial-passed")
	}
	res.Outcome = lisp.Show(val) + "|" + trace
	return
}
