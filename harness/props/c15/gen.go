package c15

import (
	"fmt"
	"math/big"
	"strings"

	"verif/engine"
)

func pow(b, e int64) *big.Int { return new(big.Int).Exp(big.NewInt(b), big.NewInt(e), nil) }

// integer arguments for the integer directives.
func intArgs(tier string) []string {
	var out []string
	add := func(v *big.Int) {
		out = append(out, v.String())
		if v.Sign() != 0 {
			out = append(out, new(big.Int).Neg(v).String())
		}
	}
	add(big.NewInt(0))
	add(big.NewInt(1))
	add(big.NewInt(12))
	add(big.NewInt(1234567))
	add(pow(2, 31))
	add(pow(2, 63)) // +2^63 is a bignum, -2^63 the smallest fixnum
	add(new(big.Int).Add(pow(2, 64), big.NewInt(1)))
	add(pow(10, 20))
	if tier == engine.Thorough {
		add(big.NewInt(7))
		add(big.NewInt(123))
		add(big.NewInt(1000))
		add(big.NewInt(99999))
		add(big.NewInt(100000))
		add(new(big.Int).Sub(pow(2, 63), big.NewInt(1)))
		add(new(big.Int).Sub(pow(10, 30), big.NewInt(1)))
	}
	return out
}

func params(ps ...string) string {
	last := -1
	for i, p := range ps {
		if p != "" {
			last = i
		}
	}
	return strings.Join(ps[:last+1], ",")
}

var mods = []string{"", ":", "@", ":@"}

type item struct {
	ctrl string
	args []string
}

func menu(tier string) []item {
	m := []item{
		{"~A", []string{"foo"}},
		{"~S", []string{`"q"`}},
		{"~D", []string{"42"}},
		{"~:*", nil},
		{"~*", []string{"99"}},
		{"~P", []string{"2"}},
		{"~[zero~;one~:;many~]", []string{"1"}},
		{"~:[no~;yes~]", []string{"nil"}},
		{"~@[<~A>~]", []string{"7"}},
		{"~{~A.~}", []string{"(1 2)"}},
		{"~(~A~)", []string{`"MiX"`}},
		{"~5T", nil},
		{"~?", []string{`"<~A>"`, "(8)"}},
		{"~@{~A;~}", nil},
	}
	if tier == engine.Thorough {
		m = append(m,
			item{"~:R", []string{"3"}},
			item{"~C", []string{`#\c`}},
			item{"~#[none~;one~:;more~]", nil},
			item{"~v,'0D", []string{"4", "7"}},
			item{"x", nil},
			item{"~&", nil},
		)
	}
	return m
}

func join(items []item) (string, []string) {
	var c strings.Builder
	var a []string
	for _, it := range items {
		c.WriteString(it.ctrl)
		a = append(a, it.args...)
	}
	return c.String(), a
}

func enumerate(tier string, emit func(string)) {
	thorough := tier == engine.Thorough
	ints := intArgs(tier)

	// ---- single directives, simplest first
	for _, d := range []string{"~%", "~&", "~~"} {
		for _, pre := range []string{"", "a", "a\n", "a~%", "~%"} {
			for _, n := range []string{"", "0", "1", "2", "3"} {
				emit(mkSpec("newline", "", pre+"~"+n+d[1:]+"b"))
			}
			emit(mkSpec("newline", "", pre+"~v"+d[1:]+"b", "2"))
			emit(mkSpec("newline", "", pre+"~#"+d[1:]+"b", "x", "y"))
		}
	}
	emit(mkSpec("newline", "", "a~(~&b~)"))
	emit(mkSpec("newline", "", "a~%~(~&b~)"))
	emit(mkSpec("newline", "", "a~%~{~&~A~}", "(1 2)"))
	emit(mkSpec("newline", "", "a~[~&b~]", "0"))
	emit(mkSpec("newline", "", "a~%~[~&b~]", "0"))
	emit(mkSpec("newline", "", "a~%~?", `"~&b"`, "nil"))
	emit(mkSpec("newline", "", "a~%~?", `"~&b"`, "(1)"))
	emit(mkSpec("newline", "", "a~%~@?", `"~&b"`))

	// ~A ~S over the object core
	objs := []string{`0`, `-7`, `18446744073709551617`, `1/3`, `1.5`, `"str"`, `"a\"b\\c"`, `""`, `"héllo"`, `#\a`, `#\Space`,
		`sym`, `:key`, `|Foo Bar|`, `nil`, `()`, `t`, `(1 2)`, `(1 "a" #\b)`, `(a (b c) nil)`, `#(1 2)`, `(quote x)`}
	for _, d := range []string{"A", "S", "a", "s"} {
		for _, o := range objs {
			for _, m := range mods {
				emit(mkSpec("print", "", "~"+m+d, o))
			}
		}
	}
	mincols := []string{"", "0", "4", "9"}
	if thorough {
		mincols = append(mincols, "1", "6", "30")
	}
	for _, d := range []string{"A", "S"} {
		for _, mincol := range mincols {
			for _, colinc := range []string{"", "1", "3"} {
				for _, minpad := range []string{"", "0", "2"} {
					for _, padchar := range []string{"", "'."} {
						p := params(mincol, colinc, minpad, padchar)
						if p == "" {
							continue
						}
						for _, m := range mods {
							for _, o := range objs {
								emit(mkSpec("print", "", "["+"~"+p+m+d+"]", o))
							}
						}
					}
				}
			}
		}
	}

	// integer directives
	for _, d := range []string{"D", "B", "O", "X", "d", "b", "o", "x"} {
		for _, m := range mods {
			for _, n := range ints {
				emit(mkSpec("integer", "", "~"+m+d, n))
			}
		}
	}
	imincols := []string{"", "0", "5", "12"}
	intervals := []string{"", "1", "3", "4"}
	if thorough {
		imincols = append(imincols, "1", "27", "40")
		intervals = append(intervals, "2", "7")
	}
	for _, d := range []string{"D", "B", "O", "X"} {
		for _, mincol := range imincols {
			for _, padchar := range []string{"", "'0", "'."} {
				for _, commachar := range []string{"", "'_"} {
					for _, interval := range intervals {
						p := params(mincol, padchar, commachar, interval)
						if p == "" {
							continue
						}
						for _, m := range mods {
							for _, n := range ints {
								emit(mkSpec("integer", "", "~"+p+m+d, n))
							}
						}
					}
				}
			}
		}
	}
	// ~radix,mincol,padchar,commachar,intervalR
	radixes := []string{"2", "3", "8", "10", "16", "36"}
	if thorough {
		radixes = append(radixes, "7", "12", "35")
	}
	for _, radix := range radixes {
		for _, mincol := range []string{"", "6"} {
			for _, padchar := range []string{"", "'0"} {
				for _, commachar := range []string{"", "'_"} {
					for _, interval := range []string{"", "2"} {
						for _, m := range mods {
							for _, n := range ints {
								emit(mkSpec("radix", "", "~"+params(radix, mincol, padchar, commachar, interval)+m+"R", n))
							}
						}
					}
				}
			}
		}
	}
	// v and # parameters
	for _, n := range []string{"0", "7", "-7", "1234567", "18446744073709551617"} {
		for _, w := range []string{"0", "3", "10"} {
			emit(mkSpec("vparam", "", "~vD|", w, n))
			emit(mkSpec("vparam", "", "~v,'0D|", w, n))
			emit(mkSpec("vparam", "", "~v,vD|", w, `#\*`, n))
			emit(mkSpec("vparam", "", "~v,v:@X|", w, `#\.`, n))
			emit(mkSpec("vparam", "", "~v,,,v:D|", w, "2", n))
			emit(mkSpec("vparam", "", "~,,v,v:D|", `#\space`, "2", n))
			emit(mkSpec("vparam", "", "~vA|", w, n))
			emit(mkSpec("vparam", "", "~v,,,v@S|", w, `#\-`, n))
			emit(mkSpec("vparam", "", "~vR|", "2", n))
			emit(mkSpec("vparam", "", "~v,vR|", "16", w, n))
		}
		emit(mkSpec("vparam", "", "~#D|", n))
		emit(mkSpec("vparam", "", "~#D|~A~A", n, "x", "y"))
		emit(mkSpec("vparam", "", "~#,'0D|~A~A~A~A", n, "a", "b", "c", "d"))
		emit(mkSpec("vparam", "", "~vD|", "nil", n))
		emit(mkSpec("vparam", "", "~v,vD|", "nil", "nil", n))
	}
	// mixed parameter forms: every slot of the parameterised directives drawn from {omitted, literal, v, #}
	// (character slots: {omitted, literal, v}); the arguments of the v slots come first, in slot order, then the
	// directive's own argument, then k further arguments (which # counts) printed by trailing ~A.
	type slot struct {
		lit  string // literal form
		varg string // argument supplied for the v form
		isCh bool
	}
	mixed := func(fam, dirs string, slots []slot, modsets []string, mains []string, ks []int, inIter bool) {
		forms := make([]int, len(slots))
		var rec func(i int)
		rec = func(i int) {
			if i < len(slots) {
				n := 4
				if slots[i].isCh {
					n = 3
				}
				for f := 0; f < n; f++ {
					forms[i] = f
					rec(i + 1)
				}
				return
			}
			var ps, vargs []string
			hasV, hasSharp := false, false
			for j, sl := range slots {
				switch forms[j] {
				case 0:
					ps = append(ps, "")
				case 1:
					ps = append(ps, sl.lit)
				case 2:
					ps = append(ps, "v")
					vargs = append(vargs, sl.varg)
					hasV = true
				case 3:
					ps = append(ps, "#")
					hasSharp = true
				}
			}
			if !hasV && !hasSharp {
				return // all-literal forms are the integer / print / radix families
			}
			p := params(ps...)
			for _, d := range dirs {
				for _, m := range modsets {
					for _, main := range mains {
						if inIter {
							pass := append(append([]string{}, vargs...), main)
							list := "(" + strings.Join(append(append([]string{}, pass...), pass...), " ") + ")"
							emit(mkSpec(fam, "", "~{~"+p+m+string(d)+"|~}.~A", list, "z"))
							continue
						}
						for _, k := range ks {
							args := append(append([]string{}, vargs...), main)
							tail := ""
							for x := 0; x < k; x++ {
								args = append(args, fmt.Sprintf("t%d", x))
								tail += "~A"
							}
							emit(mkSpec(fam, "", "~"+p+m+string(d)+"|"+tail, args...))
						}
					}
				}
			}
		}
		rec(0)
	}
	intSlots := []slot{{"12", "12", false}, {"'.", `#\.`, true}, {"'_", `#\_`, true}, {"2", "2", false}}
	asSlots := []slot{{"9", "9", false}, {"3", "3", false}, {"2", "2", false}, {"'.", `#\.`, true}}
	radixSlots := append([]slot{{"8", "8", false}}, intSlots...)
	mixed("mixed", "DBOX", intSlots, mods, []string{"1234567", "-1234567"}, []int{1, 3}, false)
	mixed("mixed", "AS", asSlots, mods, []string{`"ab"`, "(1 2)"}, []int{1, 3}, false)
	mixed("mixed", "R", radixSlots, mods, []string{"1234567"}, []int{2}, false)
	mixed("mixed", "DX", intSlots, []string{":", ":@"}, []string{"1234567"}, nil, true)
	mixed("mixed", "AS", asSlots, []string{"", "@"}, []string{`"ab"`}, nil, true)
	mixed("mixed", "R", radixSlots, []string{":"}, []string{"1234567"}, nil, true)

	// a quoted character parameter: every printable ASCII character and a few others
	quoted := []rune{}
	for c := rune(33); c < 127; c++ {
		quoted = append(quoted, c)
	}
	quoted = append(quoted, ' ', 'é', 'λ')
	for _, c := range quoted {
		emit(mkSpec("quoted-char", "", "~3,'"+string(c)+"D", "7"))
		emit(mkSpec("quoted-char", "", "~3,,,'"+string(c)+"A", "7"))
	}
	// non-integer arguments of the integer directives ("the Aesthetic directive is used")
	for _, d := range []string{"D", "B", "O", "X"} {
		for _, o := range []string{`"abc"`, `#\a`, `sym`, `(1 "b")`, `nil`, `1/3`, `""`, `"abcdefgh"`, `"1234567"`, `longsymbolname`, `(1 2 3 4 5 6)`, `1.5`} {
			for _, m := range []string{"", ":", "@", ":@"} {
				emit(mkSpec("non-integer", "", "~"+m+d, o))
			}
		}
	}
	emit(mkSpec("non-integer", "", "~vD|~D", "4", "7", `#\c`))
	// printer variables do not leak into the integer directives; ~A follows princ
	for _, env := range []string{"pb2", "pb16"} {
		for _, d := range []string{"D", "B", "O", "X", ":D", "@X", "8,'0B", "A", "S", "R", ":R", "@R", "3R"} {
			for _, n := range []string{"0", "5", "-255", "1234567", "18446744073709551617"} {
				emit(mkSpec("print-base", env, "~"+d, n))
			}
		}
	}

	// ~C
	chars := []string{`#\a`, `#\Z`, `#\0`, `#\~`, `#\Space`, `#\Newline`, `#\Tab`, `#\Rubout`, `#\Backspace`, `#\Page`, `#\Return`,
		`#\é`, `#\λ`, `#\€`, `#\😀`}
	for _, c := range chars {
		for _, m := range mods {
			emit(mkSpec("char", "", "~"+m+"C", c))
			emit(mkSpec("char", "", "<~"+m+"c>", c))
		}
	}

	// ~T
	for _, pre := range []string{"", "ab", "abcdefghij", "x~%ab", "abc"} {
		for _, colnum := range []string{"", "0", "1", "3", "8"} {
			for _, colinc := range []string{"", "1", "3", "4"} {
				for _, m := range []string{"", "@"} {
					emit(mkSpec("tab", "", pre+"~"+params(colnum, colinc)+m+"T|"))
				}
			}
		}
		emit(mkSpec("tab", "", pre+"~vT|", "6"))
		emit(mkSpec("tab", "", pre+"~v,v@T|", "2", "4"))
	}
	emit(mkSpec("tab", "", "abc~{~5T~A~}", "(1)"))
	emit(mkSpec("tab", "", "abc~(~5T~A~)", "1"))
	emit(mkSpec("tab", "", "abc~[~5T~A~]", "0", "1"))
	emit(mkSpec("tab", "", "~A~10T~A~20T~A", "name", "value", "x"))
	emit(mkSpec("tab", "", "~{~A~8T~}", "(a bb ccc)"))

	// ~* : k leading ~A, a move, m trailing ~A, five arguments
	five := []string{"1", "2", "3", "4", "5"}
	for k := 0; k <= 3; k++ {
		for _, mv := range []string{"~*", "~0*", "~1*", "~2*", "~3*", "~:*", "~0:*", "~1:*", "~2:*", "~3:*", "~@*", "~0@*", "~1@*", "~2@*", "~4@*", "~5@*", "~v*", "~v:*", "~v@*", "~#*", "~#:*"} {
			for m := 0; m <= 2; m++ {
				emit(mkSpec("goto", "", strings.Repeat("~A", k)+mv+strings.Repeat("~A", m)+".", five...))
			}
		}
	}
	emit(mkSpec("goto", "", "~A~:*~S~:*~D", "5"))
	emit(mkSpec("goto", "", "~{~A~:*~A~}", "(1 2)"))
	emit(mkSpec("goto", "", "~{~A~*~}", "(1 2 3 4)"))
	emit(mkSpec("goto", "", "~@{~A~*~}", "1", "2", "3", "4"))
	emit(mkSpec("goto", "", "~:{~A~:*~A~0@*~A~}", "((1 2) (3))"))

	// ~P
	for _, n := range []string{"0", "1", "2", "-1", "18446744073709551617", `"1"`, "nil", "1.0"} {
		emit(mkSpec("plural", "", "~P", n))
		emit(mkSpec("plural", "", "~@P", n))
		emit(mkSpec("plural", "", "~A tr~:@P", n))
		emit(mkSpec("plural", "", "~A cat~:P", n))
		emit(mkSpec("plural", "", "~A~A cat~:P~:P", "7", n))
		emit(mkSpec("plural", "", "~p ~@p", n, n))
	}

	// ~[
	for i := -1; i <= 4; i++ {
		idx := fmt.Sprint(i)
		emit(mkSpec("cond", "", "~[a~;b~;c~]|~A", idx, "z"))
		emit(mkSpec("cond", "", "~[a~;b~:;d~]|~A", idx, "z"))
		emit(mkSpec("cond", "", "~[a~]|~A", idx, "z"))
		emit(mkSpec("cond", "", "~[~;b~;~]|~A", idx, "z"))
		emit(mkSpec("cond", "", "~[~:;d~]|~A", idx, "z"))
		emit(mkSpec("cond", "", "~[~A~;~A-~A~;~]|~A", idx, "p", "q", "r"))
		emit(mkSpec("cond", "", "~[~[x~;y~]~;~[u~;v~:;w~]~:;~[k~]~]|~A", idx, "1", "z"))
		emit(mkSpec("cond", "", "~v[a~;b~;c~]|~A", idx, "z"))
		if 0 <= i {
			emit(mkSpec("cond", "", "~"+idx+"[a~;b~;c~]|~A", "z"))
			emit(mkSpec("cond", "", "~"+idx+"[a~;b~:;d~]|~A", "z"))
			var rest []string
			for k := 0; k < i; k++ {
				rest = append(rest, fmt.Sprint(k))
			}
			emit(mkSpec("cond", "", "~#[none~;one~;two~:;many~]|", rest...))
			emit(mkSpec("cond", "", "~#[none~;~A~;~A and ~A~:;~A, ~A, ...~]|", rest...))
		}
	}
	emit(mkSpec("cond", "", "~:[z~;~[zero~;one~:;many~]~]|", "()", "1"))
	emit(mkSpec("cond", "", "~[a~;b~]|", "18446744073709551617"))
	emit(mkSpec("cond", "", "~[a~;b~:;c~]|", "-18446744073709551617"))
	for _, a := range []string{"nil", "()", "t", "0", `""`, "(1)", "sym"} {
		emit(mkSpec("cond", "", "~:[f~;t~]|~A", a, "z"))
		emit(mkSpec("cond", "", "~:[~;~]|~A", a, "z"))
		emit(mkSpec("cond", "", "~:[f ~A~;t ~A~]|", a, "z"))
		emit(mkSpec("cond", "", "~@[<~A>~]|~A", a, "z"))
		emit(mkSpec("cond", "", "~@[yes~]|~A", a, "z"))
		emit(mkSpec("cond", "", "~@[~@[~A~]~]|~A", a, "z"))
		emit(mkSpec("cond", "", "~:[~:[a~;b~]~;~:[c~;d~]~]|", a, a))
		emit(mkSpec("cond", "", "~@[x~]~@[y~]|~A", a, a, "z"))
	}

	// ~{
	lists := []string{"nil", "(1)", "(1 2)", "(1 2 3)", "(1 2 3 4)"}
	for _, l := range lists {
		for _, n := range []string{"", "0", "1", "2", "5"} {
			emit(mkSpec("iter", "", "~"+n+"{~A,~}|~A", l, "z"))
			emit(mkSpec("iter", "", "~"+n+"{<~A>~}|~A", l, "z"))
			emit(mkSpec("iter", "", "~"+n+"@{~A,~}|", strings.Fields(strings.Trim(l, "()nil"))...))
			emit(mkSpec("iter", "", "~"+n+"{~A=~A;~}|~A", l, "z"))
			emit(mkSpec("iter", "", "~"+n+"{x~:}|~A", l, "z"))
			emit(mkSpec("iter", "", "~"+n+"{<~A>~:}|~A", l, "z"))
		}
		emit(mkSpec("iter", "", "~v{~A,~}|~A", "2", l, "z"))
		emit(mkSpec("iter", "", "~#{~A,~}|~A", l, "z"))
		emit(mkSpec("iter", "", "~{~D~}~{~S~}|", l, l))
		emit(mkSpec("iter", "", "~{~}|", `"~A,"`, l))
	}
	nested := []string{"nil", "(nil)", "((1))", "((1 2))", "((1 2) (3 4))", "((1) (2) (3))", "((1 2 3) nil (4 5))", "((1 2) (3 4) (5 6) (7 8))"}
	for _, l := range nested {
		for _, n := range []string{"", "0", "1", "2"} {
			emit(mkSpec("iter", "", "~"+n+":{<~A>~}|~A", l, "z"))
			emit(mkSpec("iter", "", "~"+n+":{~A-~A;~}|~A", l, "z"))
			emit(mkSpec("iter", "", "~"+n+"{~{~A~}/~}|~A", l, "z"))
			emit(mkSpec("iter", "", "~"+n+"{[~{~A~}]~}|~A", l, "z"))
			emit(mkSpec("iter", "", "~"+n+":{[~@{~A.~}]~}|~A", l, "z"))
			emit(mkSpec("iter", "", "~"+n+":{~#[none~;one~:;many~]~}|~A", l, "z"))
			sub := splitTop(l)
			emit(mkSpec("iter", "", "~"+n+":@{<~A>~}|", sub...))
			emit(mkSpec("iter", "", "~"+n+":@{~#[none~;one~:;many~],~}|", sub...))
			emit(mkSpec("iter", "", "~A~"+n+":@{~{~A~}~}|", append([]string{"h"}, sub...)...))
		}
	}
	emit(mkSpec("iter", "", "~{~A~[a~;b~]~}|", "(x 0 y 1)"))
	emit(mkSpec("iter", "", "~{~(~A~) ~}|", `("AB" "cD")`))
	emit(mkSpec("iter", "", "~@{~A~@[+~A~]~}|", "1", "2", "nil", "3"))
	emit(mkSpec("iter", "", "~{~A~}~A|", "(1 2)", "3"))
	emit(mkSpec("iter", "", "~2{~A~}~A|", "(1 2 3)", "9"))
	emit(mkSpec("iter", "", "~2@{~A~}~A|", "1", "2", "3"))
	emit(mkSpec("iter", "", "~1:@{~A~}~A|", "(1)", "(2)"))

	// ~( ~)
	for _, m := range mods {
		for _, body := range []string{"hello WORLD", "fOO bar-BAZ qux", " two WORDS here", "x~%y z", "ÉCOLE élan", "a", ""} {
			emit(mkSpec("case", "", "<~"+m+"("+body+"~)>"))
		}
		emit(mkSpec("case", "", "~"+m+"(~A~)", `"MiXed cASE words"`))
		emit(mkSpec("case", "", "~"+m+"(~A and ~S~)", `"FOO"`, `"Bar"`))
		emit(mkSpec("case", "", "~"+m+"(~R~)", "21"))
		emit(mkSpec("case", "", "~"+m+"(~@R~)", "14"))
		emit(mkSpec("case", "", "~"+m+"(~:C~)", `#\Space`))
		emit(mkSpec("case", "", "~"+m+"(~X~)", "255"))
		emit(mkSpec("case", "", "~"+m+"(~{~A ~}~)", "(Ab cD)"))
		for _, m2 := range mods {
			emit(mkSpec("case", "", "~"+m+"(aB ~"+m2+"(cD eF~) gH~)"))
		}
		emit(mkSpec("case", "", "AB~"+m+"(cD~)EF~A", "Gh"))
	}

	// ~?
	emit(mkSpec("recursive", "", "~?|~A", `"~A-~A"`, "(1 2)", "z"))
	emit(mkSpec("recursive", "", "~?|~A", `"~A"`, "(1 2)", "z"))
	emit(mkSpec("recursive", "", "~?|~A", `"lit"`, "nil", "z"))
	emit(mkSpec("recursive", "", "~?|~A", `"~D ~:D"`, "(5 1234567)", "z"))
	emit(mkSpec("recursive", "", "~@?|~A", `"~A-~A"`, "1", "2", "z"))
	emit(mkSpec("recursive", "", "~@?|~A", `"lit"`, "z"))
	emit(mkSpec("recursive", "", "~A ~? ~A", "a", `"<~A ~?>"`, `(b "[~A]" (c))`, "d"))
	emit(mkSpec("recursive", "", "~A ~@? ~A", "a", `"<~A ~@?>"`, "b", `"[~A]"`, "c", "d"))
	emit(mkSpec("recursive", "", "~?|", `"~{~A,~}"`, "((1 2 3))"))
	emit(mkSpec("recursive", "", "~{~?~}|", `("~A" (1) "~A~A" (2 3))`))
	emit(mkSpec("recursive", "", "~?~:*~?|", `"~A"`, "(1)"))
	emit(mkSpec("recursive", "", "~?|", `"~#[none~;one~:;many~]"`, "(1 2)"))
	emit(mkSpec("recursive", "", "~@?|", `"~#[none~;one~:;many~]"`, "1"))
	emit(mkSpec("recursive", "", "~(~?~)|", `"AbC ~A"`, `("DeF")`))
	emit(mkSpec("recursive", "", "ab~?|", `"~5Tx"`, "nil"))

	// ---- ~R in English and Roman: every n of a range, then the powers of ten
	lo, hi := -1000, 20000
	if thorough {
		lo, hi = -20000, 400000
	}
	for n := 0; n <= hi; n++ {
		emit(mkSpec("english", "", "~R", fmt.Sprint(n)))
		emit(mkSpec("english", "", "~:R", fmt.Sprint(n)))
		if 0 < n && -n >= lo {
			emit(mkSpec("english", "", "~R", fmt.Sprint(-n)))
			emit(mkSpec("english", "", "~:R", fmt.Sprint(-n)))
		}
		if 1 <= n && n <= 4999 {
			emit(mkSpec("roman", "", "~@R", fmt.Sprint(n)))
			emit(mkSpec("roman", "", "~:@R", fmt.Sprint(n)))
		}
	}
	for k := int64(0); k <= 65; k++ {
		p := pow(10, k)
		var vals []*big.Int
		vals = append(vals, p, new(big.Int).Add(p, big.NewInt(1)), new(big.Int).Sub(p, big.NewInt(1)), new(big.Int).Mul(p, big.NewInt(123)),
			new(big.Int).Mul(p, big.NewInt(20)), new(big.Int).Mul(p, big.NewInt(19)))
		if thorough {
			for _, f := range []int64{2, 11, 21, 90, 100, 101, 110, 999, 1001} {
				vals = append(vals, new(big.Int).Mul(p, big.NewInt(f)))
			}
		}
		for _, v := range vals {
			if v.Cmp(pow(10, 66)) >= 0 {
				continue
			}
			for _, d := range []string{"~R", "~:R"} {
				emit(mkSpec("english", "", d, v.String()))
				emit(mkSpec("english", "", d, new(big.Int).Neg(v).String()))
			}
		}
	}
	// every shape of a three-digit group (000, 00X, 0X0, 0XX with a teen, 0XX, X00, X0X, XX0, XXX, 001, 100) in every
	// position of a three-group number, both signs, cardinal and ordinal; a reduced set in four-group numbers and
	// in two adjacent groups at every scale up to 10^63
	groups := []int64{0, 5, 10, 17, 42, 300, 305, 340, 317, 1, 100}
	emitEnglish := func(v *big.Int) {
		if v.Sign() == 0 || v.Cmp(pow(10, 66)) >= 0 {
			return
		}
		for _, d := range []string{"~R", "~:R"} {
			emit(mkSpec("english", "", d, v.String()))
			emit(mkSpec("english", "", d, new(big.Int).Neg(v).String()))
		}
	}
	for _, g2 := range groups {
		for _, g1 := range groups {
			for _, g0 := range groups {
				emitEnglish(big.NewInt(g2*1000000 + g1*1000 + g0))
			}
		}
	}
	few := []int64{0, 5, 17, 300, 999}
	for _, g3 := range few[1:] {
		for _, g2 := range few {
			for _, g1 := range few {
				for _, g0 := range few {
					emitEnglish(big.NewInt(((g3*1000+g2)*1000+g1)*1000 + g0))
				}
			}
		}
	}
	for k := int64(2); k <= 21; k++ {
		for _, gh := range few[1:] {
			for _, gl := range few {
				v := new(big.Int).Mul(big.NewInt(gh), pow(10, 3*k))
				v.Add(v, new(big.Int).Mul(big.NewInt(gl), pow(10, 3*(k-1))))
				emitEnglish(new(big.Int).Add(v, big.NewInt(7)))
				emitEnglish(v)
			}
		}
	}
	// all digits different, every group populated
	emit(mkSpec("english", "", "~R", "123456789012345678901234567890123456789012345678901234567890123456"))
	emit(mkSpec("english", "", "~:R", "987654321098765432109876543210987654321098765432109876543210987654"))
	emit(mkSpec("english", "", "~r ~:r", "42", "42"))
	emit(mkSpec("roman", "", "~@r ~:@r", "1999", "1999"))

	// ---- compositions of up to four items
	m := menu(tier)
	maxLen := 4
	// breadth first so that short compositions come first
	for l := 1; l <= maxLen; l++ {
		var recL func(prefix []item)
		recL = func(prefix []item) {
			if len(prefix) == l {
				c, a := join(prefix)
				emit(mkSpec("composition", "", c+"|", a...))
				return
			}
			for _, it := range m {
				recL(append(prefix[:len(prefix):len(prefix)], it))
			}
		}
		recL(nil)
	}

	// ---- blocks around one or two items, and blocks inside blocks
	full := menu(engine.Thorough)
	type wrapper struct {
		name string
		wrap func(ctrl string, args []string) (string, []string, bool)
	}
	listOf := func(args []string) string { return "(" + strings.Join(args, " ") + ")" }
	wrappers := []wrapper{
		{"(", func(c string, a []string) (string, []string, bool) { return "~(" + c + "~)", a, true }},
		{":(", func(c string, a []string) (string, []string, bool) { return "~:(" + c + "~)", a, true }},
		{"@(", func(c string, a []string) (string, []string, bool) { return "~@(x" + c + "~)", a, true }},
		{":@(", func(c string, a []string) (string, []string, bool) { return "~:@(" + c + "~)", a, true }},
		{"{", func(c string, a []string) (string, []string, bool) {
			return "~{" + c + "~}", []string{listOf(append(append([]string{}, a...), a...))}, 0 < len(a)
		}},
		{":{", func(c string, a []string) (string, []string, bool) {
			return "~:{" + c + "~}", []string{"(" + listOf(a) + " " + listOf(a) + ")"}, true
		}},
		{"@{", func(c string, a []string) (string, []string, bool) {
			return "~@{" + c + "~}", append(append([]string{}, a...), a...), 0 < len(a)
		}},
		{":@{", func(c string, a []string) (string, []string, bool) {
			return "~:@{" + c + "~}", []string{listOf(a), listOf(a)}, true
		}},
		{"1{", func(c string, a []string) (string, []string, bool) {
			return "~1{" + c + "~}", []string{listOf(append(append([]string{}, a...), a...))}, true
		}},
		{"[0", func(c string, a []string) (string, []string, bool) {
			return "~[" + c + "~;z~]", append([]string{"0"}, a...), true
		}},
		{"[1", func(c string, a []string) (string, []string, bool) {
			return "~[z~;" + c + "~]", append([]string{"1"}, a...), true
		}},
		{"[d", func(c string, a []string) (string, []string, bool) {
			return "~[z~:;" + c + "~]", append([]string{"5"}, a...), true
		}},
		{":[", func(c string, a []string) (string, []string, bool) {
			return "~:[z~;" + c + "~]", append([]string{"t"}, a...), true
		}},
		{"@[", func(c string, a []string) (string, []string, bool) {
			return "~@[" + c + "~]", a, 0 < len(a) && a[0] != "nil" && a[0] != "()"
		}},
		{"?", func(c string, a []string) (string, []string, bool) {
			return "~?", []string{`"` + strings.ReplaceAll(c, `"`, `\"`) + `"`, listOf(a)}, !strings.Contains(c, `"`)
		}},
		{"@?", func(c string, a []string) (string, []string, bool) {
			return "~@?", append([]string{`"` + c + `"`}, a...), !strings.Contains(c, `"`)
		}},
	}
	inner := full
	if !thorough {
		inner = m
	}
	// sep "" puts the inner directives directly before the block end, "-" puts text in between
	for _, sep := range []string{"-", ""} {
		for _, w := range wrappers {
			for _, it := range inner {
				if c, a, ok := w.wrap(it.ctrl+sep, it.args); ok {
					emit(mkSpec("nest", "", "a"+c+"|~A", append(a, "z")...))
				}
			}
		}
	}
	for _, sep := range []string{"-", ""} {
		for _, w := range wrappers {
			for _, i1 := range inner {
				for _, i2 := range inner {
					ic, ia := join([]item{i1, {sep, nil}, i2, {sep, nil}})
					if c, a, ok := w.wrap(ic, ia); ok {
						emit(mkSpec("nest", "", "a"+c+"|~A", append(a, "z")...))
					}
				}
			}
		}
	}
	for _, sep := range []string{"-", ""} {
		for _, w1 := range wrappers {
			for _, w2 := range wrappers {
				for _, it := range inner {
					c2, a2, ok := w2.wrap(it.ctrl+sep, it.args)
					if !ok {
						continue
					}
					if c, a, ok := w1.wrap(c2+sep, a2); ok {
						emit(mkSpec("nest", "", "a"+c+"|~A", append(a, "z")...))
					}
				}
			}
		}
	}
}

// splitTop splits the text of a list into the texts of its elements.
func splitTop(l string) []string {
	if l == "nil" {
		return nil
	}
	s := strings.TrimSpace(l)
	s = s[1 : len(s)-1]
	var out []string
	depth, start := 0, -1
	for i := 0; i < len(s); i++ {
		switch s[i] {
		case '(':
			if depth == 0 && start < 0 {
				start = i
			}
			depth++
		case ')':
			depth--
			if depth == 0 {
				out = append(out, s[start:i+1])
				start = -1
			}
		case ' ':
			if depth == 0 && 0 <= start {
				out = append(out, s[start:i])
				start = -1
			}
		default:
			if start < 0 {
				start = i
			}
		}
	}
	if 0 <= start {
		out = append(out, s[start:])
	}
	return out
}
