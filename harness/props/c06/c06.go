// Package c06: lists keep value semantics although they are stored as shared
// Go slices. Explicit-state exploration of operation histories over a pool of
// three list variables; every step is executed on the real interpreter and
// judged by frame / independence / value rules derived from the cons-cell
// semantics of the language (see oracle.go, models.go).
package c06

import (
	"fmt"
	"strings"

	"github.com/ohler55/slip"

	"verif/engine"
	"verif/lisp"
)

func init() {
	engine.Register(&engine.Prop{
		ID:    "C06",
		Level: "model_checking",
		Rule: "histories of list operations on the variables a, b, c starting from a=(1 2 3 4), b=c=nil; every step is one Lisp form " +
			"((setq V (f ...)) or a destructive call) read and evaluated by the real interpreter in a fresh scope; new elements are " +
			"fresh fixnums (1 + the largest element alive); after the LAST step the three variables are read through the Go API " +
			"(type switch, unsafe.SliceData/len/cap) and compared with what the step must do to the OBSERVED pre-state: frame (a " +
			"function not documented as destructive changes no other variable), independence (a destructive function changes no " +
			"variable that cannot share structure with its operands by the language rules), value (the result equals the cons-cell " +
			"reference result). A case is non-trivial when that comparison covers at least one non-empty list held by a variable " +
			"other than the one assigned. A history containing a step that has no defined outcome in the reference semantics (empty " +
			"operand, index out of range, splice that would build a cycle) or that starts with an operation on c is counted as " +
			"executed but judges nothing (hit counter 'judged' = histories actually judged)",
		Assumptions: []string{
			"sharing by the language rules is tracked as equivalence classes (two proper lists share iff they have a common tail); " +
				"destructive cuts (rplacd, delete) never split a class, which only makes the oracle more permissive",
			"add is documented by slip as 'potentially modifying the list': it is treated as destructive, its result may share with its argument",
			"elements are fixnums only; no nested lists, no dotted pairs are created by the alphabet",
			"histories that would build a circular list in a cons-cell Lisp (nconc/rplacd of a list onto a list it shares with) are not explored",
			"a history whose first step mentions c is skipped: at the root b and c are both nil, so it is the b<->c mirror image of an explored one",
		},
		Enumerate: enumerate,
		Exec:      exec,
		BFS: &engine.BFS{
			Ops: func(tier string) []string {
				if tier == engine.Thorough {
					return alphabet("core")
				}
				return alphabet(engine.Quick)
			},
			MaxDepth: func(tier string) int {
				if tier == engine.Thorough {
					return 4
				}
				return 3
			},
			NoDedupDepth: func(string) int { return 2 },
			StateCap: func(tier string) int {
				if tier == engine.Thorough {
					return 3000000
				}
				return 0
			},
		},
		Required: []string{"judged", "shared-backing", "destructive-on-shared", "extend-with-spare-cap"},
		Bound:    bound,
		Selftest: selftest,
	})
}

func bound(tier string) string {
	q, all, core := alphabet(engine.Quick), alphabet("all"), alphabet("core")
	if tier == engine.Thorough {
		return fmt.Sprintf("static phase: every history of length 1..3 over the full alphabet of %d instantiated operations (%d families: %s), "+
			"no deduplication, first step restricted to the operations applicable at the root that do not mention c (mirror symmetry); "+
			"BFS phase: histories of length <= 4 over the reduced alphabet of %d operations (%s), no deduplication up to length 2, "+
			"state-key deduplication beyond, state cap 3000000 (see notes if hit)",
			len(all), len(strings.Fields(families(all))), families(all), len(core), families(core))
	}
	return fmt.Sprintf("BFS: every history of length <= 3 over the quick alphabet of %d instantiated operations (%d families: %s), "+
		"no deduplication up to length 2, state-key deduplication at length 3; histories starting with an operation on c are skipped (mirror symmetry)",
		len(q), len(strings.Fields(families(q))), families(q))
}

// enumerate: thorough only - all histories of length 1..3 over the full alphabet.
func enumerate(tier string, emit func(string)) {
	if tier != engine.Thorough {
		// the quick tier is the BFS alone; one static case keeps the engine's "no case executed" guard quiet
		emit(engine.BFSSpec(nil))
		return
	}
	all := alphabet("all")
	var first []string
	m := newSliceModel(mutNone)
	m.reset()
	st := m.observe()
	t := newTrack()
	for _, c := range all {
		o := opIndex[c]
		if !mentions(o, 2) && applicable(o, &st, t) {
			first = append(first, c)
		}
	}
	emit(engine.BFSSpec(nil))
	for _, a := range first {
		emit(engine.BFSSpec([]string{a}))
	}
	for _, a := range first {
		for _, b := range all {
			emit(engine.BFSSpec([]string{a, b}))
		}
	}
	for _, a := range first {
		for _, b := range all {
			for _, c := range all {
				emit(engine.BFSSpec([]string{a, b, c}))
			}
		}
	}
}

func exec(spec string) (res engine.Result) {
	if strings.HasPrefix(spec, "lisp:") {
		return probe(spec[5:])
	}
	codes, ok := engine.ParseBFSSpec(spec)
	if !ok {
		res.Fail("harness:bad-spec", spec)
		return
	}
	hist, err := parseHist(codes)
	if err != nil {
		res.Fail("harness:bad-spec", err.Error())
		return
	}
	if 0 < len(hist) && mentions(hist[0], 2) {
		res.Outcome = "mirror"
		return
	}
	return runHistory(&slipImpl{}, hist, true)
}

// probe evaluates arbitrary forms with a, b, c bound (development aid:
// vcheck-C06 exec C06 --spec 'lisp:(setq b (subseq a 0 2)) (add b 9)').
func probe(src string) (res engine.Result) {
	m := &slipImpl{}
	m.reset()
	val, err := lisp.EvalIn(m.scope, src)
	st := m.observe()
	res.Outcome = fmt.Sprintf("value=%s err=%s | %s | %s", lisp.Show(val), err.String(), showState(&st), stateKey(&st))
	for _, v := range varNames {
		res.Outcome += fmt.Sprintf(" | %s=%s", v, lisp.Show(m.scope.Get(slip.Symbol(v))))
	}
	return
}
