package c13

import (
	"fmt"
	"sort"
	"strconv"
	"strings"
)

// ---------------------------------------------------------------------------
// Configurations and operations
// ---------------------------------------------------------------------------

// config is one bounded universe: packages x variable names x function names.
type config struct {
	tag   byte
	pk    []string // package letters: a b c
	vars  []string
	funcs []string
}

var (
	varCfg   = &config{tag: 'V', pk: []string{"a", "b"}, vars: []string{"v"}}
	funCfg   = &config{tag: 'W', pk: []string{"a", "b"}, funcs: []string{"f"}}
	smallCfg = &config{tag: 'S', pk: []string{"a", "b"}, vars: []string{"v"}, funcs: []string{"f"}}
	fullCfg  = &config{tag: 'F', pk: []string{"a", "b", "c"}, vars: []string{"v", "w"}, funcs: []string{"f", "g"}}
	// seedCfg is the full configuration explored from prepared three-package
	// states (seeds) instead of from the empty one.
	seedCfg = &config{tag: 'G', pk: []string{"a", "b", "c"}, vars: []string{"v", "w"}, funcs: []string{"f", "g"}}
)

// seeds: operation sequences (package.kind.arg) that build the richer
// three-package states a short history from the empty state cannot reach.
var seeds = [][]string{
	// two used packages export the same names
	{"b.defvar.v", "b.defun.f", "b.export.v", "b.export.f", "c.defvar.v", "c.defun.f", "c.export.v", "c.export.f", "a.use.b", "a.use.c"},
	// chain a -> b -> c (indirect use)
	{"c.defvar.v", "c.defun.f", "c.export.v", "c.export.f", "b.use.c", "b.defvar.w", "b.export.w", "a.use.b"},
	// one exporter with private and exported definitions, two users
	{"a.defvar.v", "a.export.v", "a.defun.f", "a.export.f", "a.defvar.w", "a.defun.g", "b.use.a", "c.use.a"},
	// a cycle of uses, each package exporting something different
	{"a.defvar.v", "a.export.v", "b.defun.f", "b.export.f", "c.defvar.w", "c.export.w", "a.use.b", "b.use.c", "c.use.a"},
}

// seedOps returns the root operations of the seeded exploration.
func seedOps(limit int) (out []string) {
	for i := range seeds {
		out = append(out, fmt.Sprintf("G%da.seed.%d", limit, i))
	}
	return
}

// expand turns a seed operation into its sequence; any other operation is
// returned as is.
func (o op) expand() (out []op) {
	if o.kind != "seed" {
		return []op{o}
	}
	k, _ := strconv.Atoi(o.arg)
	for _, s := range seeds[k] {
		x, _ := parseOp(fmt.Sprintf("%c%d%s", o.cfg.tag, o.limit, s))
		out = append(out, x)
	}
	return
}

func cfgOf(tag byte) *config {
	switch tag {
	case 'V':
		return varCfg
	case 'W':
		return funCfg
	case 'S':
		return smallCfg
	case 'F':
		return fullCfg
	case 'G':
		return seedCfg
	}
	return nil
}

func (c *config) names() []string { return append(append([]string{}, c.vars...), c.funcs...) }

func (c *config) isVar(n string) bool {
	for _, v := range c.vars {
		if v == n {
			return true
		}
	}
	return false
}

// ops lists the alphabet of the configuration, simplest first. An operation is
// "<cfg><pkg>.<kind>.<arg>": it is always executed as (in-package <pkg>)
// followed by the operation form. The digit after the configuration tag is the
// depth bound of the exploration (0 = none): it travels in the operation names
// because Exec must be a function of the spec alone.
func (c *config) ops(limit int) []string {
	var out []string
	add := func(p, kind, arg string) { out = append(out, fmt.Sprintf("%c%d%s.%s.%s", c.tag, limit, p, kind, arg)) }
	for _, p := range c.pk {
		for _, v := range c.vars {
			add(p, "defvar", v)
		}
		for _, f := range c.funcs {
			add(p, "defun", f)
		}
		for _, n := range c.names() {
			add(p, "export", n)
		}
		for _, q := range c.pk {
			if q != p {
				add(p, "use", q)
			}
		}
		for _, v := range c.vars {
			add(p, "setq", v)
		}
		for _, n := range c.names() {
			add(p, "unexport", n)
		}
		for _, q := range c.pk {
			if q != p {
				add(p, "unuse", q)
			}
		}
		for _, v := range c.vars {
			add(p, "makunbound", v)
		}
		for _, f := range c.funcs {
			add(p, "fmakunbound", f)
		}
	}
	return out
}

type op struct {
	cfg   *config
	limit int
	actor int
	kind  string
	arg   string // name, or package letter for use/unuse
	argPk int    // index of the package argument (use/unuse), else -1
}

func parseOp(s string) (o op, ok bool) {
	if len(s) < 6 || s[1] < '0' || '9' < s[1] {
		return
	}
	o.cfg = cfgOf(s[0])
	if o.cfg == nil {
		return
	}
	o.limit = int(s[1] - '0')
	parts := strings.Split(s[2:], ".")
	if len(parts) != 3 {
		return
	}
	o.actor = indexOf(o.cfg.pk, parts[0])
	o.kind, o.arg = parts[1], parts[2]
	o.argPk = -1
	if o.actor < 0 {
		return
	}
	switch o.kind {
	case "use", "unuse":
		o.argPk = indexOf(o.cfg.pk, o.arg)
		ok = 0 <= o.argPk && o.argPk != o.actor
	case "defvar", "setq", "makunbound":
		ok = o.cfg.isVar(o.arg)
	case "defun", "fmakunbound":
		ok = 0 <= indexOf(o.cfg.funcs, o.arg)
	case "export", "unexport":
		ok = 0 <= indexOf(o.cfg.names(), o.arg)
	case "seed":
		k, err := strconv.Atoi(o.arg)
		ok = err == nil && 0 <= k && k < len(seeds) && o.cfg == seedCfg
	}
	return
}

func indexOf(l []string, s string) int {
	for i, x := range l {
		if x == s {
			return i
		}
	}
	return -1
}

// Values written by the operations identify who wrote them.
func defvarVal(p int) int { return 10 + p }
func setqVal(p int) int   { return 20 + p }
func defunVal(p int) int  { return 30 + p }

const unboundVal = -1 // an own entry that exists but is unbound (export before definition)

// ---------------------------------------------------------------------------
// The graph: own definitions with export flag, and the use edges
// ---------------------------------------------------------------------------

type def struct {
	val    int
	exp    bool
	hidden bool // (from the implementation only) entry reachable through p::n only
	stale  bool // (from the implementation only) orphaned copy of a cell its home package no longer holds
	cell   int  // (from the implementation only) identity of the underlying cell
}

type mpkg struct {
	vars  map[string]*def // may also hold unbound exported placeholders for function names
	funcs map[string]*def
	uses  []int
}

type graph struct {
	cfg *config
	p   []mpkg
}

func newGraph(c *config) *graph {
	g := &graph{cfg: c, p: make([]mpkg, len(c.pk))}
	for i := range g.p {
		g.p[i].vars = map[string]*def{}
		g.p[i].funcs = map[string]*def{}
	}
	return g
}

func (g *graph) clone() *graph {
	n := &graph{cfg: g.cfg, p: make([]mpkg, len(g.p))}
	for i, p := range g.p {
		n.p[i].vars = map[string]*def{}
		n.p[i].funcs = map[string]*def{}
		for k, d := range p.vars {
			c := *d
			n.p[i].vars[k] = &c
		}
		for k, d := range p.funcs {
			c := *d
			n.p[i].funcs[k] = &c
		}
		n.p[i].uses = append([]int(nil), p.uses...)
	}
	return n
}

func (g *graph) tab(p int, kind byte) map[string]*def {
	if kind == 'v' {
		return g.p[p].vars
	}
	return g.p[p].funcs
}

func (g *graph) usesPkg(p, q int) bool {
	for _, u := range g.p[p].uses {
		if u == q {
			return true
		}
	}
	return false
}

// String is a canonical rendering (cells left out): used by the self-test as
// the state key of the simulated implementation and in failure details.
func (g *graph) String() string {
	var b strings.Builder
	for i, p := range g.p {
		fmt.Fprintf(&b, "%s{uses=", g.cfg.pk[i])
		for _, u := range p.uses {
			b.WriteString(g.cfg.pk[u])
		}
		for _, kind := range []byte{'v', 'f'} {
			t := g.tab(i, kind)
			var names []string
			for n := range t {
				names = append(names, n)
			}
			sort.Strings(names)
			for _, n := range names {
				d := t[n]
				fmt.Fprintf(&b, " %c:%s=%s", kind, n, valStr(d.val))
				if d.exp {
					b.WriteString("/exp")
				}
				if d.hidden {
					b.WriteString("/hidden")
				}
			}
		}
		b.WriteString("} ")
	}
	return b.String()
}

func valStr(v int) string {
	if v == unboundVal {
		return "U"
	}
	return strconv.Itoa(v)
}

// closure returns the packages reachable from p through use edges (p itself
// excluded), split in direct and indirect.
func (g *graph) closure(p int) (direct, indirect []int) {
	seen := map[int]bool{p: true}
	for _, u := range g.p[p].uses {
		if !seen[u] {
			seen[u] = true
			direct = append(direct, u)
		}
	}
	queue := append([]int(nil), direct...)
	for 0 < len(queue) {
		q := queue[0]
		queue = queue[1:]
		for _, u := range g.p[q].uses {
			if !seen[u] {
				seen[u] = true
				indirect = append(indirect, u)
				queue = append(queue, u)
			}
		}
	}
	return
}

// ---------------------------------------------------------------------------
// Visibility: the statement, as sets of acceptable observations
// ---------------------------------------------------------------------------

type set map[string]bool

func (s set) add(v string)      { s[v] = true }
func (s set) has(v string) bool { return s[v] }
func (s set) String() string {
	var l []string
	for k := range s {
		l = append(l, k)
	}
	sort.Strings(l)
	return "{" + strings.Join(l, ",") + "}"
}
func (s set) hasValue() bool {
	for k := range s {
		if k != "U" {
			return true
		}
	}
	return false
}

// rules selects the visibility rule; the zero value is the reference. The other
// fields are the mutated references of the self-test.
type rules struct {
	privateInherited bool // M: unexported definitions of used packages are visible
	extIgnoresExport bool // M: p:n reaches unexported definitions
	usedShadowsOwn   bool // M: an exported definition of a used package wins over the own one
}

// resolveUnq: acceptable results of evaluating n unqualified in package p.
//   - the own definition if there is one (exactly that);
//   - otherwise an exported definition of a directly used package (any of them
//     if several export n: S2), required to be visible;
//   - an exported definition of an indirectly used package is accepted but not
//     required (slip propagates some of them, the statement speaks of "a package
//     it uses": S2);
//   - otherwise unbound. An own or inherited unbound placeholder (export before
//     definition) makes "unbound" acceptable too.
func (g *graph) resolveUnq(r rules, p int, kind byte, n string) set {
	s := set{}
	own := g.tab(p, kind)[n]
	placeholder := false
	direct, indirect := g.closure(p)
	if r.usedShadowsOwn {
		for _, q := range direct {
			if d := g.tab(q, kind)[n]; d != nil && !d.hidden && d.exp && d.val != unboundVal {
				s.add(valStr(d.val))
				return s
			}
		}
	}
	if own != nil && !own.hidden {
		if own.val != unboundVal {
			s.add(valStr(own.val))
			return s
		}
		placeholder = true
	}
	required := false
	for _, q := range direct {
		if d := g.tab(q, kind)[n]; d != nil && !d.hidden && (d.exp || r.privateInherited) {
			if d.val == unboundVal {
				placeholder = true
			} else {
				s.add(valStr(d.val))
				required = true
			}
		}
	}
	for _, q := range indirect {
		if d := g.tab(q, kind)[n]; d != nil && !d.hidden && d.exp && d.val != unboundVal {
			s.add(valStr(d.val))
		}
	}
	if !required || placeholder {
		s.add("U")
	}
	return s
}

// inheritedOptional: exported bound definitions anywhere in the use closure.
func (g *graph) inheritedOptional(p int, kind byte, n string, s set) {
	direct, indirect := g.closure(p)
	for _, q := range append(direct, indirect...) {
		if d := g.tab(q, kind)[n]; d != nil && !d.hidden && d.exp && d.val != unboundVal {
			s.add(valStr(d.val))
		}
	}
}

// resolveExt: q:n evaluated with current package c.
func (g *graph) resolveExt(r rules, c, q int, kind byte, n string) set {
	s := set{}
	d := g.tab(q, kind)[n]
	switch {
	case d != nil && !d.hidden && d.val != unboundVal && (d.exp || r.extIgnoresExport):
		s.add(valStr(d.val))
	case d != nil && !d.hidden && d.val != unboundVal:
		s.add("U")
		if c == q { // the statement does not speak of q:n used inside q itself
			s.add(valStr(d.val))
		}
	case d != nil && !d.hidden: // unbound placeholder: not a definition; inherited names may show through
		s.add("U")
		g.inheritedOptional(q, kind, n, s)
	default:
		s.add("U")
		g.inheritedOptional(q, kind, n, s)
	}
	return s
}

// resolveInt: q::n.
func (g *graph) resolveInt(q int, kind byte, n string) set {
	s := set{}
	d := g.tab(q, kind)[n]
	switch {
	case d != nil && d.val != unboundVal:
		s.add(valStr(d.val))
	case d != nil:
		s.add("U")
		g.inheritedOptional(q, kind, n, s)
	default:
		s.add("U")
		g.inheritedOptional(q, kind, n, s)
	}
	return s
}

// slot identifies one observation.
type slot struct {
	form  string // unq | ext | int | uses | users
	c     int    // current package
	q     int    // package named in the qualified form (== c for unq)
	kind  byte   // 'v' or 'f'
	name  string
	probe string // boundp eval symval | fboundp call funcall | "" for qualified and lists
}

func (s slot) String() string {
	return fmt.Sprintf("%s|%d|%d|%c|%s|%s", s.form, s.c, s.q, s.kind, s.name, s.probe)
}

func unqProbes(kind byte) []string {
	if kind == 'v' {
		return []string{"boundp", "eval", "symval"}
	}
	return []string{"fboundp", "call", "funcall"}
}

// slots enumerates every observation of a state, in a fixed order.
func (c *config) slots() []slot {
	var out []slot
	for ci := range c.pk {
		for _, kind := range []byte{'v', 'f'} {
			names := c.vars
			if kind == 'f' {
				names = c.funcs
			}
			for _, n := range names {
				for _, pr := range unqProbes(kind) {
					out = append(out, slot{form: "unq", c: ci, q: ci, kind: kind, name: n, probe: pr})
				}
				for qi := range c.pk {
					out = append(out, slot{form: "ext", c: ci, q: qi, kind: kind, name: n})
					out = append(out, slot{form: "int", c: ci, q: qi, kind: kind, name: n})
				}
			}
		}
	}
	for pi := range c.pk {
		out = append(out, slot{form: "uses", c: pi, q: pi})
		out = append(out, slot{form: "users", c: pi, q: pi})
	}
	return out
}

func (g *graph) letters(l []int) string {
	var s []string
	for _, i := range l {
		s = append(s, g.cfg.pk[i])
	}
	sort.Strings(s)
	return strings.Join(s, "")
}

// expected returns the acceptable observations of one slot.
func (g *graph) expected(r rules, sl slot) set {
	switch sl.form {
	case "uses":
		return set{"(" + g.letters(g.p[sl.c].uses) + ")": true}
	case "users":
		var us []int
		for i := range g.p {
			if g.usesPkg(i, sl.c) {
				us = append(us, i)
			}
		}
		return set{"(" + g.letters(us) + ")": true}
	case "ext":
		return g.resolveExt(r, sl.c, sl.q, sl.kind, sl.name)
	case "int":
		return g.resolveInt(sl.q, sl.kind, sl.name)
	}
	s := g.resolveUnq(r, sl.c, sl.kind, sl.name)
	if sl.probe == "boundp" || sl.probe == "fboundp" {
		b := set{}
		if s.hasValue() {
			b.add("T")
		}
		if s.has("U") {
			b.add("N")
		}
		return b
	}
	return s
}

// ---------------------------------------------------------------------------
// Transitions: what each operation may do to the graph (a set of alternatives
// where the statement leaves a choice)
// ---------------------------------------------------------------------------

// mut selects a mutated transition function (self-test); zero = reference.
type mut struct {
	unuseDropsOwn      bool // unuse-package wipes the own definitions of the unusing package
	unexportNoEffect   bool // unexport leaves the flag set
	makunboundInUsers  bool // makunbound also removes the same-named own variable of every user
	fmakunboundNothing bool // fmakunbound removes nothing
	exportNoEffect     bool // export does not set the flag
	defunInUsed        bool // defun also overwrites the same-named function of used packages
}

type cand struct {
	q int
	d *def
}

func (g *graph) inheritedCands(p int, kind byte, n string) (out []cand) {
	direct, indirect := g.closure(p)
	for _, q := range append(direct, indirect...) {
		if d := g.tab(q, kind)[n]; d != nil && !d.hidden && d.exp {
			out = append(out, cand{q, d})
		}
	}
	return
}

// step returns the acceptable successor graphs of g under o. mayErr reports
// whether the operation may also signal an error (and then change nothing).
func (g *graph) step(m mut, o op) (alts []*graph, mayErr bool) {
	p := o.actor
	switch o.kind {
	case "use":
		a := g.clone()
		if !a.usesPkg(p, o.argPk) {
			a.p[p].uses = append(a.p[p].uses, o.argPk)
		}
		alts = append(alts, a)
		// Common Lisp signals a name conflict when the used package exports a
		// name the using package owns (or inherits from elsewhere): refusing is
		// acceptable too.
		if g.useConflict(p, o.argPk) {
			alts = append(alts, g.clone())
			mayErr = true
		}
	case "unuse":
		a := g.clone()
		var nu []int
		for _, u := range a.p[p].uses {
			if u != o.argPk {
				nu = append(nu, u)
			}
		}
		a.p[p].uses = nu
		if m.unuseDropsOwn {
			a.p[p].vars = map[string]*def{}
			a.p[p].funcs = map[string]*def{}
		}
		alts = append(alts, a)
	case "export":
		if m.exportNoEffect {
			alts = append(alts, g.clone())
			break
		}
		a := g.clone()
		any := false
		for _, kind := range []byte{'v', 'f'} {
			if d := a.tab(p, kind)[o.arg]; d != nil {
				d.exp = true
				d.hidden = false
				any = true
			}
		}
		alts = append(alts, a)
		if !any {
			// nothing own: exporting an inherited or an unknown name may
			// record an exported unbound placeholder, or do nothing.
			b := g.clone()
			b.p[p].vars[o.arg] = &def{val: unboundVal, exp: true}
			alts = append(alts, b)
		}
	case "unexport":
		if m.unexportNoEffect {
			alts = append(alts, g.clone())
			break
		}
		a := g.clone()
		for _, kind := range []byte{'v', 'f'} {
			if d := a.tab(p, kind)[o.arg]; d != nil && !d.hidden {
				d.exp = false
			}
		}
		alts = append(alts, a)
		if d := g.p[p].vars[o.arg]; d != nil && d.val == unboundVal {
			b := a.clone()
			delete(b.p[p].vars, o.arg)
			alts = append(alts, b)
		}
	case "defvar":
		own := g.p[p].vars[o.arg]
		switch {
		case own != nil && own.val != unboundVal:
			alts = append(alts, g.clone())
		case own != nil:
			a := g.clone()
			a.p[p].vars[o.arg].val = defvarVal(p)
			alts = append(alts, a)
		default:
			cs := g.inheritedCands(p, 'v', o.arg)
			bound := false
			for _, c := range cs {
				if c.d.val != unboundVal {
					bound = true
				}
			}
			if bound {
				alts = append(alts, g.clone()) // already bound through inheritance: nothing to do
			}
			for _, c := range cs {
				if c.d.val == unboundVal { // the inherited placeholder receives the value
					a := g.clone()
					a.p[c.q].vars[o.arg].val = defvarVal(p)
					alts = append(alts, a)
				}
			}
			a := g.clone() // the package gets its own definition
			a.p[p].vars[o.arg] = &def{val: defvarVal(p)}
			alts = append(alts, a)
		}
	case "setq":
		own := g.p[p].vars[o.arg]
		if own != nil {
			a := g.clone()
			a.p[p].vars[o.arg].val = setqVal(p)
			alts = append(alts, a)
			break
		}
		for _, c := range g.inheritedCands(p, 'v', o.arg) {
			a := g.clone()
			a.p[c.q].vars[o.arg].val = setqVal(p)
			alts = append(alts, a)
		}
		a := g.clone()
		a.p[p].vars[o.arg] = &def{val: setqVal(p)}
		alts = append(alts, a)
	case "defun":
		own := g.p[p].funcs[o.arg]
		if own != nil && !own.hidden {
			a := g.clone()
			a.p[p].funcs[o.arg].val = defunVal(p)
			if m.defunInUsed {
				for _, q := range a.p[p].uses {
					if d := a.p[q].funcs[o.arg]; d != nil {
						d.val = defunVal(p)
					}
				}
			}
			alts = append(alts, a)
			break
		}
		exp := false
		ph := g.p[p].vars[o.arg]
		if ph != nil && ph.val == unboundVal && ph.exp {
			exp = true
		}
		for _, c := range g.inheritedCands(p, 'f', o.arg) {
			// Common Lisp reading: the inherited symbol's function is redefined
			a := g.clone()
			a.p[c.q].funcs[o.arg].val = defunVal(p)
			alts = append(alts, a)
		}
		exps := []bool{exp}
		if !exp {
			// an exported unbound placeholder inherited from a used package: the
			// new function may take over the export status of that name (S2)
			for _, c := range g.inheritedCands(p, 'v', o.arg) {
				if c.d.val == unboundVal {
					exps = append(exps, true)
					break
				}
			}
		}
		keeps := []bool{false}
		if ph != nil && ph.val == unboundVal {
			keeps = []bool{false, true}
		}
		for _, e := range exps {
			for _, keepPh := range keeps {
				a := g.clone()
				a.p[p].funcs[o.arg] = &def{val: defunVal(p), exp: e}
				if ph != nil && ph.val == unboundVal && !keepPh {
					delete(a.p[p].vars, o.arg)
				}
				if m.defunInUsed {
					for _, q := range a.p[p].uses {
						if d := a.p[q].funcs[o.arg]; d != nil {
							d.val = defunVal(p)
						}
					}
				}
				alts = append(alts, a)
			}
		}
	case "makunbound", "fmakunbound":
		kind := byte('v')
		if o.kind == "fmakunbound" {
			kind = 'f'
		}
		if kind == 'f' && m.fmakunboundNothing {
			alts = append(alts, g.clone())
			break
		}
		own := g.tab(p, kind)[o.arg]
		if own != nil && !own.hidden {
			a := g.clone()
			delete(a.tab(p, kind), o.arg)
			if kind == 'v' && m.makunboundInUsers {
				for i := range a.p {
					if a.usesPkg(i, p) {
						delete(a.p[i].vars, o.arg)
					}
				}
			}
			alts = append(alts, a)
			// keeping the entry as an unbound one (the symbol stays present in
			// the package, export flag retained: Common Lisp) is fine too
			b := g.clone()
			b.tab(p, kind)[o.arg].val = unboundVal
			alts = append(alts, b)
			break
		}
		alts = append(alts, g.clone()) // no own definition: nothing to remove
		if cs := g.inheritedCands(p, kind, o.arg); 0 < len(cs) {
			// slip's reading (asserted for unintern, which shares Package.Remove
			// with makunbound, by its own test TestUninternInherited): the
			// inherited name is hidden in this package only
			a := g.clone()
			a.tab(p, kind)[o.arg] = &def{val: unboundVal}
			alts = append(alts, a)
		}
		for _, c := range g.inheritedCands(p, kind, o.arg) {
			// Common Lisp reading: the inherited symbol itself becomes unbound
			a := g.clone()
			delete(a.tab(c.q, kind), o.arg)
			alts = append(alts, a)
			b := g.clone()
			b.tab(c.q, kind)[o.arg].val = unboundVal
			alts = append(alts, b)
		}
	}
	return
}

// useConflict: would (use-package q) in p be a name conflict in Common Lisp?
func (g *graph) useConflict(p, q int) bool {
	for _, kind := range []byte{'v', 'f'} {
		for n, d := range g.tab(q, kind) {
			if d.hidden || !d.exp {
				continue
			}
			if own := g.tab(p, kind)[n]; own != nil && !own.hidden {
				return true
			}
			for _, c := range g.inheritedCands(p, kind, n) {
				if c.q != q {
					return true
				}
			}
		}
	}
	return false
}
