package c14

import (
	"fmt"
	"sort"
	"strconv"
	"strings"
	"unicode"
)

// The reference: every function written from the language definition (CLHS
// chapters 14 and 17) on Go slices of el. A mutation number != 0 switches on
// one deliberately wrong rule (oracle-sensitivity self-test, S6).

const (
	mutNone              = iota
	mutFromEndCountFront // :from-end with :count removes/substitutes from the front
	mutEndInclusive      // :end treated as inclusive
	mutStableUnstable    // stable-sort reverses runs of equal keys
	mutKeyNotOnString    // :key not applied on strings (position/find/count)
	mutSearchFromEndLeft // search :from-end returns the leftmost match
	mutMergeSecondFirst  // merge takes from sequence-2 on ties
	mutCountVisits       // :count counts visited elements instead of matches
	mutDupsKeepFirst     // remove-duplicates keeps the first instead of the last
	mutReduceFromEndArgs // reduce :from-end calls (f acc x) instead of (f x acc)
	mutTailAsElement     // maplist/mapl/mapcon hand the element, not the tail, to the function
	mutMapFirstLength    // map/mapcar/mapc.. run to the length of the first sequence (missing elements are nil)
	mutMapcanKeepsNil    // mapcan keeps a nil result as an element
	mutXorKeyFirstOnly   // set-exclusive-or applies :key to list-1 only
	mutXorConsumes       // set-exclusive-or: an element of list-2 matches at most one element of list-1
	mutAdjoinIgnoresTest // adjoin/pushnew compare the elements themselves whatever :test and :key say
	mutAdjoinTestSwapped // adjoin/pushnew call the test with (element item)
	mutSelfForward       // replace on one object copies forward element by element
	mutEltEndIsNil       // elt at index = length answers nil
	mutSubseqClamps      // subseq clamps an end beyond the length
	mutMapIntoClears     // map-into sets the elements it does not reach to nil
	mutNreverseStorage   // nreverse reverses the whole storage of a fill-pointer vector
	mutMakeSeqOffByOne   // make-sequence makes one element too many
	mutQuant3First2      // every/some.. over three sequences look at the first two only
	mutQuantBehindFill   // every/some.. visit the elements behind a fill pointer
	mutLast
)

var mutNames = map[int]string{
	mutFromEndCountFront: ":from-end with :count works from the front (remove/substitute family)",
	mutEndInclusive:      ":end treated as inclusive (item family)",
	mutStableUnstable:    "stable-sort does not keep equal elements in input order",
	mutKeyNotOnString:    ":key not applied to string elements (find/position/count)",
	mutSearchFromEndLeft: "search :from-end returns the leftmost match",
	mutMergeSecondFirst:  "merge prefers sequence-2 on ties",
	mutCountVisits:       ":count counts visited elements, not matches (substitute family)",
	mutDupsKeepFirst:     "remove-duplicates keeps the first duplicate without :from-end",
	mutReduceFromEndArgs: "reduce :from-end passes the accumulator first",
	mutTailAsElement:     "maplist/mapcon pass the element instead of the tail",
	mutMapFirstLength:    "map stops at the length of the first sequence instead of the shortest",
	mutMapcanKeepsNil:    "mapcan keeps a nil result as an element",
	mutXorKeyFirstOnly:   "set-exclusive-or ignores :key on the second list",
	mutXorConsumes:       "set-exclusive-or lets an element of list-2 match only one element of list-1",
	mutAdjoinIgnoresTest: "pushnew tests with identity whatever :test/:key say",
	mutAdjoinTestSwapped: "adjoin calls :test with (element item)",
	mutSelfForward:       "replace on one object copies forward without a temporary copy",
	mutEltEndIsNil:       "elt at index = length returns nil instead of signalling",
	mutSubseqClamps:      "subseq clamps an end beyond the length instead of signalling",
	mutMapIntoClears:     "map-into sets the elements beyond the shortest source to nil",
	mutNreverseStorage:   "nreverse reverses the storage behind the fill pointer too",
	mutMakeSeqOffByOne:   "make-sequence makes one element too many",
	mutQuant3First2:      "the quantifiers over three sequences ignore the third",
	mutQuantBehindFill:   "the quantifiers visit the elements behind a fill pointer",
}

// want is what the statement demands of one call.
type want struct {
	show    string                                // exact rendering (lisp.Show) demanded, when check == nil and truthy == nil
	truthy  *bool                                 // only the truth value is demanded
	check   func(got string, dec *decoded) string // custom acceptance: "" = accepted, else the reason
	orErr   bool                                  // a Lisp error is acceptable as well (undocumented keyword)
	mustErr bool                                  // a Lisp error is demanded (out-of-range index)
	desc    string                                // human description of what is demanded
}

func exact(s string) want { return want{show: s, desc: s} }
func errWant(why string) want {
	return want{mustErr: true, desc: "an error (" + why + ")"}
}
func truth(b bool) want {
	return want{truthy: &b, desc: map[bool]string{true: "a true value", false: "nil"}[b]}
}

// keyOf applies the call's :key to an element.
func (c *call) keyOf(e el, mut int) rune {
	if c.key && c.shape(0) == 'c' {
		if mut == mutKeyNotOnString {
			return e.ch
		}
		return unicode.ToLower(e.ch)
	}
	return e.ch // car of (sym . id) is the symbol; identity otherwise
}

// matchItem: does (test item key) hold.
func (c *call) matchItem(item, k rune) bool {
	switch c.test {
	case "lam":
		return item < k
	case "not":
		return item != k
	}
	return item == k
}

func (c *call) matchPred(k rune) bool {
	switch c.pred {
	case "eq":
		return k == 'b'
	case "gt":
		return 'b' < k
	}
	panic("bad pred")
}

// satisfies: the element test of the item / -if families.
func (c *call) satisfies(e el, mut int) bool {
	k := c.keyOf(e, mut)
	switch family(c.fn) {
	case famIf, famSubstIf:
		m := c.matchPred(k)
		if c.fn == "assoc-if-not" {
			return !m
		}
		return m
	}
	return c.matchItem(rune(c.item[0]), k)
}

func (c *call) bounds(n int, mut int) (s, e int) {
	s, e = 0, n
	if c.hasStart {
		s = c.start
	}
	if c.hasEnd && !c.endNil {
		e = c.end
		if mut == mutEndInclusive && e < n {
			e++
		}
	}
	return
}

func (c *call) bounds2(n int) (s, e int) {
	s, e = 0, n
	if c.hasStart2 {
		s = c.start2
	}
	if c.hasEnd2 && !c.endNil2 {
		e = c.end2
	}
	return
}

func (c *call) limit() int {
	switch c.count {
	case "", "nil":
		return 1 << 30
	}
	n, _ := strconv.Atoi(c.count)
	if n < 0 {
		n = 0
	}
	return n
}

// scan returns the indices of [s,e) in scan order.
func scan(s, e int, fromEnd bool) []int {
	var idx []int
	if fromEnd {
		for i := e - 1; s <= i; i-- {
			idx = append(idx, i)
		}
	} else {
		for i := s; i < e; i++ {
			idx = append(idx, i)
		}
	}
	return idx
}

func boolp(b bool) *bool { return &b }

// expect computes what the language defines for the call.
func expect(c *call, mut int) want {
	switch family(c.fn) {
	case famItem, famIf, famSubst, famSubstIf:
		return expectItem(c, mut)
	case famDups:
		return expectDups(c, mut)
	case famRev:
		els := c.els(0)
		out := make([]el, len(els))
		for i, e := range els {
			out[len(els)-1-i] = e
		}
		if c.typs[0] == 'F' {
			return expectRevFill(c, out, mut)
		}
		return exact(showSeq(c.typs[0], c.shape(0), out))
	case famTwo:
		return expectTwo(c, mut)
	case famSubseq:
		els := c.els(0)
		e := len(els)
		if c.subEnd != "" && c.subEnd != "nil" {
			e, _ = strconv.Atoi(c.subEnd)
		}
		if mut == mutSubseqClamps && len(els) < e {
			e = len(els)
		}
		if c.start < 0 || len(els) < c.start || len(els) < e || e < c.start {
			return errWant("the bounding indices are not inside the sequence")
		}
		return exact(showSeq(c.typs[0], c.shape(0), els[c.start:e]))
	case famFill:
		els := append([]el(nil), c.els(0)...)
		s, e := c.bounds(len(els), mut)
		for i := s; i < e; i++ {
			els[i] = newEl
		}
		return exact(showSeq(c.typs[0], c.shape(0), els))
	case famSort:
		return expectSort(c, mut)
	case famMerge:
		return expectMerge(c, mut)
	case famSet:
		return expectSet(c, mut)
	case famQuant:
		return expectQuant(c, mut)
	case famMap:
		return expectMap(c, mut)
	case famReduce:
		return expectReduce(c, mut)
	case famMapL:
		return expectMapL(c, mut)
	case famMapInto:
		return expectMapInto(c, mut)
	case famAdjoin:
		return expectAdjoin(c, mut)
	case famSelf:
		return expectSelf(c, mut)
	case famMake:
		return expectMake(c, mut)
	case famElt:
		els := c.els(0)
		switch {
		case 0 <= c.start && c.start < len(els):
			return exact(showEl(c.shape(0), els[c.start]))
		case mut == mutEltEndIsNil && c.start == len(els):
			return exact("nil")
		}
		return errWant("the index is not inside the sequence")
	case famConcat:
		var b []string
		for i := range c.seqs {
			for _, e := range c.els(i) {
				b = append(b, showEl(c.shape(i), e))
			}
		}
		return exact(showList(c.rtype, b, c, 0))
	}
	panic("no reference for " + c.fn)
}

// showList renders already rendered elements as a sequence of the named
// result type (string results are built from the character elements).
func showList(rtype string, parts []string, c *call, _ int) string {
	switch rtype {
	case "string":
		var b strings.Builder
		for _, p := range parts {
			// p is #\'x'
			r, _ := strconv.Unquote(p[2:])
			b.WriteString(r)
		}
		return strconv.Quote(b.String())
	case "vector":
		return "#(" + strings.Join(parts, " ") + ")"
	}
	if len(parts) == 0 {
		return "nil"
	}
	return "(" + strings.Join(parts, " ") + ")"
}

func expectItem(c *call, mut int) want {
	els := c.els(0)
	sh := c.shape(0)
	typ := c.typs[0]
	s, e := c.bounds(len(els), mut)
	order := scan(s, e, c.fromEnd)
	op := c.fn
	for _, suf := range []string{"-if-not", "-if"} {
		op = strings.TrimSuffix(op, suf)
	}
	switch op {
	case "find", "position", "member", "assoc", "rassoc":
		for _, i := range order {
			if c.satisfies(els[i], mut) {
				switch op {
				case "position":
					return exact(strconv.Itoa(i))
				case "member":
					return exact(showSeq('L', sh, els[i:]))
				}
				return exact(showEl(sh, els[i]))
			}
		}
		return exact("nil")
	case "count":
		n := 0
		for _, i := range order {
			if c.satisfies(els[i], mut) {
				n++
			}
		}
		return exact(strconv.Itoa(n))
	case "remove", "delete", "substitute", "nsubstitute":
		limit := c.limit()
		if mut == mutFromEndCountFront && c.fromEnd && c.count != "" {
			order = scan(s, e, false)
		}
		chosen := map[int]bool{}
		visits := 0
		for _, i := range order {
			if limit <= len(chosen) {
				break
			}
			if mut == mutCountVisits && c.count != "" && (op == "substitute" || op == "nsubstitute") {
				if limit <= visits {
					break
				}
				visits++
			}
			if c.satisfies(els[i], mut) {
				chosen[i] = true
			}
		}
		var out []el
		for i, x := range els {
			switch {
			case !chosen[i]:
				out = append(out, x)
			case op == "substitute" || op == "nsubstitute":
				out = append(out, newEl)
			}
		}
		w := exact(showSeq(typ, sh, out))
		if c.count == "nil" {
			// slip documents :count as a fixnum whose default is nil; passing nil explicitly may be rejected
			w.orErr = true
		}
		if c.test == "not" {
			w.orErr = true
		}
		return w
	}
	panic("no item reference for " + c.fn)
}

func expectDups(c *call, mut int) want {
	els := c.els(0)
	s, e := c.bounds(len(els), mut)
	removed := map[int]bool{}
	fromEnd := c.fromEnd
	if mut == mutDupsKeepFirst {
		fromEnd = true
	}
	for i := s; i < e; i++ {
		for j := i + 1; j < e; j++ {
			if c.keyOf(els[i], mut) == c.keyOf(els[j], mut) {
				if fromEnd {
					removed[j] = true
				} else {
					removed[i] = true
				}
			}
		}
	}
	var out []el
	for i, x := range els {
		if !removed[i] {
			out = append(out, x)
		}
	}
	return exact(showSeq(c.typs[0], c.shape(0), out))
}

func (c *call) match2(a, b el, mut int) bool {
	ka, kb := c.keyOf(a, mut), c.keyOf(b, mut)
	if c.test == "lam" {
		return ka < kb
	}
	return ka == kb
}

func expectTwo(c *call, mut int) want {
	a, b := c.els(0), c.els(1)
	s1, e1 := c.bounds(len(a), mut)
	s2, e2 := c.bounds2(len(b))
	switch c.fn {
	case "search":
		n := e1 - s1
		var found []int
		for p := s2; p+n <= e2; p++ {
			ok := true
			for i := 0; i < n; i++ {
				if !c.match2(a[s1+i], b[p+i], mut) {
					ok = false
					break
				}
			}
			if ok {
				found = append(found, p)
			}
		}
		if len(found) == 0 {
			return exact("nil")
		}
		if n == 0 && c.fromEnd && mut == mutNone {
			// an empty pattern matches everywhere; with :from-end the rightmost match is at end2, but
			// implementations that answer start2 exist: both are accepted
			lo, hi := strconv.Itoa(s2), strconv.Itoa(e2)
			w := want{desc: hi + " (or " + lo + ")"}
			w.check = func(got string, _ *decoded) string {
				if got == lo || got == hi {
					return ""
				}
				return "neither start2 nor end2"
			}
			return w
		}
		if c.fromEnd && mut != mutSearchFromEndLeft {
			return exact(strconv.Itoa(found[len(found)-1]))
		}
		return exact(strconv.Itoa(found[0]))
	case "mismatch":
		n1, n2 := e1-s1, e2-s2
		if c.fromEnd {
			for j := 0; ; j++ {
				if n1 <= j && n2 <= j {
					return exact("nil")
				}
				if n1 <= j || n2 <= j || !c.match2(a[e1-1-j], b[e2-1-j], mut) {
					return exact(strconv.Itoa(e1 - j))
				}
			}
		}
		for j := 0; ; j++ {
			if n1 <= j && n2 <= j {
				return exact("nil")
			}
			if n1 <= j || n2 <= j || !c.match2(a[s1+j], b[s2+j], mut) {
				return exact(strconv.Itoa(s1 + j))
			}
		}
	case "replace":
		out := append([]el(nil), a...)
		for i := 0; s1+i < e1 && s2+i < e2; i++ {
			out[s1+i] = b[s2+i]
		}
		return exact(showSeq(c.typs[0], c.shape(0), out))
	}
	panic("no two-sequence reference for " + c.fn)
}

// less: the sort predicate on keys.
func (c *call) less(a, b el, mut int) bool {
	ka, kb := c.keyOf(a, mut), c.keyOf(b, mut)
	if c.pred == "gtp" {
		return kb < ka
	}
	return ka < kb
}

func expectSort(c *call, mut int) want {
	els := append([]el(nil), c.els(0)...)
	typ, sh := c.typs[0], c.shape(0)
	sort.SliceStable(els, func(i, j int) bool { return c.less(els[i], els[j], mut) })
	if c.fn == "stable-sort" {
		if mut == mutStableUnstable {
			// reverse every run of equal keys
			for i := 0; i < len(els); {
				j := i
				for j < len(els) && !c.less(els[i], els[j], mut) && !c.less(els[j], els[i], mut) {
					j++
				}
				for a, b := i, j-1; a < b; a, b = a+1, b-1 {
					els[a], els[b] = els[b], els[a]
				}
				i = j
			}
		}
		return exact(showSeq(typ, sh, els))
	}
	// sort: any permutation of the input that is ordered by the predicate
	in := c.els(0)
	w := want{desc: "a permutation of the input ordered by the predicate, e.g. " + showSeq(typ, sh, els)}
	w.check = func(got string, dec *decoded) string {
		if dec == nil || dec.typ != normTyp(typ) {
			return "result is not a " + typName(typ)
		}
		if !sameMultiset(dec.els, in, sh) {
			return "result is not a permutation of the input"
		}
		for i := 0; i+1 < len(dec.els); i++ {
			if c.less(dec.els[i+1], dec.els[i], mutNone) {
				return fmt.Sprintf("elements %d and %d are out of order", i, i+1)
			}
		}
		return ""
	}
	return w
}

func expectMerge(c *call, mut int) want {
	a, b := c.els(0), c.els(1)
	var out []el
	for 0 < len(a) || 0 < len(b) {
		switch {
		case len(a) == 0:
			out = append(out, b...)
			b = nil
		case len(b) == 0:
			out = append(out, a...)
			a = nil
		default:
			takeB := c.less(b[0], a[0], mut)
			if mut == mutMergeSecondFirst {
				takeB = !c.less(a[0], b[0], mut)
			}
			if takeB {
				out = append(out, b[0])
				b = b[1:]
			} else {
				out = append(out, a[0])
				a = a[1:]
			}
		}
	}
	parts := make([]string, len(out))
	for i, e := range out {
		parts[i] = showEl(c.shape(0), e)
	}
	return exact(showList(c.rtype, parts, c, 0))
}

// sorted says whether els is ordered by the call's predicate (merge inputs).
func (c *call) sorted(els []el) bool {
	for i := 0; i+1 < len(els); i++ {
		if c.less(els[i+1], els[i], mutNone) {
			return false
		}
	}
	return true
}

func expectSet(c *call, mut int) want {
	a, b := c.els(0), c.els(1)
	sh := c.shape(0)
	has := func(k rune, in []el) bool {
		for _, e := range in {
			if c.keyOf(e, mut) == k {
				return true
			}
		}
		return false
	}
	if c.fn == "subsetp" {
		for _, x := range a {
			ok := false
			for _, y := range b {
				if c.match2(x, y, mut) {
					ok = true
				}
			}
			if !ok {
				return truth(false)
			}
		}
		return truth(true)
	}
	if c.fn == "set-exclusive-or" || c.fn == "nset-exclusive-or" {
		return expectXor(c, mut)
	}
	// which keys must be present, and from which pool the elements may come
	var pool []el
	need := map[rune]bool{}
	switch c.fn {
	case "union", "nunion":
		pool = append(append(pool, a...), b...)
		for _, e := range pool {
			need[c.keyOf(e, mut)] = true
		}
	case "intersection", "nintersection":
		pool = append(append(pool, a...), b...)
		for _, e := range a {
			if has(c.keyOf(e, mut), b) {
				need[c.keyOf(e, mut)] = true
			}
		}
	case "set-difference", "nset-difference":
		if c.test == "lam" {
			// asymmetric test: elements of list-1 for which no element of list-2 satisfies (test k1 k2)
			var out []el
			for _, x := range a {
				hit := false
				for _, y := range b {
					if c.match2(x, y, mut) {
						hit = true
					}
				}
				if !hit {
					out = append(out, x)
				}
			}
			exp := out
			w := want{desc: "the elements of list-1 matching no element of list-2 (any order): " + showSeq('L', sh, exp)}
			w.check = func(got string, dec *decoded) string {
				if dec == nil || dec.typ != 'L' {
					return "result is not a list"
				}
				if !sameMultiset(dec.els, exp, sh) {
					return "wrong elements"
				}
				return ""
			}
			return w
		}
		pool = a
		for _, e := range a {
			if !has(c.keyOf(e, mut), b) {
				need[c.keyOf(e, mut)] = true
			}
		}
	}
	noDups := func(in []el) bool {
		seen := map[rune]bool{}
		for _, e := range in {
			k := c.keyOf(e, mut)
			if seen[k] {
				return false
			}
			seen[k] = true
		}
		return true
	}
	strict := noDups(a) && noDups(b)
	var keys []string
	for k := range need {
		keys = append(keys, string(k))
	}
	sort.Strings(keys)
	w := want{desc: fmt.Sprintf("a list (any order) whose keys are exactly {%s}, elements taken from the arguments", strings.Join(keys, " "))}
	w.check = func(got string, dec *decoded) string {
		if dec == nil || dec.typ != 'L' {
			return "result is not a list"
		}
		gotKeys := map[rune]int{}
		avail := map[el]int{}
		for _, e := range pool {
			avail[normEl(e, sh)]++
		}
		for _, e := range dec.els {
			ne := normEl(e, sh)
			if avail[ne] == 0 {
				return "element " + showEl(sh, e) + " occurs more often than in the arguments"
			}
			avail[ne]--
			gotKeys[c.keyOf(e, mutNone)]++
		}
		for k := range need {
			if gotKeys[k] == 0 {
				return "no element with key " + string(k)
			}
		}
		for k, n := range gotKeys {
			if !need[k] {
				return "unexpected element with key " + string(k)
			}
			if strict && 1 < n {
				return "key " + string(k) + " occurs more than once although neither argument has duplicates"
			}
		}
		return ""
	}
	return w
}

// normEl drops the identity where the shape cannot show it.
func normEl(e el, sh byte) el {
	if sh == 'y' || sh == 'c' {
		e.id = 0
	}
	return e
}

func sameMultiset(a, b []el, sh byte) bool {
	if len(a) != len(b) {
		return false
	}
	m := map[el]int{}
	for _, e := range a {
		m[normEl(e, sh)]++
	}
	for _, e := range b {
		m[normEl(e, sh)]--
	}
	for _, n := range m {
		if n != 0 {
			return false
		}
	}
	return true
}

func expectQuant(c *call, mut int) want {
	n := -1
	for i := range c.seqs {
		if n < 0 || len(c.seqs[i]) < n {
			n = len(c.seqs[i])
		}
	}
	e0 := c.els(0)
	if mut == mutQuantBehindFill && c.typs[0] == 'F' {
		e0 = append(e0, hiddenEls...)
		n = len(e0)
	}
	holds := func(i int) bool {
		switch c.pred {
		case "hid":
			return e0[i].ch == 'x'
		case "eq", "gt":
			return c.matchPred(e0[i].ch)
		case "eq2":
			return c.els(0)[i].ch == c.els(1)[i].ch
		case "lt2":
			return c.els(0)[i].ch < c.els(1)[i].ch
		case "eq3":
			if mut == mutQuant3First2 {
				return c.els(0)[i].ch == c.els(1)[i].ch
			}
			return c.els(0)[i].ch == c.els(1)[i].ch && c.els(1)[i].ch == c.els(2)[i].ch
		case "lt13":
			if mut == mutQuant3First2 {
				return c.els(0)[i].ch < c.els(1)[i].ch
			}
			return c.els(0)[i].ch < c.els(2)[i].ch
		}
		panic("bad quantifier predicate")
	}
	if mut == mutQuant3First2 && len(c.seqs) == 3 {
		n = min(len(c.seqs[0]), len(c.seqs[1]))
	}
	all, any := true, false
	for i := 0; i < n; i++ {
		if holds(i) {
			any = true
		} else {
			all = false
		}
	}
	switch c.fn {
	case "every":
		return truth(all)
	case "some":
		return truth(any)
	case "notany":
		return truth(!any)
	case "notevery":
		return truth(!all)
	}
	panic("bad quantifier")
}

func expectMap(c *call, mut int) want {
	n := -1
	for i := range c.seqs {
		if n < 0 || len(c.seqs[i]) < n {
			n = len(c.seqs[i])
		}
	}
	elAt := func(j, i int) string {
		if len(c.seqs[j]) <= i {
			return "nil"
		}
		return showEl(c.shape(j), c.els(j)[i])
	}
	if mut == mutMapFirstLength {
		n = len(c.seqs[0])
	}
	tuple := func(i int) string {
		var t []string
		for j := range c.seqs {
			t = append(t, elAt(j, i))
		}
		return "(" + strings.Join(t, " ") + ")"
	}
	if c.pred == "acc" { // map nil: the calls are recorded, latest first
		var acc []string
		for i := n - 1; 0 <= i; i-- {
			acc = append(acc, tuple(i))
		}
		return exact("(nil " + showList("list", acc, c, 0) + ")")
	}
	var parts []string
	for i := 0; i < n; i++ {
		switch c.pred {
		case "tuple":
			parts = append(parts, tuple(i))
		case "last":
			parts = append(parts, elAt(len(c.seqs)-1, i))
		case "wrap":
			parts = append(parts, "("+showEl(c.shape(0), c.els(0)[i])+")")
		case "up":
			e := c.els(0)[i]
			e.ch = unicode.ToUpper(e.ch)
			parts = append(parts, showEl('c', e))
		case "pair2":
			parts = append(parts, tuple(i))
		case "second2":
			parts = append(parts, elAt(1, i))
		}
	}
	if c.fn == "map" && c.rtype == "nil" {
		return exact("nil")
	}
	rt := c.rtype
	if c.fn == "mapcar" {
		rt = "list"
	}
	return exact(showList(rt, parts, c, 0))
}

func expectReduce(c *call, mut int) want {
	els := c.els(0)
	s, e := c.bounds(len(els), mut)
	var vals []string
	for _, x := range els[s:e] {
		k := c.keyOf(x, mut)
		if c.shape(0) == 'c' {
			vals = append(vals, showEl('c', el{ch: k}))
		} else if c.key {
			vals = append(vals, string(k))
		} else {
			vals = append(vals, showEl(c.shape(0), x))
		}
	}
	pair := func(a, b string) string { return "(" + a + " " + b + ")" }
	if c.fromEnd {
		var acc string
		if c.init {
			acc = "i"
		} else {
			if len(vals) == 0 {
				return exact("zero")
			}
			acc = vals[len(vals)-1]
			vals = vals[:len(vals)-1]
		}
		for i := len(vals) - 1; 0 <= i; i-- {
			if mut == mutReduceFromEndArgs {
				acc = pair(acc, vals[i])
			} else {
				acc = pair(vals[i], acc)
			}
		}
		return exact(acc)
	}
	var acc string
	if c.init {
		acc = "i"
	} else {
		if len(vals) == 0 {
			return exact("zero")
		}
		acc = vals[0]
		vals = vals[1:]
	}
	for _, v := range vals {
		acc = pair(acc, v)
	}
	return exact(acc)
}

func normTyp(t byte) byte {
	if t == 'N' {
		return 'L'
	}
	if t == 'F' {
		return 'V'
	}
	return t
}

func typName(t byte) string {
	switch t {
	case 'L':
		return "list"
	case 'N':
		return "nil"
	case 'V':
		return "vector"
	case 'F':
		return "vector-with-fill-pointer"
	case 'S':
		return "string"
	}
	return "?"
}

// ---------------------------------------------------------------- the list mapping functions

// expectMapL: mapc mapcan mapcon mapl maplist. The function is applied to the successive elements (mapc mapcan)
// or the successive tails (mapl maplist mapcon) of the lists until the shortest list is exhausted; mapc and mapl
// return the first list, maplist the list of the results, mapcan and mapcon the concatenation of the results.
func expectMapL(c *call, mut int) want {
	n := -1
	for i := range c.seqs {
		if n < 0 || len(c.seqs[i]) < n {
			n = len(c.seqs[i])
		}
	}
	if mut == mutMapFirstLength {
		n = len(c.seqs[0])
	}
	byTail := c.fn == "mapl" || c.fn == "maplist" || c.fn == "mapcon"
	if mut == mutTailAsElement {
		byTail = false
	}
	arg := func(j, i int) string {
		els := c.els(j)
		if len(els) <= i {
			return "nil"
		}
		if byTail {
			return showSeq('L', c.shape(j), els[i:])
		}
		return showEl(c.shape(j), els[i])
	}
	args := func(i int) []string {
		var t []string
		for j := range c.seqs {
			t = append(t, arg(j, i))
		}
		return t
	}
	list := func(parts []string) string { return showList("list", parts, c, 0) }
	first := showSeq('L', c.shape(0), c.els(0))
	switch c.fn {
	case "mapc", "mapl":
		var acc []string
		for i := n - 1; 0 <= i; i-- {
			acc = append(acc, list(args(i)))
		}
		return exact("(" + first + " " + list(acc) + ")")
	case "maplist":
		var parts []string
		for i := 0; i < n; i++ {
			if c.pred == "self" {
				parts = append(parts, arg(0, i))
			} else {
				parts = append(parts, list(args(i)))
			}
		}
		return exact(list(parts))
	case "mapcan", "mapcon":
		var parts []string
		for i := 0; i < n; i++ {
			head := c.els(0)[i]
			switch c.pred {
			case "tuple":
				parts = append(parts, args(i)...)
			case "dup":
				parts = append(parts, arg(0, i), arg(0, i))
			case "copy":
				if !byTail {
					parts = append(parts, arg(0, i))
					break
				}
				for _, e := range c.els(0)[i:] {
					parts = append(parts, showEl(c.shape(0), e))
				}
			case "filt":
				if head.ch != 'b' {
					parts = append(parts, showEl(c.shape(0), head))
				} else if mut == mutMapcanKeepsNil {
					parts = append(parts, "nil")
				}
			default:
				panic("bad list-mapping function " + c.pred)
			}
		}
		return exact(list(parts))
	}
	panic("no list-mapping reference for " + c.fn)
}

// expectMapInto: the result sequence is sequence 0; its first min(length, shortest source) elements are replaced
// by the results, the others stay; the (same) result sequence is returned.
func expectMapInto(c *call, mut int) want {
	r := c.els(0)
	n := len(r)
	for i := 1; i < len(c.seqs); i++ {
		if len(c.seqs[i]) < n {
			n = len(c.seqs[i])
		}
	}
	var parts []string
	for i := range r {
		switch {
		case i < n && len(c.seqs) == 1:
			parts = append(parts, "z")
		case i < n:
			var t []string
			for j := 1; j < len(c.seqs); j++ {
				t = append(t, showEl(c.shape(j), c.els(j)[i]))
			}
			parts = append(parts, "("+strings.Join(t, " ")+")")
		case mut == mutMapIntoClears:
			parts = append(parts, "nil")
		default:
			parts = append(parts, showEl(c.shape(0), r[i]))
		}
	}
	rt := "list"
	if c.typs[0] == 'V' {
		rt = "vector"
	}
	res := showList(rt, parts, c, 0)
	w := exact("(" + res + " " + res + ")")
	if strings.ContainsRune(c.typs, 'V') {
		// slip documents map-into for lists only (FuncDoc: result-sequence list, lists): a vector may be rejected
		w.orErr = true
	}
	return w
}

// adjoinItem: the item of an adjoin / pushnew call. With :key car it is a pair no element is equal to as a whole;
// as a whole pair (no :key) it is equal to the element at index 1 when the letters agree.
func (c *call) adjoinItem() el {
	e := el{ch: rune(c.item[0])}
	if c.key {
		e.id = 77
	} else if c.pred == "pairs" {
		e.id = 1
	}
	return e
}

// expectAdjoin: the item is added in front unless some element satisfies the test, which is called with the
// (keyed) item first and the (keyed) element second.
func expectAdjoin(c *call, mut int) want {
	els := c.els(0)
	sh := c.shape(0)
	item := c.adjoinItem()
	whole := sh == 'p' && !c.key
	same := func(e el) bool {
		if whole {
			return e == item
		}
		return e.ch == item.ch
	}
	matches := func(e el) bool {
		if mut == mutAdjoinIgnoresTest {
			return e == item || sh != 'p' && e.ch == item.ch
		}
		a, b := item.ch, e.ch
		if mut == mutAdjoinTestSwapped {
			a, b = b, a
		}
		switch c.test {
		case "lam":
			return a < b
		case "notlam":
			return !(a < b)
		case "not":
			return !same(e)
		}
		return same(e)
	}
	present := false
	for _, e := range els {
		present = present || matches(e)
	}
	old := showSeq('L', sh, els)
	added := showSeq('L', sh, append([]el{item}, els...))
	render := func(l string) string {
		if c.fn == "pushnew" {
			return "(" + l + " " + l + ")" // the value and the place afterwards
		}
		return l
	}
	res := added
	if present {
		res = old
	}
	if c.fn == "pushnew" && whole && c.test == "" && mut == mutNone {
		// pushnew does not document its default test: eql (the language) and equal (slip's documented default
		// elsewhere) differ on a pair that is equal to an element, so both answers are accepted
		a, b := render(old), render(added)
		w := want{show: render(res), desc: a + " or " + b}
		w.check = func(got string, _ *decoded) string {
			if got == a || got == b {
				return ""
			}
			return "neither the old list nor the list with the item in front"
		}
		return w
	}
	return exact(render(res))
}

// expectXor: the elements of list-1 and list-2 that appear in no matching pair (one element of each list, the
// test called with the keyed element of list-1 first), in any order.
func expectXor(c *call, mut int) want {
	a, b := c.els(0), c.els(1)
	sh := c.shape(0)
	pair := func(x, y el) bool {
		if mut == mutXorKeyFirstOnly && c.key {
			return false // a key never equals (or orders against) a whole pair
		}
		return c.match2(x, y, mutNone)
	}
	m1, m2 := make([]bool, len(a)), make([]bool, len(b))
	for i, x := range a {
		for j, y := range b {
			if mut == mutXorConsumes && m2[j] {
				continue
			}
			if pair(x, y) {
				m1[i], m2[j] = true, true
			}
		}
	}
	var exp []el
	for i, x := range a {
		if !m1[i] {
			exp = append(exp, x)
		}
	}
	for j, y := range b {
		if !m2[j] {
			exp = append(exp, y)
		}
	}
	w := want{show: showSeq('L', sh, exp), desc: "the elements that appear in no matching pair (any order): " + showSeq('L', sh, exp)}
	w.check = func(got string, dec *decoded) string {
		if dec == nil || dec.typ != 'L' {
			return "result is not a list"
		}
		if !sameMultiset(dec.els, exp, sh) {
			return "wrong elements"
		}
		return ""
	}
	return w
}

// expectSelf: replace with the same object as target and source: as if the source region were copied first.
func expectSelf(c *call, mut int) want {
	a := c.els(0)
	s1, e1 := c.bounds(len(a), mutNone)
	s2, e2 := c.bounds2(len(a))
	out := append([]el(nil), a...)
	src := append([]el(nil), a[s2:e2]...)
	for i := 0; s1+i < e1 && i < len(src); i++ {
		if mut == mutSelfForward {
			out[s1+i] = out[s2+i]
		} else {
			out[s1+i] = src[i]
		}
	}
	return exact(showSeq(c.typs[0], c.shape(0), out))
}

// expectMake: make-sequence and copy-seq.
func expectMake(c *call, mut int) want {
	if c.fn == "copy-seq" {
		els := c.els(0)
		typ, sh := c.typs[0], c.shape(0)
		if !c.copyMutates() {
			return exact(showSeq(typ, sh, els))
		}
		cp := append([]el(nil), els...)
		cp[0] = newEl
		return exact("(" + showSeq(typ, sh, cp) + " " + showSeq(typ, sh, els) + ")")
	}
	n := c.start
	if mut == mutMakeSeqOffByOne {
		n++
	}
	if !c.init {
		return exact("(" + strconv.Itoa(n) + " t)")
	}
	var parts []string
	for i := 0; i < n; i++ {
		parts = append(parts, showEl(c.shape(0), newEl))
	}
	return exact(showList(c.rtype, parts, c, 0))
}

// expectRevFill: reverse / nreverse of a vector with a fill pointer: the active elements reversed; the elements
// behind the fill pointer stay, and reverse leaves its argument alone.
func expectRevFill(c *call, rev []el, mut int) want {
	sh := c.shape(0)
	hidden := hiddenEls
	if mut == mutNreverseStorage && c.fn == "nreverse" {
		full := append(append([]el(nil), c.els(0)...), hiddenEls...)
		for i, j := 0, len(full)-1; i < j; i, j = i+1, j-1 {
			full[i], full[j] = full[j], full[i]
		}
		rev, hidden = full[:len(rev)], full[len(rev):]
	}
	parts := []string{showSeq('V', sh, rev)}
	if c.fn == "reverse" {
		parts = append(parts, showSeq('V', sh, c.els(0)))
	}
	parts = append(parts, showEl(sh, hidden[0]), showEl(sh, hidden[1]))
	return exact("(" + strings.Join(parts, " ") + ")")
}
