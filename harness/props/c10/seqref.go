//go:build verif

package c10

// Reference model for C10 (sequential part): a cache-free dispatcher over a
// plain method table, written without looking at how slip stores methods.
// It imports nothing from slip so that the concurrent part can reuse it.

import (
	"fmt"
	"sort"
	"strings"
)

// Method body variants. The slot a variant occupies is slotOf(variant).
//
//	p primary          b :before          a :after
//	w :around, calls (call-next-method args...) and wraps the value
//	s :around that does NOT call call-next-method
//	n :around that asks (next-method-p) first, then calls call-next-method
const variants = "pbawsn"

func slotOf(variant byte) int {
	switch variant {
	case 'p':
		return 0
	case 'b':
		return 1
	case 'a':
		return 2
	}
	return 3 // w, s, n share the :around slot
}

var slotNames = [4]string{"primary", "before", "after", "around"}

type mdef struct {
	variant byte
	gen     int    // how many times this (slot, specialiser tuple) had been defined when this body was installed
	src     string // the tuple as written: "u" = parameter written without a specialiser (class t)
}

// tag is the name the body traces; it carries the tuple AS WRITTEN.
func (d mdef) tag(spec string) string {
	if d.src != "" {
		spec = d.src
	}
	return fmt.Sprintf("%c-%s-%d", d.variant, strings.ReplaceAll(spec, ",", "_"), d.gen)
}

// normSpec maps the written tuple to the specialiser tuple: an unspecialised
// parameter ("u") is specialised on t.
func normSpec(spec string) string {
	parts := strings.Split(spec, ",")
	for i, p := range parts {
		if p == "u" {
			parts[i] = "t"
		}
	}
	return strings.Join(parts, ",")
}

func unspecialised(spec string) bool {
	for _, p := range strings.Split(spec, ",") {
		if p == "u" {
			return true
		}
	}
	return false
}

// entry holds the (at most four) methods with one specialiser tuple.
type entry [4]*mdef

// table maps a specialiser tuple ("fixnum" or "fixnum,real") to its methods.
type table map[string]*entry

func (t table) clone() table {
	c := table{}
	for k, e := range t {
		ce := *e
		c[k] = &ce
	}
	return c
}

func (t table) count() (n int) {
	for _, e := range t {
		for _, d := range e {
			if d != nil {
				n++
			}
		}
	}
	return
}

func (t table) String() string {
	keys := make([]string, 0, len(t))
	for k := range t {
		keys = append(keys, k)
	}
	sort.Strings(keys)
	var b strings.Builder
	for _, k := range keys {
		for _, d := range t[k] {
			if d != nil {
				b.WriteString(d.tag(k))
				b.WriteByte(' ')
			}
		}
	}
	return strings.TrimSpace(b.String())
}

// refOpts are the switches of the mutated references (S6). The zero value is
// the real reference.
type refOpts struct {
	aftersForward    bool // :after methods most specific first
	rightToLeft      bool // specificity decided by the LAST argument first
	aroundSkipSecond bool // every second applicable :around is skipped
	primaryLeast     bool // the least specific primary is chosen
	stopRunsInner    bool // an :around that does not call call-next-method still lets the rest run
	// history mutants (handled in model.call)
	staleOnRemove            bool // effective-method memo not cleared by remove-method
	staleOnNewKey            bool // memo cleared by defmethod only when the specialiser tuple already had an entry
	staleDefault             bool // single-method fast path not recomputed by remove-method
	staleOnReplace           bool // redefining an existing method keeps serving the old body from the memo
	removeKeepsUnspecialised bool // remove-method is a no-op when the tuple was first defined with an unspecialised parameter
}

// expectation kinds
const (
	exStrict  = "strict"  // an applicable primary exists: trace and value are determined
	exNone    = "none"    // no applicable method at all: an error, nothing runs
	exLenient = "lenient" // applicable daemons/arounds but no primary: the statement is silent (S2)
)

type expect struct {
	kind  string
	trace []string
	value string
	// applicable tags by slot, most specific first (for classification)
	applicable [4][]string
}

func (e expect) digest() string {
	return e.kind + "|" + strings.Join(e.trace, " ") + "|" + e.value
}

// dispatch computes what a call with the given class precedence lists (one per
// required argument, most specific class first) must do under table t.
func dispatch(t table, cpls [][]string, o refOpts) (ex expect) {
	type cand struct {
		spec string
		rank []int
		e    *entry
	}
	var cands []cand
	for spec, e := range t {
		parts := strings.Split(spec, ",")
		if len(parts) != len(cpls) {
			continue
		}
		rank := make([]int, len(parts))
		ok := true
		for i, p := range parts {
			rank[i] = -1
			for ci, c := range cpls[i] {
				if c == p {
					rank[i] = ci
					break
				}
			}
			if rank[i] < 0 {
				ok = false
				break
			}
		}
		if ok {
			cands = append(cands, cand{spec, rank, e})
		}
	}
	sort.Slice(cands, func(a, b int) bool {
		ra, rb := cands[a].rank, cands[b].rank
		if o.rightToLeft {
			for i := len(ra) - 1; 0 <= i; i-- {
				if ra[i] != rb[i] {
					return ra[i] < rb[i]
				}
			}
			return false
		}
		for i := range ra {
			if ra[i] != rb[i] {
				return ra[i] < rb[i]
			}
		}
		return false
	})
	type am struct {
		d   *mdef
		tag string
	}
	var bySlot [4][]am
	for _, c := range cands {
		for s, d := range c.e {
			if d != nil {
				bySlot[s] = append(bySlot[s], am{d, d.tag(c.spec)})
				ex.applicable[s] = append(ex.applicable[s], d.tag(c.spec))
			}
		}
	}
	total := len(bySlot[0]) + len(bySlot[1]) + len(bySlot[2]) + len(bySlot[3])
	switch {
	case total == 0:
		ex.kind = exNone
		return
	case len(bySlot[0]) == 0:
		ex.kind = exLenient
	default:
		ex.kind = exStrict
	}
	arounds := bySlot[3]
	if o.aroundSkipSecond {
		var kept []am
		for i, a := range arounds {
			if i%2 == 0 {
				kept = append(kept, a)
			}
		}
		arounds = kept
	}
	inner := func() string {
		for _, b := range bySlot[1] {
			ex.trace = append(ex.trace, b.tag)
		}
		val := "nil"
		if 0 < len(bySlot[0]) {
			p := bySlot[0][0]
			if o.primaryLeast {
				p = bySlot[0][len(bySlot[0])-1]
			}
			ex.trace = append(ex.trace, p.tag)
			val = p.tag
		}
		if o.aftersForward {
			for _, a := range bySlot[2] {
				ex.trace = append(ex.trace, a.tag)
			}
		} else {
			for i := len(bySlot[2]) - 1; 0 <= i; i-- {
				ex.trace = append(ex.trace, bySlot[2][i].tag)
			}
		}
		return val
	}
	var run func(i int) string
	run = func(i int) string {
		if len(arounds) <= i {
			return inner()
		}
		a := arounds[i]
		ex.trace = append(ex.trace, a.tag+"-in")
		switch a.d.variant {
		case 's':
			if o.stopRunsInner {
				_ = run(i + 1)
			}
			return a.tag
		case 'n':
			hasNext := i+1 < len(arounds) || 0 < len(bySlot[0])+len(bySlot[1])+len(bySlot[2])
			if !hasNext {
				return a.tag + "-none"
			}
		}
		v := run(i + 1)
		ex.trace = append(ex.trace, a.tag+"-out")
		return "(" + a.tag + " " + v + ")"
	}
	ex.value = run(0)
	return
}

// ------------------------------------------------------------------ history model

// op is one parsed history operation.
type op struct {
	kind    byte   // 'd' defmethod, 'r' remove-method, 'c' call
	variant byte   // d: body variant; r: slot letter (p b a w)
	spec    string // d, r: specialiser tuple; c: argument kind tuple
}

func parseOp(s string) (o op, ok bool) {
	parts := strings.Split(s, ":")
	switch {
	case len(parts) == 3 && (parts[0] == "d" || parts[0] == "r") && len(parts[1]) == 1:
		return op{kind: parts[0][0], variant: parts[1][0], spec: parts[2]}, true
	case len(parts) == 2 && parts[0] == "c":
		return op{kind: 'c', spec: parts[1]}, true
	}
	return op{}, false
}

func (o op) String() string {
	if o.kind == 'c' {
		return "c:" + o.spec
	}
	return fmt.Sprintf("%c:%c:%s", o.kind, o.variant, o.spec)
}

// model is the reference state after a history: the method table plus every
// earlier version of it (used to recognise a stale view in what slip did).
type model struct {
	cfg      *config
	t        table
	gens     map[string]int // slot letter + spec -> definitions so far
	versions []version      // table after each mutation, oldest first; versions[0] = empty table
	opts     refOpts
	// mutant state
	memo               map[string]expect
	deflt              *expect
	callsSinceMutation int
	firstSrc           map[string]string // specialiser tuple -> tuple as written by the defmethod that created the entry
	gone               map[string]string // tag of a body no longer in the table -> "removed" | "replaced"
}

type version struct {
	t    table
	what string // "" for the initial table, else "defmethod" / "remove-method"
}

func newModel(cfg *config, o refOpts) *model {
	m := &model{cfg: cfg, t: table{}, gens: map[string]int{}, opts: o, memo: map[string]expect{},
		firstSrc: map[string]string{}, gone: map[string]string{}}
	m.versions = []version{{t: table{}}}
	return m
}

// present reports whether the slot of the tuple holds a method.
func (m *model) present(slot int, spec string) bool {
	e := m.t[normSpec(spec)]
	return e != nil && e[slot] != nil
}

// apply a mutation to the model. It returns false when the operation is not
// applicable (remove-method of an absent method).
func (m *model) apply(o op) bool {
	switch o.kind {
	case 'd':
		slot := slotOf(o.variant)
		key := normSpec(o.spec)
		gk := fmt.Sprintf("%d:%s", slot, key)
		m.gens[gk]++
		e := m.t[key]
		hadEntry := e != nil
		replaced := hadEntry && e[slot] != nil
		if e == nil {
			e = &entry{}
			m.t[key] = e
			if !unspecialised(m.firstSrc[key]) {
				m.firstSrc[key] = o.spec
			}
		}
		if replaced {
			m.gone[e[slot].tag(key)] = "replaced"
		}
		e[slot] = &mdef{variant: o.variant, gen: m.gens[gk], src: o.spec}
		m.versions = append(m.versions, version{t: m.t.clone(), what: "defmethod"})
		switch {
		case m.opts.staleOnNewKey && !hadEntry:
		case m.opts.staleOnReplace && replaced:
		default:
			m.memo = map[string]expect{}
		}
		m.updateDefault()
		m.callsSinceMutation = 0
	case 'r':
		slot := slotOf(o.variant)
		key := normSpec(o.spec)
		e := m.t[key]
		if e == nil || e[slot] == nil {
			return false
		}
		if m.opts.removeKeepsUnspecialised && unspecialised(m.firstSrc[key]) {
			return true
		}
		m.gone[e[slot].tag(key)] = "removed"
		if unspecialised(m.firstSrc[key]) {
			m.gone[e[slot].tag(key)] = "removed-u"
		}
		e[slot] = nil
		if *e == (entry{}) {
			delete(m.t, key)
			// firstSrc is kept when it was unspecialised: it is only used to
			// attribute later failures to that trigger (signature text), never
			// to decide what is expected
			if !unspecialised(m.firstSrc[key]) {
				delete(m.firstSrc, key)
			}
		}
		m.versions = append(m.versions, version{t: m.t.clone(), what: "remove-method"})
		if !m.opts.staleOnRemove {
			m.memo = map[string]expect{}
		}
		if !m.opts.staleDefault {
			m.updateDefault()
		}
		m.callsSinceMutation = 0
	}
	return true
}

// updateDefault models a single-method fast path (only used by mutants: in
// the real reference it is unobservable).
func (m *model) updateDefault() {
	m.deflt = nil
	if !m.opts.staleDefault {
		return
	}
	if len(m.t) != 1 {
		return
	}
	allT := strings.TrimSuffix(strings.Repeat("t,", m.cfg.arity), ",")
	e := m.t[allT]
	if e == nil || e[0] == nil || e[1] != nil || e[2] != nil || e[3] != nil {
		return
	}
	tag := e[0].tag(allT)
	m.deflt = &expect{kind: exStrict, trace: []string{tag}, value: tag}
}

// call returns what a call with the argument kinds must do.
func (m *model) call(args string) expect {
	m.callsSinceMutation++
	cpls := m.cfg.cpls(args)
	if m.deflt != nil {
		return *m.deflt
	}
	if m.opts.staleOnRemove || m.opts.staleOnNewKey || m.opts.staleOnReplace {
		if ex, has := m.memo[args]; has {
			return ex
		}
		ex := dispatch(m.t, cpls, m.opts)
		if ex.kind != exNone {
			m.memo[args] = ex
		}
		return ex
	}
	return dispatch(m.t, cpls, m.opts)
}

// staleMatch looks for an EARLIER table version under which the reference
// dispatch equals what was observed (used for the detail text only). It
// returns the mutation kinds that the observation does not reflect.
func (m *model) staleMatch(args string, obsTrace []string, obsValue string, obsErr, obsNoApplicable bool) (unreflected string, ok bool) {
	cpls := m.cfg.cpls(args)
	for i := len(m.versions) - 2; 0 <= i; i-- {
		ex := dispatch(m.versions[i].t, cpls, refOpts{})
		match := false
		switch ex.kind {
		case exStrict:
			match = !obsErr && equalStrings(ex.trace, obsTrace) && ex.value == obsValue
		case exNone:
			match = obsNoApplicable && len(obsTrace) == 0
		case exLenient:
			match = !obsErr && equalStrings(ex.trace, obsTrace)
		}
		if match {
			set := map[string]bool{}
			for _, v := range m.versions[i+1:] {
				set[v.what] = true
			}
			var names []string
			for k := range set {
				names = append(names, k)
			}
			sort.Strings(names)
			return strings.Join(names, "+"), true
		}
	}
	return "", false
}

func equalStrings(a, b []string) bool {
	if len(a) != len(b) {
		return false
	}
	for i := range a {
		if a[i] != b[i] {
			return false
		}
	}
	return true
}
