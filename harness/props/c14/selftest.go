package c14

import "fmt"

type stop struct{}

// selftest (S6): every mutated reference must be told apart from the real
// reference by at least one enumerated case of the tier.
func selftest(tier string) (killed, total int, notes []string) {
	fnOf := map[int]string{
		mutFromEndCountFront: "remove",
		mutEndInclusive:      "find",
		mutStableUnstable:    "stable-sort",
		mutKeyNotOnString:    "position",
		mutSearchFromEndLeft: "search",
		mutMergeSecondFirst:  "merge",
		mutCountVisits:       "substitute",
		mutDupsKeepFirst:     "remove-duplicates",
		mutReduceFromEndArgs: "reduce",
	}
	for mut := mutNone + 1; mut < mutLast; mut++ {
		total++
		witness := ""
		n := 0
		func() {
			defer func() {
				if r := recover(); r != nil {
					if _, ok := r.(stop); !ok {
						panic(r)
					}
				}
			}()
			enumerateFn(tier, fnOf[mut], func(spec string) {
				n++
				c, err := parseSpec(spec)
				if err != nil {
					panic(err)
				}
				wr, wm := expect(c, mutNone), expect(c, mut)
				if wr.check == nil && wr.truthy == nil && wm.check == nil && wr.show != wm.show {
					witness = fmt.Sprintf("%s: reference %s, mutant %s", c.form(), wr.show, wm.show)
					panic(stop{})
				}
			})
		}()
		if witness != "" {
			killed++
			notes = append(notes, fmt.Sprintf("killed: %s — case %d of %s: %s", mutNames[mut], n, fnOf[mut], witness))
		} else {
			notes = append(notes, fmt.Sprintf("SURVIVED: %s (%d cases of %s)", mutNames[mut], n, fnOf[mut]))
		}
	}
	return
}
