package c11

import (
	"sort"
	"strconv"
	"strings"
)

// ---------------------------------------------------------------------------
// Reference model ("boring Go"). It is a function of the DEFINITION SET only;
// the order in which the forms were evaluated does not enter it, which is the
// history-independence half of the statement.
//
//   precedence(F) = F, then the components of F depth-first as written in
//                   defflavor, first occurrence kept
//   (send inst :m) = whoppers outermost-first in precedence order, every
//                   :before in precedence order, the first primary, every
//                   :after in reverse precedence order, whoppers unwind
//   variable default / init keyword / accessor: from the first flavor in
//                   precedence that provides it
// ---------------------------------------------------------------------------

// variant selects the real reference (zero value) or one of the mutated
// references used by the oracle-sensitivity self-test (S6).
type variant struct {
	name          string
	prec          string // "" depth-first first-occurrence | "last" keep last occurrence | "bfs" breadth first | "rtl" components right to left
	afterForward  bool   // :after daemons in precedence order instead of reverse
	whopInnermost bool   // whoppers innermost (least specific) first
	primaryLast   bool   // last primary in precedence instead of first
	beforeReverse bool   // :before daemons in reverse precedence order
	varLast       bool   // variable default from the last provider in precedence
	continueOnce  bool   // a whopper that continues twice runs what it wraps once
	nilAbsent     bool   // a declaration with default nil (variable or keyword) counts as no declaration when a later flavor gives a value
}

var realRef = variant{name: "reference"}

var refMutants = []variant{
	{name: "after-daemons-forward", afterForward: true},
	{name: "precedence-keeps-last-occurrence", prec: "last"},
	{name: "precedence-breadth-first", prec: "bfs"},
	{name: "components-right-to-left", prec: "rtl"},
	{name: "whoppers-innermost-first", whopInnermost: true},
	{name: "least-specific-primary", primaryLast: true},
	{name: "before-daemons-reversed", beforeReverse: true},
	{name: "default-from-last-provider", varLast: true},
	{name: "nil-default-taken-for-no-declaration", nilAbsent: true},
	{name: "second-continue-whopper-ignored", continueOnce: true},
}

// precedence of flavor f (indices), not including vanilla-flavor.
func (v variant) precedence(comps [][]int, f int) []int {
	var seq []int
	switch v.prec {
	case "bfs":
		queue := []int{f}
		for 0 < len(queue) {
			g := queue[0]
			queue = queue[1:]
			seq = append(seq, g)
			queue = append(queue, comps[g]...)
		}
	default:
		var walk func(g int)
		walk = func(g int) {
			seq = append(seq, g)
			cs := comps[g]
			if v.prec == "rtl" {
				for i := len(cs) - 1; 0 <= i; i-- {
					walk(cs[i])
				}
			} else {
				for _, c := range cs {
					walk(c)
				}
			}
		}
		walk(f)
	}
	var out []int
	if v.prec == "last" {
		seen := map[int]bool{}
		for i := len(seq) - 1; 0 <= i; i-- {
			if !seen[seq[i]] {
				seen[seq[i]] = true
				out = append([]int{seq[i]}, out...)
			}
		}
		return out
	}
	seen := map[int]bool{}
	for _, g := range seq {
		if !seen[g] {
			seen[g] = true
			out = append(out, g)
		}
	}
	return out
}

type meth struct {
	f    int
	kind byte // 'p' primary, 'b' :before, 'a' :after, 'w' whopper
}

func (m meth) String() string { return strconv.Itoa(m.f) + string(m.kind) }

func hasMeth(ms []meth, f int, kind byte) bool {
	for _, m := range ms {
		if m.f == f && m.kind == kind {
			return true
		}
	}
	return false
}

// expectSend gives the trace of (send <instance of f> :m), the primary's
// return value ("" when there is no primary) and whether any flavor in the
// precedence list handles :m at all.
func (v variant) expectSend(comps [][]int, ms []meth, f int) (trace []string, ret string, handled bool) {
	p := v.precedence(comps, f)
	var ws, bs, as []int
	prim := -1
	for _, g := range p {
		if hasMeth(ms, g, 'w') || hasMeth(ms, g, 'v') {
			ws = append(ws, g)
			handled = true
		}
		if hasMeth(ms, g, 'b') {
			bs = append(bs, g)
			handled = true
		}
		if hasMeth(ms, g, 'a') {
			as = append(as, g)
			handled = true
		}
		if hasMeth(ms, g, 'p') {
			handled = true
			if prim < 0 || v.primaryLast {
				prim = g
			}
		}
	}
	rev := func(s []int) []int {
		r := make([]int, len(s))
		for i, x := range s {
			r[len(s)-1-i] = x
		}
		return r
	}
	if v.whopInnermost {
		ws = rev(ws)
	}
	if v.beforeReverse {
		bs = rev(bs)
	}
	if !v.afterForward {
		as = rev(as)
	}
	var inner []string
	for _, g := range bs {
		inner = append(inner, "b"+strconv.Itoa(g))
	}
	if 0 <= prim {
		inner = append(inner, "p"+strconv.Itoa(prim))
		ret = "r" + strconv.Itoa(prim)
	}
	for _, g := range as {
		inner = append(inner, "a"+strconv.Itoa(g))
	}
	// whopper i wraps everything below it; a whopper of kind v continues twice (everything below it runs twice)
	var run func(i int)
	run = func(i int) {
		if i == len(ws) {
			trace = append(trace, inner...)
			return
		}
		g := ws[i]
		id := strconv.Itoa(g)
		if hasMeth(ms, g, 'v') && !(v.continueOnce) {
			trace = append(trace, "vi"+id)
			run(i + 1)
			run(i + 1)
			trace = append(trace, "vo"+id)
			return
		}
		k := "w"
		if hasMeth(ms, g, 'v') {
			k = "v"
		}
		trace = append(trace, k+"i"+id)
		run(i + 1)
		trace = append(trace, k+"o"+id)
	}
	run(0)
	return
}

// ----------------------------------------------------------------- variables

// fopt is what one defflavor form declares besides its components.
type fopt struct {
	x, y       bool // declares (x <10+i>) / (y <20+i>)
	g, s, i    bool // bare :gettable- / :settable- / :inittable-instance-variables
	k          bool // (:init-keywords :k)
	yi         bool // (:inittable-instance-variables y)  [explicit list form]
	xnil       bool // x is declared (x nil): an explicit default nil
	xplain     bool // x is declared as a bare symbol: no default given
	kd, kn     bool // (:default-init-plist (:k <30+i>)) / (:default-init-plist (:k nil)): keyword :k with a default value
	xd         int  // when not 0: the default of x is xd+i instead of 10+i (a second generation of the flavor)
	token      string
	hasOptions bool
}

func (o fopt) xdef(f int) int {
	if o.xd != 0 {
		return o.xd + f
	}
	return xDefault(f)
}

var optTokens = map[string]fopt{
	"-":    {},
	"x":    {x: true},
	"xg":   {x: true, g: true},
	"xs":   {x: true, s: true},
	"xi":   {x: true, i: true},
	"xgsi": {x: true, g: true, s: true, i: true},
	"k":    {k: true},
	"xk":   {x: true, k: true},
	"y":    {y: true, yi: true},
	"xn":   {x: true, xnil: true},
	"xu":   {x: true, xplain: true},
	"kd":   {kd: true},
	"kn":   {kn: true},
}

func kDefault(f int) int { return 30 + f }

func xDefault(f int) int { return 10 + f }
func yDefault(f int) int { return 20 + f }

// varExpect is what the statement demands of an instance of flavor f. A nil
// pointer / false flag means "no demand" (S2).
type varExpect struct {
	xDefault     *int // default of x (first flavor in precedence declaring x) when that is a number
	xNil         bool // the first flavor in precedence declaring x declares (x nil): the default is nil
	xPlain       bool // the first flavor in precedence declaring x gives no default: nothing is demanded of the value (S2)
	kDefault     *string // default value of keyword :k when the first flavor in precedence declaring it does so in :default-init-plist
	kNilShadows  bool // ... and that default is nil while a later flavor gives a value
	xNilShadows  bool // (x nil) first, a number later in precedence
	yDefault     *int
	xGettable    bool // some flavor in precedence declares the getter => (send i :x) answers x
	xSettable    bool
	xInittable   bool // some flavor in precedence that declares x makes it inittable
	yInittable   bool
	kAccepted    bool // some flavor in precedence declares init keyword :k
	xInherited   bool // x comes from a component, not from f itself
	xShadowed    bool // more than one flavor in precedence declares x
	accInherited bool // accessor comes from a component
	kInherited   bool
}

func (v variant) expectVars(comps [][]int, opts []fopt, f int) (e varExpect) {
	p := v.precedence(comps, f)
	nx := 0
	xSeen, kSeen := false, false
	for _, g := range p {
		o := opts[g]
		if o.x {
			nx++
			skip := v.nilAbsent && (o.xnil || o.xplain)
			if (!xSeen || v.varLast) && !skip {
				xSeen = true
				e.xDefault, e.xNil, e.xPlain = nil, false, false
				switch {
				case o.xnil:
					e.xNil = true
				case o.xplain:
					e.xPlain = true
				default:
					d := o.xdef(g)
					e.xDefault = &d
				}
				e.xInherited = g != f
			} else if e.xNil && !o.xnil && !o.xplain {
				e.xNilShadows = true
			}
			if skip && !xSeen {
				e.xNil = true // unless a later flavor gives a value
			}
			if o.i {
				e.xInittable = true
			}
		}
		if o.y {
			if e.yDefault == nil || v.varLast {
				d := yDefault(g)
				e.yDefault = &d
			}
			if o.yi {
				e.yInittable = true
			}
		}
		if o.g {
			e.xGettable = true
			if g != f {
				e.accInherited = true
			}
		}
		if o.s {
			e.xSettable = true
			if g != f {
				e.accInherited = true
			}
		}
		if o.k || o.kd || o.kn {
			e.kAccepted = true
			if g != f && !(opts[f].k || opts[f].kd || opts[f].kn) {
				e.kInherited = true
			}
			skip := v.nilAbsent && (o.kn || o.k)
			if !kSeen && !skip {
				kSeen = true
				switch {
				case o.kd:
					d := strconv.Itoa(kDefault(g))
					e.kDefault = &d
				case o.kn:
					d := "nil"
					e.kDefault = &d
				}
			} else if kSeen && e.kDefault != nil && *e.kDefault == "nil" && o.kd {
				e.kNilShadows = true
			}
		}
	}
	e.xShadowed = 1 < nx
	return
}

// --------------------------------------------------------------- DAG helpers

// shape classifies the ancestry of flavor f: single (no components), chain
// (every flavor has at most one component), tree (several components, no
// flavor reachable along two paths), diamond (some flavor reachable along two
// paths, so duplicate elimination matters).
func shape(comps [][]int, f int) string {
	if len(comps[f]) == 0 {
		return "single"
	}
	visits := map[int]int{}
	multi := false
	var walk func(g int)
	walk = func(g int) {
		visits[g]++
		if 1 < len(comps[g]) {
			multi = true
		}
		for _, c := range comps[g] {
			walk(c)
		}
	}
	walk(f)
	for _, n := range visits {
		if 1 < n {
			return "diamond"
		}
	}
	if multi {
		return "tree"
	}
	return "chain"
}

func parseDag(s string) [][]int {
	parts := strings.Split(s, ",")
	comps := make([][]int, len(parts))
	for i, p := range parts {
		if p == "-" {
			continue
		}
		for _, c := range p {
			comps[i] = append(comps[i], int(c-'0'))
		}
	}
	return comps
}

func dagString(comps [][]int) string {
	parts := make([]string, len(comps))
	for i, cs := range comps {
		if len(cs) == 0 {
			parts[i] = "-"
			continue
		}
		for _, c := range cs {
			parts[i] += strconv.Itoa(c)
		}
	}
	return strings.Join(parts, ",")
}

// orderedSubsets of {0..n-1} with at most max elements, shortest first.
func orderedSubsets(n, max int) [][]int {
	out := [][]int{nil}
	var rec func(cur []int)
	rec = func(cur []int) {
		if len(cur) == max {
			return
		}
		for c := 0; c < n; c++ {
			used := false
			for _, x := range cur {
				if x == c {
					used = true
				}
			}
			if used {
				continue
			}
			next := append(append([]int(nil), cur...), c)
			out = append(out, next)
			rec(next)
		}
	}
	rec(nil)
	sort.SliceStable(out, func(a, b int) bool { return len(out[a]) < len(out[b]) })
	return out
}

// allDags on n flavors: flavor i takes an ordered subset (<= maxComp) of the
// earlier flavors as components. topOnly keeps the DAGs in which every flavor
// is an ancestor of the last one.
func allDags(n, maxComp int, topOnly bool) [][][]int {
	var out [][][]int
	var rec func(i int, cur [][]int)
	rec = func(i int, cur [][]int) {
		if i == n {
			d := make([][]int, n)
			copy(d, cur)
			if topOnly && len(realRef.precedence(d, n-1)) != n {
				return
			}
			out = append(out, d)
			return
		}
		for _, cs := range orderedSubsets(i, maxComp) {
			rec(i+1, append(cur[:i:i], cs))
		}
	}
	rec(0, nil)
	return out
}

// subsets of size <= k of the slots, smallest first.
func methSubsets(n, k int, kinds string) [][]meth {
	var slots []meth
	for f := 0; f < n; f++ {
		for i := 0; i < len(kinds); i++ {
			slots = append(slots, meth{f, kinds[i]})
		}
	}
	var out [][]meth
	for size := 0; size <= k; size++ {
		var rec func(start int, cur []meth)
		rec = func(start int, cur []meth) {
			if len(cur) == size {
				out = append(out, append([]meth(nil), cur...))
				return
			}
			for i := start; i < len(slots); i++ {
				rec(i+1, append(cur, slots[i]))
			}
		}
		rec(0, nil)
	}
	return out
}

func methString(ms []meth) string {
	if len(ms) == 0 {
		return "-"
	}
	parts := make([]string, len(ms))
	for i, m := range ms {
		parts[i] = m.String()
	}
	return strings.Join(parts, ".")
}

func parseMeths(s string) []meth {
	if s == "-" || s == "" {
		return nil
	}
	var ms []meth
	for _, p := range strings.Split(s, ".") {
		ms = append(ms, meth{f: int(p[0] - '0'), kind: p[1]})
	}
	return ms
}

// ------------------------------------------------------------------- orders

// A form is D<i> (defflavor i) or M<j> (definition of method j of the case).
type form struct {
	isMeth bool
	idx    int
}

// genOrders enumerates definition orders that keep components before users
// and a flavor before its own methods. mode "all": every linear extension.
// mode "el": every linear extension of the defflavor forms; each method is
// either early (directly after its own defflavor) or late (after every
// defflavor), the late ones in every permutation. The first order is always
// the textual one (each defflavor followed by its own methods).
func genOrders(comps [][]int, ms []meth, mode string, yield func(order []form)) {
	n := len(comps)
	if mode == "el" {
		genFlavorOrders(comps, func(ds []int) {
			k := len(ms)
			for mask := 0; mask < 1<<k; mask++ {
				var late []int
				for j := 0; j < k; j++ {
					if mask&(1<<j) != 0 {
						late = append(late, j)
					}
				}
				permute(late, func(lp []int) {
					var order []form
					for _, d := range ds {
						order = append(order, form{false, d})
						for j := 0; j < k; j++ {
							if mask&(1<<j) == 0 && ms[j].f == d {
								order = append(order, form{true, j})
							}
						}
					}
					for _, j := range lp {
						order = append(order, form{true, j})
					}
					yield(order)
				})
			}
		})
		return
	}
	// textual sequence = priority
	var text []form
	for d := 0; d < n; d++ {
		text = append(text, form{false, d})
		for j, m := range ms {
			if m.f == d {
				text = append(text, form{true, j})
			}
		}
	}
	doneD := make([]bool, n)
	used := make([]bool, len(text))
	cur := make([]form, 0, len(text))
	var rec func()
	rec = func() {
		if len(cur) == len(text) {
			yield(append([]form(nil), cur...))
			return
		}
		for i, fm := range text {
			if used[i] {
				continue
			}
			ready := true
			if fm.isMeth {
				ready = doneD[ms[fm.idx].f]
			} else {
				for _, c := range comps[fm.idx] {
					if !doneD[c] {
						ready = false
					}
				}
			}
			if !ready {
				continue
			}
			used[i] = true
			if !fm.isMeth {
				doneD[fm.idx] = true
			}
			cur = append(cur, fm)
			rec()
			cur = cur[:len(cur)-1]
			if !fm.isMeth {
				doneD[fm.idx] = false
			}
			used[i] = false
		}
	}
	rec()
}

func genFlavorOrders(comps [][]int, yield func(ds []int)) {
	n := len(comps)
	done := make([]bool, n)
	cur := make([]int, 0, n)
	var rec func()
	rec = func() {
		if len(cur) == n {
			yield(append([]int(nil), cur...))
			return
		}
		for d := 0; d < n; d++ {
			if done[d] {
				continue
			}
			ready := true
			for _, c := range comps[d] {
				if !done[c] {
					ready = false
				}
			}
			if !ready {
				continue
			}
			done[d] = true
			cur = append(cur, d)
			rec()
			cur = cur[:len(cur)-1]
			done[d] = false
		}
	}
	rec()
}

func permute(xs []int, yield func([]int)) {
	a := append([]int(nil), xs...)
	var rec func(i int)
	rec = func(i int) {
		if i >= len(a)-1 {
			yield(append([]int(nil), a...))
			return
		}
		// lexicographic-ish, deterministic
		for j := i; j < len(a); j++ {
			a[i], a[j] = a[j], a[i]
			rec(i + 1)
			a[i], a[j] = a[j], a[i]
		}
	}
	rec(0)
}

func orderString(order []form, ms []meth) string {
	parts := make([]string, len(order))
	for i, fm := range order {
		if fm.isMeth {
			parts[i] = "M" + ms[fm.idx].String()
		} else {
			parts[i] = "D" + strconv.Itoa(fm.idx)
		}
	}
	return strings.Join(parts, " ")
}

// isLate: in this order some flavor h in precedence(f) (f included) was
// defined BEFORE a method of one of h's components g != h, so that method had
// to be spliced into h's already built table (and f's table is either spliced
// too or copied from h's).
func isLate(comps [][]int, ms []meth, order []form, f int) bool {
	pos := map[int]int{}
	for i, fm := range order {
		if !fm.isMeth {
			pos[fm.idx] = i
		}
	}
	for _, h := range realRef.precedence(comps, f) {
		anc := map[int]bool{}
		for _, g := range realRef.precedence(comps, h)[1:] {
			anc[g] = true
		}
		for i, fm := range order {
			if fm.isMeth && anc[ms[fm.idx].f] && pos[h] < i {
				return true
			}
		}
	}
	return false
}

// expectTable renders the per-flavor method table a correct implementation
// would hold for :m (used only to label failures table=ok|wrong; the verdict
// is always taken from the observed trace).
func expectTable(prec []int, ms []meth) string {
	var parts []string
	for _, g := range prec {
		s := ""
		for _, k := range []byte{'w', 'b', 'p', 'a'} {
			if hasMeth(ms, g, k) || (k == 'w' && hasMeth(ms, g, 'v')) {
				s += string(k)
			}
		}
		if s != "" {
			parts = append(parts, "f"+strconv.Itoa(g)+":"+s)
		}
	}
	if len(parts) == 0 {
		return "<no :m>"
	}
	return "[" + strings.Join(parts, " ") + "]"
}

// ---------------------------------------------------------------------------
// History-dependent "implementation models" for the self-test: each one is a
// plausible way to maintain a per-flavor denormalised table incrementally and
// get it wrong. The enumerated ORDERS must make each of them disagree with the
// reference somewhere, which shows that the order set can see that bug class.
// ---------------------------------------------------------------------------

type simVariant struct {
	name string
	// where a late-defined combination of flavor g goes in inheritor f's list
	latePos string // "end" | "front" | "after-own"
}

var simMutants = []simVariant{
	{name: "late-method-appended-at-end", latePos: "end"},
	{name: "late-method-inserted-at-front", latePos: "front"},
	{name: "late-method-inserted-after-own", latePos: "after-own"},
}

// simulate returns, for flavor f, the order of flavors ("combination list")
// the incremental implementation ends up with after the given history.
func (sv simVariant) simulate(comps [][]int, ms []meth, order []form) [][]int {
	n := len(comps)
	lists := make([][]int, n) // per flavor: flavors having a combination for :m, in table order
	defined := make([]bool, n)
	has := func(l []int, g int) bool {
		for _, x := range l {
			if x == g {
				return true
			}
		}
		return false
	}
	for _, fm := range order {
		if !fm.isMeth {
			f := fm.idx
			defined[f] = true
			// correct flattening at defflavor time
			for _, g := range realRef.precedence(comps, f)[1:] {
				if has(lists[g], g) && !has(lists[f], g) {
					lists[f] = append(lists[f], g)
				}
			}
			continue
		}
		g := ms[fm.idx].f
		if has(lists[g], g) {
			continue // combination exists and is shared
		}
		lists[g] = append([]int{g}, lists[g]...)
		for f := 0; f < n; f++ {
			if f == g || !defined[f] {
				continue
			}
			inherits := false
			for _, a := range realRef.precedence(comps, f)[1:] {
				if a == g {
					inherits = true
				}
			}
			if !inherits || has(lists[f], g) {
				continue
			}
			switch sv.latePos {
			case "end":
				lists[f] = append(lists[f], g)
			case "front":
				lists[f] = append([]int{g}, lists[f]...)
			case "after-own":
				if 0 < len(lists[f]) && lists[f][0] == f {
					rest := append([]int{g}, lists[f][1:]...)
					lists[f] = append([]int{f}, rest...)
				} else {
					lists[f] = append([]int{g}, lists[f]...)
				}
			}
		}
	}
	return lists
}

// traceFromList renders the send trace a table order would produce.
func traceFromList(list []int, ms []meth) []string {
	var ws, trace []string
	for _, g := range list {
		if hasMeth(ms, g, 'w') {
			trace = append(trace, "wi"+strconv.Itoa(g))
			ws = append([]string{"wo" + strconv.Itoa(g)}, ws...)
		}
	}
	for _, g := range list {
		if hasMeth(ms, g, 'b') {
			trace = append(trace, "b"+strconv.Itoa(g))
		}
	}
	for _, g := range list {
		if hasMeth(ms, g, 'p') {
			trace = append(trace, "p"+strconv.Itoa(g))
			break
		}
	}
	for i := len(list) - 1; 0 <= i; i-- {
		if hasMeth(ms, list[i], 'a') {
			trace = append(trace, "a"+strconv.Itoa(list[i]))
		}
	}
	return append(trace, ws...)
}
