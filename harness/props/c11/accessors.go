package c11

// accessors.go: accessors (:gettable / :settable instance variables) against user methods of the SAME message name
// defined on a component. The statement: precedence is the flavor itself followed by its components; accessors are
// inherited by the same order; before daemons run, then the first primary in precedence order, then after daemons;
// the result is the same whether the methods were defined before or after the flavors that inherit them.
//
// Chain of three flavors  leaf (mid)  mid (base)  base ().  x is declared with its accessors by `decl` (leaf or mid);
// base gets a user method named like an accessor (:x or :set-x) of kind before / after / primary, defined at one of
// three moments: right after base's defflavor (before the inheriting flavors exist), between mid and leaf, or after all.
// The generated accessor of decl precedes base in the precedence list of leaf, so (send leaf :x) must answer x and
// (send leaf :set-x 9) must set it, with base's daemon running around it and base's primary never running.
//
// spec: acc|<decl>|<msg>|<kind>|<when>

import (
	"fmt"
	"strings"

	"github.com/ohler55/slip"
	"github.com/ohler55/slip/pkg/flavors"

	"verif/engine"
	"verif/lisp"
)

func enumAccessors(emit func(string)) {
	for _, decl := range []string{"leaf", "mid"} {
		for _, msg := range []string{"x", "set-x"} {
			for _, kind := range []string{"before", "after", "primary"} {
				for _, when := range []string{"early", "middle", "late"} {
					emit(fmt.Sprintf("acc|%s|%s|%s|%s", decl, msg, kind, when))
					emit(fmt.Sprintf("acc|%s|%s|%s|%s|warm", decl, msg, kind, when))
				}
			}
		}
	}
}

func execAccessors(spec string, parts []string) (res engine.Result) {
	if len(parts) != 5 && !(len(parts) == 6 && parts[5] == "warm") {
		res.Fail("harness:bad-spec", spec)
		return
	}
	warm := len(parts) == 6
	decl, msg, kind, when := parts[1], parts[2], parts[3], parts[4]
	names := freshNames(3)
	defer cleanup(names)
	base, mid, leaf := names[0], names[1], names[2]
	opts := " :gettable-instance-variables :settable-instance-variables"
	midSrc := fmt.Sprintf("(defflavor %s ((m 2)) (%s))", mid, base)
	leafSrc := fmt.Sprintf("(defflavor %s ((l 3)) (%s))", leaf, mid)
	if decl == "mid" {
		midSrc = fmt.Sprintf("(defflavor %s ((x 7)) (%s)%s)", mid, base, opts)
	} else {
		leafSrc = fmt.Sprintf("(defflavor %s ((x 7)) (%s)%s)", leaf, mid, opts)
	}
	params := "()"
	if msg == "set-x" {
		params = "(v)"
	}
	var meth string
	switch kind {
	case "before":
		meth = fmt.Sprintf("(defmethod (%s :before :%s) %s (tr 'base-before))", base, msg, params)
	case "after":
		meth = fmt.Sprintf("(defmethod (%s :after :%s) %s (tr 'base-after))", base, msg, params)
	default:
		meth = fmt.Sprintf("(defmethod (%s :%s) %s (tr 'base-primary) 'from-base)", base, msg, params)
	}
	forms := []string{fmt.Sprintf("(defflavor %s ((z 1)) ())", base)}
	switch when {
	case "early":
		forms = append(forms, meth, midSrc, leafSrc)
	case "middle":
		forms = append(forms, midSrc, meth, leafSrc)
	default:
		forms = append(forms, midSrc, leafSrc, meth)
	}
	history := strings.Join(forms, " ")
	var olds []slip.Object
	for i, f := range forms {
		if _, err := lisp.Eval(f); err != nil {
			res.Fail(fmt.Sprintf("acc decl=%s msg=%s kind=%s when=%s step=definition-fails:%s", decl, msg, kind, when, err.Class), history+" : "+f+" => "+err.String())
			return
		}
		if !warm || i == len(forms)-1 {
			continue
		}
		// warm: the accessors of every flavor that has x are used after every form; they answer x at every prefix
		for _, h := range []string{mid, leaf} {
			if flavors.Find(h) == nil || (h == mid && decl != "mid") {
				continue
			}
			res.Hit("accessor-used-before-a-later-definition")
			v, err := lisp.Eval(fmt.Sprintf("(let ((i (make-instance '%s))) (list (send i :x) (progn (send i :set-x 9) (send i :x)) i))", h))
			if err != nil {
				res.Fail(fmt.Sprintf("acc decl=%s msg=%s kind=%s when=%s warm=yes at=prefix got=error:%s", decl, msg, kind, when, err.Class), history+" ; accessors used after form "+f+" => "+err.String())
				continue
			}
			if l, ok := v.(slip.List); ok && len(l) == 3 {
				if lisp.Show(l[0]) != "7" || lisp.Show(l[1]) != "9" {
					res.Fail(fmt.Sprintf("acc decl=%s msg=%s kind=%s when=%s warm=yes at=prefix got=wrong-value", decl, msg, kind, when),
						fmt.Sprintf("%s ; after form %s: (send i :x) => %s, after (send i :set-x 9) => %s; required 7 and 9", history, f, lisp.Show(l[0]), lisp.Show(l[1])))
				}
				olds = append(olds, l[2])
			}
		}
	}
	res.Hit("histories")
	res.Hit("accessor-vs-component-method")
	res.Nontrivial = true
	sig := func(what string) string {
		return fmt.Sprintf("acc decl=%s msg=%s kind=%s when=%s %s", decl, msg, kind, when, what)
	}
	got := func(v slip.Object) string {
		if _, isInst := v.(*flavors.Instance); isInst {
			return slotOf(v, "x")
		}
		return lisp.Show(v)
	}
	probe := func(who, src, wantVal string, wantTrace []string) {
		lisp.ResetTrace()
		v, err := lisp.Eval(src)
		tr := strings.Join(lisp.Trace(), ",")
		switch {
		case err != nil:
			res.Fail(sig("probe="+who+" got=error:"+err.Class), history+" ; "+src+" => "+err.String())
		case err == nil && got(v) != wantVal:
			res.Fail(sig("probe="+who+" got=wrong-value"), fmt.Sprintf("%s ; %s => x is %s, required %s (the accessor declared by %s precedes base in the precedence list)", history, src, got(v), wantVal, decl))
		case tr != strings.Join(wantTrace, ","):
			res.Fail(sig("probe="+who+" got=wrong-daemons"), fmt.Sprintf("%s ; %s ran [%s], required [%s]", history, src, tr, strings.Join(wantTrace, ",")))
		}
	}
	daemon := func(m string) []string {
		if m != msg {
			return nil
		}
		switch kind {
		case "before":
			return []string{"base-before"}
		case "after":
			return []string{"base-after"}
		}
		return nil // base's primary is shadowed by the accessor
	}
	holders := []string{leaf}
	if decl == "mid" {
		holders = append(holders, mid)
	}
	for _, h := range holders {
		who := "leaf"
		if h == mid {
			who = "mid"
		}
		probe(who+"-get", fmt.Sprintf("(send (make-instance '%s) :x)", h), "7", daemon("x"))
		probe(who+"-set", fmt.Sprintf("(let ((i (make-instance '%s))) (send i :set-x 9) i)", h), "9", daemon("set-x"))
	}
	// instances made before the later definitions answer like new ones (their x was set to 9)
	for _, old := range olds {
		scope := slip.NewScope()
		scope.Let(slip.Symbol("inst"), old)
		if v, err := lisp.EvalIn(scope, "(send inst :x)"); err != nil || lisp.Show(v) != "9" {
			got := ""
			if err != nil {
				got = err.String()
			} else {
				got = lisp.Show(v)
			}
			res.Fail(sig("probe=old-instance-get got=wrong-value"), history+" ; an instance made before the later forms, x set to 9: (send inst :x) => "+got)
		}
	}
	res.Outcome = "ok"
	if warm {
		res.Outcome = "ok-warm"
	}
	return
}

// ---- an init keyword supplied with nil is a supplied value (the default is not used)
//
// spec: nilinit|<k>

var nilinitCases = []struct{ name, defs, probe, want string }{
	{"own-default", "(defflavor @a ((x 7)) () :inittable-instance-variables :gettable-instance-variables)", "(send (make-instance '@a :x nil) :x)", "nil"},
	{"inherited-variable", "(defflavor @a ((x 7)) () :inittable-instance-variables :gettable-instance-variables) (defflavor @b ((y 1)) (@a))",
		"(send (make-instance '@b :x nil) :x)", "nil"},
	{"shadowed-default", "(defflavor @a ((x 7)) () :inittable-instance-variables :gettable-instance-variables) (defflavor @b ((x 8)) (@a))",
		"(send (make-instance '@b :x nil) :x)", "nil"},
	{"other-variable-keeps-default", "(defflavor @a ((x 7) (y 9)) () :inittable-instance-variables :gettable-instance-variables)",
		"(let ((i (make-instance '@a :x nil))) (list (send i :x) (send i :y)))", "(nil 9)"},
	{"default-init-plist", "(defflavor @a ((x 7)) () :inittable-instance-variables :gettable-instance-variables (:default-init-plist (:x 22)))",
		"(send (make-instance '@a :x nil) :x)", "nil"},
}

func enumNilinit(emit func(string)) {
	for i := range nilinitCases {
		emit(fmt.Sprintf("nilinit|%d", i))
	}
}

func execNilinit(spec string, parts []string) (res engine.Result) {
	var k int
	if _, err := fmt.Sscanf(spec, "nilinit|%d", &k); err != nil || k < 0 || len(nilinitCases) <= k {
		res.Fail("harness:bad-spec", spec)
		return
	}
	c := nilinitCases[k]
	names := freshNames(2)
	defer cleanup(names)
	ren := func(s string) string {
		return strings.ReplaceAll(strings.ReplaceAll(s, "@a", names[0]), "@b", names[1])
	}
	res.Nontrivial = true
	res.Hit("histories")
	res.Hit("explicit-nil-init-keyword")
	if _, err := lisp.Eval("(progn " + ren(c.defs) + ")"); err != nil {
		res.Fail("var kind=nil-init-keyword case="+c.name+" got=definition-error:"+err.Class, ren(c.defs)+" => "+err.String())
		return
	}
	v, err := lisp.Eval(ren(c.probe))
	switch {
	case err != nil:
		res.Fail("var kind=nil-init-keyword case="+c.name+" got=error:"+err.Class, ren(c.defs)+" "+ren(c.probe)+" => "+err.String())
	case lisp.Show(v) != c.want:
		res.Fail("var kind=nil-init-keyword case="+c.name+" got=wrong-value",
			fmt.Sprintf("%s %s => %s; the keyword was supplied with nil, required %s", ren(c.defs), ren(c.probe), lisp.Show(v), c.want))
	}
	res.Outcome = lisp.Show(v)
	return
}
