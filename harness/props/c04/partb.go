package c04

import "verif/engine"

func enumerateB(tier string, emit func(string)) {}

func execB(spec string) (res engine.Result) { return }
