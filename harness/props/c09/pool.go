package c09

import (
	"fmt"
	"math"
	"os"
	"sync/atomic"

	"github.com/ohler55/slip"
	"github.com/ohler55/slip/pkg/flavors"

	"verif/lisp"
)

// poolEntry is one representative object. It is REBUILT for every case
// (functions mutate their arguments).
type poolEntry struct {
	name string // short stable name used in specs and details
	kind string // coarse kind used by the exclusion rules: posreal, real, int, string, other
	src  string // Lisp constructor, evaluated per case ("" = built in Go)
	what string
}

// fullPool: the ~45 representative objects (order = simplest first).
var fullPool = []poolEntry{
	{"nil", "other", "nil", "nil"},
	{"t", "other", "t", "t"},
	{"0", "int", "0", "fixnum 0"},
	{"1", "posint", "1", "fixnum 1"},
	{"-1", "int", "-1", "fixnum -1"},
	{"5", "posint", "5", "fixnum 5"},
	{"2^62", "posint", "4611686018427387904", "fixnum 2^62"},
	{"big", "posint", "18446744073709551617", "bignum 2^64+1"},
	{"1/2", "posreal", "1/2", "ratio"},
	{"1.5", "posreal", "1.5d0", "double-float"},
	{"2.5f", "posreal", "2.5f0", "single-float"},
	{"1.5l", "posreal", "1.5l0", "long-float"},
	{"inf", "posreal", "", "double-float +Inf (built in Go)"},
	{"cx", "other", "#C(1 2)", "complex"},
	{`""`, "string", `""`, "empty string"},
	{`"abc"`, "string", `"abc"`, "string"},
	{`#\a`, "other", `#\a`, "character"},
	{`#\é`, "other", "(code-char 233)", "non-ASCII letter character"},
	{`#\٣`, "other", "(code-char 1635)", "non-ASCII digit character (Arabic-Indic three)"},
	{`#\nul`, "other", "(code-char 0)", "the NUL character"},
	{`#\max`, "other", "(code-char 1114111)", "the last code point"},
	{`"é٣"`, "string", "(coerce (list (code-char 233) (code-char 1635) (code-char 120171)) 'string)", "string of non-ASCII letter, digit and a 4-byte character"},
	{"-2^63", "int", "-9223372036854775808", "most negative fixnum"},
	{"-big", "int", "-18446744073709551617", "negative bignum"},
	{"sym", "other", "", "fresh unbound, unfbound symbol"},
	{"fsym", "other", "", "fresh symbol naming a (&rest r) function"},
	{":zork", "other", ":zork", "keyword that names nothing"},
	{":start", "other", ":start", "keyword many functions accept"},
	{"el", "other", "", "empty slip.List{} (Go-level empty list, not nil)"},
	{"(1 2 3)", "other", "(list 1 2 3)", "proper list"},
	{"(1 . 2)", "other", "(cons 1 2)", "dotted pair"},
	{"alist", "other", "(list (cons 1 2) (cons 3 4))", "association list"},
	{"lamx", "other", "(list 'lambda (list 'x) 'x)", "lambda expression as a list"},
	{"#(1 2 3)", "other", "(vector 1 2 3)", "simple vector"},
	{"#()", "other", "(vector)", "empty vector"},
	{"fpv", "other", "(make-array 3 :fill-pointer 1 :adjustable t)", "adjustable vector with a fill pointer"},
	{"fpover", "other", "(make-array 3 :fill-pointer 3 :adjustable t)", "adjustable vector whose fill pointer is at the end"},
	{"a22", "other", "(make-array (list 2 2) :initial-element 0)", "2-D array"},
	{"oct", "other", "(make-octets 3 7)", "octets"},
	{"ht", "other", "(let ((h (make-hash-table))) (setf (gethash 'a h) 1) h)", "hash table with one entry"},
	{"pkg", "other", "", "scratch package (created per case, removed afterwards)"},
	{"sin", "other", `(make-string-input-stream "hello (1 2) 3")`, "open string input stream"},
	{"sout", "other", "(make-string-output-stream)", "open string output stream"},
	{"scl", "other", `(let ((s (make-string-input-stream "x"))) (close s) s)`, "closed stream"},
	{"ch", "other", "(let ((c (make-channel 4))) (channel-push c 1) c)", "channel, capacity 4, one item queued"},
	{"chc", "other", "(let ((c (make-channel 1))) (channel-close c) c)", "closed channel"},
	{"mtx", "other", "(make-mutex)", "mutex"},
	{"flv", "other", "(find-flavor 'c09flavor)", "flavor"},
	{"finst", "other", "(make-instance 'c09flavor)", "flavor instance"},
	{"bag", "other", `(make-bag "{a:1 b:[1 2]}")`, "bag"},
	{"bpath", "other", `(make-bag-path "a.b")`, "bag path"},
	{"cls", "other", "(find-class 'c09class)", "standard class"},
	{"cinst", "other", "(make-instance 'c09class :a 1)", "standard-object instance"},
	{"cond", "other", `(make-condition 'error :message "m")`, "condition instance"},
	{"lam", "other", "(lambda (&rest r) r)", "lambda"},
	{"time", "other", "(make-time 2024 1 2 3 4 5)", "time"},
}

// quickPairPool: sub-pool for the 2-tuples of the quick tier.
var quickPairNames = []string{"nil", "el", "0", "-1", "2^62", "1.5", `"abc"`, `#\a`, `#\é`, "sym", ":start", "(1 2 3)", "(1 . 2)", "#(1 2 3)", "ht", "sin", "lam"}

// triplePool: sub-pool for the 3-tuples.
var tripleNames = []string{"nil", "-1", "2^62", `"abc"`, "sym", ":start", "(1 2 3)", "lam"}

var poolByName = func() map[string]*poolEntry {
	m := map[string]*poolEntry{}
	for i := range fullPool {
		m[fullPool[i].name] = &fullPool[i]
	}
	return m
}()

var nameCounter int64

// world holds the per-case resources that must be torn down.
type world struct {
	scope    *slip.Scope
	cleanups []func()
}

func (w *world) done() {
	for i := len(w.cleanups) - 1; 0 <= i; i-- {
		func() {
			defer func() { _ = recover() }()
			w.cleanups[i]()
		}()
	}
}

func mustEval(scope *slip.Scope, src string) slip.Object {
	v, err := lisp.EvalIn(scope, src)
	if err != nil {
		panic(fmt.Sprintf("harness: pool constructor %s failed: %s", src, err))
	}
	return v
}

// ensureFixtures (re)creates the process-level flavor and class the pool needs.
func ensureFixtures() {
	if flavors.Find("c09flavor") == nil {
		mustEval(slip.NewScope(), "(defflavor c09flavor ((a 1)) () :gettable-instance-variables :settable-instance-variables)")
	}
	if slip.FindClass("c09class") == nil {
		mustEval(slip.NewScope(), "(defclass c09class () ((a :initarg :a :accessor c09class-a)))")
	}
}

// build constructs the pool object `name` for this case.
func (w *world) build(name string) slip.Object {
	pe := poolByName[name]
	if pe == nil {
		panic("harness: unknown pool object " + name)
	}
	if obj, ok := w.buildState(name); ok {
		return obj
	}
	switch name {
	case "inf":
		return slip.DoubleFloat(math.Inf(1))
	case "el":
		return slip.List{}
	case "esym":
		return slip.Symbol("")
	case "sym":
		return slip.Symbol(fmt.Sprintf("c09s%d", atomic.AddInt64(&nameCounter, 1)))
	case "fsym":
		n := fmt.Sprintf("c09f%d", atomic.AddInt64(&nameCounter, 1))
		mustEval(slip.NewScope(), "(defun "+n+" (&rest r) r)")
		w.cleanups = append(w.cleanups, func() { slip.UserPkg.Undefine(n) })
		return slip.Symbol(n)
	case "pkg":
		n := fmt.Sprintf("c09p%d", atomic.AddInt64(&nameCounter, 1))
		p := slip.DefPackage(n, nil, "scratch")
		w.cleanups = append(w.cleanups, func() { slip.RemovePackage(p) })
		return p
	case "flv", "finst", "cls", "cinst":
		ensureFixtures()
	}
	return mustEval(slip.NewScope(), pe.src)
}

// ---------------------------------------------------------------- sandbox

var (
	devNull    *os.File
	scratchDir string
	baseEnv    []string
	basePkgs   map[*slip.Package]bool
	oneShot    bool
)

// sandboxInit runs once per process, at the first case.
func sandboxInit() {
	if devNull != nil {
		return
	}
	var err error
	if devNull, err = os.OpenFile(os.DevNull, os.O_RDWR, 0); err != nil {
		panic("harness: cannot open " + os.DevNull)
	}
	oneShot = 1 < len(os.Args) && (os.Args[1] == "exec" || os.Args[1] == "replay") && !helperMode
	root := "/verif/.build/scratch/C09"
	_ = os.MkdirAll(root, 0o755)
	if !oneShot {
		sweepStale(root)
	}
	scratchDir = fmt.Sprintf("%s/%d", root, os.Getpid())
	_ = os.RemoveAll(scratchDir)
	if err = os.MkdirAll(scratchDir, 0o755); err != nil {
		panic("harness: cannot create " + scratchDir)
	}
	if err = os.Chdir(scratchDir); err != nil {
		panic("harness: cannot chdir to " + scratchDir)
	}
	slip.WorkingDir = scratchDir
	baseEnv = os.Environ()
	basePkgs = map[*slip.Package]bool{}
	for _, p := range slip.AllPackages() {
		basePkgs[p] = true
	}
}

// sweepStale removes scratch directories of processes that no longer exist.
func sweepStale(root string) {
	ents, err := os.ReadDir(root)
	if err != nil {
		return
	}
	for _, e := range ents {
		var pid int
		if _, err := fmt.Sscanf(e.Name(), "%d", &pid); err != nil || !e.IsDir() {
			continue
		}
		if _, err := os.Stat(fmt.Sprintf("/proc/%d", pid)); err != nil {
			_ = os.RemoveAll(root + "/" + e.Name())
		}
	}
}

// enter prepares the process-global state for one case and returns the
// function that restores it.
func enter(restoreEnv bool) (leave func()) {
	sandboxInit()
	savedOut, savedIn := os.Stdout, os.Stdin
	os.Stdout, os.Stdin = devNull, devNull
	slip.StandardOutput = slip.NewStringStream(nil)
	slip.ErrorOutput = slip.NewStringStream(nil)
	slip.TraceOutput = slip.NewStringStream(nil)
	slip.StandardInput = slip.NewStringStream(nil)
	slip.CurrentPackage = &slip.UserPkg
	nUses := len(slip.UserPkg.Uses)
	return func() {
		os.Stdout, os.Stdin = savedOut, savedIn
		slip.Untrace(nil)
		slip.CurrentPackage = &slip.UserPkg
		// (defun :start ...) / (defvar :zork ...) define things named by pool symbols that are not fresh
		for _, n := range []string{":start", ":zork", "t"} {
			func() {
				defer func() { _ = recover() }()
				slip.UserPkg.Undefine(n)
				if n != "t" {
					slip.UserPkg.Remove(n)
				}
			}()
		}
		if nUses < len(slip.UserPkg.Uses) {
			slip.UserPkg.Uses = slip.UserPkg.Uses[:nUses]
		}
		for _, p := range slip.AllPackages() {
			if !basePkgs[p] {
				func() {
					defer func() { _ = recover() }()
					slip.RemovePackage(p)
				}()
			}
		}
		if restoreEnv {
			os.Clearenv()
			for _, kv := range baseEnv {
				for i := 1; i < len(kv); i++ {
					if kv[i] == '=' {
						_ = os.Setenv(kv[:i], kv[i+1:])
						break
					}
				}
			}
		}
		// anything a case created in the scratch directory
		if ents, err := os.ReadDir(scratchDir); err == nil {
			for _, e := range ents {
				_ = os.RemoveAll(scratchDir + "/" + e.Name())
			}
		}
		if oneShot {
			_ = os.Chdir("/")
			_ = os.RemoveAll(scratchDir)
			devNull = nil // re-create on the next case (replay runs only one)
		}
	}
}
