// Package c09: no Lisp-level input faults the host. Exhaustive enumeration of
// (i) reader byte strings, (ii) every exported function x argument tuples over
// a fixed pool of representative objects, (iii) format control strings; each
// case runs against the real slip code and the outcome must be a value or a
// genuine Lisp condition - never a Go runtime fault dressed up as an error, a
// raw Go panic, a dead process or a hang.
package c09

import (
	"fmt"
	"os"
	"strconv"
	"strings"
	"syscall"

	"verif/engine"
)

const selftestPkgName = "c09-selftest"

func init() {
	engine.Register(&engine.Prop{
		ID:    "C09",
		Level: "exploration",
		Rule: "families, each enumerated exhaustively within its bound: r = byte strings given to Read / ReadStream / " +
			"ReadStream in 1-byte chunks / read-from-string; f = every exported function of every slip package x every argument " +
			"tuple over the object pool (objects rebuilt per case, bound to variables, call read from text and evaluated; functions " +
			"that do not evaluate their arguments are additionally given the objects as literal operands); m = format control " +
			"strings built from directive x modifiers x prefix parameters x argument lists. The pool is complete by construction " +
			"(p: every class of (list-all-classes) and every make-... constructor has a pool object or a stated excuse) and holds objects " +
			"in odd states (closed streams of every kind, instance of a removed flavor / of a redefined class, deleted package, generic " +
			"function without methods). k = every pool object as key of a hash table of every test and as element given to every built-in " +
			"that hashes or compares; g = every start/end pair over {0 1 3 5 6 -1 nil} on sequences of length 5 x every function that " +
			"takes a range x kind of sequence; z = every count / size / index / dimension / width / radix parameter x " +
			"{2 0 -1 2^31 2^32 2^62 2^63-1 -2^63 2^64 10^30} (x {2^16 2^21} where the product of several matters) with otherwise valid " +
			"arguments; u = every built-in that calls a function for the elements of a container x container kind x mutation of that " +
			"container by the callback x callback result; d = reader texts of n openers (with / without closers) and tokens of n " +
			"characters; e = programs that recurse without end, nested data and self-containing data x every built-in that walks a " +
			"structure. z, u, d, e run in a helper process (8 s, 3 GiB; d and e with a 250 MB Go stack): a value (z: of at most " +
			"array-dimension-limit elements) or a Lisp condition is demanded, a dead or silent helper is attributed to the case. " +
			"A case is non-trivial when the function got past its argument-count check (value, or a condition other than too few/too " +
			"many arguments) / the text contains a byte with a syntactic role / format got past directive lookup; every g, k, z, d, e " +
			"case and every u case with a mutation is. " +
			"pl = PLACES: every function whose object implements slip.Placer (discovered at run time, with the accessors defstruct / defclass " +
			"generate; a placer without a template is a harness error) x every storing operator (setf psetf incf decf push pushnew pop rotatef " +
			"shiftf remf, getf of a place, addnew; setf with two pairs / one argument) x every argument position swept over the whole pool (+ the " +
			"objects the place is valid on) x every index / size / position over {0 1 7 8 9 63 64 65 -1 2^31 2^62 2^64 10^30} (every (byte s p) over " +
			"{0 1 7 8 9 15 16 17 63 64 65 128}^2) x new values {7 nil -1 2^64 1/2 1.5 #\\a \"s\" symbol list vector octets bit-vector, the " +
			"object itself} (the full index x value product for the objects the place accepts; (setf place 7) at every index for the others). " +
			"sf = STRUCTURED FORMS: every function that skips argument evaluation (the engine's list) x valid forms of it x every position of " +
			"the form's tree to depth 5 x {missing, nil, (), symbol, number, string, keyword, t, dotted pair, one level too deep, one level too " +
			"shallow, twice, as dotted tail, 47 syntax words (lambda-list keywords, option keywords, (quote) (function a b) (lambda) ...), a copy " +
			"of every other subtree of the form, every pool object as literal operand}, evaluated under a budget of function evaluations (a " +
			"mutant that loops by contract is cut off and not judged) in the helper process; + reader-level texts (backquote / comma / " +
			"#' in wrong places). st = STREAMS: every stream-taking function (derived from the FuncDocs and names; a function without an " +
			"operation is a harness error) x 37 start states (every kind of stream: open, at end of file, empty, written, file deleted after " +
			"open, members closed, synonym to open / unbound / non-stream / synonym, dead with-output-to-string stream, the standard streams) x " +
			"every sequence of one and of two operations on the same stream, in the helper process",
		Assumptions: []string{
			"a Go runtime fault is recognised by its message (runtime error:, interface conversion:, unhashable, nil map, makeslice, " +
				"closed channel, math/big and strings library panics ...) on a condition manufactured by slip's catch-all (Panic.Value set), or by a raw non-condition panic value",
			"functions that block, destroy or reach outside the process BY CONTRACT with the given arguments are not called " +
				"(explicit exclusion list with reasons in funcs.go: loop, sleep n>0, send-signal, signal-wait, run, make-app, benchmark, " +
				"swank server starters, DNS/HTTP lookups, waiting on an empty socket set); dotimes / loop repeat / sleep are not given huge counts",
			"calls known to kill or hang the process run in a child process of their own (5 s, 3 GiB) and are reported with a specific " +
				"signature; any other death is reported by the engine as worker:fatal / worker:hang",
			"the resource families (z, u, d, e) run in a helper process that serves at most 64 failure-free cases; running out of time, of " +
				"memory and of stack are reported as one kind (unbounded); d and e use Go's 32-bit default stack limit (250 MB) so that " +
				"endless recursion is met in a fraction of a second; nested data stays at depth 3000 (thorough 10^4; 10^5 / 10^6 for the reader), where every " +
				"built-in of the unchanged tree finishes far inside the deadline (printing takes time quadratic in the depth)",
			"random / time dependent results only influence the outcome digest, never a verdict",
		},
		Enumerate: enumerate,
		Exec:      execCase,
		Required: []string{"fn-value", "fn-condition", "fn-type-error", "fn-arg-count-error", "reader-value", "reader-condition", "reader-partial", "format-value", "format-condition", "catch-all-conversions",
			"pool-classes-covered", "pool-constructors-covered", "keyed-value", "keyed-condition", "range-value", "range-condition",
			"size-value", "size-condition", "size-template-valid", "mutating-value", "mutating-condition", "deep-reader-value",
			"deep-reader-condition", "deep-eval-value", "deep-eval-condition", "isolated",
			"placers-discovered", "place-templates-valid", "place-value", "place-condition", "place-type-error", "place-swept-accepted", "place-swept-rejected",
			"place-value-setf", "place-value-psetf", "place-value-incf", "place-value-decf", "place-value-push", "place-value-pushnew", "place-value-pop",
			"place-value-rotatef", "place-value-shiftf", "place-value-remf", "place-value-setf-getf", "place-value-addnew",
			"sform-functions", "sform-templates-valid", "sform-value", "sform-condition", "sform-budget", "sform-text-cases",
			"stream-functions-covered", "stream-states", "stream-value", "stream-condition"},
		CaseDeadlineS: 90, // above helperWallMax (helper.go): the helper's CPU clock decides, the engine's wall watchdog is the backstop
		Bound:         bound,
		Selftest:      selftest,
	})
}

// C09_ONLY (development aid): restrict the run to some families, e.g. "f" or "rm".
func only(fam string) bool {
	o := os.Getenv("C09_ONLY")
	return o == "" || strings.Contains(o, fam)
}

func enumerate(tier string, emit func(string)) {
	if only("m") {
		enumFormat(tier, emit)
	}
	if only("f") {
		enumFuncs(tier, emit)
	}
	if only("r") {
		enumReader(tier, emit)
	}
	if only("b") {
		enumBare(emit)
	}
	if only("p") {
		enumCoverage(emit)
	}
	if only("k") {
		enumKeyed(tier, emit)
	}
	if only("g") {
		enumRanges(tier, emit)
	}
	if only("u") {
		enumMutating(tier, emit)
	}
	if only("z") {
		enumSize(tier, emit)
	}
	if only("d") {
		enumDeepReader(tier, emit)
	}
	if only("e") {
		enumDeepEval(tier, emit)
	}
	if only("P") {
		enumPlaces(tier, emit)
	}
	if only("S") {
		enumSForms(tier, emit)
	}
	if only("T") {
		enumStreams(tier, emit)
	}
}

func execCase(spec string) engine.Result {
	if tainted {
		restartWorker()
	}
	execCalls++
	switch {
	case spec == "helper|":
		return serveHelper()
	case strings.HasPrefix(spec, "f|"):
		return execFunc(spec)
	case strings.HasPrefix(spec, "r|"):
		return execReader(spec)
	case strings.HasPrefix(spec, "m|"):
		return execFormat(spec)
	case strings.HasPrefix(spec, "b|"):
		return execBare(spec)
	case strings.HasPrefix(spec, "p|"):
		return execCoverage(spec)
	case strings.HasPrefix(spec, "k|"):
		return execKeyed(spec)
	case strings.HasPrefix(spec, "g|"):
		return execRange(spec)
	case strings.HasPrefix(spec, "u|"):
		return execMutating(spec)
	case strings.HasPrefix(spec, "z|"):
		return execSize(spec)
	case strings.HasPrefix(spec, "d|"):
		return execDeepReader(spec)
	case strings.HasPrefix(spec, "e|"):
		return execDeepEval(spec)
	case strings.HasPrefix(spec, "pl|"):
		return execPlace(spec)
	case strings.HasPrefix(spec, "sf|"):
		return execSForm(spec)
	case strings.HasPrefix(spec, "st|"):
		return execStream(spec)
	}
	var res engine.Result
	res.Fail("harness:bad-spec", spec)
	return res
}

func bound(tier string) string {
	if o := os.Getenv("C09_ONLY") + os.Getenv("C09_FN"); o != "" {
		return "DEVELOPMENT RUN restricted to " + o
	}
	nf := len(allFunctions())
	np := len(fullPool)
	cov, tot, _ := sizeCoverage()
	extra := fmt.Sprintf("; keyed: %d operations x the %d pool objects; ranges: %d templates x sequence kinds x %d^2 (start, end) pairs; sizes: %d "+
		"templates (covering %d of the %d parameters documented as fixnum / integer) x %d values (+ %d product values on multi-hole templates); "+
		"mutating callbacks: %d templates x container kinds x mutations x 2 results; reader depth: %d nest shapes x n in %v (open / closed) and %d "+
		"token shapes x n in %v, 3 APIs", len(keyedOps), np, len(rangeTemplates), len(rangeValues), len(sizeTemplates), cov, tot,
		len(sizeValues), len(productValues), len(mutTemplates), len(nestShapes), nestSizes(tier), len(tokenShapes), tokenSizes(tier))
	nt, nc, ne := placeCounts(tier)
	extra += fmt.Sprintf("; places: %d templates over the placers slip reports, %d (template, swept object) cases, at most %d evaluations "+
		"(%d operators, index grid %d / pairs %d^2 / %d byte specs, %d new values (+%d sizes where the new value is a size)); structured forms: %d "+
		"functions that skip argument evaluation, %d valid forms, every position to depth %d x (15 shape mutations + %d words + the other "+
		"subtrees + the %d pool objects), %d reader-level texts; streams: %d operations (%d functions) x %d start states x (1 + %d) sequences",
		nt, nc, ne, len(placeOps), len(placeGrid), map[bool]int{true: len(placeGrid), false: len(placeGridPair)}[tier == engine.Thorough], len(byteGrid)*len(byteGrid),
		len(placeValues), len(placeValuesGrid)-len(placeValues), len(sfMacroNames()), sfTemplateCount(), sfDepth, len(sfWords), np, len(sfTexts),
		len(streamOps), streamFnCount(), len(streamStates), len(streamOps))
	extra += "; evaluation depth: "
	if tier == engine.Thorough {
		extra += fmt.Sprintf("%d recursive programs, %d data shapes (nested ones at depth %d) x %d operations", len(deepPrograms), len(deepData), nestedDepth(tier), len(deepOps))
	} else {
		extra += fmt.Sprintf("%d of %d recursive programs, %d of %d data shapes (nested ones at depth %d) x %d of %d operations (the rest: thorough tier)",
			len(quickDeepPrograms), len(deepPrograms), len(quickDeepData), len(deepData), nestedDepth(tier), len(quickDeepOps), len(deepOps))
	}
	if tier == engine.Thorough {
		return fmt.Sprintf("reader: every byte string of length <= 2 over all 256 bytes (4 APIs), length 3 over all 256 bytes (Read), "+
			"length <= 4 over %d syntax bytes (Read, ReadStream), length <= 6 over the 12 bytes %q (4 APIs); functions: %d exported "+
			"functions x the 0-tuple, all 1-tuples and all 2-tuples over the %d-object pool, all 3-tuples over %d objects; format: every "+
			"byte as directive x 4 modifier sets x %d parameter shapes x %d argument lists, every ordered pair of the %d real single "+
			"directives, %d wrappers x every single, the huge literal parameter on every directive x 4 modifier sets",
			len(syntax48), string(syntax12), nf, np, len(tripleNames), len(fmtParams), len(fmtArgLists), len(singles(directiveChars)), len(wrappers)) + extra
	}
	return fmt.Sprintf("reader: every byte string of length <= 2 over all 256 bytes (4 APIs), length <= 5 over the 12 bytes %q (Read, "+
		"ReadStream; <= 4 for 1-byte chunks and read-from-string); functions: %d exported functions x the 0-tuple, all 1-tuples over the "+
		"%d-object pool and all 2-tuples over a %d-object sub-pool; format: every byte as directive x 4 modifier sets x %d parameter "+
		"shapes x %d argument lists, every ordered pair over a %d-directive core, %d wrappers x every directive x 4 modifier sets, the "+
		"huge literal parameter on every directive",
		string(syntax12), nf, np, len(quickPairNames), len(fmtParams), len(fmtArgLists), len(core66()), len(wrappers)) + extra
}

// execCalls counts the cases this process has been given (1:1 with the
// engine's per-shard case index beyond --resume).
var execCalls int

// restartWorker: a previous case (already reported) left this interpreter
// broken. A static worker replaces itself by a fresh image that resumes at the
// case now in flight, so that no later case is judged in a broken world. (The
// partial summary of this image is lost exactly as after an engine restart;
// first failures have already been streamed.) In any other mode: carry on.
func restartWorker() {
	if len(os.Args) < 3 || os.Args[1] != "worker" {
		tainted = false
		return
	}
	resume := 0
	args := append([]string{}, os.Args...)
	ri := -1
	for i := 3; i+1 < len(args); i++ {
		if args[i] == "--resume" || args[i] == "-resume" {
			resume, _ = strconv.Atoi(args[i+1])
			ri = i + 1
		}
	}
	if ri < 0 {
		args = append(args, "--resume", "0")
		ri = len(args) - 1
	}
	args[ri] = strconv.Itoa(resume + execCalls)
	self, err := os.Executable()
	if err != nil {
		return
	}
	env := baseEnv
	if env == nil {
		env = os.Environ()
	}
	if engine.ProtoOut() != os.Stdout {
		// the engine took VERIF_PROTO_FD out of the environment when this image started; the next image must find it
		// again or its protocol lines (and its summary) go to the discarded standard output
		env = append(append([]string{}, env...), "VERIF_PROTO_FD=3")
	}
	if theHelper != nil {
		theHelper.stop()
	}
	_ = os.Chdir("/")
	_ = os.RemoveAll(scratchDir)
	_ = syscall.Exec(self, args, env)
	// only reached when exec failed: keep going, later failures will not confirm
	tainted = false
}
