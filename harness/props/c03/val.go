package c03

// The harness' own value model: object specs (text) <-> val trees <-> slip
// objects, and the exact comparison used by the oracle. Nothing here goes
// through slip's printer, reader or Equal methods.

import (
	"fmt"
	"math"
	"math/big"
	"strconv"
	"strings"

	"github.com/ohler55/slip"
)

type kind int

const (
	kNil kind = iota
	kT
	kInt
	kRatio
	kSingle
	kDouble
	kLong
	kStr
	kChar
	kSym
	kList
	kVec
	kArr
)

var kindNames = []string{"null", "t", "integer", "ratio", "single-float", "double-float", "long-float",
	"string", "character", "symbol", "list", "vector", "array"}

func (k kind) String() string { return kindNames[k] }

type val struct {
	k    kind
	n    *big.Int   // kInt
	rep  string     // kInt: "fixnum" | "bignum" (representation class)
	r    *big.Rat   // kRatio
	f    float64    // kSingle (value of the float32) / kDouble
	lf   *big.Float // kLong
	s    string     // kStr, kSym
	c    rune       // kChar
	e    []*val     // kList / kVec elements, kArr row-major elements (read through Get(indexes) when converted from slip)
	e2   []*val     // kArr converted from slip: the backing slice in storage order (Elements())
	tail *val       // kList: non-nil => dotted
	dims []int      // kArr
}

func vInt(n *big.Int) *val {
	rep := "bignum"
	if n.IsInt64() {
		rep = "fixnum"
	}
	return &val{k: kInt, n: n, rep: rep}
}
func vI(i int64) *val      { return vInt(big.NewInt(i)) }
func vSym(s string) *val   { return &val{k: kSym, s: s} }
func vStr(s string) *val   { return &val{k: kStr, s: s} }
func vChar(c rune) *val    { return &val{k: kChar, c: c} }
func vList(e ...*val) *val { return mkList(e, nil) }
func vVec(e ...*val) *val  { return &val{k: kVec, e: e} }
func vDot(tail *val, e ...*val) *val {
	return mkList(e, tail)
}

func mkList(e []*val, tail *val) *val {
	if tail != nil && tail.k == kNil {
		tail = nil
	}
	if len(e) == 0 {
		if tail != nil {
			return tail
		}
		return &val{k: kNil}
	}
	if tail != nil && tail.k == kList { // (a . (b)) is (a b)
		return mkList(append(append([]*val{}, e...), tail.e...), tail.tail)
	}
	return &val{k: kList, e: e, tail: tail}
}

func vArr(dims []int, e ...*val) *val {
	n := 1
	for _, d := range dims {
		n *= d
	}
	if n != len(e) {
		panic(fmt.Sprintf("array dims %v need %d elements, got %d", dims, n, len(e)))
	}
	return &val{k: kArr, dims: dims, e: e}
}

// ---------------------------------------------------------------- spec text

// spec renders v in the harness' object-spec syntax (parseSpec inverts it).
func (v *val) spec() string {
	var b strings.Builder
	v.writeSpec(&b)
	return b.String()
}

func (v *val) writeSpec(b *strings.Builder) {
	switch v.k {
	case kNil:
		b.WriteString("N")
	case kT:
		b.WriteString("T")
	case kInt:
		b.WriteString("I")
		b.WriteString(v.n.String())
	case kRatio:
		b.WriteString("R")
		b.WriteString(v.r.Num().String())
		b.WriteString("/")
		b.WriteString(v.r.Denom().String())
	case kSingle:
		fmt.Fprintf(b, "F%08x", math.Float32bits(float32(v.f)))
	case kDouble:
		fmt.Fprintf(b, "D%016x", math.Float64bits(v.f))
	case kLong:
		fmt.Fprintf(b, "L%d:%s", v.lf.Prec(), v.lf.Text('p', 0))
	case kStr:
		b.WriteString("S")
		b.WriteString(strconv.QuoteToASCII(v.s))
	case kSym:
		b.WriteString("Y")
		b.WriteString(strconv.QuoteToASCII(v.s))
	case kChar:
		fmt.Fprintf(b, "C%x", v.c)
	case kList:
		b.WriteString("(")
		for i, e := range v.e {
			if 0 < i {
				b.WriteString(" ")
			}
			e.writeSpec(b)
		}
		if v.tail != nil {
			b.WriteString(" . ")
			v.tail.writeSpec(b)
		}
		b.WriteString(")")
	case kVec:
		b.WriteString("#(")
		for i, e := range v.e {
			if 0 < i {
				b.WriteString(" ")
			}
			e.writeSpec(b)
		}
		b.WriteString(")")
	case kArr:
		b.WriteString("#A")
		for i, d := range v.dims {
			if 0 < i {
				b.WriteString(",")
			}
			b.WriteString(strconv.Itoa(d))
		}
		b.WriteString("(")
		for i, e := range v.e {
			if 0 < i {
				b.WriteString(" ")
			}
			e.writeSpec(b)
		}
		b.WriteString(")")
	}
}

type specParser struct {
	s   string
	pos int
}

func parseSpec(s string) (v *val, err error) {
	defer func() {
		if rec := recover(); rec != nil {
			err = fmt.Errorf("bad object spec %q: %v", s, rec)
		}
	}()
	p := &specParser{s: s}
	v = p.value()
	p.ws()
	if p.pos != len(p.s) {
		panic(fmt.Sprintf("trailing text at %d", p.pos))
	}
	return
}

func (p *specParser) ws() {
	for p.pos < len(p.s) && p.s[p.pos] == ' ' {
		p.pos++
	}
}

func (p *specParser) word() string {
	start := p.pos
	for p.pos < len(p.s) && p.s[p.pos] != ' ' && p.s[p.pos] != ')' && p.s[p.pos] != '(' {
		p.pos++
	}
	return p.s[start:p.pos]
}

func (p *specParser) quoted() string {
	q, err := strconv.QuotedPrefix(p.s[p.pos:])
	if err != nil {
		panic(err)
	}
	p.pos += len(q)
	u, err := strconv.Unquote(q)
	if err != nil {
		panic(err)
	}
	return u
}

func (p *specParser) seq() (e []*val, tail *val) {
	for {
		p.ws()
		if len(p.s) <= p.pos {
			panic("unterminated sequence")
		}
		if p.s[p.pos] == ')' {
			p.pos++
			return
		}
		if p.s[p.pos] == '.' && p.pos+1 < len(p.s) && p.s[p.pos+1] == ' ' {
			p.pos++
			tail = p.value()
			p.ws()
			if len(p.s) <= p.pos || p.s[p.pos] != ')' {
				panic("bad dotted tail")
			}
			p.pos++
			return
		}
		e = append(e, p.value())
	}
}

func (p *specParser) value() *val {
	p.ws()
	if len(p.s) <= p.pos {
		panic("unexpected end")
	}
	c := p.s[p.pos]
	p.pos++
	switch c {
	case 'N':
		return &val{k: kNil}
	case 'T':
		return &val{k: kT}
	case 'I':
		n, ok := new(big.Int).SetString(p.word(), 10)
		if !ok {
			panic("bad integer")
		}
		return vInt(n)
	case 'R':
		r, ok := new(big.Rat).SetString(p.word())
		if !ok || r.IsInt() {
			panic("bad ratio")
		}
		return &val{k: kRatio, r: r}
	case 'F':
		u, err := strconv.ParseUint(p.word(), 16, 32)
		if err != nil {
			panic(err)
		}
		return &val{k: kSingle, f: float64(math.Float32frombits(uint32(u)))}
	case 'D':
		u, err := strconv.ParseUint(p.word(), 16, 64)
		if err != nil {
			panic(err)
		}
		return &val{k: kDouble, f: math.Float64frombits(u)}
	case 'L':
		w := p.word()
		i := strings.IndexByte(w, ':')
		prec, err := strconv.Atoi(w[:i])
		if err != nil {
			panic(err)
		}
		f, _, err := new(big.Float).SetPrec(uint(prec)).Parse(w[i+1:], 0)
		if err != nil {
			panic(err)
		}
		return &val{k: kLong, lf: f}
	case 'S':
		return vStr(p.quoted())
	case 'Y':
		return vSym(p.quoted())
	case 'C':
		u, err := strconv.ParseUint(p.word(), 16, 32)
		if err != nil {
			panic(err)
		}
		return vChar(rune(u))
	case '(':
		e, tail := p.seq()
		return mkList(e, tail)
	case '#':
		if p.s[p.pos] == '(' {
			p.pos++
			e, tail := p.seq()
			if tail != nil {
				panic("dotted vector")
			}
			return &val{k: kVec, e: e}
		}
		if p.s[p.pos] == 'A' {
			p.pos++
			var dims []int
			for _, d := range strings.Split(p.word(), ",") {
				n, err := strconv.Atoi(d)
				if err != nil {
					panic(err)
				}
				dims = append(dims, n)
			}
			if p.s[p.pos] != '(' {
				panic("bad array")
			}
			p.pos++
			e, tail := p.seq()
			if tail != nil {
				panic("dotted array")
			}
			return vArr(dims, e...)
		}
	}
	panic(fmt.Sprintf("unexpected %q at %d", c, p.pos-1))
}

// ---------------------------------------------------------------- to slip

func toSlip(v *val) slip.Object {
	switch v.k {
	case kNil:
		return nil
	case kT:
		return slip.True
	case kInt:
		if v.n.IsInt64() {
			return slip.Fixnum(v.n.Int64())
		}
		return (*slip.Bignum)(new(big.Int).Set(v.n))
	case kRatio:
		return (*slip.Ratio)(new(big.Rat).Set(v.r))
	case kSingle:
		return slip.SingleFloat(v.f)
	case kDouble:
		return slip.DoubleFloat(v.f)
	case kLong:
		return (*slip.LongFloat)(new(big.Float).Copy(v.lf))
	case kStr:
		return slip.String(v.s)
	case kSym:
		return slip.Symbol(v.s)
	case kChar:
		return slip.Character(v.c)
	case kList:
		l := make(slip.List, 0, len(v.e)+1)
		for _, e := range v.e {
			l = append(l, toSlip(e))
		}
		if v.tail != nil {
			l = append(l, slip.Tail{Value: toSlip(v.tail)})
		}
		return l
	case kVec:
		l := make(slip.List, 0, len(v.e))
		for _, e := range v.e {
			l = append(l, toSlip(e))
		}
		return slip.NewVector(len(l), slip.TrueSymbol, nil, l, true)
	case kArr:
		l := make(slip.List, 0, len(v.e))
		for _, e := range v.e {
			l = append(l, toSlip(e))
		}
		nested, _ := nest(l, v.dims)
		return slip.NewArray(append([]int{}, v.dims...), slip.TrueSymbol, nil, nested, true)
	}
	panic("toSlip: bad kind")
}

func nest(flat slip.List, dims []int) (slip.List, slip.List) {
	out := make(slip.List, 0, dims[0])
	if len(dims) == 1 {
		out = append(out, flat[:dims[0]]...)
		return out, flat[dims[0]:]
	}
	for i := 0; i < dims[0]; i++ {
		var sub slip.List
		sub, flat = nest(flat, dims[1:])
		out = append(out, sub)
	}
	return out, flat
}

// ---------------------------------------------------------------- from slip

// fromSlip converts by Go type switch. Arrays are read through the public
// element accessor Get(i, j, ...) for every index tuple (what aref uses), not
// through the backing slice.
func fromSlip(obj slip.Object) (v *val, err error) {
	defer func() {
		if rec := recover(); rec != nil {
			err = fmt.Errorf("conversion panicked: %v", rec)
			v = nil
		}
	}()
	return from(obj, 0), nil
}

func from(obj slip.Object, depth int) *val {
	if 60 < depth {
		panic("too deep")
	}
	switch t := obj.(type) {
	case nil:
		return &val{k: kNil}
	case slip.Fixnum:
		return &val{k: kInt, n: big.NewInt(int64(t)), rep: "fixnum"}
	case *slip.Bignum:
		return &val{k: kInt, n: new(big.Int).Set((*big.Int)(t)), rep: "bignum"}
	case *slip.Ratio:
		return &val{k: kRatio, r: new(big.Rat).Set((*big.Rat)(t))}
	case slip.SingleFloat:
		return &val{k: kSingle, f: float64(t)}
	case slip.DoubleFloat:
		return &val{k: kDouble, f: float64(t)}
	case *slip.LongFloat:
		return &val{k: kLong, lf: new(big.Float).Copy((*big.Float)(t))}
	case slip.String:
		return vStr(string(t))
	case slip.Symbol:
		return vSym(string(t))
	case slip.Character:
		return vChar(rune(t))
	case slip.List:
		if len(t) == 0 {
			return &val{k: kNil}
		}
		out := &val{k: kList}
		for i, e := range t {
			if tl, ok := e.(slip.Tail); ok {
				if i != len(t)-1 {
					panic("tail marker not in last position")
				}
				out.tail = from(tl.Value, depth+1)
				break
			}
			out.e = append(out.e, from(e, depth+1))
		}
		return mkList(out.e, out.tail)
	case *slip.Vector:
		out := &val{k: kVec}
		for _, e := range t.AsList() {
			out.e = append(out.e, from(e, depth+1))
		}
		return out
	case *slip.Array:
		dims := append([]int{}, t.Dimensions()...)
		out := &val{k: kArr, dims: dims}
		n := 1
		for _, d := range dims {
			n *= d
		}
		if 1<<16 < n {
			panic("array too large")
		}
		for _, e := range t.Elements() {
			out.e2 = append(out.e2, from(e, depth+1))
		}
		idx := make([]int, len(dims))
		for i := 0; i < n; i++ {
			out.e = append(out.e, from(t.Get(idx...), depth+1))
			for j := len(idx) - 1; 0 <= j; j-- {
				idx[j]++
				if idx[j] < dims[j] {
					break
				}
				idx[j] = 0
			}
		}
		return out
	}
	if obj == slip.True {
		return &val{k: kT}
	}
	panic(fmt.Sprintf("unsupported Go type %T", obj))
}

// ---------------------------------------------------------------- compare

// diff returns "" when got equals want (exact comparison, same type), else a
// short kind word plus a human detail.
func diff(want, got *val) (kindWord, detail string) {
	return diffAt(want, got, "")
}

func diffAt(want, got *val, path string) (string, string) {
	at := func(s string) string {
		if path == "" {
			return s
		}
		return s + " at " + path
	}
	if want.k != got.k {
		return "wrong-type:" + got.k.String(), at(fmt.Sprintf("expected a %s, got %s %s", want.k, got.k, got.show()))
	}
	switch want.k {
	case kNil, kT:
	case kInt:
		if want.n.Cmp(got.n) != 0 {
			return "wrong-value", at(fmt.Sprintf("expected %s, got %s", want.n, got.n))
		}
		if want.rep != got.rep {
			return "wrong-type:" + got.rep, at(fmt.Sprintf("expected %s %s, got a %s", want.rep, want.n, got.rep))
		}
	case kRatio:
		if got.r.IsInt() {
			return "wrong-type:integer-valued-ratio", at("expected ratio " + want.r.String() + ", got integer-valued ratio " + got.r.String())
		}
		if want.r.Cmp(got.r) != 0 {
			return "wrong-value", at(fmt.Sprintf("expected %s, got %s", want.r, got.r))
		}
	case kSingle:
		if math.Float32bits(float32(want.f)) != math.Float32bits(float32(got.f)) {
			return "wrong-value", at(fmt.Sprintf("expected single %v (bits %08x), got %v (bits %08x)", float32(want.f), math.Float32bits(float32(want.f)), float32(got.f), math.Float32bits(float32(got.f))))
		}
	case kDouble:
		if math.Float64bits(want.f) != math.Float64bits(got.f) {
			return "wrong-value", at(fmt.Sprintf("expected double %v (bits %016x), got %v (bits %016x)", want.f, math.Float64bits(want.f), got.f, math.Float64bits(got.f)))
		}
	case kLong:
		if !longClose(want.lf, got.lf) {
			return "wrong-value", at(fmt.Sprintf("expected long-float %s (prec %d), got %s (prec %d)", want.lf.Text('g', 40), want.lf.Prec(), got.lf.Text('g', 40), got.lf.Prec()))
		}
	case kStr:
		if want.s != got.s {
			return "wrong-value", at(fmt.Sprintf("expected string %q, got %q", want.s, got.s))
		}
	case kChar:
		if want.c != got.c {
			return "wrong-value", at(fmt.Sprintf("expected character U+%04X, got U+%04X", want.c, got.c))
		}
	case kSym:
		// slip symbols are case-insensitive (Symbol.Equal uses EqualFold, the
		// reader keeps the case as typed, lookups fold to lower case).
		if !strings.EqualFold(want.s, got.s) {
			return "wrong-value", at(fmt.Sprintf("expected symbol named %q, got %q", want.s, got.s))
		}
	case kList, kVec:
		if len(want.e) != len(got.e) {
			return "wrong-length", at(fmt.Sprintf("expected %d elements, got %d: %s", len(want.e), len(got.e), got.show()))
		}
		for i := range want.e {
			if k, d := diffAt(want.e[i], got.e[i], fmt.Sprintf("%s[%d]", path, i)); k != "" {
				return k, d
			}
		}
		if (want.tail == nil) != (got.tail == nil) {
			return "wrong-tail", at(fmt.Sprintf("expected dotted=%v, got %s", want.tail != nil, got.show()))
		}
		if want.tail != nil {
			return diffAt(want.tail, got.tail, path+".tail")
		}
	case kArr:
		if fmt.Sprint(want.dims) != fmt.Sprint(got.dims) {
			return "wrong-dimensions", at(fmt.Sprintf("expected dimensions %v, got %v", want.dims, got.dims))
		}
		if len(want.e) != len(got.e) || (got.e2 != nil && len(got.e2) != len(want.e)) {
			return "wrong-length", at(fmt.Sprintf("expected %d array elements, got %d", len(want.e), len(got.e)))
		}
		// first the stored contents (storage order), then what the public
		// accessor Get(i, j, ...) - i.e. aref - returns for every index tuple
		if got.e2 != nil {
			for i := range want.e {
				if k, d := diffAt(want.e[i], got.e2[i], fmt.Sprintf("%s[storage %d]", path, i)); k != "" {
					return k, d
				}
			}
		}
		for i := range want.e {
			if k, d := diffAt(want.e[i], got.e[i], fmt.Sprintf("%s[row-major %d]", path, i)); k != "" {
				if got.e2 != nil {
					return "array-indexing", fmt.Sprintf("stored elements are right but Get(indexes)/aref returns another element: %s (dims %v)", d, want.dims)
				}
				return k, d
			}
		}
	}
	return "", ""
}

// longClose: long-floats have no fixed format in slip (a big.Float whose
// precision the reader derives from the number of digits), so the statement's
// "equal" is taken as: numerically equal, or within 2 units in the last place
// of the ORIGINAL's precision (a shortest-digits rendering re-read at another
// precision cannot do better than that).
func longClose(want, got *big.Float) bool {
	if want.Cmp(got) == 0 {
		return true
	}
	if want.Sign() == 0 || got.Sign() == 0 || want.IsInf() || got.IsInf() {
		return false
	}
	d := new(big.Float).SetPrec(want.Prec()+got.Prec()+64).Sub(want, got)
	d.Abs(d)
	// ulp of want = 2^(exp - prec) where want = mant * 2^exp, 0.5 <= mant < 1
	exp := want.MantExp(nil)
	tol := new(big.Float).SetMantExp(big.NewFloat(1), exp-int(want.Prec())+1) // 2 ulp
	return d.Cmp(tol) <= 0
}

// show renders a val for details (harness' own rendering).
func (v *val) show() string {
	switch v.k {
	case kNil:
		return "nil"
	case kT:
		return "t"
	case kInt:
		return v.n.String()
	case kRatio:
		return v.r.String()
	case kSingle:
		return strconv.FormatFloat(v.f, 'g', -1, 32) + "(single)"
	case kDouble:
		return strconv.FormatFloat(v.f, 'g', -1, 64) + "(double)"
	case kLong:
		return v.lf.Text('g', 30) + "(long)"
	case kStr:
		return strconv.Quote(v.s)
	case kSym:
		return "sym:" + strconv.Quote(v.s)
	case kChar:
		return fmt.Sprintf("#\\U+%04X", v.c)
	case kList, kVec, kArr:
		var b strings.Builder
		switch v.k {
		case kVec:
			b.WriteString("#")
		case kArr:
			fmt.Fprintf(&b, "#%v", v.dims)
		}
		b.WriteString("(")
		for i, e := range v.e {
			if 0 < i {
				b.WriteString(" ")
			}
			b.WriteString(e.show())
		}
		if v.tail != nil {
			b.WriteString(" . ")
			b.WriteString(v.tail.show())
		}
		b.WriteString(")")
		return b.String()
	}
	return "?"
}

// walk calls f on every node.
func (v *val) walk(f func(*val)) {
	f(v)
	for _, e := range v.e {
		e.walk(f)
	}
	if v.tail != nil {
		v.tail.walk(f)
	}
}
