//go:build verif

package c19

import "verif/engine"

var menu []string

func snapMaxSize(tier string) int { return 2 }
func enumerateSnap(tier string, emit func(string)) {}
func execSnap(spec string, res *engine.Result)  {}
func execStage(spec string, res *engine.Result) {}
func selftest(tier string) (int, int, []string) { return 0, 0, nil }
