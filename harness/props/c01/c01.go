// Package c01: core evaluation order, binding and control (skeleton).
package c01

import (
	"strings"

	"verif/engine"
	"verif/lisp"
)

func init() {
	engine.Register(&engine.Prop{
		ID:        "C01",
		Level:     "exploration",
		Enumerate: func(tier string, emit func(string)) {},
		Exec:      exec,
	})
}

func exec(spec string) (res engine.Result) {
	if strings.HasPrefix(spec, "raw:") {
		val, tr, err := lisp.Run(spec[4:])
		res.Outcome = "val=" + val + " trace=" + strings.Join(tr, ",") + " err=" + err.String()
		return
	}
	return
}
