//go:build verif

package c19

// A2: snapshot sessions. Every session is run in its own fresh processes:
//   stage1: evaluate the session's forms, (snapshot file) S1, probes
//   stage2: fresh process, (load S1) as a user would, (snapshot file) S2, probes
//   stage3: only when stage2's load aborted (S9, degraded mode): fresh process,
//           S1 evaluated top level form by top level form, failures recorded
//           and skipped, then S2 and the probes.

import (
	"encoding/json"
	"fmt"
	"os"
	"os/exec"
	"path/filepath"
	"regexp"
	"sort"
	"strings"

	"github.com/ohler55/slip"

	"verif/engine"
	"verif/lisp"
)

type item struct {
	id     string
	src    []string // top level forms
	probes []string
}

// itemMeta (optional, generated items): sig = the name of the item in signatures (what the item is about, not which
// one it is); pnames (parallel to probes) = what a probe observes, used in signatures instead of the probe's number.
type itemMeta struct {
	sig    string
	pnames []string
	inh    *inhWorld
	// ov: the option-value world the item was generated from (optval.go)
	ov *ovSpec
	// optional: slip may reject the session's forms (an option value it does not take): an outcome, not a failure
	optional bool
	// accept (by probe index): what the reloaded process may answer besides the session's own answer (S2)
	accept map[int]*regexp.Regexp
	// defines: form keys, e.g. "(defun name)", that must be in the snapshot text although no session form has that head
	defines []string
	// mayOmit: variables (lower case names) whose value has no load form: the snapshot may leave them out
	mayOmit []string
}

var itemMetas = map[string]*itemMeta{}

func (it *item) sigName() string {
	if m := itemMetas[it.id]; m != nil && m.sig != "" {
		return m.sig
	}
	return it.id
}

func (it *item) probeName(pi int) string {
	if m := itemMetas[it.id]; m != nil && pi < len(m.pnames) && m.pnames[pi] != "" {
		return m.pnames[pi]
	}
	return fmt.Sprint(pi + 1)
}

func (it *item) accepts(pi int, reloaded string) bool {
	if m := itemMetas[it.id]; m != nil && m.accept != nil {
		if re := m.accept[pi]; re != nil {
			return re.MatchString(reloaded)
		}
	}
	return false
}

func (it *item) ovWorld() *ovSpec {
	if m := itemMetas[it.id]; m != nil {
		return m.ov
	}
	return nil
}

func (it *item) inhWorld() *inhWorld {
	if m := itemMetas[it.id]; m != nil {
		return m.inh
	}
	return nil
}

var items = []*item{
	{"defvar", []string{`(defvar *va* 42 "Doc of va.")`},
		[]string{`*va*`, `(documentation '*va* 'variable)`}},
	{"defparameter", []string{`(defparameter *pb* '(1 "two" (3 . 4) 2.5 (nested (list "x"))))`},
		[]string{`*pb*`}},
	{"defconstant", []string{`(defconstant +kc+ 7 "Doc of kc.")`},
		[]string{`+kc+`, `(setq +kc+ 8)`, `(documentation '+kc+ 'variable)`}},
	{"symbol-vars", []string{`(defvar *vs* 'sym)`, `(defvar *vk* :key)`},
		[]string{`*vs*`, `*vk*`}},
	{"defun", []string{`(defun f1 (x) "Doc of f1." (* x 2))`},
		[]string{`(f1 3)`, `(documentation 'f1 'function)`}},
	// f2 calls f9: defined before f2 in the session, sorted after it in the snapshot
	{"defun-calls", []string{`(defun f9 (x) (* x 2))`, `(defun f2 (x &optional (y 3)) (+ (f9 x) y))`},
		[]string{`(f2 1)`, `(f2 1 2)`, `(f9 4)`}},
	{"defmacro", []string{`(defmacro m1 (a b) (list '+ a (list '* 2 b)))`},
		[]string{`(m1 1 2)`, `(m1 (no-such-function-zz) 2)`, `(let ((q 4)) (m1 q q))`, `(documentation 'm1 'function)`}},
	{"defflavor", []string{
		`(defflavor fl1 ((a 1) (b "x")) () :gettable-instance-variables :settable-instance-variables :inittable-instance-variables (:documentation "Doc of fl1."))`,
		`(defmethod (fl1 :sum) (n) (+ a n))`,
		`(defmethod (fl1 :before :sum) (n) (setq b (list 'before n)))`},
		[]string{`(send (make-instance 'fl1) :a)`, `(send (make-instance 'fl1 :a 10) :a)`,
			`(let ((i (make-instance 'fl1))) (send i :set-b "q") (send i :b))`,
			`(send (make-instance 'fl1) :sum 4)`, `(let ((i (make-instance 'fl1))) (send i :sum 4) (send i :b))`,
			`(documentation 'fl1 'type)`, `(slot-value (make-instance 'fl1 :b "init") 'b)`}},
	{"defclass", []string{`(defclass cl1 () ((s1 :initarg :s1 :initform 5) (s2 :initform "z")))`},
		[]string{`(slot-value (make-instance 'cl1) 's1)`, `(slot-value (make-instance 'cl1 :s1 9) 's1)`, `(slot-value (make-instance 'cl1) 's2)`}},
	{"defgeneric", []string{`(defgeneric g1 (a b))`,
		`(defmethod g1 ((a fixnum) (b string)) (list 'fixnum-string a b))`,
		`(defmethod g1 ((a string) (b t)) (list 'string-any a b))`},
		[]string{`(g1 1 "a")`, `(g1 "s" 2)`, `(g1 1 2)`, `(documentation 'g1 'function)`}},
	{"defpackage", []string{`(defpackage :pk1 (:use :cl) (:export :pv))`, `(defvar pk1::pv 11)`, `(defun pk1::pf (x) (1+ x))`},
		[]string{`pk1::pv`, `(pk1::pf 1)`, `(package-name (find-package 'pk1))`}},
	{"flavor-tree", []string{
		`(defflavor flz ((p 0)) () :gettable-instance-variables :inittable-instance-variables)`,
		`(defflavor fla ((q "q")) (flz) :gettable-instance-variables :inittable-instance-variables)`,
		`(defvar *vi* (make-instance 'fla :p 5))`},
		[]string{`(send *vi* :p)`, `(send *vi* :q)`, `(send (make-instance 'fla) :p)`}},
	{"data-vars", []string{
		`(defvar *vh* (let ((h (make-hash-table))) (setf (gethash :k h) 1) (setf (gethash "s" h) "v") h))`,
		`(defvar *vv* (vector 1 "a" 2.5))`, `(defvar *vstr* "a \"quoted\" string")`},
		[]string{`*vh*`, `*vv*`, `*vstr*`}},
	// instances held by variables whose state differs from what make-instance alone would give: a variable with a
	// non-nil default set to nil, one changed to another value, one left at its default
	{"instance-state", []string{
		`(defflavor fln ((bal 100) (owner "nobody") note) () :gettable-instance-variables :settable-instance-variables :inittable-instance-variables)`,
		`(defvar *acct* (make-instance 'fln :owner "ann"))`, `(send *acct* :set-bal nil)`,
		`(defvar *acct2* (make-instance 'fln))`, `(send *acct2* :set-note '(1 "two"))`},
		[]string{`(send *acct* :bal)`, `(send *acct* :owner)`, `(send *acct* :note)`, `(send *acct2* :bal)`, `(send *acct2* :note)`}},
	{"clos-instance-state", []string{
		`(defclass cln () ((s :initform 5 :initarg :s) (u :initform "u") (w :initarg :w)))`,
		`(defvar *ci* (make-instance 'cln))`, `(setf (slot-value *ci* 's) nil)`,
		`(defvar *ci2* (make-instance 'cln :w 3))`, `(setf (slot-value *ci2* 'u) nil)`},
		[]string{`(slot-value *ci* 's)`, `(slot-value *ci* 'u)`, `(slot-boundp *ci* 'w)`, `(slot-value *ci2* 'u)`, `(slot-value *ci2* 'w)`, `(slot-value *ci2* 's)`}},
	{"defun-layouts", []string{`(defun f3 (a &key (k 2)) (let ((z (cond ((< a 0) "neg") (t "pos")))) (dotimes (i 2) (setq k (+ k i))) (list z k)))`},
		[]string{`(f3 1)`, `(f3 -1 :k 5)`}},
}

// optionItems: sessions of their own (and one session with all of them).
var optionItems = []*item{
	// items whose saved form carries things the other items' probes do not look at (the text fixed point alone is
	// blind to something the writer leaves out both times): accessor subsets, init keywords, documentation, abstract
	// flavors, default initargs, class allocated slots, method qualifiers and documentation, package options
	{"defflavor-options", []string{
		`(defflavor fo1 ((a 1) (b 2) c) () (:gettable-instance-variables a) (:settable-instance-variables b) (:inittable-instance-variables c) (:init-keywords :extra) (:documentation "Doc of fo1."))`,
		`(defflavor fo2 ((d 4)) (fo1) (:default-init-plist (:allow-other-keys t)))`,
		`(defflavor fo3 (e) () :abstract-flavor)`,
		`(defflavor fo4 ((b 2)) (fo1) (:gettable-instance-variables b))`},
		[]string{`(send (make-instance 'fo1) :a)`, `(send (make-instance 'fo1) :b)`,
			`(let ((i (make-instance 'fo1))) (send i :set-b 5) (slot-value i 'b))`, `(send (make-instance 'fo1) :set-a 1)`,
			`(slot-value (make-instance 'fo1 :c 9) 'c)`, `(make-instance 'fo1 :a 9)`, `(progn (make-instance 'fo1 :extra 1) 'accepted)`,
			`(documentation 'fo1 'type)`, `(progn (make-instance 'fo2 :whatever 1) 'accepted)`, `(slot-value (make-instance 'fo2 :c 7) 'c)`,
			`(make-instance 'fo3)`, `(send (make-instance 'fo4) :b)`, `(send (make-instance 'fo4) :a)`, `(documentation 'fo4 'type)`}},
	{"defclass-options", []string{
		`(defclass co1 () ((s1 :initarg :s1 :initform 1 :documentation "Doc of s1.") (s2 :allocation :class :initform 2) (s3 :type fixnum :initarg :s3)) (:documentation "Doc of co1.") (:default-initargs :s3 33))`,
		`(defclass co2 (co1) ((s1 :initform 10) (s4 :initform 4)) (:default-initargs :s3 44))`,
		`(defclass co3 (co2) ((s1 :initform 1)) (:default-initargs :s3 33))`},
		[]string{`(slot-value (make-instance 'co1) 's1)`, `(slot-value (make-instance 'co2) 's1)`, `(slot-value (make-instance 'co3) 's1)`,
			`(slot-value (make-instance 'co3 :s1 5) 's1)`, `(slot-value (make-instance 'co1) 's3)`, `(slot-value (make-instance 'co2) 's3)`,
			`(slot-value (make-instance 'co3) 's3)`, `(slot-value (make-instance 'co1 :s3 3) 's3)`,
			`(let ((i (make-instance 'co1)) (j (make-instance 'co1))) (setf (slot-value i 's2) 9) (slot-value j 's2))`,
			`(documentation 'co1 'type)`, `(documentation 'co2 'type)`, `(slot-value (make-instance 'co3) 's4)`}},
	{"defgeneric-qualifiers", []string{`(defvar *gq* nil)`,
		`(defgeneric gq1 (a) (:documentation "Doc of gq1."))`,
		`(defmethod gq1 ((a fixnum)) "Doc of the fixnum method." (setq *gq* (cons 'primary *gq*)) (* a 2))`,
		`(defmethod gq1 :before ((a fixnum)) (setq *gq* (cons 'before *gq*)))`,
		`(defmethod gq1 :after ((a fixnum)) (setq *gq* (cons 'after *gq*)))`,
		`(defmethod gq1 :around ((a integer)) (setq *gq* (cons 'around *gq*)) (list 'wrapped (call-next-method)))`,
		`(defmethod gq1 ((a string)) (list 'string a))`},
		[]string{`(progn (setq *gq* nil) (list (gq1 4) *gq*))`, `(gq1 "s")`, `(gq1 1.5)`, `(documentation 'gq1 'function)`,
			effectiveMethodDoc("gq1", "fixnum"), effectiveMethodDoc("gq1", "string")}},
	{"define-condition", []string{
		`(define-condition cnd1 (error) ((x :initarg :x :initform 0)) (:documentation "Doc of cnd1."))`,
		`(define-condition cnd2 (cnd1) ((y :initarg :y :initform 0)))`},
		[]string{`(slot-value (make-condition 'cnd2 :x 3) 'x)`, `(slot-value (make-condition 'cnd2) 'y)`, `(typep (make-condition 'cnd2) 'cnd1)`,
			`(typep (make-condition 'cnd1) 'error)`, `(documentation 'cnd1 'type)`}},
	{"defpackage-options", []string{`(defpackage :pk2 (:use :cl) (:nicknames :pk2n) (:export :x1) (:documentation "Doc of pk2."))`},
		[]string{`(package-name (find-package 'pk2n))`, `(mapcar 'package-name (package-use-list (find-package 'pk2)))`,
			`(package-nicknames (find-package 'pk2))`, `(documentation (find-package 'pk2) t)`, `(multiple-value-list (find-symbol "x1" (find-package 'pk2)))`}},
}

// redefItems: every item defines something and then defines it AGAIN in
// another way before the snapshot is taken; the snapshot must save, and the
// reloaded process must show, the LATEST definition (arity, body, value,
// documentation, method set, slot set).
var redefItems = []*item{
	{"redef-defun", []string{
		`(defun rf1 (w) "Doc of rf1 one." (* w w))`,
		`(defun rf1 (w h &optional (d 1)) "Doc of rf1 two." (list (* w h) d))`},
		[]string{`(rf1 2 3)`, `(rf1 2 3 4)`, `(rf1 2)`, `(documentation 'rf1 'function)`}},
	{"redef-defmacro", []string{
		`(defmacro rm1 (a) (list 'list a 1))`,
		`(defmacro rm1 (a b) "Doc of rm1 two." (list 'list b a 2))`},
		[]string{`(rm1 1 2)`, `(rm1 (no-such-function-zz) 2)`, `(rm1 1)`, `(let ((q 4)) (rm1 q (+ q 1)))`}},
	{"redef-defvar-setq", []string{
		`(defvar *rv* 1 "Doc of rv.")`,
		`(setq *rv* "now a string")`,
		`(defvar *rv* 99)`},
		[]string{`*rv*`, `(documentation '*rv* 'variable)`}},
	{"redef-defparameter", []string{
		`(defparameter *rp* '(1 2) "Doc of rp one.")`,
		`(defparameter *rp* 2.5 "Doc of rp two.")`},
		[]string{`*rp*`, `(documentation '*rp* 'variable)`}},
	{"redef-generic", []string{
		`(defgeneric rg1 (a))`,
		`(defmethod rg1 ((a fixnum)) (list 'fixnum-one a))`,
		`(defmethod rg1 ((a string)) (list 'string a))`,
		`(defmethod rg1 ((a double-float)) (list 'double a))`,
		`(defmethod rg1 ((a fixnum)) (list 'fixnum-two a a))`,
		`(remove-method (function rg1) (find-method (function rg1) nil '(string)))`},
		[]string{`(rg1 1)`, `(rg1 "s")`, `(rg1 1.5)`}},
	{"redef-defclass", []string{
		`(defclass rc1 () ((a :initform 1 :initarg :a)))`,
		`(defclass rc1 () ((a :initform 10 :initarg :a) (b :initform "bee" :initarg :b)))`},
		[]string{`(slot-value (make-instance 'rc1) 'a)`, `(slot-value (make-instance 'rc1) 'b)`, `(slot-value (make-instance 'rc1 :b 5) 'b)`}},
	{"redef-flavor-method", []string{
		`(defflavor rfl ((a 3)) () :gettable-instance-variables)`,
		`(defmethod (rfl :val) () (+ a 1))`,
		`(defmethod (rfl :val) (n) (* a n))`},
		[]string{`(send (make-instance 'rfl) :val 5)`, `(send (make-instance 'rfl) :val)`, `(send (make-instance 'rfl) :a)`}},
}

var redefMenu []string

func init() {
	for _, it := range redefItems {
		redefMenu = append(redefMenu, it.id)
	}
}

// forwardRef is a session of its own (not part of the subsets: the snapshot
// of a session holding it faults, which would mask everything else).
var forwardRef = &item{"forward-ref", []string{`(defun fw (x) (+ (fz x) 1))`}, []string{`(fw 1)`}}

// flavorForest is a session of its own: a chain of three flavors among three
// unrelated ones (the snapshot writer orders flavors by a partial order).
var flavorForest = &item{"flavor-forest", []string{
	`(defflavor fm1 ((a 1)) () :gettable-instance-variables)`,
	`(defflavor fu1 ((u 1)) () :gettable-instance-variables)`,
	`(defflavor fm2 ((b 2)) (fm1) :gettable-instance-variables)`,
	`(defflavor fu2 ((u 2)) () :gettable-instance-variables)`,
	`(defflavor fm3 ((c 3)) (fm2) :gettable-instance-variables)`,
	`(defflavor fu3 ((u 3)) () :gettable-instance-variables)`},
	[]string{`(send (make-instance 'fm3) :a)`, `(send (make-instance 'fm3) :c)`, `(send (make-instance 'fu2) :u)`}}

// chainItems: a chain of three flavors and a chain of three classes whose names take every order relative to the
// inheritance order (the snapshot writer sorts by name and must still write every ancestor before its descendants;
// with base < middle < leaf names a name sort happens to be an inheritance order). Sessions of their own.
var chainItems = func() (out []*item) {
	names := []string{"alpha", "mu", "zeta"}
	perms := [][3]int{{0, 1, 2}, {0, 2, 1}, {1, 0, 2}, {1, 2, 0}, {2, 0, 1}, {2, 1, 0}}
	for _, pm := range perms {
		base, mid, leaf := names[pm[0]], names[pm[1]], names[pm[2]]
		tag := base + "-" + mid + "-" + leaf
		fb, fm, fl := "chf-"+base, "chf-"+mid, "chf-"+leaf
		out = append(out, &item{"chain-flavors:" + tag, []string{
			"(defflavor " + fb + " ((a 1)) () :gettable-instance-variables)",
			"(defflavor " + fm + " ((b 2)) (" + fb + ") :gettable-instance-variables)",
			"(defflavor " + fl + " ((c 3)) (" + fm + ") :gettable-instance-variables)",
			"(defmethod (" + fb + " :sum) (n) (+ a n))"},
			[]string{"(send (make-instance '" + fl + ") :a)", "(send (make-instance '" + fl + ") :b)", "(send (make-instance '" + fl + ") :sum 4)",
				"(send (make-instance '" + fm + ") :a)"}})
		cb, cm, cl := "chc-"+base, "chc-"+mid, "chc-"+leaf
		out = append(out, &item{"chain-classes:" + tag, []string{
			"(defclass " + cb + " () ((s1 :initarg :s1 :initform 1)))",
			"(defclass " + cm + " (" + cb + ") ((s2 :initform 2)))",
			"(defclass " + cl + " (" + cm + ") ((s3 :initform 3)))"},
			[]string{"(slot-value (make-instance '" + cl + ") 's1)", "(slot-value (make-instance '" + cl + " :s1 9) 's1)",
				"(slot-value (make-instance '" + cl + ") 's3)", "(slot-value (make-instance '" + cm + ") 's2)"}})
	}
	return
}()

func init() {
	for _, it := range items {
		menu = append(menu, it.id)
	}
}

var menu []string

func itemByID(id string) *item {
	if strings.HasPrefix(id, "inh:") {
		return inhItem(id)
	}
	if strings.HasPrefix(id, "ov:") {
		return ovItem(id)
	}
	for _, it := range extItems {
		if it.id == id {
			return it
		}
	}
	for _, it := range items {
		if it.id == id {
			return it
		}
	}
	for _, it := range redefItems {
		if it.id == id {
			return it
		}
	}
	for _, it := range optionItems {
		if it.id == id {
			return it
		}
	}
	if id == forwardRef.id {
		return forwardRef
	}
	if id == flavorForest.id {
		return flavorForest
	}
	for _, it := range chainItems {
		if it.id == id {
			return it
		}
	}
	return nil
}

func snapMaxSize(tier string) int {
	if tier == engine.Thorough {
		return 4
	}
	return 2
}

func subsets(pool []*item, max int, emit func(ids []string)) {
	n := len(pool)
	for size := 0; size <= max; size++ {
		idx := make([]int, size)
		var rec func(pos, start int)
		rec = func(pos, start int) {
			if pos == size {
				ids := make([]string, size)
				for i, k := range idx {
					ids[i] = pool[k].id
				}
				emit(ids)
				return
			}
			for k := start; k < n; k++ {
				idx[pos] = k
				rec(pos+1, k+1)
			}
		}
		rec(0, 0)
	}
}

// redefMaxSize: the largest subset of the combined menu (basic + redefinition
// items) enumerated; quick has the redefinition items alone only.
func redefMaxSize(tier string) int {
	if tier == engine.Thorough {
		return 3
	}
	return 1
}

func enumerateSnap(tier string, emit func(string)) {
	seen := map[string]bool{}
	out := func(ids []string) {
		spec := "snap|" + strings.Join(ids, ",")
		if !seen[spec] {
			seen[spec] = true
			emit(spec)
		}
	}
	// the basic menu
	subsets(items, snapMaxSize(tier), out)
	// the combined menu: redefinition items alone (quick) / in every subset of size <= 3 (thorough)
	all := append(append([]*item(nil), items...), redefItems...)
	if tier == engine.Thorough {
		subsets(all, redefMaxSize(tier), out)
	} else {
		subsets(redefItems, redefMaxSize(tier), out)
	}
	out(menu)
	out(redefMenu)
	out(append(append([]string(nil), menu...), redefMenu...))
	out([]string{forwardRef.id})
	out([]string{flavorForest.id})
	for _, it := range chainItems {
		out([]string{it.id})
	}
	var optAll []string
	for _, it := range optionItems {
		out([]string{it.id})
		optAll = append(optAll, it.id)
	}
	out(optAll)
	// the extended menu (menu2.go): every item alone, all of them together (with and without the values that have no
	// load form); thorough: every pair of extended items and every extended item with every basic item
	for _, it := range extItems {
		if thoroughOnly[it.id] && tier != engine.Thorough {
			continue
		}
		out([]string{it.id})
	}
	out(idsOf(extPlain()))
	out(idsOf(extAll()))
	if tier == engine.Thorough {
		for i, a := range extItems {
			if solo[a.id] {
				continue
			}
			for _, b := range extItems[i+1:] {
				if solo[b.id] {
					continue
				}
				out([]string{a.id, b.id})
			}
			for _, b := range items {
				out([]string{b.id, a.id})
			}
		}
	}
	// the inheritance worlds (inherit.go), each a session of its own
	enumerateInhSnap(tier, out)
	// the option-value worlds (optval.go), each a session of its own
	enumerateOvSnap(tier, out)
}

// ------------------------------------------------------------------ stages

type formOut struct {
	Key      string `json:"key"`
	Err      string `json:"err,omitempty"`
	ErrClass string `json:"class,omitempty"`
}

type stageOut struct {
	Probes      []string  `json:"probes"`
	Setup       []string  `json:"setup,omitempty"`
	LoadErr     string    `json:"load_err,omitempty"`
	LoadCls     string    `json:"load_cls,omitempty"`
	Forms       []formOut `json:"forms,omitempty"`
	SnapErr     string    `json:"snap_err,omitempty"`
	SnapCls     string    `json:"snap_cls,omitempty"`
	FlavorOrder string    `json:"flavor_order,omitempty"`
	Variants    int       `json:"variants,omitempty"`
	VarKinds    []string  `json:"var_kinds,omitempty"`
}

func sessionItems(s string) (its []*item, ok bool) {
	if s == "" {
		return nil, true
	}
	for _, id := range strings.Split(s, ",") {
		it := itemByID(id)
		if it == nil {
			return nil, false
		}
		its = append(its, it)
	}
	return its, true
}

func errClass(err *lisp.Err) string {
	if err.GoFault {
		return "go-fault"
	}
	return err.Class
}

// execStage runs in a child process of its own.
func execStage(spec string, res *engine.Result) {
	parts := strings.SplitN(spec, "|", 3)
	if len(parts) != 3 {
		res.Fail("harness:bad-spec", spec)
		return
	}
	its, ok := sessionItems(parts[1])
	if !ok {
		res.Fail("harness:bad-spec", spec)
		return
	}
	dir := parts[2]
	// the harness' own Go-defined functions must not be part of the world
	slip.UserPkg.Undefine("tr")
	for _, h := range helperNames {
		slip.UserPkg.Undefine(h)
	}
	var out stageOut
	scope := slip.NewScope()
	s1 := filepath.Join(dir, "s1.lisp")
	s2 := filepath.Join(dir, "s2.lisp")
	snapshot := func(path string) {
		if _, err := lisp.EvalIn(scope, fmt.Sprintf("(snapshot %q)", path)); err != nil {
			out.SnapErr = err.String()
			out.SnapCls = errClass(err)
		}
	}
	switch parts[0] {
	case "stage1":
		for _, it := range its {
			for _, src := range it.src {
				if _, err := lisp.EvalIn(scope, src); err != nil {
					out.Setup = append(out.Setup, src+" => "+err.String())
				}
			}
		}
		snapshot(s1)
		// S4: is the text a function of the session, or of Go map order?
		first, _ := os.ReadFile(s1)
		base := stripHeader(string(first))
		seen := map[string]bool{base: true}
		// the generated inheritance worlds are asked 4 times, the menu sessions 24 times
		repeats := 23
		for _, it := range its {
			if it.inhWorld() != nil || it.ovWorld() != nil {
				repeats = 3
			}
		}
		for i := 0; i < repeats; i++ {
			v, err := lisp.EvalIn(scope, "(snapshot nil)")
			if err != nil {
				break
			}
			if str, ok := v.(slip.String); ok {
				t := stripHeader(string(str))
				if !seen[t] {
					seen[t] = true
					for _, d := range variantKinds(splitForms(base), splitForms(t)) {
						dup := false
						for _, x := range out.VarKinds {
							dup = dup || x == d
						}
						if !dup {
							out.VarKinds = append(out.VarKinds, d)
						}
					}
				}
			}
		}
		out.Variants = len(seen)
		for t := range seen {
			if d := flavorOrderProblem(t); d != "" {
				out.FlavorOrder = d
				break
			}
		}
	case "stage2", "stage2f":
		file := s1
		if parts[0] == "stage2f" {
			file = filepath.Join(dir, "s1f.lisp")
		}
		if _, err := lisp.EvalIn(scope, fmt.Sprintf("(load %q)", file)); err != nil {
			out.LoadErr = err.String()
			out.LoadCls = errClass(err)
			b, _ := json.Marshal(&out)
			res.Outcome = string(b)
			return
		}
		snapshot(s2)
	case "stage3":
		// the text the filtered load was given (without slip's own swank forms, listed slot option names as their
		// repair would write them) when there is one: what is stepped around once stays stepped around
		text, err := os.ReadFile(filepath.Join(dir, "s1f.lisp"))
		if err != nil {
			text, err = os.ReadFile(s1)
		}
		if err != nil {
			res.Fail("harness:snap-file", err.Error())
			return
		}
		// (load) evaluates the defun / defmacro / defvar / defparameter / defconstant forms of a file before its other forms;
		// evaluating in text order instead, a form may only fail because a definition further down is not there yet: a
		// failing form gets a second chance after all the others
		var again []int
		forms := splitForms(stripHeader(string(text)))
		for i, f := range forms {
			fo := formOut{Key: formKey(f)}
			if _, e := lisp.EvalIn(scope, f); e != nil {
				fo.Err = e.String()
				fo.ErrClass = errClass(e)
				again = append(again, i)
			}
			out.Forms = append(out.Forms, fo)
		}
		for _, i := range again {
			if _, e := lisp.EvalIn(scope, forms[i]); e == nil {
				out.Forms[i].Err = ""
				out.Forms[i].ErrClass = ""
			}
		}
		snapshot(s2)
	}
	for _, it := range its {
		for _, p := range it.probes {
			out.Probes = append(out.Probes, evalObserve(slip.NewScope(), p))
		}
	}
	b, _ := json.Marshal(&out)
	res.Outcome = string(b)
}

func stripHeader(s string) string {
	if strings.HasPrefix(s, ";;;; Snapshot taken at") {
		if i := strings.IndexByte(s, '\n'); 0 <= i {
			return s[i+1:]
		}
		return ""
	}
	return s
}

// splitForms cuts Lisp text into its top level forms (strings, comments,
// character literals and |..| respected).
func splitForms(s string) (forms []string) {
	for _, sp := range formSpans(s) {
		forms = append(forms, s[sp[0]:sp[1]])
	}
	return
}

func formSpans(s string) (spans [][2]int) {
	var forms []string
	defer func() {
		// positions: forms are found in order, each is a substring
		from := 0
		for _, f := range forms {
			i := strings.Index(s[from:], f)
			if i < 0 {
				continue
			}
			spans = append(spans, [2]int{from + i, from + i + len(f)})
			from += i + len(f)
		}
	}()
	depth := 0
	start := -1
	i := 0
	for i < len(s) {
		c := s[i]
		switch {
		case c == ';':
			for i < len(s) && s[i] != '\n' {
				i++
			}
			continue
		case c == '"':
			if depth == 0 && start < 0 {
				start = i
			}
			i++
			for i < len(s) && s[i] != '"' {
				if s[i] == '\\' {
					i++
				}
				i++
			}
			if depth == 0 && 0 <= start {
				forms = append(forms, s[start:min(i+1, len(s))])
				start = -1
			}
		case c == '|':
			if depth == 0 && start < 0 {
				start = i
			}
			i++
			for i < len(s) && s[i] != '|' {
				i++
			}
		case c == '#' && i+1 < len(s) && s[i+1] == '\\':
			if depth == 0 && start < 0 {
				start = i
			}
			i += 2 // the character after #\ is literal
		case c == '(':
			if depth == 0 && start < 0 {
				start = i
			}
			depth++
		case c == ')':
			depth--
			if depth <= 0 {
				depth = 0
				if 0 <= start {
					forms = append(forms, s[start:i+1])
					start = -1
				}
			}
		case c == ' ' || c == '\n' || c == '\t' || c == '\r':
			if depth == 0 && 0 <= start {
				forms = append(forms, s[start:i])
				start = -1
			}
		default:
			if depth == 0 && start < 0 {
				start = i
			}
		}
		i++
	}
	if 0 <= start && start < len(s) {
		if f := strings.TrimSpace(s[start:]); f != "" {
			forms = append(forms, f)
		}
	}
	return
}

// repairFlavorOrder rewrites the defflavor forms of a snapshot into their
// slots so that every component flavor precedes its users (S9: stepping
// around the flavor-order finding so that the rest of the session is compared).
func repairFlavorOrder(text string) string {
	spans := formSpans(text)
	var slots [][2]int
	var fl []string
	for _, sp := range spans {
		if strings.HasPrefix(text[sp[0]:sp[1]], "(defflavor ") {
			slots = append(slots, sp)
			fl = append(fl, text[sp[0]:sp[1]])
		}
	}
	// repeatedly move a form behind the last of its bases
	for guard := 0; guard < 100; guard++ {
		moved := false
		joined := strings.Join(fl, "\n")
		if flavorOrderProblem(joined) == "" {
			break
		}
		for i := 0; i < len(fl) && !moved; i++ {
			for j := i + 1; j < len(fl); j++ {
				pair := fl[i] + "\n" + fl[j]
				if flavorOrderProblem(pair) != "" {
					f := fl[i]
					copy(fl[i:j], fl[i+1:j+1])
					fl[j] = f
					moved = true
					break
				}
			}
		}
		if !moved {
			break
		}
	}
	var b strings.Builder
	at := 0
	for i, sp := range slots {
		b.WriteString(text[at:sp[0]])
		b.WriteString(fl[i])
		at = sp[1]
	}
	b.WriteString(text[at:])
	return b.String()
}

var userNames = map[string]bool{}

func init() {
	for _, n := range []string{"*va*", "*pb*", "+kc+", "*vs*", "*vk*", "f1", "f2", "f9", "fw", "m1", "fl1", "cl1", "g1", "pk1", "pv", "pf",
		"flz", "fla", "fm1", "fm2", "fm3", "fu1", "fu2", "fu3", "*vi*", "*vh*", "*vv*", "*vstr*", "f3",
		"rf1", "rm1", "*rv*", "*rp*", "rg1", "rc1", "rfl", "*gq*", "gq1", "ih-g", "ih-ra", "ih-rb", "ih-t",
		"ov-c", "ov-f", "*ov-v*", "+ov-k+", "ov-p", "ov-c-s"} {
		userNames[n] = true
	}
}

// formKey names a top level form of a snapshot for signatures: head and what
// it defines. Names come from the fixed menu or from slip itself, never from
// a counter.
func formKey(f string) string {
	f = strings.TrimSpace(f)
	if !strings.HasPrefix(f, "(") {
		return "atom"
	}
	fields := strings.Fields(strings.NewReplacer("(", " ( ", ")", " ) ", "\n", " ").Replace(f))
	if len(fields) < 2 {
		return "()"
	}
	head := strings.ToLower(fields[1])
	target := ""
	if 2 < len(fields) {
		target = strings.TrimPrefix(strings.ToLower(strings.Trim(fields[2], `"`)), ":")
	}
	if target == "(" && 3 < len(fields) { // (defmethod (flavor :name) ...
		var tt []string
		for _, x := range fields[3:] {
			if x == ")" {
				break
			}
			tt = append(tt, strings.ToLower(x))
		}
		target = "(" + strings.Join(tt, " ") + ")"
	}
	switch head {
	case "defun", "defmacro":
		if strings.HasSuffix(strings.TrimSpace(strings.TrimSuffix(f, ")")), "...") {
			return "(" + head + " <built-in> ...)"
		}
		name := target
		if i := strings.LastIndex(name, "::"); 0 <= i {
			name = name[i+2:]
		}
		if !userNames[name] {
			target = "<other>"
		}
	case "setq", "defvar", "defconstant", "defparameter":
		name := target
		if i := strings.LastIndex(name, "::"); 0 <= i {
			name = name[i+2:]
		}
		if strings.HasPrefix(name, "*nf-") {
			// the variables of the sessions holding a value without a load form: the kind of value is not part of a signature
			for _, mid := range []string{"before", "list", "zz-after"} {
				if strings.HasPrefix(name, "*nf-"+mid+"-") {
					return "(" + head + " common-lisp-user::*nf-" + mid + "*)"
				}
			}
			return "(" + head + " common-lisp-user::*nf-value*)"
		}
		if !userNames[name] && !strings.HasPrefix(target, "common-lisp::") && !strings.HasPrefix(target, "bag::") &&
			!strings.HasPrefix(target, "net::") && !strings.HasPrefix(target, "swank::") && !strings.HasPrefix(target, "gi::") {
			target = "<other>"
		}
	}
	return "(" + head + " " + target + ")"
}

func firstDiff(a, b []string) string {
	for i := 0; i < len(a) && i < len(b); i++ {
		if a[i] != b[i] {
			return formKey(a[i]) + " vs " + formKey(b[i])
		}
	}
	return fmt.Sprintf("%d vs %d forms", len(a), len(b))
}

// ------------------------------------------------------------------ parent

var childSeq int

// builtinJunk: snapshot forms of slip's own (unlocked) swank package that can
// not be loaded; they are the listed finding the degraded modes step around.
var builtinJunk = map[string]bool{
	"(defpackage swank)":           true,
	"(defconstant swank::*swank*)": true,
}

// snapMutator (self-test only) rewrites the first snapshot before it is loaded.
var snapMutator func(text string) string

func runChild(spec string) (out stageOut, fail string) {
	self, err := os.Executable()
	if err != nil {
		return out, "os.Executable: " + err.Error()
	}
	cmd := exec.Command(self, "exec", "C19", "--spec", spec)
	cmd.Dir = "/verif"
	stdout, err := cmd.Output()
	if err != nil {
		msg := err.Error()
		if ee, ok := err.(*exec.ExitError); ok {
			st := string(ee.Stderr)
			if 600 < len(st) {
				st = st[:600]
			}
			msg += ": " + st
		}
		return out, msg
	}
	var r engine.Result
	if err = json.Unmarshal(stdout, &r); err != nil {
		return out, "child output: " + err.Error()
	}
	if 0 < len(r.Failures) {
		return out, r.Failures[0].Sig + ": " + r.Failures[0].Detail
	}
	if err = json.Unmarshal([]byte(r.Outcome), &out); err != nil {
		return out, "child outcome: " + err.Error()
	}
	return out, ""
}

func probeKind(v string) string {
	switch {
	case strings.HasPrefix(v, "ERR "):
		return "error:" + v[4:]
	case strings.HasPrefix(v, "GOFAULT"):
		return "go-fault"
	}
	return "value"
}

func execSnap(spec string, res *engine.Result) {
	session := spec[5:]
	its, ok := sessionItems(session)
	if !ok {
		res.Fail("harness:bad-spec", spec)
		return
	}
	res.Hit("snap-session")
	res.Nontrivial = 0 < len(its)
	for _, it := range its {
		if w := it.inhWorld(); w != nil {
			res.Hit("snap-inherit-session")
			res.Hit("snap-inherit-session:" + w.fam.lang)
			if w.repeats {
				res.Hit("snap-inherit-leaf-repeats-distant")
			}
			if w.restates {
				res.Hit("snap-inherit-leaf-restates-nearer")
			}
		}
	}
	optional := false
	for _, it := range its {
		if sp := it.ovWorld(); sp != nil {
			res.Hit("snap-optval-session")
			res.Hit("snap-optval-session:" + sp.tmpl.kind)
			if sp.critical() {
				res.Hit("snap-optval-critical-value")
			}
			if sp.val == nil {
				res.Hit("snap-optval-absent-twin")
			}
		}
		if m := itemMetas[it.id]; m != nil && m.optional {
			optional = true
		}
		if unencodable[it.id] {
			res.Hit("snap-ext-value-without-load-form")
		}
	}
	if 0 < len(its) && itemIsExt(its[0]) {
		res.Hit("snap-ext-session")
	}
	childSeq++
	dir := filepath.Join("/verif/.build/scratch/C19", fmt.Sprintf("s%d-%d-%x", os.Getpid(), childSeq, engine.Hash64(spec)))
	if err := os.MkdirAll(dir, 0o755); err != nil {
		res.Fail("harness:scratch", err.Error())
		return
	}
	defer os.RemoveAll(dir)

	o1, fail := runChild("stage1|" + session + "|" + dir)
	if fail != "" {
		if strings.Contains(fail, "stack overflow") || strings.Contains(fail, "goroutine stack exceeds") {
			// not a condition: the Go runtime ends the process
			res.Fail("snap stage=first-process snapshot-fatal err=stack-overflow", fmt.Sprintf("session [%s]: the process that evaluates the session and calls (snapshot file) dies: %s", session, clip(fail, 300)))
			return
		}
		res.Fail("snap stage=first-process child-failed", fail)
		return
	}
	if 0 < len(o1.Setup) {
		if optional {
			res.Hit("snap-optval-rejected-by-slip")
			res.Outcome = "rejected-by-slip " + strings.Join(o1.Setup, "; ")
			return
		}
		res.Fail("harness:snap-setup-failed", strings.Join(o1.Setup, "; "))
		return
	}
	if o1.SnapErr != "" {
		res.Fail("snap stage=first-process snapshot-fails err="+o1.SnapCls, fmt.Sprintf("session [%s]: (snapshot file) => %s", session, o1.SnapErr))
		return
	}
	res.Hit("snap-stage1-ok")
	t1b, err := os.ReadFile(filepath.Join(dir, "s1.lisp"))
	if err != nil {
		res.Fail("snap stage=first-process no-snapshot-file", err.Error())
		return
	}
	if snapMutator != nil {
		t1b = []byte(snapMutator(string(t1b)))
		_ = os.WriteFile(filepath.Join(dir, "s1.lisp"), t1b, 0o644)
	}
	if d := flavorOrderProblem(string(t1b)); d != "" {
		// the finding is reported below (from stage 1); repair the text so that
		// its consequences do not hide or blur everything else
		if o1.FlavorOrder == "" {
			o1.FlavorOrder = d
		}
		t1b = []byte(repairFlavorOrder(string(t1b)))
		_ = os.WriteFile(filepath.Join(dir, "s1.lisp"), t1b, 0o644)
		res.Hit("snap-degraded-flavor-order-repaired")
	}
	t1 := stripHeader(string(t1b))
	forms1 := splitForms(t1)
	for _, k := range o1.VarKinds {
		res.Fail("snap nondeterministic-text "+k,
			fmt.Sprintf("session [%s]: %d different texts from repeated snapshots (24 for a menu session, 4 for an inheritance world) of the same unchanged session (apart from the header line): %s", session, o1.Variants, k))
	}
	if o1.FlavorOrder != "" {
		res.Fail("snap flavor-order derived-before-base", fmt.Sprintf("session [%s]: in one of the repeated snapshots of the unchanged session %s", session, o1.FlavorOrder))
	}
	mode := "load"
	o2, fail := runChild("stage2|" + session + "|" + dir)
	if fail != "" {
		res.Fail("snap stage=load child-failed", fail)
		return
	}
	if o2.LoadErr != "" {
		res.Fail(fmt.Sprintf("snap load-aborts err=%s msg=%s", o2.LoadCls, sigMsg(o2.LoadErr)),
			fmt.Sprintf("session [%s]: (load snapshot) in a fresh process => %s; the session is compared after stepping around that (see mode)", session, o2.LoadErr))
		// S9, first step around: the forms slip writes for its own unlocked
		// built-in package (the listed finding) are left out and the real
		// (load file) is tried again
		var kept []string
		for _, f := range forms1 {
			if !builtinJunk[formKey(f)] {
				if strings.HasPrefix(f, "(defclass ") && o2.LoadCls == "type-error" && strings.Contains(o2.LoadErr, "slot-option") {
					// the listed finding of SlotDef.LoadForm (:readers / :writers / :accessors are written, defclass takes
					// the singular): written the way its repair would
					f = slotOptionsSingular(f)
					res.Hit("snap-degraded-slot-options-singular")
				}
				kept = append(kept, f)
			}
		}
		_ = os.WriteFile(filepath.Join(dir, "s1f.lisp"), []byte(strings.Join(kept, "\n")+"\n"), 0o644)
		o2f, failf := runChild("stage2f|" + session + "|" + dir)
		if failf != "" {
			res.Fail("snap stage=filtered-load child-failed", failf)
			return
		}
		if o2f.LoadErr == "" {
			mode = "filtered-load"
			res.Hit("snap-loaded-filtered")
			res.Hit("snap-forms-loaded")
			o2 = o2f
		} else {
			res.Fail(fmt.Sprintf("snap filtered-load-aborts err=%s msg=%s", o2f.LoadCls, sigMsg(o2f.LoadErr)),
				fmt.Sprintf("session [%s]: (load snapshot) without the forms of slip's own swank package => %s", session, o2f.LoadErr))
		}
	}
	if o2.LoadErr != "" {
		// second step around: form by form in text order, failing forms skipped
		mode = "degraded"
		o3, fail3 := runChild("stage3|" + session + "|" + dir)
		if fail3 != "" {
			res.Fail("snap stage=degraded-load child-failed", fail3)
			return
		}

		seen := map[string]bool{}
		for _, f := range o3.Forms {
			res.Hit("snap-forms-loaded")
			if f.Err == "" {
				continue
			}
			sig := fmt.Sprintf("snap form-fails form=%s err=%s", f.Key, f.ErrClass)
			if !seen[sig] {
				seen[sig] = true
				res.Fail(sig, fmt.Sprintf("session [%s] (degraded mode): evaluating the snapshot form %s in a fresh process => %s", session, f.Key, f.Err))
			}
		}
		o2 = o3
	} else {
		res.Hit("snap-loaded-whole")
		res.Hit("snap-forms-loaded")
	}
	if o2.SnapErr != "" {
		res.Fail("snap stage=second-process snapshot-fails err="+o2.SnapCls, fmt.Sprintf("session [%s] (%s mode): (snapshot file) after the load => %s", session, mode, o2.SnapErr))
	}
	// probes
	k := 0
	probeSeen := map[string]bool{}
	for _, it := range its {
		for pi, p := range it.probes {
			if len(o1.Probes) <= k || len(o2.Probes) <= k {
				res.Fail("harness:snap-probe-count", fmt.Sprintf("%d %d", len(o1.Probes), len(o2.Probes)))
				return
			}
			a, b := o1.Probes[k], o2.Probes[k]
			k++
			res.Hit("snap-probes-compared")
			if it.inhWorld() != nil {
				res.Hit("snap-inherit-probes-compared")
			}
			if it.ovWorld() != nil {
				res.Hit("snap-optval-probes-compared")
			}
			if itemIsExt(it) {
				res.Hit("snap-ext-probes-compared")
			}
			if normDocs(a) != normDocs(b) && it.accepts(pi, b) {
				res.Hit("snap-accepted-alternative")
				continue
			}
			if normDocs(a) != normDocs(b) {
				sig := fmt.Sprintf("snap probe-differs item=%s probe=%s original=%s reloaded=%s", it.sigName(), it.probeName(pi), probeKind(a), probeKind(b))
				if probeSeen[sig] {
					continue
				}
				probeSeen[sig] = true
				res.Fail(fmt.Sprintf("snap probe-differs item=%s probe=%s original=%s reloaded=%s", it.sigName(), it.probeName(pi), probeKind(a), probeKind(b)),
					fmt.Sprintf("session [%s] (%s mode): %s => %s in the session, %s after loading its snapshot into a fresh process", session, mode, p, a, b))
			}
		}
	}
	// fixed point
	t2b, err := os.ReadFile(filepath.Join(dir, "s2.lisp"))
	if err != nil {
		res.Fail("snap stage=second-process no-snapshot-file", err.Error())
		return
	}
	res.Hit("snap-second-snapshot")
	t2 := stripHeader(string(t2b))
	forms2 := splitForms(t2)
	fixed := t1 == t2
	if !fixed {
		count := func(fs []string) map[string]int {
			m := map[string]int{}
			for _, f := range fs {
				m[f]++
			}
			return m
		}
		// Go map order inside a form (reported as nondeterministic-text when it
		// shows) is canonicalised away before the two texts are compared
		for i := range forms1 {
			forms1[i] = canonForm(forms1[i])
		}
		for i := range forms2 {
			forms2[i] = canonForm(forms2[i])
		}
		m1, m2 := count(forms1), count(forms2)
		reported := map[string]bool{}
		diff := false
		report := func(kind, f string) {
			diff = true
			sig := fmt.Sprintf("snap fixed-point %s form=%s", kind, formKey(f))
			if !reported[sig] {
				reported[sig] = true
				other := ""
				if kind == "text-lost" {
					// show the form with the same key in the other snapshot, if any
					for _, g := range forms2 {
						if formKey(g) == formKey(f) && m1[g] == 0 {
							other = "; second snapshot has " + clip(g, 300)
							break
						}
					}
				}
				if other != "" && strings.Join(strings.Fields(f), " ") == strings.Join(strings.Fields(strings.TrimPrefix(other, "; second snapshot has ")), " ") {
					other += " (the two differ in white space only: " + whiteSpaceDiff(f, forms2) + ")"
				}
				res.Fail(sig, fmt.Sprintf("session [%s] (%s mode): first snapshot form %s%s", session, mode, clip(f, 300), other))
			}
		}
		for _, f := range forms1 {
			if m2[f] < m1[f] {
				report("text-lost", f)
			}
		}
		for _, f := range forms2 {
			if m1[f] < m2[f] {
				// a changed form is reported once, as lost
				changed := false
				for _, g := range forms1 {
					if formKey(g) == formKey(f) && m2[g] < m1[g] {
						changed = true
						break
					}
				}
				if !changed {
					report("text-gained", f)
				} else {
					diff = true
				}
			}
		}
		if !diff {
			at := ""
			for i := 0; i < len(forms1) && i < len(forms2); i++ {
				if forms1[i] != forms2[i] {
					at = formKey(forms1[i])
					if k := strings.IndexByte(at, ' '); 0 < k {
						at = at[1:k]
					}
					break
				}
			}
			switch {
			case at == "":
				// equal apart from Go map order inside forms
				res.Hit("snap-fixed-point-holds")
				fixed = true
			default:
				// the same finding as a text that changes from one snapshot to the
				// next inside one process: the order is not a function of the session
				sig := "snap nondeterministic-text kind=order-of-forms head=" + at
				dup := false
				for _, f := range res.Failures {
					dup = dup || f.Sig == sig
				}
				if !dup {
					res.Fail(sig, fmt.Sprintf("session [%s] (%s mode): the second snapshot has the same forms as the first in another order; first difference %s", session, mode, firstDiff(forms1, forms2)))
				}
			}
		}
	} else {
		res.Hit("snap-fixed-point-holds")
	}
	// the session's definitions must be present in the first snapshot
	absentSeen := map[string]bool{}
	for _, it := range its {
		srcs := it.src
		var omit []string
		if m := itemMetas[it.id]; m != nil {
			for _, k := range m.defines {
				srcs = append(append([]string(nil), srcs...), k)
			}
			omit = m.mayOmit
		}
		for _, src := range srcs {
			key := formKey(src)
			want := definedName(src)
			if want == "" {
				continue
			}
			skip := false
			for _, o := range omit {
				// compared the way signatures name a variable (formKey folds the names of the values without a load form)
				ok := formKey("(defvar "+o+")")
				skip = skip || o == want || strings.TrimSuffix(strings.TrimPrefix(ok, "(defvar "), ")") == want
			}
			if skip {
				continue
			}
			found := false
			for _, f := range forms1 {
				if mentionsDefinition(f, key, want) {
					found = true
					break
				}
			}
			res.Hit("snap-definitions-looked-for")
			if !found && !absentSeen[it.id+key] {
				absentSeen[it.id+key] = true
				res.Fail(fmt.Sprintf("snap definition-absent item=%s form=%s", it.sigName(), key),
					fmt.Sprintf("session [%s]: the snapshot text has no form that defines %s (session form %s)", session, want, src))
			}
		}
	}
	outc := []string{fmt.Sprintf("forms=%d fixed=%v mode=%s variants=%d", len(forms1), fixed, mode, o1.Variants)}
	outc = append(outc, o2.Probes...)
	sort.Strings(outc[1:])
	res.Outcome = strings.Join(outc, " | ")
}

// whiteSpaceDiff shows the first line of f that the form with the same words in forms2 has differently.
func whiteSpaceDiff(f string, forms2 []string) string {
	words := strings.Join(strings.Fields(f), " ")
	for _, g := range forms2 {
		if strings.Join(strings.Fields(g), " ") != words {
			continue
		}
		a, b := strings.Split(f, "\n"), strings.Split(g, "\n")
		for i := 0; i < len(a) && i < len(b); i++ {
			if a[i] != b[i] {
				return fmt.Sprintf("line %d %q vs %q", i+1, a[i], b[i])
			}
		}
		return fmt.Sprintf("%d vs %d lines", len(a), len(b))
	}
	return ""
}

func itemIsExt(it *item) bool {
	for _, e := range extItems {
		if e == it {
			return true
		}
	}
	return false
}

func clip(s string, n int) string {
	s = strings.Join(strings.Fields(s), " ")
	if n < len(s) {
		return s[:n] + "…"
	}
	return s
}

// definedName returns the name a session form defines ("" for none).
func definedName(src string) string {
	key := formKey(src)
	key = strings.TrimSuffix(strings.TrimPrefix(key, "("), ")")
	parts := strings.SplitN(key, " ", 2)
	if len(parts) != 2 {
		return ""
	}
	switch parts[0] {
	case "defvar", "defparameter", "defconstant", "setq", "defun", "defmacro", "defflavor", "defclass", "defgeneric", "defpackage", "defmethod", "define-condition":
		return parts[1]
	}
	return "" // not a defining form (remove-method ...)
}

// mentionsDefinition: does snapshot form f define the thing the session form
// (key, name) defined? Defining heads may differ (defparameter is saved as
// defvar+setq, methods inside a defgeneric): any defining form that names it.
func mentionsDefinition(f, key, name string) bool {
	fk := formKey(f)
	lf := strings.ToLower(f)
	n := name
	if i := strings.LastIndex(n, "::"); 0 <= i {
		n = n[i+2:]
	}
	switch {
	case strings.HasPrefix(key, "(defmethod ("):
		// flavor method: (defmethod (fl1 :sum) ...) or (defmethod (fl1 :before :sum)
		return strings.HasPrefix(fk, "(defmethod (") && fk == key
	case strings.HasPrefix(key, "(defmethod "):
		// generic method: inside the defgeneric or as defmethod
		return (strings.HasPrefix(fk, "(defgeneric "+n) || strings.HasPrefix(fk, "(defmethod "+n)) && strings.Contains(lf, ":method") ||
			strings.HasPrefix(fk, "(defmethod "+n)
	}
	for _, h := range []string{"defvar", "defparameter", "defconstant", "setq", "defun", "defmacro", "defflavor", "defclass", "defgeneric", "defpackage", "define-condition"} {
		for _, q := range []string{n, "common-lisp-user::" + n, "pk1::" + n, "upa::" + n, "upb::" + n, "upc::" + n, "upd::" + n, "upe::" + n, "zzlib::" + n, "aaapp::" + n} {
			if fk == "("+h+" "+q+")" {
				return true
			}
		}
	}
	return false
}

// sigMsg turns an error message into a signature token: the class prefix is
// dropped, white space collapsed, digits folded, clipped. The names in it
// come from the fixed session menu or from slip.
func sigMsg(msg string) string {
	if i := strings.Index(msg, ": "); 0 <= i {
		msg = msg[i+2:]
	}
	var b strings.Builder
	digits := false
	for _, r := range strings.Join(strings.Fields(msg), "_") {
		if '0' <= r && r <= '9' {
			// a run of digits (a position in the file, part of a name) is one N
			if !digits {
				b.WriteRune('N')
			}
			digits = true
			continue
		}
		digits = false
		b.WriteRune(r)
	}
	out := b.String()
	if 70 < len(out) {
		out = out[:70]
	}
	return out
}

// flavorOrderProblem: a defflavor form that names a component flavor defined
// only later in the same text (the text is loaded top to bottom).
func flavorOrderProblem(text string) string {
	forms := splitForms(text)
	pos := map[string]int{}
	type fl struct {
		name  string
		bases []string
		at    int
	}
	var fls []fl
	for i, f := range forms {
		if !strings.HasPrefix(f, "(defflavor ") {
			continue
		}
		var code slip.Code
		func() {
			defer func() { _ = recover() }()
			code = slip.ReadString(f, slip.NewScope())
		}()
		if len(code) != 1 {
			continue
		}
		list, _ := code[0].(slip.List)
		if len(list) < 4 {
			continue
		}
		name, _ := list[1].(slip.Symbol)
		x := fl{name: strings.ToLower(string(name)), at: i}
		if bases, ok := list[3].(slip.List); ok {
			for _, b := range bases {
				if bs, ok := b.(slip.Symbol); ok {
					x.bases = append(x.bases, strings.ToLower(string(bs)))
				}
			}
		}
		pos[x.name] = i
		fls = append(fls, x)
	}
	for _, x := range fls {
		for _, b := range x.bases {
			if p, has := pos[b]; has && x.at < p {
				return fmt.Sprintf("(defflavor %s ... (%s)) is written before (defflavor %s ...)", x.name, b, b)
			}
		}
	}
	return ""
}

// canonForm removes Go map order from a snapshot form: the variables of an
// (:inittable-instance-variables ...) option and the (setf (gethash ...))
// entries of a hash table constructor are sorted.
func canonForm(f string) string {
	f = sortOption(f, "(:inittable-instance-variables")
	if i := strings.Index(f, "(make-hash-table)"); 0 <= i {
		// collect the (setf ...) forms that follow
		var entries []string
		rest := f
		var b strings.Builder
		for {
			j := strings.Index(rest, "(setf")
			if j < 0 {
				break
			}
			end := matching(rest, j)
			b.WriteString(rest[:j])
			b.WriteString("\x00")
			entries = append(entries, strings.Join(strings.Fields(rest[j:end]), " "))
			rest = rest[end:]
		}
		b.WriteString(rest)
		sort.Strings(entries)
		out := b.String()
		for _, e := range entries {
			out = strings.Replace(out, "\x00", e, 1)
		}
		return out
	}
	return f
}

// variantKinds classifies how two snapshots of the same unchanged session differ.
func variantKinds(a, b []string) (kinds []string) {
	ca := make([]string, len(a))
	cb := make([]string, len(b))
	for i := range a {
		ca[i] = canonForm(a[i])
	}
	for i := range b {
		cb[i] = canonForm(b[i])
	}
	ma := map[string]string{}
	for i := range a {
		ma[ca[i]] = a[i]
	}
	within := false
	for i := range b {
		if raw, has := ma[cb[i]]; has && raw != b[i] {
			kinds = append(kinds, "kind=within-form form="+formKey(b[i]))
			within = true
		}
	}
	sa := append([]string(nil), ca...)
	sb := append([]string(nil), cb...)
	sort.Strings(sa)
	sort.Strings(sb)
	same := len(sa) == len(sb)
	for i := 0; same && i < len(sa); i++ {
		same = sa[i] == sb[i]
	}
	switch {
	case !same:
		kinds = append(kinds, "kind=other first-difference="+firstDiff(ca, cb))
	default:
		for i := range ca {
			if ca[i] != cb[i] {
				head := formKey(ca[i])
				if k := strings.IndexByte(head, ' '); 0 < k {
					head = head[1:k]
				}
				kinds = append(kinds, "kind=order-of-forms head="+head)
				break
			}
		}
	}
	_ = within
	return
}
