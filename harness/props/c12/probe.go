package c12

import (
	"fmt"
	"os"
	"strings"

	"github.com/ohler55/slip"

	"verif/lisp"
)

// probeFile is a development aid (spec "lispf:<path>", never enumerated): it
// evaluates every top-level form of the file in one scope and prints value,
// trace and condition of each to standard error.
func probeFile(path string) string {
	src, err := os.ReadFile(path)
	if err != nil {
		return "cannot read " + path
	}
	scope := slip.NewScope()
	var code slip.Code
	func() {
		defer func() {
			if rec := recover(); rec != nil {
				fmt.Fprintf(os.Stderr, "read error: %v\n", rec)
			}
		}()
		code = slip.ReadString(string(src), scope)
	}()
	for _, form := range code {
		func() {
			lisp.ResetTrace()
			defer func() {
				if rec := recover(); rec != nil {
					e := lisp.ErrFromRecovered(rec)
					fmt.Fprintf(os.Stderr, "%s\n   !! %s trace=%s\n", slip.ObjectString(form), e.String(), strings.Join(lisp.Trace(), ","))
				}
			}()
			v := scope.Eval(form, 0)
			fmt.Fprintf(os.Stderr, "%s\n   => %s trace=%s\n", slip.ObjectString(form), lisp.Show(v), strings.Join(lisp.Trace(), ","))
		}()
	}
	return fmt.Sprintf("%d forms", len(code))
}
