package c13

import (
	"fmt"
	"sort"
	"strings"

	"github.com/ohler55/slip"

	"verif/engine"
	"verif/lisp"
)

// ---------------------------------------------------------------------------
// State invariants on hidden state introduced with the further families
// ---------------------------------------------------------------------------

// noDeletedRefs (state invariant R): after delete-package no table of a
// living package lists the deleted package object as used or as a user: the
// edges of the use graph go with the package.
// (Such a reference is invisible to name lookup until the next operation walks
// the list.) Judged when the pre-state had none (S3).
func noDeletedRefs(cfg *config, res *engine.Result, last *op, pre, post *dump) {
	refs := func(d *dump) (out []string) {
		for x, p := range d.p {
			if p.deleted {
				continue
			}
			for _, u := range p.uses {
				if ghostRef <= u {
					out = append(out, fmt.Sprintf("use-list of %s names deleted %s", cfg.pk[x], cfg.pk[u-ghostRef]))
				}
			}
			for _, u := range p.users {
				if ghostRef <= u {
					out = append(out, fmt.Sprintf("used-by-list of %s names deleted %s", cfg.pk[x], cfg.pk[u-ghostRef]))
				}
			}
			// an import record or a cell that names the deleted package as where it came from is not judged: what
			// was imported stays with the importer (Common Lisp: the symbol is left without a home package)
			for _, q := range p.imports {
				if ghostRef <= q {
					res.Hit("import-from-a-deleted-package-kept")
				}
			}
		}
		sort.Strings(out)
		return
	}
	now := refs(post)
	if len(now) == 0 || 0 < len(refs(pre)) {
		return
	}
	where := "use-list"
	if strings.Contains(now[0], "used-by") {
		where = "used-by-list"
	}
	res.Fail(fmt.Sprintf("op=%s check=R kind=deleted-package-still-referenced where=%s", last.kind, where),
		fmt.Sprintf("after %s: %s\npre:  %s\npost: %s", histOp(last), strings.Join(now, "; "), pre.key(), post.key()))
}

// importRecords (state invariant M): an import record of a package (Package.Imports, consulted by unuse-package to
// decide what stays) stands for an entry of its tables: a record for a name under which the package holds nothing that
// at all protects whatever is put there next (an entry inherited through a later use-package survives the unuse-package). Judged when the pre-state satisfied it (S3).
func importRecords(cfg *config, res *engine.Result, last *op, pre, post *dump) {
	dangling := func(d *dump, x int, n string) bool {
		if _, rec := d.p[x].imports[n]; !rec {
			return false
		}
		_, hasV := d.p[x].vars[n]
		_, hasF := d.p[x].funcs[n]
		return !hasV && !hasF
	}
	for x := range post.p {
		if post.p[x].deleted {
			continue
		}
		for _, n := range cfg.names() {
			if !dangling(post, x, n) {
				continue
			}
			res.Hit("import-record-without-entry")
			if x < len(pre.p) && !pre.p[x].deleted && dangling(pre, x, n) {
				continue
			}
			relp := "other"
			if last.actor == x {
				relp = "actor"
			}
			same := "other-name"
			if last.name == n {
				same = "same-name"
			}
			res.Fail(fmt.Sprintf("op=%s check=M kind=import-record-without-imported-entry in=%s name=%s", last.kind, relp, same),
				fmt.Sprintf("after %s: package %s records %s as imported but holds no entry at all under that name\npre:  %s\npost: %s",
					histOp(last), cfg.pk[x], n, pre.key(), post.key()))
		}
	}
}

// ---------------------------------------------------------------------------
// Differential oracle: the reached state against a FRESH world in which the
// same graph is built by a canonical history
// ---------------------------------------------------------------------------

// diffDone: states already compared by this process (key + what was exempt).
var diffDone = map[string]bool{}

// canonicalOps returns the canonical history that builds graph g in a fresh
// world - define everything, then import, then use, then export, then lock /
// rename / delete - as Lisp forms per package (package index -1: evaluated in
// the home package; form "" with a func: a Go call). ok is false when the graph
// cannot be built that way (the state is then not compared).
type canonStep struct {
	pkg  int
	src  string
	goFn func(in *instance)
}

func canonicalSteps(g *graph, d *dump) (steps []canonStep, ok bool) {
	cfg := g.cfg
	names := func(t map[string]*def) (out []string) {
		for n := range t {
			out = append(out, n)
		}
		sort.Strings(out)
		return
	}
	// 1: definitions
	for p := range g.p {
		if g.p[p].deleted {
			continue
		}
		for _, n := range names(g.p[p].vars) {
			df := g.p[p].vars[n]
			switch {
			case df.hidden || df.stale:
				return nil, false
			case df.val != unboundVal:
				steps = append(steps, canonStep{pkg: p, src: fmt.Sprintf("(defvar %s %d)", n, df.val)})
			case !df.exp:
				steps = append(steps, canonStep{pkg: p, src: fmt.Sprintf("(intern \"%s\")", n)})
			}
		}
		for _, n := range names(g.p[p].funcs) {
			df := g.p[p].funcs[n]
			if df.hidden || df.stale || df.val == unboundVal {
				return nil, false
			}
			steps = append(steps, canonStep{pkg: p, src: fmt.Sprintf("(defun %s (x) %d)", n, df.val)})
		}
	}
	// 2: imports (Package.Import takes the variable if the source has one,
	// else the function; the source must have the entry by now)
	for p := range g.p {
		var ins []string
		for n := range g.p[p].imports {
			ins = append(ins, n)
		}
		sort.Strings(ins)
		for _, n := range ins {
			m := g.p[p].imports[n]
			if m.kind == 0 || g.p[m.from].deleted || g.tab(p, m.kind)[n] != nil {
				return nil, false
			}
			src := g.tab(m.from, m.kind)[n]
			if src == nil || src.val == unboundVal {
				return nil, false // the source holds the name by inheritance only, or not any more
			}
			if m.kind == 'f' && g.p[m.from].vars[n] != nil {
				return nil, false
			}
			p, from, n := p, m.from, n
			steps = append(steps, canonStep{pkg: p, goFn: func(in *instance) { in.pkgs[p].Import(in.pkgs[from], n) }})
		}
	}
	// 3: use edges in the order the package lists them
	for p := range g.p {
		for _, u := range g.p[p].uses {
			steps = append(steps, canonStep{pkg: p, src: "(use-package '@" + cfg.pk[u] + ")"})
		}
	}
	// 4a: names exported without a definition, 4b: exported definitions
	for p := range g.p {
		for _, n := range names(g.p[p].vars) {
			if df := g.p[p].vars[n]; df.val == unboundVal && df.exp {
				if f := g.p[p].funcs[n]; f != nil && !f.exp {
					return nil, false // invariant G's business
				}
				steps = append(steps, canonStep{pkg: p, src: "(export '" + n + ")"})
			}
		}
	}
	for p := range g.p {
		done := map[string]bool{}
		for _, kind := range []byte{'v', 'f'} {
			for _, n := range names(g.tab(p, kind)) {
				df := g.tab(p, kind)[n]
				if !df.exp || df.val == unboundVal || done[n] {
					continue
				}
				other := g.p[p].funcs[n]
				if kind == 'f' {
					other = g.p[p].vars[n]
				}
				if other != nil && !other.exp {
					return nil, false // invariant G's business
				}
				done[n] = true
				steps = append(steps, canonStep{pkg: p, src: "(export '" + n + ")"})
			}
		}
	}
	// 5: lock, rename, delete
	for p := range g.p {
		switch {
		case g.p[p].deleted:
			steps = append(steps, canonStep{pkg: -1, src: "(delete-package '@" + cfg.pk[p] + ")"})
		default:
			if d.p[p].renamed {
				steps = append(steps, canonStep{pkg: -1, src: "(rename-package '@" + cfg.pk[p] + " '@" + cfg.pk[p] + "r '(@" + cfg.pk[p] + "rn))"})
			}
		}
	}
	for p := range g.p {
		if !g.p[p].deleted && g.p[p].locked {
			steps = append(steps, canonStep{pkg: -1, src: "(lock-package '@" + cfg.pk[p] + ")"})
		}
	}
	return steps, true
}

// differential: model-free. The probe table of the reached state must equal
// the probe table of a fresh world in which the graph abstracted from the
// reached tables is built by the canonical history: what a name resolves to is
// a function of the use/export graph, not of the way the graph came about.
//
// Where slip's visibility is deliberately or admittedly a function of more
// than the graph the two worlds may differ (S2, every such slot counted):
//
//	two-exporters  two directly used packages export the name: which one wins depends on the order of the
//	               operations (Use: the later use, Export: the earlier export) - the statement says "an exported
//	               definition of a package it uses"
//	indirect       a package reached through a chain of uses exports the name: slip hands inherited entries on at
//	               use-package time only (that is how cl-user passes cl on), so a chain's visibility depends on the
//	               order in which its links were made; the statement speaks of the packages a package uses
//	hidden         the history contains makunbound / fmakunbound / unintern of a then inherited name in the package
//	               looked into: slip's documented local hiding (TestUninternInherited), exempt in that direction only
func differential(in *instance, res *engine.Result, last *op, post *dump, obs []observation, slots []slot) {
	cfg := in.cfg
	g, aliased, leftover := post.abstract(false)
	var hid []string
	for k := range in.hidden {
		hid = append(hid, k)
	}
	sort.Strings(hid)
	ck := post.key() + "|" + strings.Join(hid, ",")
	if diffDone[ck] {
		return
	}
	if 50000 < len(diffDone) {
		diffDone = map[string]bool{}
	}
	diffDone[ck] = true
	if 0 < len(aliased) || 0 < len(leftover) {
		res.Hit("differential-not-comparable")
		return
	}
	for _, p := range post.p {
		for _, u := range append(append([]int(nil), p.uses...), p.users...) {
			if ghostRef <= u {
				res.Hit("differential-not-comparable")
				return
			}
		}
	}
	steps, ok := canonicalSteps(g, post)
	if !ok {
		res.Hit("differential-not-comparable")
		return
	}
	fresh, err := newInstance(cfg, nil)
	defer fresh.close()
	if err != nil {
		res.Fail("harness:defpackage-failed", err.String())
		return
	}
	for _, st := range steps {
		var e *lisp.Err
		switch {
		case st.goFn != nil:
			func() {
				defer func() {
					if rec := recover(); rec != nil {
						e = lisp.ErrFromRecovered(rec)
					}
				}()
				st.goFn(fresh)
			}()
		case st.pkg < 0:
			fresh.goHome()
			_, e = lisp.EvalIn(fresh.scope, fresh.subst(st.src))
		default:
			if e = fresh.inPackage(st.pkg); e == nil {
				_, e = lisp.EvalIn(fresh.scope, fresh.subst(st.src))
			}
		}
		fresh.goHome()
		fresh.refresh()
		if e != nil {
			// the canonical history is refused (a name conflict slip signals, a
			// locked package): this graph has no canonical world
			res.Hit("differential-not-comparable")
			return
		}
	}
	// the canonical world must have the graph it was built for
	g2, al2, lo2 := fresh.dump().abstract(false)
	if 0 < len(al2) || 0 < len(lo2) || g2.String() != g.String() {
		res.Hit("differential-canonical-world-has-another-graph")
		return
	}
	obs2 := fresh.probeAll(slots)
	res.Hit("differential-states-compared")
	type grp struct {
		sl            slot
		forms, probes map[string]bool
		detail        []string
		got, want     string
	}
	var order []string
	groups := map[string]*grp{}
	for i, sl := range slots {
		a, b := norm(obs[i].val), norm(obs2[i].val)
		if a == b {
			continue
		}
		if why := diffExempt(g, in.hidden, sl, a); why != "" {
			res.Hit("differential-exempt-" + why)
			continue
		}
		k := fmt.Sprintf("%d|%c|%s", sl.q, sl.kind, sl.name)
		if sl.form == "uses" || sl.form == "users" {
			k = fmt.Sprintf("%s|%d", sl.form, sl.c)
		}
		gr := groups[k]
		if gr == nil {
			gr = &grp{sl: sl, forms: map[string]bool{}, probes: map[string]bool{}, got: shape(a), want: shape(b)}
			groups[k] = gr
			order = append(order, k)
		}
		gr.forms[sl.form] = true
		if sl.probe != "" {
			gr.probes[sl.probe] = true
		}
		gr.detail = append(gr.detail, fmt.Sprintf("%s%s => %s, in the fresh world %s", describeSlot(cfg, sl), probeList([]string{sl.probe}), a, b))
	}
	for _, k := range order {
		gr := groups[k]
		sig := sigFor(last, "D", "differs-from-fresh-world", gr.sl, gr.forms, gr.probes) + " reached=" + gr.got + " fresh=" + gr.want
		var hist []string
		for _, st := range steps {
			who := "home"
			if 0 <= st.pkg {
				who = cfg.pk[st.pkg]
			}
			if st.goFn != nil {
				hist = append(hist, who+": <Package.Import>")
			} else {
				hist = append(hist, who+": "+st.src)
			}
		}
		res.Fail(sig, fmt.Sprintf("after %s the tables describe the graph %s; a fresh world in which that graph is built by [%s] answers differently: %s\nreached tables: %s",
			histOp(last), g, strings.Join(hist, " "), strings.Join(gr.detail, "; "), post.key()))
	}
}

// shape classifies an observation for the signature.
func shape(v string) string {
	switch {
	case v == "U" || v == "N":
		return "unbound"
	case v == "D":
		return "deleted"
	case v == "F":
		return "go-fault"
	case strings.HasPrefix(v, "("):
		return "list"
	case strings.HasPrefix(v, "?"):
		return "odd"
	}
	return "value"
}

// diffExempt names the reason a slot may differ between the two worlds ("" = none).
func diffExempt(g *graph, hidden map[string]bool, sl slot, reached string) string {
	if sl.form == "uses" || sl.form == "users" {
		return ""
	}
	q := sl.q
	if g.p[q].deleted || g.p[sl.c].deleted {
		return ""
	}
	direct, indirect := g.closure(q)
	exporters := 0
	for _, u := range direct {
		if d := g.tab(u, sl.kind)[sl.name]; d != nil && d.exp {
			exporters++
		}
		if m := g.p[u].imports[sl.name]; m != nil {
			return "indirect" // what a used package imported may be passed on
		}
	}
	for _, u := range indirect {
		if d := g.tab(u, sl.kind)[sl.name]; d != nil && d.exp {
			return "indirect"
		}
		if m := g.p[u].imports[sl.name]; m != nil {
			return "indirect"
		}
	}
	// an import is resolved through the source package: what the source
	// itself only inherits is a chain as well
	if m := g.p[q].imports[sl.name]; m != nil {
		if d := g.tab(m.from, sl.kind)[sl.name]; d == nil {
			return "indirect"
		}
	}
	if 1 < exporters {
		return "two-exporters"
	}
	if hidden[fmt.Sprintf("%d%c%s", q, sl.kind, sl.name)] && (reached == "U" || reached == "N") {
		return "hidden"
	}
	return ""
}

// ---------------------------------------------------------------------------
// Vacuity counters of the further families
// ---------------------------------------------------------------------------

func countExt(cfg *config, res *engine.Result, last *op, g *graph) {
	p := last.actor
	for x := range g.p {
		for n, m := range g.p[x].imports {
			if m.kind == 0 {
				continue
			}
			if d := g.tab(m.from, m.kind)[n]; d != nil && d.val != unboundVal && g.tab(x, m.kind)[n] == nil {
				res.Hit("imported-visible")
				if !d.exp {
					res.Hit("imported-private-visible")
				}
			}
		}
		if g.p[x].deleted {
			res.Hit("state-with-deleted-package")
		}
		if g.p[x].locked {
			res.Hit("state-with-locked-package")
		}
	}
	if last.fromHome() && !last.creates() && last.base() != last.kind {
		res.Hit("other-route")
	}
	if g.p[p].locked && last.kind != "lock" && last.kind != "unlock" {
		res.Hit("operation-on-locked-package")
	}
	switch last.kind {
	case "delpkg":
		if !g.p[p].deleted && (0 < len(g.p[p].uses) || 0 < len(g.users(p))) {
			res.Hit("delete-package-with-edges")
		}
	case "mkpkg", "makepkg", "mkpkgu", "mkpkgx":
		if g.p[p].deleted {
			res.Hit("recreate-after-delete")
		} else {
			res.Hit("defpackage-of-existing-package")
		}
	case "rename":
		if !g.p[p].deleted {
			res.Hit("rename-package")
		}
	case "intern":
		res.Hit("intern")
	case "unintern":
		res.Hit("unintern")
	case "godef", "godefp":
		if 0 < len(g.users(p)) {
			res.Hit("go-define-while-used")
		}
	case "goset":
		res.Hit("go-set")
	case "goimport":
		if !g.p[p].deleted && 0 <= last.argPk && (g.p[last.argPk].vars[last.name] != nil || g.p[last.argPk].funcs[last.name] != nil) {
			res.Hit("go-import-of-a-definition")
		}
	}
}

var _ = slip.True
