//go:build verif

// Package vsched is a cooperative scheduler for the REAL goroutines of the
// interpreter. It is mounted into the slip module by `go build -overlay`
// (virtual package github.com/ohler55/slip/vsched); tools/instrument rewrites
// `go` statements, channel sends/receives/closes/ranges and the "sync" import
// of the interpreter packages so that every synchronisation operation first
// parks the calling thread at a scheduling point. Exactly one registered
// thread runs at a time; the explorer (harness/engine/sched) decides at every
// point which enabled transition fires next.
//
// The scheduler's own state is touched only by the one goroutine that holds
// the turn (the running thread, or the controller while every thread is
// parked), so it needs no lock; every function is //go:norace and uses no
// maps and no sync primitive, and the hand-off cells (gate) are plain words
// in the race build, so that the race detector sees only the program's own
// synchronisation. Requires GOMAXPROCS(1) in the race build.
//
// Goroutines that are not registered (the explorer itself, background helpers
// started before a run) pass straight through to the real operations.
package vsched

import (
	"fmt"
	"reflect"
	"runtime"
	"sync"
	"time"
)

// Op is the kind of a scheduling point.
type Op int

const (
	OpStart Op = iota // a spawned thread before its first instruction
	OpYield           // always enabled (Lisp call boundary, post-rendezvous)
	OpLock            // enabled iff the mutex is free in the model
	OpSend            // enabled iff buffer space / closed / (unbuffered) a parked receiver
	OpRecv            // enabled iff item buffered / closed / (unbuffered) a parked sender
	OpClose           // always enabled
	OpDone            // thread finished (never enabled)
	OpRLock           // enabled iff the rwmutex has no writer in the model
	OpWLock           // enabled iff the rwmutex has neither writer nor readers in the model
	OpSelect          // a receive-only select: one transition per ready case (item buffered / closed / parked sender)
)

//go:norace
func (o Op) String() string {
	return [...]string{"start", "yield", "lock", "send", "recv", "close", "done", "rlock", "wlock", "select"}[o]
}

// Thread is one goroutine under the scheduler.
type Thread struct {
	ID     int
	goid   int64
	gate   *gate
	op     Op
	obj    any // mutex pointer or channel
	parked bool
	done   bool
	Panic  any // value the thread body panicked with (nil if none)

	sel       []any // OpSelect: the channel of every case in canonical form (nil = never ready)
	selChoice int   // the case the explorer fired
	selRdv    bool  // the fired case is an unbuffered rendezvous (post-operation gate needed)
}

// Transition is one enabled step: a thread, plus its partner for an
// unbuffered rendezvous.
type Transition struct {
	T       *Thread
	Partner *Thread
	Case    int // OpSelect without partner: the ready case that fires
}

//go:norace
func (tr Transition) String() string {
	if tr.Partner != nil {
		return fmt.Sprintf("t%d:%s<->t%d", tr.T.ID, tr.T.op, tr.Partner.ID)
	}
	if tr.T.op == OpSelect {
		return fmt.Sprintf("t%d:select#%d", tr.T.ID, tr.Case)
	}
	return fmt.Sprintf("t%d:%s", tr.T.ID, tr.T.op)
}

// Obj returns the object (mutex / channel) the thread is parked at.
//go:norace
func (tr Transition) Obj() any { return tr.T.obj }

// Op returns the operation the thread is parked at.
//go:norace
func (tr Transition) Op() Op { return tr.T.op }

type chanInfo interface {
	Len() int
	Cap() int
}

type chanRec struct {
	c      any
	info   chanInfo
	closed bool
}

type heldRec struct {
	m       any
	owner   *Thread // mutex owner / rwmutex writer
	readers int     // rwmutex readers
}

// Sched is one controlled execution.
type Sched struct {
	threads []*Thread
	events  *gate
	held    []heldRec
	chans   []chanRec
	aborted bool
	last    *Thread // the thread that ran last (for canonical order)

	// Choose picks the index of the transition to fire. enabled[0] involves the
	// previously running thread if it is still enabled (prevEnabled).
	Choose func(enabled []Transition, prevEnabled bool) int

	Steps     int
	MaxSteps  int
	Deadlock  bool
	Livelock  bool
	Stuck     bool // a released thread neither parked nor finished within the watchdog
	Trace     []string
	KeepTrace bool
}

type abortSentinel struct{}

var active *Sched

//go:norace
func current() (*Sched, *Thread) {
	s := active
	if s == nil {
		return nil, nil
	}
	id := goid()
	for _, t := range s.threads {
		if t.goid == id && !t.done {
			return s, t
		}
	}
	return nil, nil
}

//go:norace
func goid() int64 {
	var buf [64]byte
	n := runtime.Stack(buf[:], false)
	// "goroutine 123 [running]:..."
	var id int64
	for i := len("goroutine "); i < n; i++ {
		c := buf[i]
		if c < '0' || '9' < c {
			break
		}
		id = id*10 + int64(c-'0')
	}
	return id
}

// Active reports whether the calling goroutine runs under a scheduler.
//go:norace
func Active() bool {
	s, _ := current()
	return s != nil
}

// ThreadID returns the scheduler id of the calling goroutine or -1.
//go:norace
func ThreadID() int {
	_, t := current()
	if t == nil {
		return -1
	}
	return t.ID
}

// New creates a scheduler.
//go:norace
func New() *Sched {
	return &Sched{events: newGate(), MaxSteps: 100000}
}

// spawn starts body as a registered thread and returns once it is parked at
// its start point.
//go:norace
func (s *Sched) spawn(body func()) *Thread {
	t := &Thread{ID: len(s.threads), gate: newGate(), op: OpStart, parked: true}
	s.threads = append(s.threads, t)
	ready := newGate()
	go s.threadMain(t, ready, body)
	ready.wait(0)
	return t
}

//go:norace
func (s *Sched) threadMain(t *Thread, ready *gate, body func()) {
	t.goid = goid()
	ready.signal()
	t.gate.wait(0)
	defer s.threadExit(t)
	if s.aborted {
		return
	}
	body()
}

// execFence orders EXECUTIONS, not threads: every thread releases it when it ends and the explorer acquires it
// before it starts the next execution. In the race build this is the only happens-before edge the scheduler itself
// creates (the hand-offs are invisible spins); without it the detector would pair an access made by a finished
// thread of an earlier execution with an access of the next execution - two runs of the scenario that never
// overlap - and report interpreter tables that are written before the routines start (defun in the main thread)
// as racing. Inside one execution it orders nothing that matters: a thread acquires it only when it has ended.
var execFence sync.Mutex

//go:norace
func (s *Sched) threadExit(t *Thread) {
	if rec := recover(); rec != nil {
		if _, ok := rec.(abortSentinel); !ok {
			t.Panic = rec
		}
	}
	execFence.Lock()
	execFence.Unlock() //nolint:staticcheck // release edge only
	// a thread that dies holding a mutex leaves it held (as in real Go)
	t.done = true
	t.parked = false
	t.op = OpDone
	s.events.signal()
}

// point parks the calling thread at (op, obj) until the explorer releases it.
//go:norace
func (s *Sched) point(t *Thread, op Op, obj any) {
	if s.aborted {
		panic(abortSentinel{})
	}
	t.op, t.obj = op, obj
	t.parked = true
	s.events.signal()
	t.gate.wait(0)
	if s.aborted {
		panic(abortSentinel{})
	}
}

//go:norace
func (s *Sched) chanRec(c any) *chanRec {
	for i := range s.chans {
		if s.chans[i].c == c {
			return &s.chans[i]
		}
	}
	return nil
}

//go:norace
func (s *Sched) holder(m any) *Thread {
	for i := range s.held {
		if s.held[i].m == m {
			return s.held[i].owner
		}
	}
	return nil
}

//go:norace
func (s *Sched) setHolder(m any, t *Thread) {
	for i := range s.held {
		if s.held[i].m == m {
			s.held[i].owner = t
			if t == nil && s.held[i].readers == 0 {
				s.held = append(s.held[:i], s.held[i+1:]...)
			}
			return
		}
	}
	if t != nil {
		s.held = append(s.held, heldRec{m: m, owner: t})
	}
}

//go:norace
func (s *Sched) readers(m any) int {
	for i := range s.held {
		if s.held[i].m == m {
			return s.held[i].readers
		}
	}
	return 0
}

//go:norace
func (s *Sched) addReader(m any, d int) {
	for i := range s.held {
		if s.held[i].m == m {
			s.held[i].readers += d
			if s.held[i].readers <= 0 && s.held[i].owner == nil {
				s.held = append(s.held[:i], s.held[i+1:]...)
			}
			return
		}
	}
	if 0 < d {
		s.held = append(s.held, heldRec{m: m, readers: d})
	}
}

//go:norace
func (s *Sched) enabled(t *Thread) (ok bool, partners []*Thread) {
	ok, partners, _ = s.enabledCases(t)
	return
}

// selIndex: the first case of a thread parked at a select that receives from c (-1 = none).
//go:norace
func (t *Thread) selIndex(c any) int {
	if t.op != OpSelect {
		return -1
	}
	for i, sc := range t.sel {
		if sc != nil && sc == c {
			return i
		}
	}
	return -1
}

//go:norace
func (s *Sched) enabledCases(t *Thread) (ok bool, partners []*Thread, cases []int) {
	if !t.parked || t.done {
		return false, nil, nil
	}
	if t.op == OpSelect {
		for i, c := range t.sel {
			if c == nil {
				continue
			}
			if cr := s.chanRec(c); cr != nil && (0 < cr.info.Len() || cr.closed) {
				cases = append(cases, i)
			}
			// an unbuffered case with a parked sender is listed from the sender's side
		}
		return 0 < len(cases), nil, cases
	}
	ok, partners = s.enabledPlain(t)
	return ok, partners, nil
}

//go:norace
func (s *Sched) enabledPlain(t *Thread) (ok bool, partners []*Thread) {
	if !t.parked || t.done {
		return false, nil
	}
	switch t.op {
	case OpStart, OpYield, OpClose:
		return true, nil
	case OpLock:
		return s.holder(t.obj) == nil, nil
	case OpRLock:
		return s.holder(t.obj) == nil, nil
	case OpWLock:
		return s.holder(t.obj) == nil && s.readers(t.obj) == 0, nil
	case OpSend:
		cr := s.chanRec(t.obj)
		if cr.closed {
			return true, nil // will panic: send on closed channel (real behaviour)
		}
		if 0 < cr.info.Cap() {
			return cr.info.Len() < cr.info.Cap(), nil
		}
		for _, o := range s.threads {
			if o != t && o.parked && !o.done && ((o.op == OpRecv && o.obj == t.obj) || 0 <= o.selIndex(t.obj)) {
				partners = append(partners, o)
			}
		}
		return 0 < len(partners), partners
	case OpRecv:
		cr := s.chanRec(t.obj)
		if 0 < cr.info.Len() || cr.closed {
			return true, nil
		}
		// unbuffered with a parked sender: listed from the sender's side only
		return false, nil
	}
	return false, nil
}

// Run executes main under the scheduler until every thread has finished, a
// deadlock is found or the step horizon is hit. Must be called from an
// unregistered goroutine (the explorer).
//go:norace
func (s *Sched) Run(main func()) {
	if active != nil {
		panic("vsched: nested Run")
	}
	active = s
	defer s.deactivate()
	execFence.Lock()
	execFence.Unlock() //nolint:staticcheck // acquire edge: everything earlier executions did happens before this one
	t0 := s.spawn(main)
	s.last = t0
	for {
		var enabled []Transition
		allDone := true
		prevEnabled := false
		// canonical order: previously running thread first, then ascending ids
		for pass := 0; pass < 2; pass++ {
			for _, t := range s.threads {
				if (pass == 0) != (t == s.last) {
					continue
				}
				if !t.done {
					allDone = false
				}
				ok, partners, cases := s.enabledCases(t)
				if !ok {
					continue
				}
				if t == s.last {
					prevEnabled = true
				}
				if 0 < len(partners) {
					for _, p := range partners {
						enabled = append(enabled, Transition{T: t, Partner: p})
					}
				} else if 0 < len(cases) {
					for _, c := range cases {
						enabled = append(enabled, Transition{T: t, Case: c})
					}
				} else {
					enabled = append(enabled, Transition{T: t})
				}
			}
		}
		// a rendezvous whose receiver is the previous runner also continues it
		if !prevEnabled && s.last != nil {
			for i, tr := range enabled {
				if tr.Partner == s.last {
					first := enabled[i]
					copy(enabled[1:i+1], enabled[:i])
					enabled[0] = first
					prevEnabled = true
					break
				}
			}
		}
		if allDone {
			return
		}
		if len(enabled) == 0 {
			s.Deadlock = true
			s.abort()
			return
		}
		if s.MaxSteps <= s.Steps {
			s.Livelock = true
			s.abort()
			return
		}
		choice := s.Choose(enabled, prevEnabled)
		if choice < 0 || len(enabled) <= choice {
			s.abort()
			panic(fmt.Sprintf("vsched: choice %d out of range (%d enabled) at step %d", choice, len(enabled), s.Steps))
		}
		tr := enabled[choice]
		s.Steps++
		if s.KeepTrace {
			s.Trace = append(s.Trace, tr.String())
		}
		switch tr.T.op {
		case OpLock, OpWLock:
			s.setHolder(tr.T.obj, tr.T)
		case OpRLock:
			s.addReader(tr.T.obj, 1)
		}
		if tr.T.op == OpSelect {
			tr.T.selChoice, tr.T.selRdv = tr.Case, false
		}
		tr.T.parked = false
		wait := 1
		if tr.Partner != nil {
			if i := tr.Partner.selIndex(tr.T.obj); 0 <= i {
				tr.Partner.selChoice, tr.Partner.selRdv = i, true
			}
			tr.Partner.parked = false
			wait = 2
		}
		s.last = tr.T
		tr.T.gate.signal()
		if tr.Partner != nil {
			tr.Partner.gate.signal()
		}
		for ; 0 < wait; wait-- {
			if !s.events.wait(20 * time.Second) {
				s.Stuck = true
				s.abort()
				return
			}
		}
	}
}

//go:norace
func (s *Sched) deactivate() { active = nil }

// abort releases every parked thread with the abort flag set and waits for
// them to unwind.
//go:norace
func (s *Sched) abort() {
	s.aborted = true
	deadline := time.Now().Add(5 * time.Second)
	for {
		n := 0
		for _, t := range s.threads {
			if !t.done {
				n++
				if t.parked {
					t.parked = false
					t.gate.signal()
				}
			}
		}
		if n == 0 || deadline.Before(time.Now()) {
			return
		}
		s.events.wait(100 * time.Millisecond)
	}
}

// Threads returns the threads of the execution.
//go:norace
func (s *Sched) Threads() []*Thread { return s.threads }

// HeldMutexes returns how many mutexes the model still considers held.
//go:norace
func (s *Sched) HeldMutexes() int { return len(s.held) }

// ---------------------------------------------------------------- hooks

// Yield is a scheduling point that is always enabled.
//go:norace
func Yield() {
	if s, t := current(); s != nil {
		s.point(t, OpYield, nil)
	}
}

// Go replaces a `go` statement.
//go:norace
func Go(f func()) {
	s, _ := current()
	if s == nil {
		go f()
		return
	}
	s.spawn(f)
}

// BeforeLock is called by vsync.Mutex.Lock before the real Lock.
//go:norace
func BeforeLock(m any) {
	if s, t := current(); s != nil {
		s.point(t, OpLock, m)
	}
}

// AfterTryLock records a successful TryLock.
//go:norace
func AfterTryLock(m any, ok bool) {
	if s, t := current(); s != nil && ok {
		s.setHolder(m, t)
	}
}

// AfterUnlock is called by vsync.Mutex.Unlock after the real Unlock.
//go:norace
func AfterUnlock(m any) {
	if s, _ := current(); s != nil {
		s.setHolder(m, nil)
	}
}

// BeforeWLock / BeforeRLock / After*: the reader-writer mutex hooks of vsync.RWMutex.
//go:norace
func BeforeWLock(m any) {
	if s, t := current(); s != nil {
		s.point(t, OpWLock, m)
	}
}

//go:norace
func BeforeRLock(m any) {
	if s, t := current(); s != nil {
		s.point(t, OpRLock, m)
	}
}

//go:norace
func AfterWUnlock(m any) {
	if s, _ := current(); s != nil {
		s.setHolder(m, nil)
	}
}

//go:norace
func AfterRUnlock(m any) {
	if s, _ := current(); s != nil {
		s.addReader(m, -1)
	}
}

//go:norace
func AfterTryWLock(m any, ok bool) {
	if s, t := current(); s != nil && ok {
		s.setHolder(m, t)
	}
}

//go:norace
func AfterTryRLock(m any, ok bool) {
	if s, _ := current(); s != nil && ok {
		s.addReader(m, 1)
	}
}

type chanView[T any] struct{ c chan T }

func (v chanView[T]) Len() int { return len(v.c) }
func (v chanView[T]) Cap() int { return cap(v.c) }

//go:norace
func regChan(s *Sched, c any, info chanInfo) {
	if s.chanRec(c) == nil {
		s.chans = append(s.chans, chanRec{c: c, info: info})
	}
}

// pre parks the calling thread before a channel operation; it returns the
// scheduler and thread (nil when the goroutine is not under a scheduler).
//go:norace
func pre(op Op, c any, info chanInfo) (*Sched, *Thread) {
	s, t := current()
	if s == nil {
		return nil, nil
	}
	regChan(s, c, info)
	s.point(t, op, c)
	return s, t
}

//go:norace
func post(s *Sched, t *Thread) { s.point(t, OpYield, nil) }

//go:norace
func markClosed(s *Sched, c any) {
	if cr := s.chanRec(c); cr != nil {
		cr.closed = true
	}
}

// Send replaces `c <- v`.
func Send[C ~chan T, T any](c C, v T) {
	if c == nil {
		c <- v
		return
	}
	ch := (chan T)(c)
	s, t := pre(OpSend, ch, chanView[T]{ch})
	ch <- v // the program's own synchronisation: performed for real
	if s != nil && cap(ch) == 0 {
		post(s, t) // post-rendezvous gate
	}
}

// Recv replaces `<-c`.
func Recv[C ~chan T, T any](c C) T {
	v, _ := Recv2(c)
	return v
}

// Recv2 replaces `v, ok := <-c`.
func Recv2[C ~chan T, T any](c C) (T, bool) {
	if c == nil {
		v, ok := <-c
		return v, ok
	}
	ch := (chan T)(c)
	s, t := pre(OpRecv, ch, chanView[T]{ch})
	v, ok := <-ch
	if s != nil && cap(ch) == 0 && ok {
		post(s, t) // post-rendezvous gate
	}
	return v, ok
}

type reflectView struct{ v reflect.Value }

func (v reflectView) Len() int { return v.v.Len() }
func (v reflectView) Cap() int { return v.v.Cap() }

// canonChan: the channel as the value Send/Recv register (unnamed bidirectional chan type), or nil
// for a nil channel and for kinds the scheduler does not control (receive-only time channels).
//go:norace
func canonChan(c any) (any, chanInfo) {
	v := reflect.ValueOf(c)
	if !v.IsValid() || v.Kind() != reflect.Chan || v.IsNil() || v.Type().ChanDir() != reflect.BothDir {
		return nil, nil
	}
	cv := v.Convert(reflect.ChanOf(reflect.BothDir, v.Type().Elem()))
	return cv.Interface(), reflectView{cv}
}

// Select stands in front of a select statement whose clauses are all receives (the instrumenter
// turns `select { case v = <-c0: A  case v = <-c1: B }` into `switch vsched.Select(c0, c1) { case 0:
// v = <-c0; vsched.SelectDone(); A ... default: <the original select> }`). It parks the thread until
// the explorer fires one ready case and returns its index; the real receive that follows cannot
// block. -1: the goroutine is not under a scheduler.
//go:norace
func Select(chans ...any) int {
	s, t := current()
	if s == nil {
		return -1
	}
	sel := make([]any, len(chans))
	for i, c := range chans {
		cc, info := canonChan(c)
		if cc != nil {
			regChan(s, cc, info)
			sel[i] = cc
		}
	}
	t.sel = sel
	s.point(t, OpSelect, nil)
	t.sel = nil
	return t.selChoice
}

// SelectDone follows the real receive of the fired case: the post-rendezvous gate of an unbuffered
// hand-over (the sender parks at its own).
//go:norace
func SelectDone() {
	s, t := current()
	if s == nil {
		return
	}
	if t.selRdv {
		t.selRdv = false
		post(s, t)
	}
}

// Close replaces close(c).
func Close[C ~chan T, T any](c C) {
	if c == nil {
		close(c)
		return
	}
	ch := (chan T)(c)
	s, _ := pre(OpClose, ch, chanView[T]{ch})
	close(ch)
	if s != nil {
		markClosed(s, ch)
	}
}

// Range replaces `for v := range c`.
func Range[C ~chan T, T any](c C) func(yield func(T) bool) {
	return func(yield func(T) bool) {
		for {
			v, ok := Recv2(c)
			if !ok || !yield(v) {
				return
			}
		}
	}
}
