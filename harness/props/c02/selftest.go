package c02

import (
	"fmt"
)

// truncationDemanded: must the text cut to its first k bytes be refused?
func truncationDemanded(ann string, k int) bool {
	if 0 < depthAt(ann, k) {
		return true
	}
	switch cutCtx(ann, k) {
	case "in-string", "in-escape", "in-u-escape", "in-pipe", "after-quote", "after-sharp":
		return true
	case "after-dispatch":
		return ann[k] != 'b' // "#*" alone is the empty bit vector
	}
	return false
}

func hasUnspecified(v *cv) bool {
	if v.k == "unspecified" {
		return true
	}
	for _, k := range v.kids {
		if hasUnspecified(k) {
			return true
		}
	}
	return false
}

// selftest (S6): (1) the generator's denotations, end offsets and truncation
// rule agree with the independent reference reader on every text of the tier;
// (2) every mutated reference reader is told apart from the real one by at
// least one (text, delivery) of the tier.
func selftest(tier string) (killed, total int, notes []string) {
	seen := map[string]bool{}
	var texts []text
	var cfgs []cfg
	enumerate(tier, func(spec string) {
		cs, err := parseSpec(spec)
		if err != nil {
			notes = append(notes, "bad spec "+spec)
			return
		}
		if cs.mode&4 != 0 {
			return // differential-only texts: the generator has no denotation for them
		}
		t := build(cs.ctx, cs.toks, cs.seps, cs.lead, cs.trail)
		key := fmt.Sprintf("%d|%s|%s", cs.c.base, cs.c.ff, t.src)
		if seen[key] {
			return
		}
		seen[key] = true
		texts = append(texts, t)
		cfgs = append(cfgs, cs.c)
	})

	// (1) generator vs reference reader
	total++
	bad := 0
	complain := func(format string, args ...any) {
		bad++
		if bad <= 5 {
			notes = append(notes, "generator/reference disagreement: "+fmt.Sprintf(format, args...))
		}
	}
	for i, t := range texts {
		c := cfgs[i]
		rr := refRead(t.src, nil, c, refMutant{})
		if rr.err != "" || len(rr.forms) != len(t.forms) {
			complain("%q: reference reads %d forms (err %q), generator has %d", t.src, len(rr.forms), rr.err, len(t.forms))
			continue
		}
		for j, f := range t.forms {
			if rr.ends[j] != f.end {
				complain("%q form %d: reference end %d, generator end %d", t.src, j, rr.ends[j], f.end)
			}
			d := f.den(c)
			if d != nil && hasUnspecified(rr.forms[j]) {
				complain("%q: the generator gives a denotation where the reference reader has none", t.src)
			}
			if d != nil && !hasUnspecified(rr.forms[j]) && d.String() != rr.forms[j].String() {
				complain("%q form %d: reference %s, generator %s", t.src, j, rr.forms[j], d)
			}
		}
		for k := 1; k < len(t.src); k++ {
			if truncationDemanded(t.ann, k) {
				if p := refRead(t.src[:k], nil, c, refMutant{}); p.err == "" {
					complain("%q cut to %q: the generator's rule demands an error, the reference reads %s", t.src, t.src[:k], seqString(p.forms))
				}
			}
		}
	}
	if bad == 0 {
		killed++
		notes = append(notes, fmt.Sprintf("generator denotations, end offsets and truncation rule agree with the reference reader on %d texts", len(texts)))
	} else {
		notes = append(notes, fmt.Sprintf("%d generator/reference disagreements", bad))
	}

	// (2) mutated references
	for _, m := range refMutants {
		total++
		witness := ""
	search:
		for i, t := range texts {
			c := cfgs[i]
			n := len(t.src)
			for k := n; 1 <= k; k-- {
				var cuts []int
				if k < n {
					cuts = []int{k}
				}
				real := refRead(t.src, cuts, c, refMutant{})
				mut := refRead(t.src, cuts, c, m)
				if !real.same(&mut) {
					witness = fmt.Sprintf("text %q delivered as %s: reference %s ends %v err %q ; mutant %s ends %v err %q",
						t.src, showCuts(t.src, cuts), seqString(real.forms), real.ends, real.err, seqString(mut.forms), mut.ends, mut.err)
					break search
				}
				if k < n && truncationDemanded(t.ann, k) {
					real = refRead(t.src[:k], nil, c, refMutant{})
					mut = refRead(t.src[:k], nil, c, m)
					if !real.same(&mut) {
						witness = fmt.Sprintf("text cut to %q: reference err %q ; mutant %s err %q", t.src[:k], real.err, seqString(mut.forms), mut.err)
						break search
					}
				}
			}
		}
		if witness != "" {
			killed++
			notes = append(notes, "killed: "+m.name+" — "+witness)
		} else {
			notes = append(notes, "SURVIVED: "+m.name)
		}
	}
	return
}
