package c09

// sforms.go: family sf - MACROS AND SPECIAL FORMS WITH STRUCTURED ARGUMENTS. The arguments of a form that skips
// argument evaluation are not values but program text: lambda lists, binding lists, clauses, slot and option lists,
// names. "function x tuple of objects" reaches them only with one object per argument. This family starts from one or
// more VALID forms per such function (sfTemplates; the case sf|inventory asks slip which functions skip the evaluation
// of an argument - the engine's `macro` flag - and fails as a harness error when one of them has neither a template
// nor a stated excuse, or when a template does not evaluate to a value), reads the form into a tree and enumerates
// EVERY position of the tree down to depth sfDepth x EVERY mutation:
//
//	missing (the element is removed), nil, (), a symbol, a number, a string, a keyword, t, a dotted pair; the element
//	one level too deep ((x) for x), one level too shallow (its elements spliced into the parent), twice, as the dotted
//	tail of its parent; each word of sfWords (lambda-list keywords, clause and option keywords, a declare form ...);
//	a copy of every OTHER subtree of the same form (keywords, clauses, bindings, tags in wrong positions; nested
//	definitions); every object of the pool as a literal operand.
//
// One case = (template, position); all mutations are evaluated inside, each on a freshly read form with fresh names
// and freshly built objects. Evaluations run in a goroutine of their own under a budget of function evaluations
// (Scope.InterruptCheck): a mutant that loops or recurses without end BY CONTRACT is cut off (runtime.Goexit: the
// frames unwind in linear time) and counted as `budget`, neither a value nor a failure. The oracle is the family's
// usual one. Reader-level forms (backquote and comma) are a list of texts (sfTexts).
//
// spec: sf|<fn>|<path>|<template text>      path: child indexes joined by '.'
//       sf|text|<k>

import (
	"fmt"
	"os"
	"runtime"
	"sort"
	"strconv"
	"strings"
	"time"

	"github.com/ohler55/slip"

	"verif/engine"
)

const (
	sfDepth  = 5
	sfBudget = 10000
)

// sfWords: words with a syntactic role, tried at every position.
var sfWords = []string{"&optional", "&rest", "&key", "&aux", "&body", "&allow-other-keys", "&whole", "&environment",
	"otherwise", "declare", "(declare (ignore a))", "(declare (special a))", "(&optional)", "(a &rest)", "(&key ((:k)))", "(a . b)",
	":documentation", ":method", ":report", ":initarg", ":initform", ":accessor", ":reader", ":writer", ":allocation", ":type",
	":conc-name", ":constructor", ":include", ":use", ":export", ":nicknames", ":gettable-instance-variables", ":before", ":around",
	":test", ":direction", "(quote)", "(quote a b)", "(function)", "(function a b)", "(lambda)", "(setf a)", "(eql)", "(eql 1 2)"}

// sfBare: the bare symbols among the words and atoms; a mutant that DEFINES a function or a macro of that name (the
// word stands where a name is expected) must not change what the next mutant means.
var sfBare = []string{"otherwise", "declare", "&optional", "&rest", "&key", "&aux", "&body", "&allow-other-keys", "&whole", "&environment", "c09q",
	":c09k", "a", "b", "t", ":documentation", ":method", ":report", ":initarg", ":initform", ":accessor", ":reader", ":writer", ":allocation", ":type",
	":conc-name", ":constructor", ":include", ":use", ":export", ":nicknames", ":gettable-instance-variables", ":before", ":around", ":test", ":direction"}

func sfUndefineBare() {
	for _, n := range sfBare {
		func() {
			defer func() { _ = recover() }()
			if fi := slip.UserPkg.GetFunc(n); fi != nil && fi.Pkg == &slip.UserPkg {
				slip.UserPkg.Undefine(n)
			}
		}()
	}
}

// sfTemplates: valid forms per function that skips argument evaluation. {N} = a number fresh for every evaluation.
// Functions defined by a template are never called by name in it (a copy of that call inside its own body would recurse
// by contract); loops have at least two parts that evaluate a function (a single mutation cannot make them spin
// without spending the budget).
var sfTemplates = map[string][]string{
	"clos:defclass": {
		`(defclass c09s{N} () ((a :initarg :a :initform 1 :accessor c09s{N}-a :type fixnum :documentation "d") (b :allocation :class) c) (:documentation "doc") (:default-initargs :a 2))`,
		`(make-instance (progn (defclass c09s{N}p () ((a :initarg :a))) (defclass c09s{N} (c09s{N}p) ((b :reader c09s{N}-b :writer c09s{N}-wb :initform (list 1))))) :a 1)`,
	},
	"clos:define-condition": {
		`(define-condition c09s{N} (error) ((a :initarg :a :reader c09s{N}-a :initform 1)) (:report (lambda (c s) (format s "x"))) (:documentation "d"))`,
		`(make-condition (progn (define-condition c09s{N} (warning) (a (b :initarg :b))) (quote c09s{N})) :b 1)`,
	},
	"clos:initialize-instance":   {`(initialize-instance c09i :a 2)`},
	"clos:shared-initialize":     {`(shared-initialize c09i t :a 2)`},
	"clos:with-slots":            {`(with-slots (a (a2 a)) c09i (setq a2 3) (list a a2))`},
	"common-lisp:and":            {`(and 1 (c09tick) 3)`},
	"common-lisp:or":             {`(or nil (c09tick) 3)`},
	"common-lisp:backquote":      {`(backquote (a (b . c) "s" 1))`},
	"common-lisp:block":          {`(block c09b (c09tick) (return-from c09b 1) 2)`},
	"common-lisp:case":           {`(case (c09tick) (0 (quote a)) ((1 2 nil) (quote b) (quote c)) (t (quote d)))`, `(case 5 ((1 2)) (otherwise 1))`},
	"common-lisp:ecase":          {`(ecase (c09tick) ((1 2) (quote a)) (3))`},
	"common-lisp:typecase":       {`(typecase (c09tick) (string 1) (float 2) (fixnum 3 4) (t 5))`, `(typecase "s" (fixnum) (otherwise 1))`},
	"common-lisp:etypecase":      {`(etypecase (c09tick) (string 1) (fixnum 2))`},
	"common-lisp:cond":           {`(cond ((= 1 2) (quote a)) ((c09tick)) (t (quote b) (quote c)))`},
	"common-lisp:incf":           {`(let ((x 1) (l (list 1 2))) (incf x 2) (incf (car l)) (list x l))`},
	"common-lisp:decf":           {`(let ((x 1) (l (list 1 2))) (decf x 2) (decf (cadr l) 1/2) (list x l))`},
	"common-lisp:declaim":        {`(declaim (special c09s{N}) (optimize (speed 3)) (inline car))`},
	"common-lisp:proclaim":       {`(proclaim (special c09s{N}))`},
	"common-lisp:declare":        {`(let ((a 1) (b 2)) (declare (ignore b) (type fixnum a) (special a)) a)`, `(declare (ignore a))`},
	"common-lisp:declaration":    {`(declaration c09s{N})`},
	"common-lisp:dynamic-extent": {`(dynamic-extent a)`},
	"common-lisp:ftype":          {`(ftype (function (fixnum) fixnum) car)`},
	"common-lisp:ignorable":      {`(ignorable a b)`},
	"common-lisp:ignore":         {`(ignore a b)`},
	"common-lisp:inline":         {`(inline car)`},
	"common-lisp:notinline":      {`(notinline car)`},
	"common-lisp:optimize":       {`(optimize (speed 3) safety)`},
	"common-lisp:special":        {`(special a b)`},
	"common-lisp:type":           {`(type fixnum a b)`},
	"common-lisp:defconstant":    {`(defconstant c09s{N} (c09tick) "doc")`},
	"common-lisp:defparameter":   {`(defparameter c09s{N} (c09tick) "doc")`},
	"common-lisp:defvar":         {`(defvar c09s{N} (c09tick) "doc")`, `(defvar c09s{N})`},
	"common-lisp:defmacro": {
		`(defmacro c09s{N} (a &optional (b 1) &rest r) "doc" (list (quote list) a b (list (quote quote) r)))`,
		`(eval (list (defmacro c09s{N} (a b &optional (k 2) &body body) (list (quote list) a b k (list (quote quote) body))) 1 2 3 4 5))`,
	},
	"common-lisp:defun": {
		`(defun c09s{N} (a &optional (b 1) c &rest r &key (k 2) &allow-other-keys &aux (x 3)) "doc" (declare (ignore r)) (list a b c k x))`,
		`(funcall (defun c09s{N} (a &optional (b 1) &key (k a) kv) (list a b k kv)) 1 2 :k 3)`,
		`(apply (defun c09s{N} (a &rest r) (list a r)) 1 (list 2 3))`,
	},
	"common-lisp:lambda": {
		`(lambda (a &optional (b 1) c &rest r &key (k 2) &allow-other-keys &aux (x 3)) "doc" (declare (ignore r)) (list a b c k x))`,
		`(funcall (lambda (a &optional (b 1) &key (k a) kv) (list a b k kv)) 1 2 :k 3)`,
		`(mapcar (lambda (a &aux (x (c09tick))) (list a x)) (list 1 2))`,
	},
	"common-lisp:function": {`(function car)`, `(funcall (function (lambda (a &optional b) (list a b))) 1)`},
	"common-lisp:defpackage": {
		`(defpackage c09s{N} (:use :cl "bag") (:nicknames c09s{N}n "c09s{N}m") (:export a "B") (:documentation "d"))`,
		`(defpackage "c09s{N}" (:use) (:import-from :cl car cdr) (:shadow list) (:intern x))`,
	},
	"common-lisp:defstruct": {
		`(defstruct (c09s{N} (:conc-name c09s{N}-) (:constructor make-c09s{N}) (:predicate c09s{N}-p) (:copier nil)) "doc" (x 0 :type fixnum :read-only t) y)`,
		`(funcall (progn (defstruct (c09s{N}p (:type list) :named) (x 0)) (defstruct (c09s{N} (:type list) :named (:include c09s{N}p)) (z 5)) (quote make-c09s{N})) :z 1 :x 2)`,
		`(defstruct (c09s{N} (:type vector) (:initial-offset 1) (:constructor c09s{N}-boa (a &optional (b 2)))) a b)`,
	},
	"common-lisp:do":                      {`(do ((i 0 (+ i 1)) (acc nil (cons i acc)) k) ((> i 2) (c09tick) acc) (c09tick) (setq k i))`},
	"common-lisp:do*":                     {`(do* ((i 0 (+ i 1)) (j i (* i 2))) ((> (+ i 0) 2) j) (c09tick))`},
	"common-lisp:dolist":                  {`(dolist (x (list 1 2) (c09tick)) (c09tick) (list x))`},
	"common-lisp:dotimes":                 {`(dotimes (i 3 (c09tick)) (c09tick) (list i))`},
	"gi:dovector":                         {`(dovector (x (vector 1 2) (c09tick)) (c09tick) (list x))`},
	"common-lisp:do-all-symbols":          {`(let ((n 0)) (do-all-symbols (s n) (setq n (+ n 1))))`},
	"common-lisp:do-external-symbols":     {`(let ((n 0)) (do-external-symbols (s (find-package (quote bag)) n) (setq n (+ n 1))))`},
	"common-lisp:do-symbols":              {`(let ((n 0)) (do-symbols (s (find-package (quote bag)) n) (setq n (+ n 1))))`},
	"common-lisp:loop":                    {`(let ((n 0)) (loop (setq n (+ n 1)) (c09tick) (if (> n 3) (return n))))`},
	"common-lisp:eval":                    {`(eval (quote (+ 1 2)))`, `(eval (list (quote list) 1 (quote (quote a))))`},
	"common-lisp:get":                     {`(let ((p (list (quote a) 1 (quote b) 2))) (get p (quote b) 0))`},
	"common-lisp:getf":                    {`(let ((p (list (quote a) 1 (quote b) 2))) (getf p (quote b) 0))`},
	"common-lisp:remf":                    {`(let ((p (list (quote a) 1 (quote b) 2))) (remf p (quote b)) p)`, `(let ((l (list (list :a 1)))) (remf (car l) :a) l)`},
	"common-lisp:remprop":                 {`(let ((p (list (quote a) 1 (quote b) 2))) (remprop p (quote b)) p)`},
	"common-lisp:tagbody":                 {`(let ((x 0)) (tagbody (setq x (+ x 1)) (go c09t) (setq x (+ x 10)) c09t (setq x (+ x 100)) 7 (c09tick)) x)`},
	"common-lisp:go":                      {`(tagbody (go 7) c09a 7 (c09tick))`},
	"common-lisp:if":                      {`(if (c09tick) 2 3)`},
	"common-lisp:when":                    {`(when (c09tick) 2 3)`},
	"common-lisp:unless":                  {`(unless (c09tick) 2 3)`},
	"common-lisp:ignore-errors":           {`(ignore-errors (c09tick) (car 5))`},
	"common-lisp:let":                     {`(let ((a 1) (b) c (d (c09tick))) (declare (ignorable c)) (list a b c d))`},
	"common-lisp:let*":                    {`(let* ((a 1) (b a) c (d (c09tick))) (declare (ignorable c)) (list a b c d))`},
	"common-lisp:multiple-value-bind":     {`(multiple-value-bind (a b c) (values 1 (c09tick)) (declare (ignorable c)) (list a b c))`},
	"common-lisp:multiple-value-call":     {`(multiple-value-call (function list) (values 1 2) (c09tick))`},
	"common-lisp:multiple-value-list":     {`(multiple-value-list (values 1 (c09tick)))`},
	"common-lisp:multiple-value-prog1":    {`(multiple-value-prog1 (values 1 2) (c09tick))`},
	"common-lisp:multiple-value-setq":     {`(let (a b) (multiple-value-setq (a b) (values 1 (c09tick))) (list a b))`},
	"common-lisp:nth-value":               {`(nth-value 1 (values 1 (c09tick)))`},
	"common-lisp:pop":                     {`(let ((x (list 1 2)) (l (list (list 3 4)))) (list (pop x) (pop (car l)) x l))`},
	"common-lisp:push":                    {`(let ((x (list 1 2)) (l (list (list 3 4)))) (push 0 x) (push (c09tick) (car l)) (list x l))`},
	"common-lisp:pushnew":                 {`(let ((x (list 1 2)) (l (list (list 3 4)))) (pushnew 0 x :test (function eql)) (pushnew 3 (car l) :key (function abs)) (list x l))`},
	"gi:addnew":                           {`(let ((x (list 1 2)) (l (list (list 3 4)))) (addnew 0 x :test (function eql)) (addnew 3 (car l)) (list x l))`},
	"gi:addf":                             {`(let ((x (list 1 2))) (addf x 3 (c09tick)) x)`},
	"common-lisp:prog":                    {`(prog ((a 1) b) (declare (ignorable b)) c09t (setq b 2) (return (list a b (c09tick))))`},
	"common-lisp:prog*":                   {`(prog* ((a 1) (b a)) (setq b 2) (return (list a b (c09tick))))`},
	"common-lisp:prog1":                   {`(prog1 1 (c09tick) 3)`},
	"common-lisp:prog2":                   {`(prog2 1 (c09tick) 3)`},
	"common-lisp:progn":                   {`(progn 1 (c09tick) 3)`},
	"common-lisp:progv":                   {`(progv (list (quote c09s{N}) (quote c09s{N}b)) (list 1 (c09tick)) (list c09s{N} c09s{N}b))`},
	"common-lisp:psetf":                   {`(let ((x 1) (l (list 1 2))) (psetf x 2 (car l) x) (list x l))`},
	"common-lisp:psetq":                   {`(let ((x 1) (y 2)) (psetq x y y x) (list x y))`},
	"common-lisp:setf":                    {`(let ((x 1) (l (list 1 2))) (setf x 2 (car l) x (cadr l) (c09tick)) (list x l))`},
	"common-lisp:setq":                    {`(let ((x 1) (y 2)) (setq x y y (c09tick)) (list x y))`},
	"common-lisp:rotatef":                 {`(let ((l (list 1 2 3))) (rotatef (car l) (cadr l) (nth 2 l)) l)`},
	"common-lisp:shiftf":                  {`(let ((l (list 1 2 3))) (shiftf (car l) (cadr l) (nth 2 l)) l)`},
	"common-lisp:quote":                   {`(quote (a (b . c) "s" 1))`},
	"common-lisp:return":                  {`(block nil (c09tick) (return (c09tick)) 2)`},
	"common-lisp:return-from":             {`(block c09b (block c09c (return-from c09b (c09tick))) 2)`},
	"common-lisp:the":                     {`(the fixnum (c09tick))`, `(the t (quote a))`},
	"common-lisp:time":                    {`(time (c09tick))`},
	"common-lisp:trace":                   {`(progn (trace c09tick) (c09tick) (untrace c09tick))`},
	"common-lisp:untrace":                 {`(progn (trace c09tick) (untrace c09tick) (untrace))`},
	"common-lisp:unwind-protect":          {`(unwind-protect (c09tick) (c09tick) 3)`, `(block c09b (unwind-protect (return-from c09b 1) (c09tick)))`},
	"common-lisp:with-input-from-string":  {`(let (i) (list (with-input-from-string (s "abc def" :index i :start 1 :end 5) (read-char s) (read s)) i))`},
	"common-lisp:with-open-file":          {`(with-open-file (s "c09sf.txt" :direction :output :if-exists :supersede :if-does-not-exist :create) (write-string "x" s) (c09tick))`},
	"common-lisp:with-open-stream":        {`(with-open-stream (s (make-string-input-stream "abc def")) (read-char s) (read s))`},
	"common-lisp:with-output-to-string":   {`(with-output-to-string (s) (write-string "x" s) (c09tick))`},
	"common-lisp:with-standard-io-syntax": {`(with-standard-io-syntax (c09tick) 2)`},
	"flavors:defflavor": {
		`(defflavor c09s{N} ((a 1) b) () :gettable-instance-variables (:settable-instance-variables a) :initable-instance-variables (:documentation "d") (:default-init-plist (:a 2)))`,
		`(send (make-instance (progn (defflavor c09s{N}p ((a 1)) () :gettable-instance-variables) (defflavor c09s{N} ((c 3)) (c09s{N}p) (:required-instance-variables a)) (quote c09s{N}))) :a)`,
	},
	"flavors:defwhopper": {`(send (make-instance (progn (defflavor c09s{N} ((a 1)) () :gettable-instance-variables) (defwhopper (c09s{N} :a) () (c09tick) (continue-whopper)) (quote c09s{N}))) :a)`},
	"flavors:flosfun":    {`(funcall (flosfun c09s{N} :a "doc") c09fi)`},
	"generic:defgeneric": {
		`(defgeneric c09s{N} (a &optional b) (:documentation "d") (:method ((a fixnum) &optional b) (list a b)) (:method-combination standard))`,
		`(funcall (progn (defgeneric c09s{N} (a b &key k)) (defmethod c09s{N} ((a t) b &key k) (list a b k)) (quote c09s{N})) 1 2 :k 3)`,
	},
	"generic:defmethod": {
		`(funcall (progn (defmethod c09s{N} :around ((a fixnum) (b fixnum) &optional c) "doc" (list a b c (next-method-p))) (defmethod c09s{N} ((a t) b &optional c) (list a b c)) (quote c09s{N})) 1 3)`,
		`(send (make-instance (progn (defflavor c09s{N} ((a 1)) ()) (defmethod (c09s{N} :before :foo) (x) (c09tick)) (defmethod (c09s{N} :foo) (x &optional (y 2)) "doc" (list a x y)) (quote c09s{N}))) :foo 1)`,
	},
	"generic:no-applicable-method": {`(no-applicable-method c09gf 1 2)`},
	"generic:no-next-method":       {`(no-next-method c09gf c09m 1)`},
	"generic:slot-missing":         {`(slot-missing c09cls c09i zz setf 1)`},
	"generic:slot-unbound":         {`(slot-unbound c09cls c09i a)`},
	"gi:pretty-print": { // (the object is not evaluated: every special layout of the pretty printer gets a form of its kind)
		`(pretty-print (one (two "s" 3.5) (quote x)) nil)`,
		`(pretty-print (let ((a 1) (b 2)) (list a b)) nil)`,
		`(pretty-print (defun f (a &optional (b 1)) "doc" (list a b)) nil)`,
		`(pretty-print (lambda (x) "doc" x) nil)`,
		`(pretty-print (defvar v 1 "doc") nil)`,
		`(pretty-print (cond ((= 1 2) 3) (t 4)) nil)`,
		`(pretty-print (progn 1 (dotimes (i 3) (print i))) nil)`,
		`(pretty-print (defflavor f ((a 1) b) (g) :gettable-instance-variables (:documentation "d")) nil)`,
		`(pretty-print (defmethod (f :before :m) (x) x) nil)`,
		`(pretty-print (defmethod g ((a fixnum) b) "doc" a) nil)`,
		`(pretty-print (defgeneric g (a b) (:documentation "d") (:method ((a fixnum) b) a)) nil)`,
		`(pretty-print (defclass c (d) ((a :initarg :a) b) (:documentation "d")) nil)`,
		`(pretty-print (make-instance (quote c) :a 1) nil)`,
		`(pretty-print (backquote (a b)) nil)`,
	},
	"gi:recover":                {`(recover c09r (list (c09tick) c09r) (c09tick) (panic 5))`, `(recover c09r (7) (c09tick))`},
	"gi:select":                 {`(let ((c (c09ready))) (select (c x (c09tick) (list x)) ((c09ready) y y)))`},
	"gi:with-input-from-octets": {`(with-input-from-octets (s (make-octets 3 65)) (read-byte s) (c09tick))`},
	"gi:with-mutex-lock":        {`(with-mutex-lock (make-mutex) (c09tick) 2)`},
	"gi:with-zip-reader":        {`(with-input-from-octets (s (base64-decode "H4sIEAAAAAAA/3Rlc3QAKs7PTVVISSxJBAAAAP//AQAA//8e6cLZCQAAAA==")) (with-zip-reader (z s) (c09tick) (read-all z)))`},
	"gi:with-zip-writer":        {`(with-output-to-string (s) (with-zip-writer (z s 5 :comment "test") (c09tick) (format z "some data")))`},
	"test:assert-panic":         {`(assert-panic (panic (quote done)) "msg")`},
	"test:deftest":              {`(deftest "c09s{N}" nil (c09tick) (assert-nil (car nil)))`},
}

// sfRaises: functions whose valid form ends in a condition BY DESIGN (declaration identifiers that are not
// functions; the generic functions that exist to signal).
var sfRaises = map[string]string{
	"common-lisp:declaration": "a declaration identifier: calling it is an error by design", "common-lisp:dynamic-extent": "a declaration identifier",
	"common-lisp:ftype": "a declaration identifier", "common-lisp:ignorable": "a declaration identifier", "common-lisp:ignore": "a declaration identifier",
	"common-lisp:inline": "a declaration identifier", "common-lisp:notinline": "a declaration identifier", "common-lisp:optimize": "a declaration identifier",
	"common-lisp:special": "a declaration identifier", "common-lisp:type": "a declaration identifier",
	"generic:no-applicable-method": "signals no-applicable-method-error by design", "generic:no-next-method": "signals an error by design",
	"generic:slot-missing": "signals an error by design", "generic:slot-unbound": "signals unbound-slot by design",
}

// sfExcused: functions that skip argument evaluation without a template, with the reason.
var sfExcused = map[string]string{
	"gi:run": "starts a goroutine that outlives the evaluation (and, with a process name, spawns OS processes): excluded from the sweep as in family f",
}

// sfTexts: reader-level structure (backquote, comma, comma-at, quote and function markers in wrong places).
var sfTexts = []string{
	"`(a ,(c09tick) ,@(list 1 2) b)", "`(a . ,(c09tick))", "`(a . ,@(list 1))", "`,@(list 1)", "`,(c09tick)", ",(c09tick)", ",@(list 1)", "`(a ,@5)",
	"`(a ,@5 b)", "`(,@(list 1) . 2)", "`(,@'(1 . 2) 3)", "``(a ,,(c09tick))", "``(a ,,@(list 1 2))", "`(a `(b ,(c ,(c09tick))))", "`#(1 ,(c09tick) ,@(list 2))",
	"`#(,@5)", "`(a ,)", "`(a ,@)", "`,", "`", "'", "#'", "`(a . ,)", "`(1 ,@(list 2) ,@nil ,@(list))", "`(,@(list 1) ,@2)", "`(quote ,(c09tick))",
	"`(function ,@(list 1))", "`(a ,'b ,`c ,`,(c09tick))", "(quote)", "(quote a b)", "(function)", "(function a b)", "(function 5)", "(function (lambda))",
	"(function (lambda . 5))", "(function (setf car))", "(function (setf))", "(backquote)", "(backquote a b)", "`(lambda (,@5) x)", "(let `(a) 1)", "(let ,a 1)",
	"`(a ,@(c09tick) ,@(c09tick))", "`(,@(c09tick))", "`(a . (,@(list 1)))", "#.(+ 1 2)", "#+nil 1 2", "#-nil", "`#.(c09tick)", "`(1 . (2 ,@(list 3) . 4))",
}

// ---------------------------------------------------------------- fixtures

var sfTicks, sfSteps int

var lastMutant string

type sfTickFn struct{ slip.Function }

func (f *sfTickFn) Call(s *slip.Scope, args slip.List, depth int) slip.Object {
	sfTicks++
	return slip.Fixnum(sfTicks)
}

type sfReadyFn struct{ slip.Function }

// Call returns a channel that holds one item.
func (f *sfReadyFn) Call(s *slip.Scope, args slip.List, depth int) slip.Object {
	return mustEval(slip.NewScope(), "(let ((c (make-channel 1))) (channel-push c 1) c)")
}

func ensureSFFixtures() {
	ensurePlaceFixtures()
	if slip.UserPkg.GetFunc("c09tick") == nil {
		slip.Define(func(args slip.List) slip.Object {
			f := sfTickFn{Function: slip.Function{Name: "c09tick", Args: args}}
			f.Self = &f
			return &f
		}, &slip.FuncDoc{Name: "c09tick", Return: "fixnum", Text: "counts its calls"}, &slip.UserPkg)
		slip.Define(func(args slip.List) slip.Object {
			f := sfReadyFn{Function: slip.Function{Name: "c09ready", Args: args}}
			f.Self = &f
			return &f
		}, &slip.FuncDoc{Name: "c09ready", Return: "channel", Text: "a channel that holds one item"}, &slip.UserPkg)
	}
	if slip.UserPkg.GetFunc("c09gfix") == nil {
		mustEval(slip.NewScope(), "(progn (defgeneric c09gfix (x)) (defmethod c09gfix ((x t)) x))")
	}
}

// sfScope: the variables the templates refer to.
func sfScope() *slip.Scope {
	s := slip.NewScope()
	s.Let(slip.Symbol("c09i"), mustEval(slip.NewScope(), "(make-instance 'c09class :a 1)"))
	s.Let(slip.Symbol("c09fi"), mustEval(slip.NewScope(), "(make-instance 'c09flavor)"))
	s.Let(slip.Symbol("c09cls"), mustEval(slip.NewScope(), "(find-class 'c09class)"))
	s.Let(slip.Symbol("c09gf"), mustEval(slip.NewScope(), "(function c09gfix)"))
	s.Let(slip.Symbol("c09m"), mustEval(slip.NewScope(), "(find-method 'c09gfix nil (list t))"))
	return s
}

// ---------------------------------------------------------------- trees

// sfKids returns the children of a node (the value of a dotted tail counts as a child).
func sfKids(o slip.Object) slip.List {
	l, _ := o.(slip.List)
	return l
}

func sfUntail(o slip.Object) slip.Object {
	if t, ok := o.(slip.Tail); ok {
		return t.Value
	}
	return o
}

func sfCopy(o slip.Object) slip.Object {
	switch t := o.(type) {
	case slip.List:
		c := make(slip.List, len(t))
		for i, e := range t {
			c[i] = sfCopy(e)
		}
		return c
	case slip.Tail:
		return slip.Tail{Value: sfCopy(t.Value)}
	}
	return o
}

// sfPaths lists every position below the root down to sfDepth, except the root's operator.
func sfPaths(root slip.Object) (out [][]int) {
	var walk func(o slip.Object, path []int)
	walk = func(o slip.Object, path []int) {
		if sfDepth <= len(path) {
			return
		}
		for i, e := range sfKids(o) {
			if len(path) == 0 && i == 0 {
				continue
			}
			p := append(append([]int{}, path...), i)
			out = append(out, p)
			walk(sfUntail(e), p)
		}
	}
	walk(root, nil)
	return
}

func sfPathString(p []int) string {
	s := make([]string, len(p))
	for i, k := range p {
		s[i] = strconv.Itoa(k)
	}
	return strings.Join(s, ".")
}

func sfParsePath(s string) (p []int, ok bool) {
	for _, f := range strings.Split(s, ".") {
		k, err := strconv.Atoi(f)
		if err != nil || k < 0 {
			return nil, false
		}
		p = append(p, k)
	}
	return p, true
}

// sfAt returns the node at the path (nil, false when the path does not exist).
func sfAt(root slip.Object, path []int) (slip.Object, bool) {
	cur := root
	for _, k := range path {
		l := sfKids(sfUntail(cur))
		if len(l) <= k {
			return nil, false
		}
		cur = l[k]
	}
	return sfUntail(cur), true
}

// sfSubtrees lists every subtree of the root (transplant sources).
func sfSubtrees(root slip.Object) (out []slip.Object) {
	seen := map[string]bool{}
	var walk func(o slip.Object, top bool)
	walk = func(o slip.Object, top bool) {
		o = sfUntail(o)
		if !top {
			key := slip.ObjectString(o)
			if sym, ok := o.(slip.Symbol); ok && slip.FindFunc(string(sym)) != nil && !strings.HasPrefix(string(sym), "c09") {
				key = "" // a bare symbol that names a built-in function is not moved into a name position
			}
			if key != "" && !seen[key] {
				seen[key] = true
				out = append(out, o)
			}
		}
		for _, e := range sfKids(o) {
			walk(e, false)
		}
	}
	walk(root, true)
	return
}

// sfEdit returns a copy of root in which the node at path is replaced by repl (how: replace | delete | wrap | splice |
// dup | tail).
func sfEdit(root slip.Object, path []int, how string, repl slip.Object) (slip.Object, bool) {
	root = sfCopy(root)
	if len(path) == 0 {
		return nil, false
	}
	parent, ok := sfAt(root, path[:len(path)-1])
	if !ok {
		return nil, false
	}
	pl, isList := parent.(slip.List)
	k := path[len(path)-1]
	if !isList || len(pl) <= k {
		return nil, false
	}
	node := pl[k]
	_, dotted := node.(slip.Tail)
	set := func(v slip.Object) {
		if dotted {
			pl[k] = slip.Tail{Value: v}
		} else {
			pl[k] = v
		}
	}
	var newParent slip.List
	switch how {
	case "replace":
		set(repl)
		return root, true
	case "wrap":
		set(slip.List{sfUntail(node)})
		return root, true
	case "delete":
		newParent = append(append(slip.List{}, pl[:k]...), pl[k+1:]...)
	case "dup":
		if dotted {
			return nil, false
		}
		newParent = append(append(append(slip.List{}, pl[:k+1]...), sfCopy(node)), pl[k+1:]...)
	case "splice":
		inner, ok := sfUntail(node).(slip.List)
		if !ok || dotted {
			return nil, false
		}
		newParent = append(append(append(slip.List{}, pl[:k]...), inner...), pl[k+1:]...)
	case "tail":
		if dotted || k == 0 {
			return nil, false
		}
		newParent = append(append(slip.List{}, pl[:k]...), slip.Tail{Value: node})
	default:
		return nil, false
	}
	// put the new parent in place of the old one
	if len(path) == 1 {
		return newParent, true
	}
	gp, _ := sfAt(root, path[:len(path)-2])
	gl := gp.(slip.List)
	gk := path[len(path)-2]
	if _, gd := gl[gk].(slip.Tail); gd {
		gl[gk] = slip.Tail{Value: newParent}
	} else {
		gl[gk] = newParent
	}
	return root, true
}

// ---------------------------------------------------------------- enumeration

func sfMacroNames() (out []string) {
	for _, f := range allFunctions() {
		if f.macro {
			out = append(out, f.name)
		}
	}
	return
}

func sfRead(text string, id int64) (root slip.Object, ok bool) {
	ok = setup(func() {
		code := slip.ReadString(strings.ReplaceAll(text, "{N}", strconv.FormatInt(id, 10)), slip.NewScope())
		if len(code) == 1 {
			root = code[0]
		}
	})
	return root, ok && root != nil
}

func enumSForms(tier string, emit func(string)) {
	emit("sf|inventory")
	for k := range sfTexts {
		emit("sf|text|" + strconv.Itoa(k))
	}
	names := make([]string, 0, len(sfTemplates))
	for n := range sfTemplates {
		names = append(names, n)
	}
	sort.Strings(names)
	for _, fn := range names {
		for _, text := range sfTemplates[fn] {
			root, ok := sfRead(text, 0)
			if !ok {
				emit("sf|" + fn + "|unreadable|" + text)
				continue
			}
			for _, p := range sfPaths(root) {
				emit("sf|" + fn + "|" + sfPathString(p) + "|" + text)
			}
		}
	}
}

// ---------------------------------------------------------------- execution

type sfMutant struct {
	name string
	form slip.Object
}

// sfRun evaluates one form in a goroutine of its own under the step budget.
func sfRun(scope *slip.Scope, form slip.Object) (o *obs, budget bool) {
	steps := 0
	inHook := false
	sfTicks = 0
	scope.InterruptCheck = func() {
		if inHook {
			return
		}
		steps++
		if sfBudget < steps {
			inHook = true
			runtime.Goexit()
		}
	}
	done := make(chan *obs, 1)
	go func() {
		var res *obs
		finished := false
		defer func() {
			if !finished {
				res = nil
			}
			done <- res
		}()
		res = observe(func() slip.Object { return form.Eval(scope, 0) })
		finished = true
	}()
	o = <-done
	sfSteps += steps
	if o == nil || o.kind == "" {
		return nil, true
	}
	return o, false
}

func sfAtoms() []sfMutant {
	return []sfMutant{
		{"nil", nil}, {"()", slip.List{}}, {"symbol", slip.Symbol("c09q")}, {"number", slip.Fixnum(7)}, {"string", slip.String("s")},
		{"keyword", slip.Symbol(":c09k")}, {"t", slip.True}, {"dotted-pair", slip.List{slip.Symbol("a"), slip.Tail{Value: slip.Symbol("b")}}},
		{"float", slip.DoubleFloat(1.5)}, {"character", slip.Character('a')},
	}
}

func execSForm(spec string) (res engine.Result) {
	if spec == "sf|inventory" {
		return execSFInventory()
	}
	parts := strings.SplitN(spec, "|", 5)
	if len(parts) == 3 && parts[1] == "text" {
		return execSFText(spec, parts[2])
	}
	startAt := 0
	if len(parts) == 5 { // a resumed case: sf|fn|path|text|<index of the first mutant to run>
		k, err := strconv.Atoi(parts[4])
		if err != nil || k < 1 {
			res.Fail("harness:bad-spec", spec)
			return
		}
		startAt = k
		parts = parts[:4]
	}
	if len(parts) != 4 {
		res.Fail("harness:bad-spec", spec)
		return
	}
	fn, pathText, text := parts[1], parts[2], parts[3]
	path, ok := sfParsePath(pathText)
	known := false
	for _, t := range sfTemplates[fn] {
		known = known || t == text
	}
	if !ok || !known {
		res.Fail("harness:bad-spec", spec)
		return
	}
	if os.Getenv("C09_CHILD") == "" {
		// a mutant can kill or hang the host (a class that inherits from itself ...): the case runs in the helper process.
		// A mutant that changes what later mutants mean (it redefines `list`, or leaves a class behind that makes every
		// later defclass fail) ends the helper's part: the rest of the case goes on in a new helper, from the next mutant.
		base := "sf|" + fn + "|" + pathText + "|" + text
		what := "mutants of position " + pathText + " of " + text
		res = isolatedCase(spec, "form fn="+fn, what, "sform-cases", false)
		for n := 0; n < 200 && 0 < res.Counters["sform-resume-at"]; n++ {
			k := res.Counters["sform-resume-at"]
			delete(res.Counters, "sform-resume-at")
			next := isolatedCase(base+"|"+strconv.Itoa(k), "form fn="+fn, what, "sform-cases", false)
			sfMerge(&res, &next)
		}
		return
	}
	if startAt == 0 {
		res.Hit("sform-cases")
	} else {
		res.Hit("sform-cases-resumed")
	}
	if os.Getenv("C09_TIMING") != "" {
		defer sfTiming(&res, spec)()
	}
	leave := enter(false)
	defer leave()
	ensureSFFixtures()
	sfTrack()
	definesClasses := sfDefinesClasses[fn]
	sigPrefix := "form"
	outcomes := map[string]int{}
	seen := map[string]bool{}
	failed := false
	idx := 0
	// one evaluation of one mutant; build makes the mutated form from a freshly read template
	one := func(name string, build func(w *world, root slip.Object) (slip.Object, bool)) {
		idx++
		if failed || idx <= startAt {
			return
		}
		defer func() {
			// did this mutant change what the next ones mean?
			if !failed && (!sfWorldOK() || definesClasses && !sfRegistryOK()) {
				failed = true
				res.Hit("world-changed")
				res.Hit("sform-resume-at")
				res.Counters["sform-resume-at"] = idx
				logLine("WORLD-CHANGED\t" + spec + "\t" + lastMutant)
			}
		}()
		slip.CurrentPackage = &slip.UserPkg // (a mutant that was cut off inside a form that binds *package* leaves it changed)
		var sc *slip.Scope
		if !setup(func() { sc = sfScope() }) {
			logLine("SFSCOPE-FAILED\t" + spec + "\tafter mutant: " + lastMutant)
			failed = true
			tainted = true
			res.Fail("harness:setup-failed", spec+": the fixtures are gone after mutant "+lastMutant)
			return
		}
		w := &world{scope: sc}
		defer w.done()
		root, ok := sfRead(text, nextID())
		if !ok {
			failed = true
			res.Fail("harness:setup-failed", "template unreadable: "+text)
			return
		}
		var form slip.Object
		applicable := false
		if !setup(func() { form, applicable = build(w, root) }) {
			failed = true
			tainted = true
			res.Hit("setup-failed")
			res.Fail("harness:setup-failed", spec+" building mutant "+name)
			return
		}
		if !applicable {
			res.Hit("sform-mutation-not-applicable")
			return
		}
		lastMutant = name + ": " + digest(sfShow(form), 300)
		announce(lastMutant)
		slip.CurrentPackage = &slip.UserPkg
		o, budget := sfRun(w.scope, form)
		sfUndefineBare()
		res.Hit("sform-evals")
		if budget {
			res.Hit("sform-budget")
			outcomes["budget"]++
			return
		}
		switch o.kind {
		case "value":
			res.Hit("sform-value")
			outcomes["v"]++
		case "condition":
			res.Hit("sform-condition")
			outcomes["c:"+o.class]++
		default:
			outcomes[o.kind]++
		}
		if o.catchAll {
			res.Hit("catch-all-conversions")
		}
		if fc := realClassifier.classify(o); fc != "" {
			res.Hit("faults")
			sig := fmt.Sprintf("%s fault=%s at=%s", sigPrefix, fc, o.site)
			if !seen[sig] {
				seen[sig] = true
				res.Fail(sig, fmt.Sprintf("%s: position %s of %s mutated (%s): %s => %s", fn, pathText, digest(text, 200), name, digest(sfShow(form), 400), o.describe()))
			}
		} else if o.catchAll {
			res.Hit("catch-all-accepted")
			logAccepted(sigPrefix, o)
		}
	}
	edit := func(how string, repl func(w *world, root slip.Object) slip.Object) func(w *world, root slip.Object) (slip.Object, bool) {
		return func(w *world, root slip.Object) (slip.Object, bool) {
			var r slip.Object
			if repl != nil {
				r = repl(w, root)
			}
			return sfEdit(root, path, how, r)
		}
	}
	// the unmutated form first (it must be valid: see sf|inventory)
	one("none", func(w *world, root slip.Object) (slip.Object, bool) { return root, true })
	for _, how := range []string{"delete", "wrap", "splice", "dup", "tail"} {
		one(how, edit(how, nil))
	}
	for _, a := range sfAtoms() {
		a := a
		one(a.name, edit("replace", func(*world, slip.Object) slip.Object { return sfCopy(a.form) }))
	}
	for _, wd := range sfWords {
		wd := wd
		one("word "+wd, edit("replace", func(*world, slip.Object) slip.Object {
			code := slip.ReadString(wd, slip.NewScope())
			return code[0]
		}))
	}
	// a copy of every other subtree of the form
	if root0, ok := sfRead(text, 0); ok {
		self, _ := sfAt(root0, path)
		selfKey := slip.ObjectString(self)
		for i, st := range sfSubtrees(root0) {
			if slip.ObjectString(st) == selfKey {
				continue
			}
			i := i
			one("copy of "+digest(slip.ObjectString(st), 60), edit("replace", func(_ *world, root slip.Object) slip.Object {
				subs := sfSubtrees(root)
				if len(subs) <= i {
					return nil
				}
				return sfCopy(subs[i])
			}))
		}
	}
	for _, pn := range poolNames() {
		pn := pn
		one("pool object "+pn, edit("replace", func(w *world, _ slip.Object) slip.Object { return w.build(pn) }))
	}
	res.Nontrivial = true
	res.Outcome = digestCounts(outcomes)
	checkPoison(&res, "form fn="+fn, spec)
	return
}

// sfDefinesClasses: the functions whose mutants can leave a class behind.
var sfDefinesClasses = map[string]bool{"clos:defclass": true, "clos:define-condition": true, "common-lisp:defstruct": true, "flavors:defflavor": true,
	"flavors:defwhopper": true, "generic:defmethod": true, "generic:defgeneric": true, "flavors:flosfun": true}

var sfTracked map[string]*slip.FuncInfo

// sfTrack records (once per process, before any mutant ran) what every function name that occurs in a template,
// and a few the harness itself relies on, means in cl-user.
func sfTrack() {
	if sfTracked != nil {
		return
	}
	sfTracked = map[string]*slip.FuncInfo{}
	add := func(n string) {
		if fi := slip.FindFunc(n, &slip.UserPkg); fi != nil {
			sfTracked[n] = fi
		}
	}
	for _, n := range []string{"list", "car", "cdr", "cons", "funcall", "function", "quote", "lambda", "setf", "values", "progn", "eval", "defclass",
		"defflavor", "make-instance", "find-method", "find-class", "let", "if", "defun", "defvar", "make-string-input-stream", "make-channel",
		"channel-push", "make-condition", "defgeneric", "defmethod", "c09tick", "c09ready", "c09gfix"} {
		add(n)
	}
	var walk func(o slip.Object)
	walk = func(o slip.Object) {
		switch t := sfUntail(o).(type) {
		case slip.Symbol:
			add(strings.ToLower(string(t)))
		case slip.List:
			for _, e := range t {
				walk(e)
			}
		}
	}
	for _, texts := range sfTemplates {
		for _, text := range texts {
			if root, ok := sfRead(text, 0); ok {
				walk(root)
			}
		}
	}
}

func sfWorldOK() bool {
	for n, fi := range sfTracked {
		if slip.FindFunc(n, &slip.UserPkg) != fi {
			return false
		}
	}
	return true
}

// sfMerge adds the result of the resumed part of a case to the first part.
func sfMerge(res, next *engine.Result) {
	have := map[string]bool{}
	for _, f := range res.Failures {
		have[f.Sig] = true
	}
	for _, f := range next.Failures {
		if !have[f.Sig] {
			res.Failures = append(res.Failures, f)
		}
	}
	if res.Counters == nil {
		res.Counters = map[string]int{}
	}
	for k, v := range next.Counters {
		if k == "sform-resume-at" {
			res.Counters[k] = v
		} else {
			res.Counters[k] += v
		}
	}
	res.Outcome += "+ " + next.Outcome
	res.Nontrivial = res.Nontrivial || next.Nontrivial
}

// sfRegistryOK: can a class still be defined? (A class left behind with a superclass of the wrong kind makes every
// later defclass / define-condition raise that class's error.)
func sfRegistryOK() bool {
	slip.CurrentPackage = &slip.UserPkg
	_, err := lispEvalIn(slip.NewScope(), fmt.Sprintf("(progn (defclass c09s%dk () ()) (defflavor c09s%dl () ()) t)", nextID(), nextID()))
	return err == nil
}

// sfTiming (development aid): logs the time a case took.
func sfTiming(res *engine.Result, spec string) func() {
	t0 := time.Now()
	return func() {
		logLine(fmt.Sprintf("TIMING\t%d\t%d\t%s", time.Since(t0).Microseconds(), res.Counters["sform-evals"], spec))
	}
}

// sfShow renders a form for a failure detail without trusting slip's printer with odd objects.
func sfShow(o slip.Object) (s string) {
	defer func() {
		if rec := recover(); rec != nil {
			s = fmt.Sprintf("#<unprintable form: %v>", rec)
		}
	}()
	return slip.ObjectString(o)
}

func execSFText(spec, ktext string) (res engine.Result) {
	k, err := strconv.Atoi(ktext)
	if err != nil || k < 0 || len(sfTexts) <= k {
		res.Fail("harness:bad-spec", spec)
		return
	}
	if os.Getenv("C09_CHILD") == "" {
		return isolatedCase(spec, "form text="+ktext, "read and evaluated: "+sfTexts[k], "sform-cases", false)
	}
	res.Hit("sform-cases")
	res.Hit("sform-text-cases")
	leave := enter(false)
	defer leave()
	ensureSFFixtures()
	src := sfTexts[k]
	scope := sfScope()
	var form slip.Object
	rd := observe(func() slip.Object {
		code := slip.ReadString(src, scope)
		form = nil
		if 0 < len(code) {
			form = code[0]
		}
		return nil
	})
	o := rd
	if rd.kind == "value" && form != nil {
		var budget bool
		if o, budget = sfRun(scope, form); budget {
			res.Hit("sform-budget")
			res.Outcome = "budget"
			return
		}
	}
	res.Hit("sform-evals")
	judgeCall(&res, o, &realClassifier, "form text="+strconv.Itoa(k), "read and evaluated: "+src)
	switch o.kind {
	case "value":
		res.Hit("sform-value")
	case "condition":
		res.Hit("sform-condition")
	}
	checkPoison(&res, "form text="+strconv.Itoa(k), spec)
	return
}

func execSFInventory() (res engine.Result) {
	leave := enter(false)
	defer leave()
	ensureSFFixtures()
	var missing, stale, invalid []string
	macros := map[string]bool{}
	for _, n := range sfMacroNames() {
		macros[n] = true
		res.Hit("sform-functions")
		if len(sfTemplates[n]) == 0 && sfExcused[n] == "" {
			missing = append(missing, n)
		}
		if sfExcused[n] != "" {
			res.Hit("sform-functions-excused")
		}
	}
	names := make([]string, 0, len(sfTemplates))
	for n := range sfTemplates {
		names = append(names, n)
	}
	sort.Strings(names)
	positions := 0
	maxSteps, maxName := 0, ""
	for _, n := range names {
		if !macros[n] {
			stale = append(stale, n)
		}
		for _, text := range sfTemplates[n] {
			root, ok := sfRead(text, nextID())
			if !ok {
				invalid = append(invalid, n+": unreadable "+text)
				continue
			}
			positions += len(sfPaths(root))
			w := &world{scope: sfScope()}
			before := sfSteps
			o, budget := sfRun(w.scope, root)
			w.done()
			if maxSteps < sfSteps-before {
				maxSteps, maxName = sfSteps-before, n
			}
			switch {
			case budget:
				invalid = append(invalid, n+": "+text+" => budget exceeded")
			case o.kind == "condition" && sfRaises[n] != "" && realClassifier.classify(o) == "":
				res.Hit("sform-templates-raise-by-design")
			case o.kind != "value":
				invalid = append(invalid, n+": "+text+" => "+digest(o.describe(), 200))
			default:
				res.Hit("sform-templates-valid")
			}
		}
	}
	res.Nontrivial = true
	res.Outcome = fmt.Sprintf("functions=%d templates=%d positions=%d missing=%v stale=%v invalid=%d most-steps=%d(%s)", len(macros), len(names), positions, missing, stale, len(invalid), maxSteps, maxName)
	if 0 < len(missing) {
		res.Fail("harness:form-without-template", "functions that skip argument evaluation without a template or an excuse in sforms.go: "+strings.Join(missing, " "))
	}
	if 0 < len(stale) {
		res.Fail("harness:form-template-stale", "templates for functions that do not skip argument evaluation (any more): "+strings.Join(stale, " "))
	}
	if 0 < len(invalid) {
		res.Fail("harness:form-template-invalid", "templates that do not evaluate to a value: "+strings.Join(invalid, " ;; "))
	}
	return
}

func sfTemplateCount() (n int) {
	for _, t := range sfTemplates {
		n += len(t)
	}
	return
}
