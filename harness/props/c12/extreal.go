package c12

import (
	"fmt"
	"strings"

	"github.com/ohler55/slip"

	"verif/lisp"
)

// extreal.go: the extended probes (case flag x) on the real slip.

func (w *realWorld) setExt() { w.ext = true }

// extMethods: the further methods an ext run defines after (defclass ci ...): :after and :around on g,
// and :after methods on initialize-instance and shared-initialize that log what they see.
func (w *realWorld) extMethodsText(i int) string {
	g := w.fn("g")
	c, n := w.cn(i), cname(i)
	d := dumpExpr("x")
	return fmt.Sprintf("(progn (defmethod %s :before ((x %s)) (tr 'b-%s)) (defmethod %s ((x %s)) '%s)"+
		" (defmethod %s :after ((x %s)) (tr 'a-%s)) (defmethod %s :around ((x %s)) (tr 'r-%s) (call-next-method))"+
		" (defmethod initialize-instance :after ((x %s) &rest args) (if *c12-log* (progn (tr 'in-%s) (tr %s))))"+
		" (defmethod shared-initialize :after ((x %s) names &rest args) (if *c12-log* (progn (tr 'sh-%s) (tr %s)))))",
		g, c, n, g, c, n, g, c, n, g, c, n, c, n, d, c, n, d)
}

func (w *realWorld) removeExtMethods(i int) {
	c := w.cn(i)
	_, _ = w.eval(fmt.Sprintf("(remove-method 'initialize-instance (find-method 'initialize-instance '(:after) '(%s)))", c))
	_, _ = w.eval(fmt.Sprintf("(remove-method 'shared-initialize (find-method 'shared-initialize '(:after) '(%s t)))", c))
}

// makeLogged: make-instance with the :after methods of shared-initialize / initialize-instance logging (they are silent otherwise: time).
func (w *realWorld) makeLogged(i int, sigma []string) (int, string) {
	_, _ = w.eval("(setq *c12-log* t)")
	h, res := w.make(i, sigma)
	_, _ = w.eval("(setq *c12-log* nil)")
	return h, res
}

// initTrace: which :after methods of shared-initialize / initialize-instance the last make ran, in order, and whether
// each of them saw the slots in the state the finished instance h has.
func (w *realWorld) initTrace(h int) string {
	var names, dumps []string
	parts := strings.Split(w.lastIn, ";")
	for k := 0; k < len(parts); k++ {
		p := parts[k]
		if strings.HasPrefix(p, "sh-") || strings.HasPrefix(p, "in-") {
			names = append(names, p)
			if k+1 < len(parts) {
				dumps = append(dumps, parts[k+1])
				k++
			} else {
				dumps = append(dumps, "?")
			}
		} else if p != "" {
			names = append(names, "?"+p)
			dumps = append(dumps, "?")
		}
	}
	w.bind("vi", h)
	val, e := w.eval(dumpExpr("vi"))
	if e != "" {
		return e
	}
	fin := w.canon(lisp.Show(val))
	saw := "final"
	for k, d := range dumps {
		if d != fin {
			saw = "other-state-in-" + names[k][:2]
			break
		}
	}
	return strings.Join(names, ",") + " saw=" + saw
}

func (w *realWorld) dumpOf(v string) (string, string) {
	val, e := w.eval(dumpExpr(v))
	if e != "" {
		return "", e
	}
	return strings.Join(w.states(val), ","), ""
}

// slotops: slot-makunbound, the reader on the unbound slot, (setf slot-value), with-slots (read and setq) on instance hx;
// hy is a second instance that must not move.
func (w *realWorld) slotops(hx, hy int, slot string) string {
	w.bind("vx", hx)
	w.bind("vy", hy)
	dx, dy := dumpExpr("vx"), dumpExpr("vy")
	var out []string
	j := func(o slip.Object) string { return strings.Join(w.states(o), ",") }
	val, e := w.eval(fmt.Sprintf("(list %s %s (progn (slot-makunbound vx '%s) %s) %s)", dx, dy, slot, dx, dy))
	if e != "" {
		return e + "@slot-makunbound"
	}
	l, ok := val.(slip.List)
	if !ok || len(l) != 4 {
		return "ERR:malformed"
	}
	out = append(out, "x0="+j(l[0]), "y0="+j(l[1]), "x1="+j(l[2]), "y1="+j(l[3]))
	rv, e := w.eval(fmt.Sprintf("(%s vx)", w.fn("rd-"+slot)))
	switch {
	case isGoFault(e):
		out = append(out, "rd=gofault")
	case e != "":
		out = append(out, "rd=err")
	case rv == slip.Unbound:
		out = append(out, "rd=unbound-marker")
	default:
		out = append(out, "rd=v:"+w.canon(lisp.Show(rv)))
	}
	val, e = w.eval(fmt.Sprintf("(list (progn (setf (slot-value vx '%s) 903) %s) %s (with-slots (%s) vx %s) (progn (with-slots ((zz %s)) vx (setq zz 904)) %s) %s)",
		slot, dx, dy, slot, slot, slot, dx, dy))
	if e != "" {
		return e + "@setf-slot-value/with-slots"
	}
	l, ok = val.(slip.List)
	if !ok || len(l) != 5 {
		return "ERR:malformed"
	}
	out = append(out, "x2="+j(l[0]), "y2="+j(l[1]), "ws=v:"+w.canon(lisp.Show(l[2])), "x3="+j(l[3]), "y3="+j(l[4]))
	return strings.Join(out, ";")
}

func (w *realWorld) subtypeps(i, n int) string {
	var b strings.Builder
	b.WriteString("(list")
	for j := 0; j < n; j++ {
		fmt.Fprintf(&b, " (subtypep '%s '%s)", w.cn(i), w.cn(j))
	}
	b.WriteByte(')')
	val, e := w.eval(b.String())
	if e != "" {
		return e
	}
	l, ok := val.(slip.List)
	if !ok || len(l) != n {
		return "ERR:malformed"
	}
	var out []string
	for j := 0; j < n; j++ {
		out = append(out, cname(j)+"="+tn(l[j]))
	}
	return strings.Join(out, " ")
}

// share: a class slot. hx and hy are instances of one class; others are instances of other classes.
func (w *realWorld) share(hx, hy int, others []int, slot string, cls int) string {
	w.bind("vx", hx)
	w.bind("vy", hy)
	before := make([]string, len(others))
	for k, h := range others {
		w.bind("vz", h)
		before[k], _ = w.dumpOf("vz")
	}
	dx, dy := dumpExpr("vx"), dumpExpr("vy")
	val, e := w.eval(fmt.Sprintf("(list %s %s (progn (setf (slot-value vx '%s) 905) %s) %s)", dx, dy, slot, dx, dy))
	if e != "" {
		return e + "@setf-slot-value"
	}
	l, ok := val.(slip.List)
	if !ok || len(l) != 4 {
		return "ERR:malformed"
	}
	j := func(o slip.Object) string { return strings.Join(w.states(o), ",") }
	out := []string{"x0=" + j(l[0]), "y0=" + j(l[1]), "x1=" + j(l[2]), "y1=" + j(l[3])}
	for k, h := range others {
		w.bind("vz", h)
		after, e := w.dumpOf("vz")
		if e != "" {
			after = e
		}
		out = append(out, fmt.Sprintf("o%d=%s>%s", k, before[k], after))
	}
	hz, res := w.make(cls, nil)
	if res != "ok" {
		return res + "@make-instance"
	}
	w.bind("vz", hz)
	val, e = w.eval(fmt.Sprintf("(list %s %s)", dumpExpr("vz"), dy))
	if e != "" {
		return e + "@after-make-instance"
	}
	l, ok = val.(slip.List)
	if !ok || len(l) != 2 {
		return "ERR:malformed"
	}
	out = append(out, "z="+j(l[0]), "y2="+j(l[1]))
	return strings.Join(out, ";")
}

// changeClass: (change-class inst 'cj), then slots, class-of and typep in one program, and the generic call.
func (w *realWorld) changeClass(h, j, n int) string {
	w.bind("vi", h)
	var b strings.Builder
	fmt.Fprintf(&b, "(progn (change-class vi '%s) (list %s (eq (class-of vi) (find-class '%s)) (class-name (class-of vi))", w.cn(j), dumpExpr("vi"), w.cn(j))
	for k := 0; k < n; k++ {
		fmt.Fprintf(&b, " (typep vi '%s)", w.cn(k))
	}
	b.WriteString(" (typep vi 'standard-object)))")
	val, e := w.eval(b.String())
	if e != "" {
		return "res=" + e
	}
	l, ok := val.(slip.List)
	if !ok || len(l) != n+4 {
		return "res=ERR:malformed"
	}
	var tp []string
	for k := 0; k < n; k++ {
		tp = append(tp, cname(k)+"="+tn(l[3+k]))
	}
	tp = append(tp, "so="+tn(l[3+n]))
	return fmt.Sprintf("res=ok;after=%s;cof=eq=%s name=%s;typep=%s;disp=%s", strings.Join(w.states(l[0]), ","), tn(l[1]), w.canon(lisp.Show(l[2])),
		strings.Join(tp, " "), w.dispatch(h))
}

func (w *realWorld) oldInst(i int) (int, bool) {
	h, ok := w.old[i]
	return h, ok
}

// precOf: (class-precedence (class-of inst)).
func (w *realWorld) precOf(h int) string {
	w.bind("vi", h)
	val, e := w.eval("(class-precedence (class-of vi))")
	if e != "" {
		return e
	}
	l, ok := val.(slip.List)
	if !ok || len(l) == 0 {
		return "nil"
	}
	var out []string
	for _, x := range l {
		out = append(out, w.canon(lisp.Show(x)))
	}
	return strings.Join(out, " ")
}

// flushDispatch adds an unrelated method to g, which empties its effective-method cache.
func (w *realWorld) flushDispatch() {
	_, _ = w.eval(fmt.Sprintf("(defmethod %s :before ((x fixnum)) nil)", w.fn("g")))
}
