//go:build verif

// Read-only accessors added to package generic by `go build -overlay` for the
// C10 verification harness. Nothing here changes behaviour; the file is never
// part of a normal build (build tag verif, not present in the repository).

package generic

import (
	"fmt"
	"sort"
	"strings"

	"github.com/ohler55/slip"
)

// VerifAuxState is a dump of the private dispatch state of one generic
// function: the method table, the effective-method cache and the
// single-method fast path.
type VerifAuxState struct {
	Found      bool
	ReqCnt     int
	DefaultKey string
	// Methods: key -> one entry per combination held by the table entry.
	Methods map[string][]VerifCombo
	// Cache: key -> the combinations of the cached effective method, in
	// call order. Live names the method-table key whose combination object
	// (pointer identity) the cached entry shares, "" when it is a detached
	// (stale) object.
	Cache map[string][]VerifCombo
	// Default describes defaultCaller: "" when nil, else the label of the
	// caller; DefaultLive tells whether it is the very caller stored as the
	// primary of methods[defaultKey].
	Default     string
	DefaultLive bool
	// MethodDocTypes: key -> the '|'-joined Type fields of the required
	// arguments in the table entry's Doc (what remove-method rebuilds its key
	// from).
	MethodDocTypes map[string]string
}

// VerifCombo describes one *slip.Combination.
type VerifCombo struct {
	Live                         string // method-table key sharing this object ("" = detached)
	Primary, Before, After, Wrap string // label of the caller or ""
}

func verifLabel(c slip.Caller) string {
	switch tc := c.(type) {
	case nil:
		return ""
	case *slip.Lambda:
		if tc == nil {
			return ""
		}
		return tc.Forms.String()
	default:
		return fmt.Sprintf("%T", c)
	}
}

func verifCombo(c *slip.Combination, live string) VerifCombo {
	return VerifCombo{
		Live:    live,
		Primary: verifLabel(c.Primary),
		Before:  verifLabel(c.Before),
		After:   verifLabel(c.After),
		Wrap:    verifLabel(c.Wrap),
	}
}

// VerifAux returns the dump for the generic function called name in the
// current package.
func VerifAux(name string) (st VerifAuxState) {
	fi := slip.FindFunc(name)
	if fi == nil {
		return
	}
	aux, _ := fi.Aux.(*Aux)
	if aux == nil {
		return
	}
	aux.moo.Lock()
	defer aux.moo.Unlock()
	st.Found = true
	st.ReqCnt = aux.reqCnt
	st.DefaultKey = aux.defaultKey
	st.Methods = map[string][]VerifCombo{}
	st.Cache = map[string][]VerifCombo{}
	st.MethodDocTypes = map[string]string{}
	owner := map[*slip.Combination]string{}
	for k, m := range aux.methods {
		list := []VerifCombo{}
		for i, c := range m.Combinations {
			name := k
			if 0 < i {
				name = fmt.Sprintf("%s#%d", k, i)
			}
			owner[c] = name
			list = append(list, verifCombo(c, name))
		}
		st.Methods[k] = list
		if m.Doc != nil {
			var types []string
			for i, da := range m.Doc.Args {
				if aux.reqCnt <= i {
					break
				}
				types = append(types, da.Type)
			}
			st.MethodDocTypes[k] = strings.Join(types, "|")
		}
	}
	for k, m := range aux.cache {
		list := []VerifCombo{}
		if m != nil {
			for _, c := range m.Combinations {
				list = append(list, verifCombo(c, owner[c]))
			}
		}
		st.Cache[k] = list
	}
	if aux.defaultCaller != nil {
		st.Default = verifLabel(aux.defaultCaller)
		if st.Default == "" {
			st.Default = "?"
		}
		if m := aux.methods[aux.defaultKey]; m != nil && 0 < len(m.Combinations) {
			st.DefaultLive = m.Combinations[0].Primary == aux.defaultCaller
		}
	}
	return
}

// VerifPath tells which way Aux.Call would take for a call whose cache key is
// key: "default" (single-method fast path), "hit" (effective method cached) or
// "miss". Cheap: used before every call.
func VerifPath(name, key string) string {
	fi := slip.FindFunc(name)
	if fi == nil {
		return "?"
	}
	aux, _ := fi.Aux.(*Aux)
	if aux == nil {
		return "?"
	}
	aux.moo.Lock()
	defer aux.moo.Unlock()
	if aux.defaultCaller != nil {
		return "default"
	}
	if aux.cache[key] != nil {
		return "hit"
	}
	return "miss"
}

// String renders the dump deterministically (sorted keys).
func (st VerifAuxState) String() string {
	if !st.Found {
		return "<no generic function>"
	}
	var b strings.Builder
	fmt.Fprintf(&b, "req=%d dk=%s\n", st.ReqCnt, st.DefaultKey)
	dump := func(title string, m map[string][]VerifCombo) {
		keys := make([]string, 0, len(m))
		for k := range m {
			keys = append(keys, k)
		}
		sort.Strings(keys)
		b.WriteString(title)
		b.WriteByte('\n')
		for _, k := range keys {
			fmt.Fprintf(&b, " %s:", k)
			for _, c := range m[k] {
				fmt.Fprintf(&b, " [@%s P=%s B=%s A=%s W=%s]", c.Live, c.Primary, c.Before, c.After, c.Wrap)
			}
			b.WriteByte('\n')
		}
	}
	dump("methods", st.Methods)
	dump("cache", st.Cache)
	fmt.Fprintf(&b, "default=%s live=%v\n", st.Default, st.DefaultLive)
	return b.String()
}
