package main

import (
	"fmt"
	"os"
	"runtime/debug"

	"github.com/ohler55/slip"
	_ "github.com/ohler55/slip/pkg"
	"verif/lisp"
)

func main() {
	src := os.Args[1]
	func() {
		defer func() {
			if rec := recover(); rec != nil {
				e := lisp.ErrFromRecovered(rec)
				fmt.Printf("ERR %s | gofault=%v raw=%s hier=%v\n", e.String(), e.GoFault, e.Raw, e.Hier)
				if p, ok := rec.(*slip.Panic); ok {
					fmt.Printf("value=%v\n", p.Value)
				}
				if len(os.Args) > 2 {
					fmt.Printf("%s\n", debug.Stack())
				}
			}
		}()
		scope := slip.NewScope()
		code := slip.ReadString(src, scope)
		r := code.Eval(scope, nil)
		fmt.Printf("VAL %s\n", lisp.Show(r))
	}()
}
