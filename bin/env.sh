# sourced by bin/check and bin/setup: offline Go environment for the harness module
export GOFLAGS=-mod=mod GOPROXY=off
unset GOSUMDB 2>/dev/null || true
export VERIF_DIR=/verif
# Development aid (seeded-change runs while /repo is in use): VERIF_REPO points the build at another
# checkout of slip, VERIF_BUILD_DIR / VERIF_OUT keep its binaries and evidence apart. The registered
# commands never set them: they build from /repo and write /verif/evidence.
export VERIF_REPO=${VERIF_REPO:-/repo}
export BUILD_DIR=${VERIF_BUILD_DIR:-/verif/.build}
mkdir -p "$BUILD_DIR/scratch" /verif/evidence /verif/replays
# /repo needs go >= 1.25: the default go switches to the cached go1.25.0 toolchain by itself
# (GOTOOLCHAIN=auto); if that ever fails fall back to the cached toolchain binaries directly.
GO=go
if ! (cd /repo && go version 2>/dev/null | grep -qE 'go1\.(2[5-9]|[3-9][0-9])'); then
  for cand in /root/go/pkg/mod/golang.org/toolchain@v0.0.1-go1.25.0.linux-amd64/bin/go /usr/local/bin/go1.26 /opt/veriftools/go1.26.8/bin/go; do
    if [ -x "$cand" ]; then GO="$cand"; export GOTOOLCHAIN=local; break; fi
  done
fi
export GO
