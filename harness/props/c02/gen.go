package c02

import (
	"math"
	"math/big"
	"strconv"
	"strings"
	"time"
)

// cfg is a reader configuration.
type cfg struct {
	base int    // *read-base*
	ff   string // *read-default-float-format*
}

var defaultCfg = cfg{base: 10, ff: "double-float"}

// tok is one entry of the token table: a source text, a per-byte annotation
// of the lexical class of every byte (used to name the lexer context at a cut
// or truncation point), and the object the text denotes under a reader
// configuration (nil = the grammar rules written here leave it unspecified;
// then only agreement between deliveries is demanded).
//
// annotation letters:
//
//	t token byte          w white space          ( ) structural parens
//	q quote-like prefix   S s Z string open/body/close
//	E backslash  e escape payload (not last; the last payload byte carries the body letter)
//	P p Y |symbol| open/body/close
//	# sharp dispatch prefix (not last)   D last dispatch byte before a sub-token (#\ #x #3r #*)
//	h character name   x radix digits   b bits   ; line comment   B block comment
type tok struct {
	class string
	text  string
	ann   string
	den   func(c cfg) *cv
}

func rep(ch byte, n int) string { return strings.Repeat(string(ch), n) }

func digitVal(ch byte) int {
	switch {
	case '0' <= ch && ch <= '9':
		return int(ch - '0')
	case 'a' <= ch && ch <= 'z':
		return int(ch-'a') + 10
	case 'A' <= ch && ch <= 'Z':
		return int(ch-'A') + 10
	}
	return 99
}

func allDigits(s string, base int) bool {
	if s == "" {
		return false
	}
	for i := 0; i < len(s); i++ {
		if base <= digitVal(s[i]) {
			return false
		}
	}
	return true
}

func splitSign(s string) (neg bool, body string) {
	if 1 < len(s) && (s[0] == '+' || s[0] == '-') {
		return s[0] == '-', s[1:]
	}
	return false, s
}

func parseBig(s string, base int) *big.Int {
	n, ok := new(big.Int).SetString(strings.ToLower(s), base)
	if !ok {
		panic("harness: bad integer " + s)
	}
	return n
}

func floatLeaf(format string, f float64) *cv {
	switch format {
	case "single-float", "short-float":
		return leaf("sf", fmtF(float64(float32(f)), 32))
	case "long-float":
		// slip gives a long float a precision proportional to the number of digits written; only values
		// that are exact with 3 bits of mantissa are demanded exactly
		if m, _ := math.Frexp(f); m*8 != math.Trunc(m*8) {
			return nil
		}
		return leaf("lf", new(big.Float).SetFloat64(f).Text('g', 18))
	}
	return leaf("df", fmtF(f, 64))
}

// atomDen is the hand-written reading of an unquoted token (Common Lisp
// 2.3.1 restricted to what is unambiguous; everything doubtful is nil).
func atomDen(text string, c cfg) *cv {
	lower := strings.ToLower(text)
	if lower[0] == '@' {
		for _, layout := range []string{time.RFC3339Nano, "2006-01-02T15:04:05", "2006-01-02"} {
			if t, err := time.ParseInLocation(layout, text[1:], time.UTC); err == nil {
				return leaf("time", t.UTC().Format(time.RFC3339Nano))
			}
		}
		return nil
	}
	neg, body := splitSign(lower)
	if allDigits(body, c.base) {
		if lower == "t" || lower == "nil" {
			return nil // digits in this base and the constant: not decided here
		}
		n := parseBig(body, c.base)
		if neg {
			n.Neg(n)
		}
		return cvInt(n)
	}
	switch lower {
	case "t":
		return leaf("t", "")
	case "nil":
		return leaf("nil", "")
	}
	if strings.HasSuffix(body, ".") && allDigits(body[:len(body)-1], 10) {
		if c.base != 10 {
			return nil
		}
		n := parseBig(body[:len(body)-1], 10)
		if neg {
			n.Neg(n)
		}
		return cvInt(n)
	}
	if i := strings.IndexByte(body, '/'); 0 < i {
		num, den := body[:i], body[i+1:]
		if allDigits(num, c.base) && allDigits(den, c.base) {
			n, d := parseBig(num, c.base), parseBig(den, c.base)
			if d.Sign() == 0 {
				return nil
			}
			if neg {
				n.Neg(n)
			}
			r := new(big.Rat).SetFrac(n, d)
			if r.IsInt() {
				return nil // integer or ratio n/1: representation not demanded
			}
			return leaf("ratio", r.Num().String()+"/"+r.Denom().String())
		}
	}
	if f, format, ok := floatSyntax(body, c); ok {
		if neg {
			f = -f
		}
		return floatLeaf(format, f)
	}
	// anything else that starts like a number is left undecided
	if body[0] == '.' || ('0' <= body[0] && body[0] <= '9') {
		if lower == "1+" || lower == "1-" {
			return leaf("sym", text)
		}
		return nil
	}
	return leaf("sym", text)
}

// floatSyntax: d+ . d+ [exp] | d+ [. d*] exp, decimal digits only.
func floatSyntax(body string, c cfg) (float64, string, bool) {
	i := 0
	for i < len(body) && '0' <= body[i] && body[i] <= '9' {
		i++
	}
	if i == 0 {
		return 0, "", false
	}
	mant := body[:i]
	rest := body[i:]
	frac := false
	if strings.HasPrefix(rest, ".") {
		j := 1
		for j < len(rest) && '0' <= rest[j] && rest[j] <= '9' {
			j++
		}
		frac = 1 < j
		mant += rest[:j]
		rest = rest[j:]
	}
	format := c.ff
	exp := ""
	if rest != "" {
		switch rest[0] {
		case 'e':
		case 's':
			format = "short-float"
		case 'f':
			format = "single-float"
		case 'd':
			format = "double-float"
		case 'l':
			format = "long-float"
		default:
			return 0, "", false
		}
		e := rest[1:]
		_, eb := splitSign(e)
		if !allDigits(eb, 10) {
			return 0, "", false
		}
		exp = "e" + e
	} else if !frac {
		return 0, "", false
	}
	f, err := strconv.ParseFloat(strings.TrimSuffix(mant, ".")+exp, 64)
	if err != nil {
		return 0, "", false
	}
	return f, format, true
}

// ------------------------------------------------------------ constructors

func atom(text string) tok {
	cl := "symbol"
	if d := atomDen(text, defaultCfg); d != nil {
		switch d.k {
		case "fix", "big":
			cl = "integer"
		case "ratio":
			cl = "ratio"
		case "sf", "df", "lf":
			cl = "float"
		case "time":
			cl = "time"
		case "t", "nil":
			cl = "constant"
		}
	} else {
		cl = "number-like"
	}
	return tok{class: cl, text: text, ann: rep('t', len(text)), den: func(c cfg) *cv { return atomDen(text, c) }}
}

// delimited annotates a "..." or |...| token; escapes are \x and \uXXXX.
func delimited(src string, open, body, close byte) string {
	ann := []byte(rep(body, len(src)))
	ann[0] = open
	ann[len(src)-1] = close
	for i := 1; i < len(src)-1; i++ {
		if src[i] != '\\' {
			continue
		}
		ann[i] = 'E'
		n := 1
		if src[i+1] == 'u' {
			n = 5
		}
		for j := 1; j <= n; j++ {
			ann[i+j] = 'e'
		}
		ann[i+n] = body // after the last payload byte the lexer is back in the body
		i += n
	}
	return string(ann)
}

func str(src, val string) tok {
	return tok{class: "string", text: src, ann: delimited(src, 'S', 's', 'Z'), den: func(cfg) *cv { return leaf("str", val) }}
}

func pipe(src, name string) tok {
	return tok{class: "pipe-symbol", text: src, ann: delimited(src, 'P', 'p', 'Y'), den: func(cfg) *cv { return leaf("sym", name) }}
}

func chr(src string, r rune) tok {
	return tok{class: "character", text: src, ann: "#D" + rep('h', len(src)-2),
		den: func(cfg) *cv { return canonRune(r) }}
}

func canonRune(r rune) *cv {
	const hexd = "0123456789ABCDEF"
	s := ""
	for v := r; 0 < v; v >>= 4 {
		s = string(hexd[v&0xf]) + s
	}
	for len(s) < 4 {
		s = "0" + s
	}
	return leaf("chr", "U+"+s)
}

// radix: #b101 #o17 #xFF #3r12 — prefix is everything up to and including the letter.
func radix(src string, prefixLen int, v int64) tok {
	return tok{class: "radix-integer", text: src, ann: rep('#', prefixLen-1) + "D" + rep('x', len(src)-prefixLen),
		den: func(cfg) *cv { return cvInt(big.NewInt(v)) }}
}

func bits(src string) tok {
	return tok{class: "bit-vector", text: src, ann: "#D" + rep('b', len(src)-2), den: func(cfg) *cv { return leaf("bits", src[2:]) }}
}

// seq builds open + kids separated by one space + ")" ; mk builds the denotation from the kids'.
func seq(class, open, openAnn string, kids []tok, mk func(kids []*cv) *cv) tok {
	text, ann := open, openAnn
	for i, k := range kids {
		if 0 < i {
			text += " "
			ann += "w"
		}
		text += k.text
		ann += k.ann
	}
	text += ")"
	ann += ")"
	return tok{class: class, text: text, ann: ann, den: func(c cfg) *cv {
		var ds []*cv
		for _, k := range kids {
			d := k.den(c)
			if d == nil {
				return nil
			}
			ds = append(ds, d)
		}
		return mk(ds)
	}}
}

func list(kids ...tok) tok {
	return seq("list", "(", "(", kids, func(ds []*cv) *cv { return cvList(ds...) })
}

// dotted: (a b . c) — the token before the last is the dot.
func dotted(kids ...tok) tok {
	n := len(kids)
	withDot := append(append([]tok{}, kids[:n-1]...), tok{text: ".", ann: "t", den: func(cfg) *cv { return leaf("dot", "") }}, kids[n-1])
	return seq("dotted-list", "(", "(", withDot, func(ds []*cv) *cv {
		m := len(ds)
		out := append([]*cv{}, ds[:m-2]...)
		out = append(out, &cv{k: "tail", kids: []*cv{ds[m-1]}})
		return &cv{k: "list", kids: out}
	})
}

func vec(kids ...tok) tok {
	return seq("vector", "#(", "#(", kids, func(ds []*cv) *cv { return &cv{k: "vec", kids: ds} })
}

func arr2(rows ...tok) tok {
	return seq("array", "#2A(", "###(", rows, func(ds []*cv) *cv {
		out := &cv{k: "arr"}
		cols := 0
		for _, r := range ds {
			cols = len(r.kids)
			out.kids = append(out.kids, r)
		}
		out.s = "[" + strconv.Itoa(len(ds)) + " " + strconv.Itoa(cols) + "]"
		return out
	})
}

// cpx: #C(re im) — both parts real numbers; the denotation is the complex of their double values.
func cpx(open string, re, im tok) tok {
	return seq("complex", open, "##(", []tok{re, im}, func(ds []*cv) *cv { return cvComplex(ds) })
}

// cvComplex: the complex number made of two real denotations (nil when a part is not a real number in
// the configuration at hand, e.g. the digit 2 under *read-base* 2).
func cvComplex(ds []*cv) *cv {
	if len(ds) != 2 {
		return nil
	}
	var parts []*cv
	for _, d := range ds {
		var f float64
		switch d.k {
		case "fix", "big", "sf", "df", "lf":
			v, err := strconv.ParseFloat(d.s, 64)
			if err != nil {
				return nil
			}
			f = v
		case "ratio":
			r, ok := new(big.Rat).SetString(d.s)
			if !ok {
				return nil
			}
			f, _ = r.Float64()
		default:
			return nil
		}
		parts = append(parts, leaf("df", fmtF(f, 64)))
	}
	return &cv{k: "cpx", kids: parts}
}

// quoted: ' ` , ,@ #' followed by one form.
func quoted(prefix, fn string, kid tok) tok {
	ann := rep('q', len(prefix))
	if prefix == "#'" {
		ann = "#q"
	}
	return tok{class: fn + "-of-" + kid.class, text: prefix + kid.text, ann: ann + kid.ann, den: func(c cfg) *cv {
		d := kid.den(c)
		if d == nil {
			return nil
		}
		return &cv{k: "fn", s: fn, kids: []*cv{d}}
	}}
}

// sym: a symbol-looking token directly after a quote-like prefix. In a
// *read-base* where its letters are digits Common Lisp reads (quote <number>);
// that case is left undecided here (the decided case is the token '12).
func sym(text string) tok {
	return tok{class: "symbol", text: text, ann: rep('t', len(text)), den: func(c cfg) *cv {
		d := atomDen(text, c)
		if d != nil && d.k != "sym" {
			return nil // a number in this base: what 'abc denotes then is not decided here
		}
		return d
	}}
}

// ------------------------------------------------------------ the table

var tokens []tok
var coreTokens []int // indexes of the 12-token core used for triples

func init() {
	a, b := atom("x"), atom("y")
	qa := sym("x") // directly after a quote-like prefix
	add := func(t tok, core bool) {
		if core {
			coreTokens = append(coreTokens, len(tokens))
		}
		tokens = append(tokens, t)
	}
	// symbols and constants
	add(atom("abc"), true)
	add(atom("a.b"), false)
	add(atom(":k"), false)
	add(atom("nil"), false)
	add(atom("t"), false)
	add(atom("1+"), false)
	add(pipe("|x y|", "x y"), true)
	add(pipe(`|a\\b|`, `a\b`), false)
	add(pipe("||", ""), false)
	// strings
	add(str(`"de f"`, "de f"), true)
	add(str(`"a\"b"`, `a"b`), false)
	add(str(`"a\tb"`, "a\tb"), true)
	add(str(`"\u00e9"`, "é"), false)
	add(str(`"é"`, "é"), false)
	add(str(`"😀"`, "😀"), false)
	add(str(`""`, ""), false)
	add(str(`"(;|"`, "(;|"), false)
	// characters
	add(chr(`#\a`, 'a'), true)
	add(chr(`#\Space`, ' '), false)
	add(chr(`#\é`, 'é'), false)
	add(chr(`#\u00e9`, 'é'), false)
	// numbers
	add(atom("12"), true)
	add(atom("-7"), false)
	add(atom("12."), false)
	add(atom("1.5"), true)
	add(atom("1e3"), false)
	add(atom("1.0d0"), false)
	add(atom("2s0"), false)
	add(atom("1.0l0"), false)
	add(atom("2/3"), true)
	add(atom("-10/11"), false)
	add(atom("ff"), false)
	add(atom("12345678901234567890"), false)
	add(radix("#b101", 2, 5), false)
	add(radix("#o17", 2, 15), false)
	add(radix("#xFF", 2, 255), true)
	add(radix("#3r12", 3, 5), false)
	add(atom("@2024-01-01"), false)
	// compound
	add(list(), false)
	add(list(a, b), true)
	add(dotted(a, b), false)
	add(vec(atom("1"), atom("2")), true)
	add(arr2(list(atom("1"), atom("2")), list(atom("3"), atom("4"))), false)
	add(bits("#*101"), true)
	// the parts use the digits 0 and 1 only, so they are numbers under every *read-base*
	add(cpx("#C(", atom("1"), atom("0")), false)
	add(cpx("#c(", atom("1.5"), atom("-1")), false)
	add(cpx("#C(", atom("1/10"), radix("#xFF", 2, 255)), false)
	// quote-like
	add(quoted("'", "quote", qa), true)
	add(quoted("'", "quote", list(a, b)), false)
	add(quoted("#'", "function", sym("car")), false)
	add(quoted("`", "backquote", list(a, quoted(",", "comma", sym("y")), quoted(",@", "commaat", sym("z")))), false)
	add(quoted("'", "quote", pipe("|Foo|", "Foo")), false)
	add(quoted("'", "quote", str(`"s"`, "s")), false)
	add(quoted("'", "quote", atom("12")), false)
	add(quoted("'", "quote", chr(`#\a`, 'a')), false)
	add(quoted("'", "quote", vec(atom("1"))), false)
	add(quoted("'", "quote", quoted("'", "quote", qa)), false)
}

// ------------------------------------------------------------ texts

// sepTable: legal separators between two tokens. "" is legal only when the
// left token ends with a closing delimiter or the right one starts with "(".
type sepT struct{ text, ann string }

var seps = []sepT{
	{" ", "w"},
	{"", ""},
	{"\n", "w"},
	{" ; c\n", "w;;;w"},
	{" #| b |# ", "w#BBBBBBw"},
	{"\t ", "ww"},
	{"\r\n", "ww"},
}

func emptySepLegal(left, right tok) bool {
	switch left.text[len(left.text)-1] {
	case ')', '"', '|':
		return true
	}
	return right.text[0] == '('
}

// ctxTable: where the tokens are placed.
var ctxNames = []string{"top", "list", "vector", "quoted-list", "nested"}

// text is one generated source text with everything the oracle needs.
type text struct {
	src   string
	ann   string
	forms []form // top-level forms in order
	toks  []tok  // the tokens it was built from
	spans []span // where each of those tokens sits in src
}

type span struct{ start, end int }

// tokenClassAt: class of the table token that holds byte k-1 ("" = none).
func (t *text) tokenClassAt(k int) string {
	for i, sp := range t.spans {
		if sp.start < k && k <= sp.end {
			return t.toks[i].class
		}
	}
	return ""
}

type form struct {
	start, end int // byte offsets: [start,end) without leading white space
	class      string
	den        func(c cfg) *cv
}

func build(ctx string, ts []tok, sp []sepT, lead, trail string) text {
	var t text
	t.toks = ts
	put := func(s, a string) { t.src += s; t.ann += a }
	put(lead, rep('w', len(lead)))
	if ctx == "top" {
		for i, k := range ts {
			if 0 < i {
				put(sp[i-1].text, sp[i-1].ann)
			}
			st := len(t.src)
			put(k.text, k.ann)
			t.forms = append(t.forms, form{start: st, end: len(t.src), class: k.class, den: k.den})
			t.spans = append(t.spans, span{st, len(t.src)})
		}
		put(trail, rep('w', len(trail)))
		return t
	}
	// one compound form
	inner := tok{}
	var rel []span
	for i, k := range ts {
		if 0 < i {
			inner.text += sp[i-1].text
			inner.ann += sp[i-1].ann
		}
		rel = append(rel, span{len(inner.text), len(inner.text) + len(k.text)})
		inner.text += k.text
		inner.ann += k.ann
	}
	kidsDen := func(c cfg) []*cv {
		var ds []*cv
		for _, k := range ts {
			d := k.den(c)
			if d == nil {
				return nil
			}
			ds = append(ds, d)
		}
		return ds
	}
	var open, openAnn, close, closeAnn, class string
	var mk func(ds []*cv) *cv
	switch ctx {
	case "list":
		open, openAnn, close, closeAnn, class = "(", "(", ")", ")", "list"
		mk = func(ds []*cv) *cv { return cvList(ds...) }
	case "vector":
		open, openAnn, close, closeAnn, class = "#(", "#(", ")", ")", "vector"
		mk = func(ds []*cv) *cv { return &cv{k: "vec", kids: ds} }
	case "quoted-list":
		open, openAnn, close, closeAnn, class = "'(", "q(", ")", ")", "quote-of-list"
		mk = func(ds []*cv) *cv { return &cv{k: "fn", s: "quote", kids: []*cv{cvList(ds...)}} }
	case "nested":
		open, openAnn, close, closeAnn, class = "(x (", "(tw(", ") y)", ")wt)", "list"
		mk = func(ds []*cv) *cv { return cvList(leaf("sym", "x"), cvList(ds...), leaf("sym", "y")) }
	default:
		panic("harness: unknown context " + ctx)
	}
	st := len(t.src)
	put(open, openAnn)
	for _, sp := range rel {
		t.spans = append(t.spans, span{len(t.src) + sp.start, len(t.src) + sp.end})
	}
	put(inner.text, inner.ann)
	put(close, closeAnn)
	t.forms = append(t.forms, form{start: st, end: len(t.src), class: class, den: func(c cfg) *cv {
		ds := kidsDen(c)
		if ds == nil && 0 < len(ts) {
			return nil
		}
		return mk(ds)
	}})
	put(trail, rep('w', len(trail)))
	return t
}

// cutCtx names the lexer context after the first k bytes of the text
// (0 < k < len): what is open at the lexical level at that point.
func cutCtx(ann string, k int) string {
	l := ann[k-1]
	var n byte = 'w'
	if k < len(ann) {
		n = ann[k]
	}
	switch l {
	case 't':
		if n == 't' {
			return "in-token"
		}
		return "token-end"
	case 'w', '(', ')', 'Z', 'Y':
		return "between"
	case 'q':
		return "after-quote"
	case 'S', 's':
		return "in-string"
	case 'E':
		return "in-escape"
	case 'e':
		return "in-u-escape"
	case 'P', 'p':
		return "in-pipe"
	case '#':
		return "after-sharp"
	case 'D':
		return "after-dispatch"
	case 'h':
		if n == 'h' {
			return "in-char"
		}
		return "char-end"
	case 'x', 'b': // digits after #x #b #o #3r, bits after #*
		if n == l {
			return "in-sharp-number"
		}
		return "sharp-number-end"
	case ';':
		return "in-line-comment"
	case 'B':
		return "in-block-comment"
	}
	return "unknown-" + string(l)
}

// depthAt: list nesting after the first k bytes.
func depthAt(ann string, k int) int {
	d := 0
	for i := 0; i < k; i++ {
		switch ann[i] {
		case '(':
			d++
		case ')':
			d--
		}
	}
	return d
}
