package c04

import (
	"fmt"
	"strconv"
	"strings"
)

// routeMutant = one seeded bug of a call route, an environment or a lambda-list dimension: a binder mutation and/or a
// change of the argument vector the function receives on that route. It must be distinguished by a case of the
// enumerated families it applies to.
type routeMutant struct {
	name    string
	applies func(fam *family, base, env string) bool
	binder  mutation
	effect  func(base string, args []arg) ([]arg, bool) // the arguments the function receives under the bug; false = route not affected
}

func famIs(names ...string) func(*family, string, string) bool {
	return func(fam *family, base, env string) bool {
		for _, n := range names {
			if fam.name == n {
				return true
			}
		}
		return false
	}
}

var routeMutants = []*routeMutant{
	{name: mutationNames[mSuppliedPFromValue], binder: mSuppliedPFromValue, applies: famIs("supplied-p")},
	{name: mutationNames[mKeywordSpecUsesVariableName], binder: mKeywordSpecUsesVariableName, applies: famIs("keyword-specs")},
	{name: mutationNames[mFormEvaluatedWhenSupplied], binder: mFormEvaluatedWhenSupplied, applies: famIs("default-forms")},
	{name: mutationNames[mKeyDefaultsEvaluatedFirst], binder: mKeyDefaultsEvaluatedFirst, applies: famIs("default-forms")},
	{name: mutationNames[mFormSeesNoEarlierParameter], binder: mFormSeesNoEarlierParameter, applies: famIs("default-forms")},
	{name: mutationNames[mAllowOtherKeysStillRejected] + " (&allow-other-keys)", binder: mAllowOtherKeysStillRejected, applies: famIs("allow-other-keys-in-the-lambda-list")},
	{name: mutationNames[mAllowOtherKeysStillRejected] + " (:allow-other-keys t)", binder: mAllowOtherKeysStillRejected, applies: famIs("allow-other-keys-in-the-call")},
	{name: mutationNames[mAllowOtherKeysArgIsUnknownKey], binder: mAllowOtherKeysArgIsUnknownKey, applies: famIs("allow-other-keys-in-the-call")},
	{name: mutationNames[mKeySpellingNotFolded], binder: mKeySpellingNotFolded, applies: famIs("spelling-declared-lower")},
	{name: mutationNames[mDeclaredSpellingNotFolded], binder: mDeclaredSpellingNotFolded, applies: famIs("spelling-declared-upper", "spelling-declared-mixed")},
	{name: "a method's lambda list binds &optional after &key (a declared keyword among the optional positions starts the key section)", binder: mKeysBeforeOptionals,
		applies: func(fam *family, base, env string) bool {
			return fam.name == "routes" && (base == "generic" || base == "flavor")
		}},
	{name: mutationNames[mAbsentSeesEnclosingBinding] + " (variable around the call site)", binder: mAbsentSeesEnclosingBinding,
		applies: func(fam *family, base, env string) bool { return env == "call" }},
	{name: mutationNames[mAbsentSeesEnclosingBinding] + " (variable around the definition site)", binder: mAbsentSeesEnclosingBinding,
		applies: func(fam *family, base, env string) bool { return env == "def" }},
	{name: mutationNames[mAbsentSeesEnclosingBinding] + " (global variable)", binder: mAbsentSeesEnclosingBinding,
		applies: func(fam *family, base, env string) bool { return env == "glob" }},
	{name: mutationNames[mAbsentSeesEnclosingBinding] + " (the outer activation of a recursive call)", binder: mAbsentSeesEnclosingBinding,
		applies: func(fam *family, base, env string) bool { return base == "recin" }},
	{name: "apply with spread arguments drops the last spread argument when the final list is empty",
		applies: func(fam *family, base, env string) bool { return strings.HasPrefix(base, "spread.") },
		effect: func(base string, args []arg) ([]arg, bool) {
			k, _ := strconv.Atoi(base[len("spread."):])
			if k != len(args) || k == 0 {
				return nil, false
			}
			return args[:k-1], true
		}},
	{name: "(apply f '()) passes one nil argument",
		applies: func(fam *family, base, env string) bool { return base == "spread.0" },
		effect: func(base string, args []arg) ([]arg, bool) {
			if len(args) != 0 {
				return nil, false
			}
			return []arg{{isNil: true}}, true
		}},
	{name: "multiple-value-call: a form yielding no values contributes a nil",
		applies: func(fam *family, base, env string) bool { return base == "mv.split" },
		effect: func(base string, args []arg) ([]arg, bool) {
			h := len(args) / 2
			out := append(append(append([]arg(nil), args[:h]...), arg{isNil: true}), args[h:]...)
			return out, true
		}},
	{name: "multiple-value-call: only the first value of every form is passed",
		applies: func(fam *family, base, env string) bool { return base == "mv.all" },
		effect: func(base string, args []arg) ([]arg, bool) {
			if len(args) < 2 {
				return nil, false
			}
			return args[:1], true
		}},
	{name: "reduce with :initial-value passes the element first",
		applies: func(fam *family, base, env string) bool { return base == "reduceinit" },
		effect:  func(base string, args []arg) ([]arg, bool) { return []arg{args[1], args[0]}, true }},
	{name: "the argument forms of a macro call are evaluated",
		applies: func(fam *family, base, env string) bool { return fam.name == "routes" && base == "macro" },
		effect: func(base string, args []arg) ([]arg, bool) {
			out := append([]arg(nil), args...)
			for i := range out {
				out[i].form = false
			}
			return out, true
		}},
	{name: "mapc / every over several lists pass the elements as one list",
		applies: func(fam *family, base, env string) bool { return base == "mapc" || base == "every" },
		effect: func(base string, args []arg) ([]arg, bool) {
			if len(args) < 2 {
				return nil, false
			}
			return args[:1], true
		}},
}

// expectationFor: the acceptable set of a case of the families, as execRoute computes it.
func expectationFor(base string, sh *shape, args []arg) ([]arg, *expectation) {
	if base == "macro" {
		args = append([]arg(nil), args...)
		for i := range args {
			if args[i].kw == "" && !args[i].isNil && !args[i].isT {
				args[i].form = true
			}
		}
	}
	exp := acceptable(sh, args)
	if base == "sort" && len(args) == 2 {
		exp.add(sh, []arg{args[1], args[0]})
	}
	return args, exp
}

func selftestRoutes(b boundsA, slipLike variant) (killed, total int, notes []string) {
	alive := map[*routeMutant]bool{}
	for _, rm := range routeMutants {
		alive[rm] = true
	}
	total = len(routeMutants)
	for _, fam := range families(b) {
		if len(alive) == 0 {
			break
		}
		fam.each(func(via string, sh *shape, as string) {
			base, env := splitVia(via)
			var live []*routeMutant
			for _, rm := range routeMutants {
				if alive[rm] && rm.applies(fam, base, env) {
					live = append(live, rm)
				}
			}
			if len(live) == 0 {
				return
			}
			args, exp := expectationFor(base, sh, parseArgs(as))
			names, _ := sh.params()
			for _, rm := range live {
				eff := args
				if rm.effect != nil {
					var ok bool
					if eff, ok = rm.effect(base, args); !ok {
						continue
					}
				}
				envMap := map[string]string{}
				switch {
				case env != "":
					for _, n := range names {
						envMap[n] = strconv.Itoa(envValue(n))
					}
				case base == "recin": // the variables of the outer activation
					o := bind(sh, otherArgs(sh, len(args)), slipLike, mNone)
					for i, n := range names {
						if i < len(o.vals) {
							envMap[n] = o.vals[i]
						}
					}
				}
				o := bindEnv(sh, eff, slipLike, rm.binder, envMap)
				if !exp.set[o.String()] {
					delete(alive, rm)
					killed++
					notes = append(notes, fmt.Sprintf("A6: '%s' distinguished by via=%s %s (%s): mutant gives %s, allowed: %s",
						rm.name, via, sh.lambdaList(), strings.Join(argTexts(args), " "), o.String(), exp.describe()))
				}
			}
		})
	}
	for _, rm := range routeMutants {
		if alive[rm] {
			notes = append(notes, "A6: NOT distinguished: "+rm.name)
		}
	}
	return
}
