//go:build verif

// Package c19: load forms and snapshots reload to an equal world.
//
// A1 (lf|...): every object of a table of load-formable objects is turned
// into its load form, pretty printed by the code pretty printer at every
// right margin 20..120, read back, evaluated and compared with the original.
// A2 (snap|...): sessions built from a menu of defining forms are run in a
// fresh process, snapshotted, loaded into a second fresh process, probed and
// snapshotted again.
package c19

import (
	"fmt"
	"sort"
	"strings"

	"github.com/ohler55/slip"

	"verif/engine"
	"verif/lisp"
)

func init() {
	defineHelpers()
	engine.Register(&engine.Prop{
		ID:    "C19",
		Level: "exploration",
		Rule: "A1: every object of the table x every right margin 20..120 (equal layouts are evaluated once): LoadForm -> pp.Append -> " +
			"ReadString -> Eval (slip's own sliptest.LoadForm protocol) -> same type, Equal, same canonical rendering; lambdas, named " +
			"functions, macros, packages, flavors (+methods), classes and generic functions are reloaded under a fresh name of the same " +
			"length and compared by behaviour probes and by the load form of the copy. A2: every subset of the session menu up to the tier's " +
			"size, each in its own process: evaluate, probe, snapshot; second process: (load snapshot), probe, snapshot again; the load must " +
			"succeed, the probes must agree, the two snapshot texts must be equal apart from the header line. A case is non-trivial when " +
			"the pretty printer produced at least two different layouts over the margins (A1) or the session defines at least one item (A2). " +
			"Inheritance worlds (lf|inh:... and snap|inh:...): three definitions - a distant one, a nearer one and a leaf, as a chain and as a " +
			"leaf built on two mixins - and one property (the default of a flavor variable, a gettable / settable / inittable option, init keywords, the " +
			"default init plist, :allow-other-keys, the documentation, a method, a :before daemon; a defclass :initform, :initarg, :reader / :writer / " +
			":accessor name, slot and class documentation, :default-initargs, :allocation, a method of a generic function per class, call-next-method; " +
			"the documentation of a generic function and of two of its methods; the default of a defstruct slot along an :include chain) that each " +
			"level either does not mention or gives in one of two or three ways: EVERY assignment of the letters to the three levels, among them the leaf " +
			"that repeats the distant value while the nearer one differs and the leaf that says again what it inherits. Each world is reloaded both ways and " +
			"a probe table per level (variable / slot values of a new instance, accepted messages, readers and init keywords, documentation, method results) " +
			"must be the same in the reloaded world - the text fixed point cannot see an omission that is made the same way in both snapshots. " +
			"Option-value worlds (lf|ov:... and snap|ov:...): one definition with one option given each value of a value alphabet that contains the values " +
			"a writer may take for 'not given' (nil, '(), \"\", 0, t) next to the twin without the option; the probe table is evaluated on a fresh instance / a fresh " +
			"call made AFTER the reload and reads every slot, variable and default, bound-ness included. A form slip itself rejects (an option value it does not take) " +
			"is an outcome, not a failure. Extended session menu: a probe marked lenient accepts a second stated answer after the reload (a closure's lost environment: " +
			"unbound-variable; a value without a load form: the variable is unbound) because the statement does not demand more. " +
			"S9: a snapshot that (load) rejects is loaded again without the forms of slip's own swank package, then form by form; a snapshot with a " +
			"derived flavor before its base is repaired before loading; (defpackage name) load forms are retried with the names quoted; every " +
			"verdict obtained that way says so (mode=..., degraded=...)",
		Assumptions: []string{
			"identity-compared kinds (lambda, function, package, flavor, class, generic) cannot be Equal to a rebuilt object; they are compared by behaviour on a fixed probe table and by the load form of the rebuilt object",
			"documentation strings are compared modulo white space (the pretty printer re-flows documentation on purpose)",
			"a top level symbol load form is taken as read, not evaluated (sliptest.LoadForm does the same)",
			"a method without documentation may come back with the documentation of its generic function (pinned by the repository test TestDefmethodGenericLoadForm): the documentation compared for a method is its own or else the generic function's",
			"a flavor's load form is not asked to carry its methods; the methods' own defining lists (Flavor.DefMethodList, what pretty-print flavor:method shows) are reloaded with it",
			"go map iteration order is not controlled: snapshot sessions are repeated and order dependent verdicts are labelled flaky",
		"slip documents nothing about closures in a snapshot and a lambda's load form has no environment: a function defined inside a let is required to be saved (still defined, same lambda list); calling it after the reload may signal unbound-variable for the lost binding",
		"values without a load form (streams, channels, mutexes): the snapshot FuncDoc says they are excluded; the variable may be unbound after the reload, everything else of the session must be restored and the load must not abort",
		"two variables holding the same list: equality of the restored values is compared, eq-ness is outside the statement",
		},
		Enumerate:     enumerate,
		Exec:          execCase,
		Required:      required,
		Bound:         bound,
		Selftest:      selftest,
		CaseDeadlineS: 60,
	})
}

var required = []string{
	"lf-case", "lf-roundtrips", "lf-wrapped-layouts", "lf-behaviour-probes",
	"lf-kind:number", "lf-kind:string", "lf-kind:symbol", "lf-kind:character", "lf-kind:list", "lf-kind:list-dotted",
	"lf-kind:vector", "lf-kind:array", "lf-kind:hash-table", "lf-kind:lambda", "lf-kind:defun", "lf-kind:defmacro", "lf-kind:call",
	"lf-kind:package", "lf-kind:flavor", "lf-kind:flavor-instance", "lf-kind:clos-instance", "lf-kind:class", "lf-kind:generic",
	"lf-kind:struct", "lf-inherit-world", "lf-inherit-world:fl", "lf-inherit-world:cl", "lf-inherit-world:st", "lf-inherit-leaf-repeats-distant",
	"lf-inherit-leaf-restates-nearer", "lf-inherit-probes-compared",
	"snap-inherit-session", "snap-inherit-session:fl", "snap-inherit-session:cl", "snap-inherit-leaf-repeats-distant", "snap-inherit-leaf-restates-nearer",
	"snap-inherit-probes-compared",
	"lf-optval-world", "lf-optval-world:class", "lf-optval-world:condition", "lf-optval-world:flavor", "lf-optval-world:struct", "lf-optval-world:defun",
	"lf-optval-world:defmacro", "lf-optval-world:lambda", "lf-optval-world:generic", "lf-optval-world:package", "lf-optval-critical-value",
	"lf-optval-absent-twin", "lf-optval-probes-compared",
	"snap-optval-session", "snap-optval-session:class", "snap-optval-session:condition", "snap-optval-session:flavor", "snap-optval-session:defun",
	"snap-optval-session:defmacro", "snap-optval-session:generic", "snap-optval-session:package", "snap-optval-session:defvar",
	"snap-optval-session:defparameter", "snap-optval-session:defconstant", "snap-optval-critical-value", "snap-optval-absent-twin",
	"snap-optval-probes-compared", "snap-ext-session", "snap-ext-probes-compared", "snap-ext-value-without-load-form",
	"snap-session", "snap-stage1-ok", "snap-second-snapshot", "snap-probes-compared", "snap-forms-loaded", "snap-definitions-looked-for",
}

func enumerate(tier string, emit func(string)) {
	enumerateLF(tier, emit)
	enumerateSnap(tier, emit)
}

func bound(tier string) string {
	n := 0
	for _, c := range lfCases {
		if c.tier != engine.Thorough || tier == engine.Thorough {
			n++
		}
	}
	k := snapMaxSize(tier)
	cnt := 0
	enumerateSnap(tier, func(string) { cnt++ })
	worlds, sessions := inhCount(tier)
	n += worlds
	ovWorlds, ovLF, ovSessions := ovCount(tier)
	n += ovLF
	var fams []string
	for _, f := range inhFamilies {
		vals := len(f.vals)
		alpha := len(f.letters)
		if tier == engine.Thorough {
			vals += len(f.tvals)
			alpha += len(f.tletter)
		}
		if vals == 0 {
			continue
		}
		fams = append(fams, fmt.Sprintf("%s/%s %d^3 x %d x %d", f.lang, f.name, alpha, vals, len(f.shapes)))
	}
	return fmt.Sprintf("A1: %d objects/definition worlds (numbers, strings, symbols, characters, proper and dotted lists, vectors, arrays, "+
		"hash tables, lambdas, defuns, macros, compiled calls, packages, flavors+methods, flavor and CLOS instances, classes, generic functions, "+
		"structures) x all %d right margins %d..%d (every distinct layout read back and evaluated), of which %d inheritance worlds = every assignment "+
		"of the family's letters to the levels distant / nearer / leaf (letters^3 x value kinds or variable patterns x shapes chain, mixin; "+
		"assignments that name a variable no level has are left out): %s; "+
		"A2: all %d sessions = every subset of size <= %d of the %d item basic menu, every subset of size <= %d of the combined menu "+
		"(basic + %d redefinition items: defun/defmacro/defvar+setq/defparameter/generic method/defclass/flavor method defined and then "+
		"redefined before the snapshot; quick: the redefinition items alone), the full basic, redefinition and combined menus, 2 dedicated sessions (forward reference, "+
		"flavor forest), 12 name-order chains, %d option sessions (flavor / class / generic function / condition / package options, each alone and all together), "+
		"%d inheritance worlds (the same worlds as in A1 except the structures, each a session of its own), each in 2-4 fresh processes, 24 snapshots (inheritance worlds: 4) "+
		"of the unchanged session compared with each other, (load) of the whole "+
		"file, (load) without the forms of slip's own swank package, form by form load when both abort; "+
		"option-value worlds: %d (one definition, one option - defclass / define-condition slot :initform, :initarg, :type, :documentation, :allocation, class "+
		":documentation and :default-initargs; defflavor variable default, :default-init-plist, :documentation, a method's &optional default; defstruct slot default; "+
		"defun / defmacro / lambda / method &optional, &key and &aux defaults, documentation string, body value; defgeneric :documentation; defvar / defparameter / "+
		"defconstant / setq value and documentation; defpackage :documentation and empty options - given every value of {nil, t, 0, \"\", '(), a keyword, a quoted list, a "+
		"quoted symbol, a number, a string} (documentation: \"\" and a text; some families have their own value list), next to the twin without the option), %d of them as A1 cases, %d as "+
		"sessions of their own, probes on a FRESH instance / call made after the reload; the extended session menu: %d items (macros and their users in both name "+
		"orders, closures, lambda-list keywords, wrapping / paragraph / empty documentation, structures, conditions, user packages with definitions and export / use "+
		"relations, variables holding scalars, shared lists, hash tables, vectors, arrays, linked flavor / CLOS instances, bags, times, function objects, special "+
		"objects nested in lists, %d kinds of values without a load form) each alone, all together, all but the values without a load form together (the items whose snapshot faults or ends the process on the tree as it is - a call of a lambda expression in a body, a method without "+
		"body, instances referring to each other in a cycle - are sessions of their own only); thorough: + every pair of "+
		"extended items and every extended item with every basic item",
		n, maxMargin-minMargin+1, minMargin, maxMargin, worlds, strings.Join(fams, ", "), cnt, k, len(menu), redefMaxSize(tier), len(redefItems), len(optionItems)+1, sessions,
		ovWorlds, ovLF, ovSessions, len(extItems), len(unencodable))
}

func execCase(spec string) (res engine.Result) {
	switch {
	case strings.HasPrefix(spec, "probe:"):
		scope := slip.NewScope()
		v, err := lisp.EvalIn(scope, spec[6:])
		if err != nil {
			res.Outcome = "ERR " + err.String()
		} else {
			res.Outcome = slip.ObjectString(v) + "   ;; " + lisp.Show(v)
		}
	case strings.HasPrefix(spec, "lf|"):
		c := lfCaseOf(spec[3:])
		if c == nil {
			res.Fail("harness:bad-spec", spec)
			return
		}
		execLF(c, &res)
	case strings.HasPrefix(spec, "snap|"):
		execSnap(spec, &res)
	case strings.HasPrefix(spec, "stage1|"), strings.HasPrefix(spec, "stage2|"), strings.HasPrefix(spec, "stage2f|"), strings.HasPrefix(spec, "stage3|"):
		execStage(spec, &res)
	default:
		res.Fail("harness:bad-spec", spec)
	}
	return
}

type goFunc struct {
	slip.Function
	fn func(args slip.List) slip.Object
}

func (f *goFunc) Call(s *slip.Scope, args slip.List, depth int) slip.Object {
	return f.fn(args)
}

var helperNames = []string{"c19-instance-dump", "c19-package-dump"}

func defineHelper(name string, fn func(args slip.List) slip.Object) {
	slip.Define(
		func(args slip.List) slip.Object {
			f := goFunc{Function: slip.Function{Name: name, Args: args}, fn: fn}
			f.Self = &f
			return &f
		},
		&slip.FuncDoc{
			Name:   name,
			Args:   []*slip.DocArg{{Name: "object", Type: "object"}},
			Return: "string",
			Text:   "harness observation function",
		}, &slip.UserPkg)
}

func defineHelpers() {
	defineHelper("c19-instance-dump", func(args slip.List) slip.Object {
		if len(args) != 1 {
			panic("c19-instance-dump: one argument")
		}
		return slip.String(showDeep(args[0]))
	})
	defineHelper("c19-package-dump", func(args slip.List) slip.Object {
		name, _ := args[0].(slip.String)
		p := slip.FindPackage(string(name))
		if p == nil {
			return slip.String("no package")
		}
		var uses []string
		for _, u := range p.Uses {
			uses = append(uses, u.Name)
		}
		nn := append([]string(nil), p.Nicknames...)
		ex := append([]string(nil), p.Exports...)
		sort.Strings(nn)
		sort.Strings(ex)
		return slip.String(fmt.Sprintf("name=%s nicknames=%v uses=%v exports=%v doc=%q", p.Name, nn, uses, ex,
			strings.Join(strings.Fields(p.Doc), " ")))
	})
}
