package c13

import (
	"fmt"
	"sort"
	"strconv"
	"strings"
)

// ---------------------------------------------------------------------------
// Configurations and operations
// ---------------------------------------------------------------------------

// config is one bounded universe: packages x variable names x function names.
type config struct {
	tag   byte
	pk    []string // package letters: a b c
	vars  []string
	funcs []string
	// ext selects the additional operation families (see extOps):
	//  L  further Lisp operations on packages and symbols: intern, unintern, delete-package, defpackage / make-package
	//     (on a deleted name: creation, on an existing one: redefinition) with :use / :export, rename-package
	//  R  the same base operations by the other route: evaluated in the home package with an explicit package
	//     argument or a package-qualified name (export / unexport / use-package / unuse-package n 'p, (defun p::f ..),
	//     (setq p::v ..))
	//  G  the Go extension interface at run time: Package.Define (exported and NoExport), Package.Set, Package.Import
	//  K  lock-package / unlock-package
	ext   string
	seeds [][]string // prepared states (configurations explored from seeds only)
}

var (
	varCfg   = &config{tag: 'V', pk: []string{"a", "b"}, vars: []string{"v"}}
	funCfg   = &config{tag: 'W', pk: []string{"a", "b"}, funcs: []string{"f"}}
	smallCfg = &config{tag: 'S', pk: []string{"a", "b"}, vars: []string{"v"}, funcs: []string{"f"}}
	fullCfg  = &config{tag: 'F', pk: []string{"a", "b", "c"}, vars: []string{"v", "w"}, funcs: []string{"f", "g"}}
	// seedCfg is the full configuration explored from prepared three-package
	// states (seeds) instead of from the empty one.
	seedCfg = &config{tag: 'G', pk: []string{"a", "b", "c"}, vars: []string{"v", "w"}, funcs: []string{"f", "g"}, seeds: seeds}
	// lispCfg: two packages, the base alphabet and every further package /
	// symbol operation slip defines, both routes.
	lispCfg = &config{tag: 'L', pk: []string{"a", "b"}, vars: []string{"v"}, funcs: []string{"f"}, ext: "LR"}
	// goCfg: two packages, the base alphabet and the Go extension interface.
	goCfg = &config{tag: 'X', pk: []string{"a", "b"}, vars: []string{"v"}, funcs: []string{"f"}, ext: "GK"}
	// wideCfg: three packages x one variable x one function, every family,
	// explored from the empty state and from prepared states.
	wideCfg  = &config{tag: 'H', pk: []string{"a", "b", "c"}, vars: []string{"v"}, funcs: []string{"f"}, ext: "LRGK"}
	wideSeed = &config{tag: 'I', pk: []string{"a", "b", "c"}, vars: []string{"v"}, funcs: []string{"f"}, ext: "LRGK", seeds: wideSeeds}
)

// wideSeeds: three-package states with imports, Go definitions and two used
// packages - what the operations of the further families need to bite on.
var wideSeeds = [][]string{
	// a uses two packages (with cl-user three): delete-package has three edges to take away
	{"b.defvar.v", "b.export.v", "c.defun.f", "c.export.f", "a.use.b", "a.use.c"},
	// a imports a private variable and a private function of c, b uses a
	{"c.defvar.v", "c.defun.f", "a.goimport.cv", "a.goimport.cf", "b.use.a"},
	// Go-defined exported and private functions / variables with a user, and a chain
	{"a.godef.f", "a.goset.v", "a.export.v", "b.use.a", "c.use.b"},
	// b exports names before they are defined; a (owning both names) and c use it
	{"b.export.v", "b.export.f", "a.defvar.v", "a.defun.f", "a.use.b", "c.use.b"},
}

// seeds: operation sequences (package.kind.arg) that build the richer
// three-package states a short history from the empty state cannot reach.
var seeds = [][]string{
	// two used packages export the same names
	{"b.defvar.v", "b.defun.f", "b.export.v", "b.export.f", "c.defvar.v", "c.defun.f", "c.export.v", "c.export.f", "a.use.b", "a.use.c"},
	// chain a -> b -> c (indirect use)
	{"c.defvar.v", "c.defun.f", "c.export.v", "c.export.f", "b.use.c", "b.defvar.w", "b.export.w", "a.use.b"},
	// one exporter with private and exported definitions, two users
	{"a.defvar.v", "a.export.v", "a.defun.f", "a.export.f", "a.defvar.w", "a.defun.g", "b.use.a", "c.use.a"},
	// a cycle of uses, each package exporting something different
	{"a.defvar.v", "a.export.v", "b.defun.f", "b.export.f", "c.defvar.w", "c.export.w", "a.use.b", "b.use.c", "c.use.a"},
}

// seedOps returns the root operations of the seeded exploration.
func seedOps(limit int) (out []string) { return seedCfg.seedOps(limit) }

func (c *config) seedOps(limit int) (out []string) {
	for i := range c.seeds {
		out = append(out, fmt.Sprintf("%c%da.seed.%d", c.tag, limit, i))
	}
	return
}

// expand turns a seed operation into its sequence; any other operation is
// returned as is.
func (o op) expand() (out []op) {
	if o.kind != "seed" {
		return []op{o}
	}
	k, _ := strconv.Atoi(o.arg)
	for _, s := range o.cfg.seeds[k] {
		x, _ := parseOp(fmt.Sprintf("%c%d%s", o.cfg.tag, o.limit, s))
		out = append(out, x)
	}
	return
}

func cfgOf(tag byte) *config {
	switch tag {
	case 'V':
		return varCfg
	case 'W':
		return funCfg
	case 'S':
		return smallCfg
	case 'F':
		return fullCfg
	case 'G':
		return seedCfg
	case 'L':
		return lispCfg
	case 'X':
		return goCfg
	case 'H':
		return wideCfg
	case 'I':
		return wideSeed
	}
	return nil
}

func (c *config) has(family byte) bool { return 0 <= strings.IndexByte(c.ext, family) }

func (c *config) names() []string { return append(append([]string{}, c.vars...), c.funcs...) }

func (c *config) isVar(n string) bool {
	for _, v := range c.vars {
		if v == n {
			return true
		}
	}
	return false
}

// ops lists the alphabet of the configuration, simplest first. An operation is
// "<cfg><pkg>.<kind>.<arg>": it is always executed as (in-package <pkg>)
// followed by the operation form. The digit after the configuration tag is the
// depth bound of the exploration (0 = none): it travels in the operation names
// because Exec must be a function of the spec alone.
func (c *config) ops(limit int) []string {
	var out []string
	add := func(p, kind, arg string) { out = append(out, fmt.Sprintf("%c%d%s.%s.%s", c.tag, limit, p, kind, arg)) }
	for _, p := range c.pk {
		for _, v := range c.vars {
			add(p, "defvar", v)
		}
		for _, f := range c.funcs {
			add(p, "defun", f)
		}
		for _, n := range c.names() {
			add(p, "export", n)
		}
		for _, q := range c.pk {
			if q != p {
				add(p, "use", q)
			}
		}
		for _, v := range c.vars {
			add(p, "setq", v)
		}
		for _, n := range c.names() {
			add(p, "unexport", n)
		}
		for _, q := range c.pk {
			if q != p {
				add(p, "unuse", q)
			}
		}
		for _, v := range c.vars {
			add(p, "makunbound", v)
		}
		for _, f := range c.funcs {
			add(p, "fmakunbound", f)
		}
	}
	// the further families after the whole base alphabet (simplest first)
	for _, p := range c.pk {
		others := func(f func(q string)) {
			for _, q := range c.pk {
				if q != p {
					f(q)
				}
			}
		}
		if c.has('L') {
			for _, n := range c.names() {
				add(p, "intern", n)
			}
			for _, n := range c.names() {
				add(p, "unintern", n)
			}
			add(p, "delpkg", "-")
			add(p, "mkpkg", "-")
			add(p, "makepkg", "-")
			others(func(q string) { add(p, "mkpkgu", q) })
			for _, n := range c.names() {
				add(p, "mkpkgx", n)
			}
			add(p, "rename", "-")
		}
		if c.has('R') {
			for _, n := range c.names() {
				add(p, "xexport", n)
			}
			for _, n := range c.names() {
				add(p, "xunexport", n)
			}
			others(func(q string) { add(p, "xuse", q) })
			others(func(q string) { add(p, "xunuse", q) })
			for _, f := range c.funcs {
				add(p, "xdefun", f)
			}
			for _, v := range c.vars {
				add(p, "xsetq", v)
			}
		}
		if c.has('G') {
			for _, f := range c.funcs {
				add(p, "godef", f)
				add(p, "godefp", f)
			}
			for _, v := range c.vars {
				add(p, "goset", v)
			}
			others(func(q string) {
				for _, n := range c.names() {
					add(p, "goimport", q+n)
				}
			})
		}
		if c.has('K') {
			add(p, "lock", "-")
			add(p, "unlock", "-")
		}
	}
	return out
}

type op struct {
	cfg   *config
	limit int
	actor int
	kind  string
	arg   string // the argument as written: a name, a package letter, letter+name (goimport) or "-"
	argPk int    // index of the package argument (use / unuse / mkpkgu / goimport ...), else -1
	name  string // the name the operation is about, "" if none
}

// base maps the operation kinds that are another route to a base operation
// (package argument / qualified name, evaluated in the home package) to it.
func (o *op) base() string {
	switch o.kind {
	case "xexport", "xunexport", "xuse", "xunuse", "xdefun", "xsetq":
		return o.kind[1:]
	case "goset": // Package.Set with the package current: what setq does
		return "setq"
	}
	return o.kind
}

// val is the value the operation writes (it identifies the writer and the route).
func (o *op) val() int {
	switch o.kind {
	case "defvar":
		return defvarVal(o.actor)
	case "setq":
		return setqVal(o.actor)
	case "defun":
		return defunVal(o.actor)
	case "godef":
		return godefVal(o.actor)
	case "godefp":
		return godefpVal(o.actor)
	case "goset":
		return gosetVal(o.actor)
	case "xsetq":
		return xsetqVal(o.actor)
	case "xdefun":
		return xdefunVal(o.actor)
	}
	return -9
}

// fromHome: the operation is evaluated with the home package (cl-user) as the
// current package and names the package it acts on.
func (o *op) fromHome() bool {
	switch o.kind {
	case "xexport", "xunexport", "xuse", "xunuse", "xdefun", "xsetq", "delpkg", "mkpkg", "makepkg", "mkpkgu", "mkpkgx", "rename", "lock", "unlock":
		return true
	}
	return false
}

// creates: the operation (re)creates the package it names.
func (o *op) creates() bool {
	switch o.kind {
	case "mkpkg", "makepkg", "mkpkgu", "mkpkgx":
		return true
	}
	return false
}

func parseOp(s string) (o op, ok bool) {
	if len(s) < 6 || s[1] < '0' || '9' < s[1] {
		return
	}
	o.cfg = cfgOf(s[0])
	if o.cfg == nil {
		return
	}
	o.limit = int(s[1] - '0')
	parts := strings.Split(s[2:], ".")
	if len(parts) != 3 {
		return
	}
	o.actor = indexOf(o.cfg.pk, parts[0])
	o.kind, o.arg = parts[1], parts[2]
	o.argPk = -1
	if o.actor < 0 {
		return
	}
	switch o.kind {
	case "use", "unuse", "xuse", "xunuse", "mkpkgu":
		o.argPk = indexOf(o.cfg.pk, o.arg)
		ok = 0 <= o.argPk && o.argPk != o.actor
	case "defvar", "setq", "makunbound", "xsetq", "goset":
		ok = o.cfg.isVar(o.arg)
		o.name = o.arg
	case "defun", "fmakunbound", "xdefun", "godef", "godefp":
		ok = 0 <= indexOf(o.cfg.funcs, o.arg)
		o.name = o.arg
	case "export", "unexport", "xexport", "xunexport", "intern", "unintern", "mkpkgx":
		ok = 0 <= indexOf(o.cfg.names(), o.arg)
		o.name = o.arg
	case "delpkg", "mkpkg", "makepkg", "rename", "lock", "unlock":
		ok = o.arg == "-"
	case "goimport":
		if 2 <= len(o.arg) {
			o.argPk = indexOf(o.cfg.pk, o.arg[:1])
			o.name = o.arg[1:]
			ok = 0 <= o.argPk && o.argPk != o.actor && 0 <= indexOf(o.cfg.names(), o.name)
		}
	case "seed":
		k, err := strconv.Atoi(o.arg)
		ok = err == nil && 0 <= k && k < len(o.cfg.seeds)
	}
	if ok && o.kind != "seed" && !o.cfg.allows(o.kind) {
		ok = false
	}
	return
}

// allows: is the operation kind part of the configuration's alphabet? (Seeds
// may use any kind of the families the configuration has.)
func (c *config) allows(kind string) bool {
	switch kind {
	case "intern", "unintern", "delpkg", "mkpkg", "makepkg", "mkpkgu", "mkpkgx", "rename":
		return c.has('L')
	case "xexport", "xunexport", "xuse", "xunuse", "xdefun", "xsetq":
		return c.has('R')
	case "godef", "godefp", "goset", "goimport":
		return c.has('G')
	case "lock", "unlock":
		return c.has('K')
	}
	return true
}

func indexOf(l []string, s string) int {
	for i, x := range l {
		if x == s {
			return i
		}
	}
	return -1
}

// Values written by the operations identify who wrote them.
func defvarVal(p int) int { return 10 + p }
func setqVal(p int) int   { return 20 + p }
func defunVal(p int) int  { return 30 + p }
func godefVal(p int) int  { return 40 + p } // Package.Define, exported
func godefpVal(p int) int { return 50 + p } // Package.Define, NoExport
func gosetVal(p int) int  { return 60 + p } // Package.Set
func xsetqVal(p int) int  { return 70 + p } // (setq p::v ..) from the home package
func xdefunVal(p int) int { return 80 + p } // (defun p::f ..) from the home package

const unboundVal = -1 // an own entry that exists but is unbound (export before definition)

// ---------------------------------------------------------------------------
// The graph: own definitions with export flag, and the use edges
// ---------------------------------------------------------------------------

type def struct {
	val    int
	exp    bool
	hidden bool // (from the implementation only) entry reachable through p::n only
	stale  bool // (from the implementation only) orphaned copy of a cell its home package no longer holds
	cell   int  // (from the implementation only) identity of the underlying cell
	// orphanOf: the definition is an import its source has dropped or replaced
	// since; the cell still names the source as its home (1 + package index, 0 = not an orphan)
	orphanOf int
}

type mpkg struct {
	vars  map[string]*def // may also hold unbound exported placeholders for function names
	funcs map[string]*def
	uses  []int
	// imports: names imported through the Go extension interface
	// (Package.Import), with the package they were imported from and the
	// kind of definition that was imported
	imports map[string]*imp
	deleted bool // delete-package: the name designates no package
	locked  bool
}

type imp struct {
	from int
	kind byte // 'v' or 'f'; 0 = the record exists, the table holds nothing for it
}

type graph struct {
	cfg *config
	p   []mpkg
}

func newGraph(c *config) *graph {
	g := &graph{cfg: c, p: make([]mpkg, len(c.pk))}
	for i := range g.p {
		g.p[i].vars = map[string]*def{}
		g.p[i].funcs = map[string]*def{}
		g.p[i].imports = map[string]*imp{}
	}
	return g
}

func (g *graph) clone() *graph {
	n := &graph{cfg: g.cfg, p: make([]mpkg, len(g.p))}
	for i, p := range g.p {
		n.p[i].vars = map[string]*def{}
		n.p[i].funcs = map[string]*def{}
		for k, d := range p.vars {
			c := *d
			n.p[i].vars[k] = &c
		}
		for k, d := range p.funcs {
			c := *d
			n.p[i].funcs[k] = &c
		}
		n.p[i].uses = append([]int(nil), p.uses...)
		n.p[i].imports = map[string]*imp{}
		for k, m := range p.imports {
			c := *m
			n.p[i].imports[k] = &c
		}
		n.p[i].deleted, n.p[i].locked = p.deleted, p.locked
	}
	return n
}

// wipe makes p a deleted package: no definitions, no edges from or to it.
func (g *graph) wipe(p int) {
	g.p[p].vars = map[string]*def{}
	g.p[p].funcs = map[string]*def{}
	g.p[p].imports = map[string]*imp{}
	g.p[p].uses = nil
	g.p[p].locked = false
	for i := range g.p {
		var nu []int
		for _, u := range g.p[i].uses {
			if u != p {
				nu = append(nu, u)
			}
		}
		g.p[i].uses = nu
		for n, m := range g.p[i].imports {
			if m.from == p {
				delete(g.p[i].imports, n)
			}
		}
	}
}

func (g *graph) users(p int) (out []int) {
	for i := range g.p {
		if g.usesPkg(i, p) {
			out = append(out, i)
		}
	}
	return
}

func (g *graph) tab(p int, kind byte) map[string]*def {
	if kind == 'v' {
		return g.p[p].vars
	}
	return g.p[p].funcs
}

func (g *graph) usesPkg(p, q int) bool {
	for _, u := range g.p[p].uses {
		if u == q {
			return true
		}
	}
	return false
}

// String is a canonical rendering (cells left out): used by the self-test as
// the state key of the simulated implementation and in failure details.
func (g *graph) String() string {
	var b strings.Builder
	for i, p := range g.p {
		if p.deleted {
			fmt.Fprintf(&b, "%s{deleted} ", g.cfg.pk[i])
			continue
		}
		fmt.Fprintf(&b, "%s{", g.cfg.pk[i])
		if p.locked {
			b.WriteString("locked ")
		}
		b.WriteString("uses=")
		for _, u := range p.uses {
			b.WriteString(g.cfg.pk[u])
		}
		var inames []string
		for n := range p.imports {
			inames = append(inames, n)
		}
		sort.Strings(inames)
		for _, n := range inames {
			m := p.imports[n]
			k := "?"
			if m.kind != 0 {
				k = string(m.kind)
			}
			fmt.Fprintf(&b, " import:%s<-%s/%s", n, g.cfg.pk[m.from], k)
		}
		for _, kind := range []byte{'v', 'f'} {
			t := g.tab(i, kind)
			var names []string
			for n := range t {
				names = append(names, n)
			}
			sort.Strings(names)
			for _, n := range names {
				d := t[n]
				fmt.Fprintf(&b, " %c:%s=%s", kind, n, valStr(d.val))
				if d.exp {
					b.WriteString("/exp")
				}
				if d.hidden {
					b.WriteString("/hidden")
				}
			}
		}
		b.WriteString("} ")
	}
	return b.String()
}

func valStr(v int) string {
	if v == unboundVal {
		return "U"
	}
	return strconv.Itoa(v)
}

// closure returns the packages reachable from p through use edges (p itself
// excluded), split in direct and indirect.
func (g *graph) closure(p int) (direct, indirect []int) {
	seen := map[int]bool{p: true}
	for _, u := range g.p[p].uses {
		if !seen[u] {
			seen[u] = true
			direct = append(direct, u)
		}
	}
	queue := append([]int(nil), direct...)
	for 0 < len(queue) {
		q := queue[0]
		queue = queue[1:]
		for _, u := range g.p[q].uses {
			if !seen[u] {
				seen[u] = true
				indirect = append(indirect, u)
				queue = append(queue, u)
			}
		}
	}
	return
}

// ---------------------------------------------------------------------------
// Visibility: the statement, as sets of acceptable observations
// ---------------------------------------------------------------------------

type set map[string]bool

func (s set) add(v string)      { s[v] = true }
func (s set) has(v string) bool { return s[v] }
func (s set) String() string {
	var l []string
	for k := range s {
		l = append(l, k)
	}
	sort.Strings(l)
	return "{" + strings.Join(l, ",") + "}"
}
func (s set) hasValue() bool {
	for k := range s {
		if k != "U" {
			return true
		}
	}
	return false
}

// rules selects the visibility rule; the zero value is the reference. The other
// fields are the mutated references of the self-test.
type rules struct {
	privateInherited bool // M: unexported definitions of used packages are visible
	extIgnoresExport bool // M: p:n reaches unexported definitions
	usedShadowsOwn   bool // M: an exported definition of a used package wins over the own one
	importInvisible  bool // M: a name imported through the Go interface does not resolve
	importExportOnly bool // M: an imported name resolves only if its definition is exported
}

// resolveUnq: acceptable results of evaluating n unqualified in package p.
//   - the own definition if there is one (exactly that);
//   - otherwise an exported definition of a directly used package (any of them
//     if several export n: S2), required to be visible;
//   - an exported definition of an indirectly used package is accepted but not
//     required (slip propagates some of them, the statement speaks of "a package
//     it uses": S2);
//   - otherwise unbound. An own or inherited unbound placeholder (export before
//     definition) makes "unbound" acceptable too.
func (g *graph) resolveUnq(r rules, p int, kind byte, n string) set {
	s := set{}
	own := g.tab(p, kind)[n]
	placeholder := false
	direct, indirect := g.closure(p)
	if r.usedShadowsOwn {
		for _, q := range direct {
			if d := g.tab(q, kind)[n]; d != nil && !d.hidden && d.exp && d.val != unboundVal {
				s.add(valStr(d.val))
				return s
			}
		}
	}
	if own != nil && !own.hidden {
		if own.val != unboundVal {
			s.add(valStr(own.val))
			return s
		}
		placeholder = true
	}
	required := false
	// a name imported through the Go extension interface resolves to the
	// definition the package it was imported from has, exported or not
	if m := g.p[p].imports[n]; m != nil && m.kind == kind && !r.importInvisible {
		d := g.tab(m.from, kind)[n]
		switch {
		case d != nil && !d.hidden && d.val != unboundVal && (d.exp || !r.importExportOnly):
			s.add(valStr(d.val))
			required = true
		default:
			// the definition is gone (or never was more than a placeholder):
			// unbound, unless the source now shows something it inherits itself
			placeholder = true
			g.inheritedOptional(m.from, kind, n, s)
		}
	}
	for _, q := range direct {
		if d := g.tab(q, kind)[n]; d != nil && !d.hidden && (d.exp || r.privateInherited) {
			if d.val == unboundVal {
				placeholder = true
			} else {
				s.add(valStr(d.val))
				required = true
			}
		}
	}
	for _, q := range indirect {
		if d := g.tab(q, kind)[n]; d != nil && !d.hidden && d.exp && d.val != unboundVal {
			s.add(valStr(d.val))
		}
	}
	// what the used packages import may be passed on (not required: the
	// statement speaks of the exported definitions of a used package)
	for _, q := range append(append([]int(nil), direct...), indirect...) {
		g.importedOptional(q, kind, n, s)
	}
	if !required || placeholder {
		s.add("U")
	}
	return s
}

// importedOptional: the bound definition behind an import of package p.
func (g *graph) importedOptional(p int, kind byte, n string, s set) {
	if m := g.p[p].imports[n]; m != nil && m.kind == kind && !g.p[m.from].deleted {
		if d := g.tab(m.from, kind)[n]; d != nil && !d.hidden && d.val != unboundVal {
			s.add(valStr(d.val))
		} else if d == nil {
			// the source holds the name by inheritance: the import is what it inherits
			direct, indirect := g.closure(m.from)
			for _, q := range append(direct, indirect...) {
				if d := g.tab(q, kind)[n]; d != nil && !d.hidden && d.exp && d.val != unboundVal {
					s.add(valStr(d.val))
				}
			}
		}
	}
}

// inheritedOptional: exported bound definitions anywhere in the use closure.
func (g *graph) inheritedOptional(p int, kind byte, n string, s set) {
	direct, indirect := g.closure(p)
	for _, q := range append(direct, indirect...) {
		if d := g.tab(q, kind)[n]; d != nil && !d.hidden && d.exp && d.val != unboundVal {
			s.add(valStr(d.val))
		}
		g.importedOptional(q, kind, n, s)
	}
	g.importedOptional(p, kind, n, s)
}

// resolveExt: q:n evaluated with current package c.
func (g *graph) resolveExt(r rules, c, q int, kind byte, n string) set {
	s := set{}
	d := g.tab(q, kind)[n]
	switch {
	case d != nil && !d.hidden && d.val != unboundVal && (d.exp || r.extIgnoresExport):
		s.add(valStr(d.val))
	case d != nil && !d.hidden && d.val != unboundVal:
		s.add("U")
		if c == q || d.orphanOf == c+1 { // the statement does not speak of q:n used inside q itself, nor inside the package the definition came from
			s.add(valStr(d.val))
		}
	case d != nil && !d.hidden: // unbound placeholder: not a definition; inherited names may show through
		s.add("U")
		g.inheritedOptional(q, kind, n, s)
	default:
		s.add("U")
		g.inheritedOptional(q, kind, n, s)
	}
	return s
}

// resolveInt: q::n.
func (g *graph) resolveInt(q int, kind byte, n string) set {
	s := set{}
	d := g.tab(q, kind)[n]
	switch {
	case d != nil && d.val != unboundVal:
		s.add(valStr(d.val))
	case d != nil:
		s.add("U")
		g.inheritedOptional(q, kind, n, s)
	default:
		s.add("U")
		g.inheritedOptional(q, kind, n, s)
	}
	return s
}

// slot identifies one observation.
type slot struct {
	form  string // unq | ext | int | uses | users
	c     int    // current package
	q     int    // package named in the qualified form (== c for unq)
	kind  byte   // 'v' or 'f'
	name  string
	probe string // boundp eval symval | fboundp call funcall | "" for qualified and lists
}

func (s slot) String() string {
	return fmt.Sprintf("%s|%d|%d|%c|%s|%s", s.form, s.c, s.q, s.kind, s.name, s.probe)
}

func unqProbes(kind byte) []string {
	if kind == 'v' {
		return []string{"boundp", "eval", "symval"}
	}
	return []string{"fboundp", "call", "funcall"}
}

// slots enumerates every observation of a state, in a fixed order.
func (c *config) slots() []slot {
	var out []slot
	for ci := range c.pk {
		for _, kind := range []byte{'v', 'f'} {
			names := c.vars
			if kind == 'f' {
				names = c.funcs
			}
			for _, n := range names {
				for _, pr := range unqProbes(kind) {
					out = append(out, slot{form: "unq", c: ci, q: ci, kind: kind, name: n, probe: pr})
				}
				for qi := range c.pk {
					out = append(out, slot{form: "ext", c: ci, q: qi, kind: kind, name: n})
					out = append(out, slot{form: "int", c: ci, q: qi, kind: kind, name: n})
				}
			}
		}
	}
	for pi := range c.pk {
		out = append(out, slot{form: "uses", c: pi, q: pi})
		out = append(out, slot{form: "users", c: pi, q: pi})
	}
	return out
}

func (g *graph) letters(l []int) string {
	var s []string
	for _, i := range l {
		s = append(s, g.cfg.pk[i])
	}
	sort.Strings(s)
	return strings.Join(s, "")
}

// expected returns the acceptable observations of one slot.
func (g *graph) expected(r rules, sl slot) set {
	if g.p[sl.c].deleted {
		return set{"D": true} // no such current package: nothing can be asked from inside it
	}
	if g.p[sl.q].deleted {
		return set{"U": true} // the name designates no package
	}
	switch sl.form {
	case "uses":
		return set{"(" + g.letters(g.p[sl.c].uses) + ")": true}
	case "users":
		var us []int
		for i := range g.p {
			if g.usesPkg(i, sl.c) {
				us = append(us, i)
			}
		}
		return set{"(" + g.letters(us) + ")": true}
	case "ext":
		return g.resolveExt(r, sl.c, sl.q, sl.kind, sl.name)
	case "int":
		return g.resolveInt(sl.q, sl.kind, sl.name)
	}
	s := g.resolveUnq(r, sl.c, sl.kind, sl.name)
	if sl.probe == "boundp" || sl.probe == "fboundp" {
		b := set{}
		if s.hasValue() {
			b.add("T")
		}
		if s.has("U") {
			b.add("N")
		}
		return b
	}
	return s
}

// ---------------------------------------------------------------------------
// Transitions: what each operation may do to the graph (a set of alternatives
// where the statement leaves a choice)
// ---------------------------------------------------------------------------

// mut selects a mutated transition function (self-test); zero = reference.
type mut struct {
	unuseDropsOwn      bool // unuse-package wipes the own definitions of the unusing package
	unexportNoEffect   bool // unexport leaves the flag set
	makunboundInUsers  bool // makunbound also removes the same-named own variable of every user
	fmakunboundNothing bool // fmakunbound removes nothing
	exportNoEffect     bool // export does not set the flag
	defunInUsed        bool // defun also overwrites the same-named function of used packages
	deleteKeepsEdges   bool // delete-package leaves the use edges from and to the package
	godefNotExported   bool // a function defined through Package.Define is not exported
	reexportSkipsUsers bool // (simulated hidden state) export of a name that is already listed does not reach the users
}

type cand struct {
	q int
	d *def
}

func (g *graph) inheritedCands(p int, kind byte, n string) (out []cand) {
	direct, indirect := g.closure(p)
	for _, q := range append(direct, indirect...) {
		if d := g.tab(q, kind)[n]; d != nil && !d.hidden && d.exp {
			out = append(out, cand{q, d})
		}
	}
	// a name imported through the Go interface is the definition object of the
	// package it was imported from (Common Lisp: the same symbol): what is done
	// to the name in the importer may be done to that definition
	if m := g.p[p].imports[n]; m != nil && m.kind == kind && !g.p[m.from].deleted {
		if d := g.tab(m.from, kind)[n]; d != nil && !d.hidden {
			out = append(out, cand{m.from, d})
		}
	}
	return
}

// importers returns the packages that imported p's definition of n.
func (g *graph) importers(p int, kind byte, n string) (out []int) {
	for x := range g.p {
		if m := g.p[x].imports[n]; m != nil && m.from == p && m.kind == kind && x != p {
			out = append(out, x)
		}
	}
	return
}

// orphaned: a is a successor of g in which package p dropped or replaced its
// definition of n. Returns the variant of a in which the packages that had
// imported that definition keep it as their own (slip hands the definition
// object over at import time; Common Lisp: an imported symbol stays present in
// the importer when its home package uninterns it), nil if nobody imported it.
func (g *graph) orphaned(a *graph, p int, kind byte, n string) *graph {
	d := g.tab(p, kind)[n]
	xs := g.importers(p, kind, n)
	if d == nil || len(xs) == 0 {
		return nil
	}
	b := a.clone()
	for _, x := range xs {
		if b.p[x].deleted {
			continue
		}
		if b.tab(x, kind)[n] == nil {
			b.tab(x, kind)[n] = &def{val: d.val, exp: d.exp, orphanOf: p + 1}
		}
		if m := b.p[x].imports[n]; m != nil {
			m.kind = 0
		}
	}
	return b
}

// step returns the acceptable successor graphs of g under o. mayErr reports
// whether the operation may also signal an error (and then change nothing).
func (g *graph) step(m mut, o op) (alts []*graph, mayErr bool) {
	alts, mayErr = g.stepCore(m, o)
	p := o.actor
	// operations that drop or replace a definition: what the packages that
	// imported it are left with
	var kinds []byte
	switch o.kind {
	case "makunbound":
		kinds = []byte{'v'}
	case "fmakunbound", "godef", "godefp":
		kinds = []byte{'f'}
	case "unintern":
		kinds = []byte{'v', 'f'}
	}
	for _, kind := range kinds {
		for _, a := range append([]*graph(nil), alts...) {
			if b := g.orphaned(a, p, kind, o.name); b != nil {
				alts = append(alts, b)
			}
		}
	}
	if o.kind == "delpkg" {
		for _, a := range append([]*graph(nil), alts...) {
			if !a.p[p].deleted {
				continue
			}
			b := a
			any := false
			for _, kind := range []byte{'v', 'f'} {
				for _, n := range g.cfg.names() {
					if x := g.orphaned(b, p, kind, n); x != nil {
						b, any = x, true
					}
				}
			}
			if any {
				alts = append(alts, b)
			}
		}
	}
	switch {
	case o.kind == "lock" || o.kind == "unlock" || o.creates() || o.kind == "delpkg":
		// handled in stepCore
	case g.p[p].locked:
		// a locked package: the operation may be refused (nothing changes) or
		// carried out - the statement does not speak of locks; what it says about
		// visibility holds either way
		alts = append(alts, g.clone())
		mayErr = true
	}
	if o.fromHome() && !o.creates() && o.kind != "delpkg" && o.kind != "rename" && o.kind != "lock" && o.kind != "unlock" {
		// the other route (package argument / qualified name): slip documents no
		// difference; (setq p::v ..) of a name the package does not have, or has
		// privately, is silently ignored - accepted (the statement speaks of
		// names resolved in a package, not of assignment from outside)
		if o.kind == "xsetq" {
			alts = append(alts, g.clone())
		}
	}
	return
}

func (g *graph) stepCore(m mut, o op) (alts []*graph, mayErr bool) {
	p := o.actor
	if g.p[p].deleted && !o.creates() {
		// the operation names a package that does not exist: an error, nothing changes
		return []*graph{g.clone()}, true
	}
	if 0 <= o.argPk && g.p[o.argPk].deleted {
		return []*graph{g.clone()}, true
	}
	switch o.base() {
	case "lock", "unlock":
		a := g.clone()
		a.p[p].locked = o.kind == "lock"
		alts = append(alts, a)
	case "rename":
		// another name for the same package: nothing a name resolves to changes
		alts = append(alts, g.clone())
		if g.p[p].locked {
			mayErr = true
		}
	case "delpkg":
		a := g.clone()
		a.wipe(p)
		a.p[p].deleted = true
		if m.deleteKeepsEdges {
			a = g.clone()
			a.p[p].vars, a.p[p].funcs, a.p[p].imports = map[string]*def{}, map[string]*def{}, map[string]*imp{}
			a.p[p].deleted = true
		}
		if 0 < len(g.users(p)) || g.p[p].locked {
			// Common Lisp: a correctable error while other packages use it;
			// slip refuses, and refuses to delete a locked package
			alts = append(alts, g.clone())
			mayErr = true
		}
		alts = append(alts, a)
	case "mkpkg", "makepkg", "mkpkgu", "mkpkgx":
		if !g.p[p].deleted {
			// the name is taken: slip signals an error; Common Lisp's defpackage
			// would bring the existing package in line with the options (adds)
			alts = append(alts, g.clone())
			mayErr = true
			switch o.kind {
			case "mkpkgu":
				x, _ := g.stepCore(m, op{cfg: o.cfg, actor: p, kind: "use", argPk: o.argPk, arg: o.arg})
				alts = append(alts, x...)
			case "mkpkgx":
				x, _ := g.stepCore(m, op{cfg: o.cfg, actor: p, kind: "export", argPk: -1, arg: o.arg, name: o.name})
				alts = append(alts, x...)
			}
			break
		}
		a := g.clone()
		a.p[p].deleted = false
		switch o.kind {
		case "mkpkgu":
			a.p[p].uses = []int{o.argPk}
			alts = append(alts, a)
		case "mkpkgx":
			alts = append(alts, a) // the name is not remembered
			b := a.clone()         // or as an exported unbound placeholder
			b.p[p].vars[o.name] = &def{val: unboundVal, exp: true}
			alts = append(alts, b)
		default:
			alts = append(alts, a)
		}
	case "intern":
		alts = append(alts, g.clone())
		if g.p[p].vars[o.name] == nil && g.p[p].imports[o.name] == nil && len(g.inheritedCands(p, 'v', o.name)) == 0 {
			// no symbol of that name is accessible: one is made present in the
			// package, without a value
			a := g.clone()
			a.p[p].vars[o.name] = &def{val: unboundVal}
			alts = append(alts, a)
		}
	case "unintern":
		// the variable side is makunbound's; Common Lisp also makes the
		// function unreachable by that name, slip keeps it
		va, _ := g.stepCore(m, op{cfg: o.cfg, actor: p, kind: "makunbound", argPk: -1, arg: o.arg, name: o.name})
		for _, a := range va {
			alts = append(alts, a)
			fa, _ := a.stepCore(m, op{cfg: o.cfg, actor: p, kind: "fmakunbound", argPk: -1, arg: o.arg, name: o.name})
			alts = append(alts, fa...)
		}
	case "godef", "godefp":
		val, exp := godefVal(p), true
		if o.kind == "godefp" {
			val, exp = godefpVal(p), false
		}
		// Package.Define: the package has this function from now on, whatever it
		// had or inherited under the name before
		a := g.clone()
		a.p[p].funcs[o.name] = &def{val: val, exp: exp}
		if ph := a.p[p].vars[o.name]; ph != nil && ph.val == unboundVal {
			b := a.clone() // an export-before-definition placeholder may be consumed
			delete(b.p[p].vars, o.name)
			alts = append(alts, b)
		}
		alts = append(alts, a)
		if m.godefNotExported {
			a.p[p].funcs[o.name].exp = false
		}
	case "goimport":
		q := o.argPk
		any := false
		for _, kind := range []byte{'v', 'f'} {
			// what the source package holds under the name: its own entry
			// (also an unbound one), or what it inherits or imports itself
			has := g.tab(q, kind)[o.name] != nil || 0 < len(g.inheritedCands(q, kind, o.name))
			if im := g.p[q].imports[o.name]; im != nil && im.kind == kind {
				has = true
			}
			if !has {
				continue
			}
			any = true
			a := g.clone()
			a.p[p].imports[o.name] = &imp{from: q, kind: kind}
			alts = append(alts, a)
			if own := a.tab(p, kind)[o.name]; own != nil {
				// the package has a definition of its own under the name: Common
				// Lisp signals a conflict, slip lets the import replace it - the
				// statement's list of operations that must not lose a definition
				// does not include the import
				b := a.clone()
				delete(b.tab(p, kind), o.name)
				alts = append(alts, b)
				alts = append(alts, g.clone())
				mayErr = true
			}
		}
		if !any {
			alts = append(alts, g.clone()) // nothing to import: an error, nothing changes
			mayErr = true
		}
	case "use":
		a := g.clone()
		if !a.usesPkg(p, o.argPk) {
			a.p[p].uses = append(a.p[p].uses, o.argPk)
		}
		alts = append(alts, a)
		// Common Lisp signals a name conflict when the used package exports a
		// name the using package owns (or inherits from elsewhere): refusing is
		// acceptable too.
		if g.useConflict(p, o.argPk) {
			alts = append(alts, g.clone())
			mayErr = true
		}
	case "unuse":
		a := g.clone()
		var nu []int
		for _, u := range a.p[p].uses {
			if u != o.argPk {
				nu = append(nu, u)
			}
		}
		a.p[p].uses = nu
		if m.unuseDropsOwn {
			a.p[p].vars = map[string]*def{}
			a.p[p].funcs = map[string]*def{}
		}
		alts = append(alts, a)
	case "export":
		if m.exportNoEffect {
			alts = append(alts, g.clone())
			break
		}
		a := g.clone()
		any := false
		for _, kind := range []byte{'v', 'f'} {
			if d := a.tab(p, kind)[o.arg]; d != nil {
				d.exp = true
				d.hidden = false
				any = true
			}
		}
		alts = append(alts, a)
		if !any {
			// nothing own: exporting an inherited or an unknown name may
			// record an exported unbound placeholder, or do nothing.
			b := g.clone()
			b.p[p].vars[o.arg] = &def{val: unboundVal, exp: true}
			alts = append(alts, b)
		}
	case "unexport":
		if m.unexportNoEffect {
			alts = append(alts, g.clone())
			break
		}
		a := g.clone()
		for _, kind := range []byte{'v', 'f'} {
			if d := a.tab(p, kind)[o.arg]; d != nil && !d.hidden {
				d.exp = false
			}
		}
		alts = append(alts, a)
		if d := g.p[p].vars[o.arg]; d != nil && d.val == unboundVal {
			b := a.clone()
			delete(b.p[p].vars, o.arg)
			alts = append(alts, b)
		}
	case "defvar":
		own := g.p[p].vars[o.arg]
		switch {
		case own != nil && own.val != unboundVal:
			alts = append(alts, g.clone())
		case own != nil:
			a := g.clone()
			a.p[p].vars[o.arg].val = o.val()
			alts = append(alts, a)
		default:
			cs := g.inheritedCands(p, 'v', o.arg)
			bound := false
			for _, c := range cs {
				if c.d.val != unboundVal {
					bound = true
				}
			}
			if bound {
				alts = append(alts, g.clone()) // already bound through inheritance: nothing to do
			}
			for _, c := range cs {
				if c.d.val == unboundVal { // the inherited placeholder receives the value
					a := g.clone()
					a.p[c.q].vars[o.arg].val = o.val()
					alts = append(alts, a)
				}
			}
			a := g.clone() // the package gets its own definition
			a.p[p].vars[o.arg] = &def{val: o.val()}
			alts = append(alts, a)
		}
	case "setq":
		own := g.p[p].vars[o.arg]
		if own != nil {
			a := g.clone()
			a.p[p].vars[o.arg].val = o.val()
			alts = append(alts, a)
			break
		}
		for _, c := range g.inheritedCands(p, 'v', o.arg) {
			a := g.clone()
			a.p[c.q].vars[o.arg].val = o.val()
			alts = append(alts, a)
		}
		a := g.clone()
		a.p[p].vars[o.arg] = &def{val: o.val()}
		alts = append(alts, a)
	case "defun":
		own := g.p[p].funcs[o.arg]
		if own != nil && !own.hidden {
			a := g.clone()
			a.p[p].funcs[o.arg].val = o.val()
			if m.defunInUsed {
				for _, q := range a.p[p].uses {
					if d := a.p[q].funcs[o.arg]; d != nil {
						d.val = o.val()
					}
				}
			}
			alts = append(alts, a)
			break
		}
		exp := false
		ph := g.p[p].vars[o.arg]
		if ph != nil && ph.val == unboundVal && ph.exp {
			exp = true
		}
		for _, c := range g.inheritedCands(p, 'f', o.arg) {
			// Common Lisp reading: the inherited symbol's function is redefined
			a := g.clone()
			a.p[c.q].funcs[o.arg].val = o.val()
			alts = append(alts, a)
		}
		exps := []bool{exp}
		if !exp {
			// an exported unbound placeholder inherited from a used package: the
			// new function may take over the export status of that name (S2)
			for _, c := range g.inheritedCands(p, 'v', o.arg) {
				if c.d.val == unboundVal {
					exps = append(exps, true)
					break
				}
			}
		}
		keeps := []bool{false}
		if ph != nil && ph.val == unboundVal {
			keeps = []bool{false, true}
		}
		for _, e := range exps {
			for _, keepPh := range keeps {
				a := g.clone()
				a.p[p].funcs[o.arg] = &def{val: o.val(), exp: e}
				if ph != nil && ph.val == unboundVal && !keepPh {
					delete(a.p[p].vars, o.arg)
				}
				if m.defunInUsed {
					for _, q := range a.p[p].uses {
						if d := a.p[q].funcs[o.arg]; d != nil {
							d.val = o.val()
						}
					}
				}
				alts = append(alts, a)
			}
		}
	case "makunbound", "fmakunbound":
		kind := byte('v')
		if o.kind == "fmakunbound" {
			kind = 'f'
		}
		if kind == 'f' && m.fmakunboundNothing {
			alts = append(alts, g.clone())
			break
		}
		own := g.tab(p, kind)[o.arg]
		if own != nil && !own.hidden {
			a := g.clone()
			delete(a.tab(p, kind), o.arg)
			if kind == 'v' && m.makunboundInUsers {
				for i := range a.p {
					if a.usesPkg(i, p) {
						delete(a.p[i].vars, o.arg)
					}
				}
			}
			alts = append(alts, a)
			// keeping the entry as an unbound one (the symbol stays present in
			// the package, export flag retained: Common Lisp) is fine too
			b := g.clone()
			b.tab(p, kind)[o.arg].val = unboundVal
			alts = append(alts, b)
			break
		}
		alts = append(alts, g.clone()) // no own definition: nothing to remove
		if cs := g.inheritedCands(p, kind, o.arg); 0 < len(cs) {
			// slip's reading (asserted for unintern, which shares Package.Remove
			// with makunbound, by its own test TestUninternInherited): the
			// inherited name is hidden in this package only
			a := g.clone()
			a.tab(p, kind)[o.arg] = &def{val: unboundVal}
			alts = append(alts, a)
		}
		for _, c := range g.inheritedCands(p, kind, o.arg) {
			// Common Lisp reading: the inherited symbol itself becomes unbound
			a := g.clone()
			delete(a.tab(c.q, kind), o.arg)
			alts = append(alts, a)
			b := g.clone()
			b.tab(c.q, kind)[o.arg].val = unboundVal
			alts = append(alts, b)
		}
	}
	return
}

// useConflict: would (use-package q) in p be a name conflict in Common Lisp?
func (g *graph) useConflict(p, q int) bool {
	for _, kind := range []byte{'v', 'f'} {
		for n, d := range g.tab(q, kind) {
			if d.hidden || !d.exp {
				continue
			}
			if own := g.tab(p, kind)[n]; own != nil && !own.hidden {
				return true
			}
			for _, c := range g.inheritedCands(p, kind, n) {
				if c.q != q {
					return true
				}
			}
		}
	}
	return false
}
