//go:build verif

package c19

import (
	"fmt"
	"strings"

	"verif/engine"
)

// element vocabulary for containers: feat -> literal as it appears inside a
// quoted list / as an evaluated expression.
type elem struct {
	feat   string
	quoted string // inside '( ... )
	expr   string // as an expression
}

var elems = []elem{
	{"fix", "7", "7"},
	{"neg", "-12", "-12"},
	{"big", "18446744073709551617", "18446744073709551617"},
	{"ratio", "-2/3", "-2/3"},
	{"dbl", "1.5", "1.5"},
	{"dbl-tenth", "0.1", "0.1"},
	{"sgl", "2.5s0", "2.5s0"},
	{"str", `"a b"`, `"a b"`},
	{"str-esc", `"q\"b\\c"`, `"q\"b\\c"`},
	{"chr", `#\a`, `#\a`},
	{"key", ":k", ":k"},
	{"sym", "sym", "'sym"},
	{"nil", "nil", "nil"},
	{"t", "t", "t"},
	{"lst", "(1 2)", "'(1 2)"},
	{"dot", "(1 . 2)", "'(1 . 2)"},
	{"vec", "#(1 2)", "#(1 2)"},
}

// hashKeyOK: list keys fault in Go (unhashable slice; C09/C16 territory) and
// bignum / ratio keys are compared by pointer identity by HashTable.Equal
// (the C16 finding), vectors are pointers too: neither is about load forms,
// they are left out.
func hashKeyOK(feat string) bool {
	switch feat {
	case "nil", "lst", "dot", "big", "ratio", "vec":
		return false
	}
	return true
}

func rep(s string, n int) string {
	return strings.TrimSpace(strings.Repeat(s+" ", n))
}

var lfCases []*lfCase
var lfIndex = map[string]*lfCase{}

func addCase(c *lfCase) {
	if _, has := lfIndex[c.label]; has {
		panic("duplicate case " + c.label)
	}
	lfIndex[c.label] = c
	lfCases = append(lfCases, c)
}

func data(kind, feat, label, obj string) {
	addCase(&lfCase{label: label, kind: kind, feat: feat, obj: obj})
}

func dataT(kind, feat, label, obj string) {
	addCase(&lfCase{label: label, kind: kind, feat: feat, obj: obj, tier: engine.Thorough})
}

// lamDef: lambda list, body, probe argument lists.
type lamDef struct {
	feat  string
	args  string
	body  string
	calls []string
}

var longDoc = `"Doc one two three four five six seven eight nine ten eleven twelve thirteen fourteen fifteen sixteen seventeen eighteen nineteen twenty."`

var lamDefs = []lamDef{
	{"plain", "(x)", "(+ x 1)", []string{"1", "-5"}},
	{"noargs", "()", "42", []string{""}},
	{"optional", "(x &optional (y 2))", "(list x y)", []string{"1", "1 5"}},
	{"key", `(x &key (k "d") j)`, "(list x k j)", []string{"1", "1 :k 2 :j 3", "1 :j 9"}},
	{"rest", "(x &rest r)", "(cons x r)", []string{"1", "1 2 3"}},
	{"doc", "(x)", `"Doc short." (* x x)`, []string{"3"}},
	{"doc-long", "(x)", longDoc + " (* x x)", []string{"3"}},
	// documentation text is data: characters that mean something to the documentation renderer or to the reader stay
	{"doc-underscore", "(x)", `"Doc with an under_score and _emphasis_ in it." (* x x)`, []string{"3"}},
	{"doc-quote", "(x)", `"Doc with a \"quoted\" word and a back\\slash." (* x x)`, []string{"3"}},
	{"string-only-body", "()", `"under_score \"q\" is the value"`, []string{""}},
	{"let", "(x)", `(let ((a (+ x 1)) (b (* x 2)) (c "str ing") d) (list a b c d))`, []string{"1", "10"}},
	{"let-star", "(x)", `(let* ((a (+ x 1)) (b (* a 2)) (c (list a b))) (list a b c))`, []string{"1", "10"}},
	{"let-long", "(x)", `(let ((alpha-variable (+ x 100000)) (beta-variable (* x 200000)) (gamma-variable "a string value") (delta-variable '(1 2 3))) (list alpha-variable beta-variable gamma-variable delta-variable))`, []string{"1", "7"}},
	{"cond", "(x)", `(cond ((< x 0) 'neg) ((= x 0) "zero") (t (list 'pos x)))`, []string{"-1", "0", "4"}},
	{"if-progn", "(x)", `(if (< x 0) (progn (setq x (- x)) (list x x)) x)`, []string{"-3", "3"}},
	{"when-unless", "(x)", `(list (when (< x 0) 'neg) (unless (< x 0) 'nonneg))`, []string{"-3", "3"}},
	{"dotimes", "(n)", `(let ((s 0)) (dotimes (i n) (setq s (+ s i))) s)`, []string{"0", "5"}},
	{"dolist", "(l)", `(let ((s nil)) (dolist (e l) (setq s (cons (* 2 e) s))) s)`, []string{"'(1 2 3)", "nil"}},
	{"do", "(n)", `(do ((i 0 (1+ i)) (acc nil (cons i acc))) ((= i n) acc))`, []string{"0", "4"}},
	{"block", "(x)", `(block b (when (< x 0) (return-from b 'neg)) 'ok)`, []string{"-1", "1"}},
	{"quote", "(x)", `(append x '(1 (2 "s") sym (3 . 4) :k #\c))`, []string{"nil", "'(9)"}},
	{"quote-long", "(x)", `(cons x '(alpha beta gamma delta epsilon zeta eta theta iota kappa lambda mu nu xi omicron pi rho sigma tau upsilon phi chi psi omega))`, []string{"1"}},
	{"nested-lambda", "(x)", `(mapcar (lambda (y) (+ x y)) '(1 2 3))`, []string{"1", "10"}},
	{"function-ref", "(l)", `(mapcar #'1+ l)`, []string{"'(1 2)", "nil"}},
	{"with-output", "(x)", `(with-output-to-string (s) (princ x s) (princ "-" s))`, []string{"1", `"ab"`}},
	{"string-esc", "(x)", "(concatenate 'string x \"a\\\"b\\\\c\nd\te\")", []string{`"z"`}},
	{"string-long", "(x)", `(list x "a long string of words that is wider than the narrow margins so that it can not fit on one line at all")`, []string{"1"}},
	{"char", "(s)", `(list (char= #\a (char s 0)) #\Space #\A #\z)`, []string{`"ab"`, `"b"`}},
	{"flet", "(x)", `(flet ((g (y) (* y 2)) (h (y) (+ y 1))) (g (h x)))`, []string{"1", "5"}},
	{"labels", "(x)", `(labels ((fact (n) (if (< n 2) 1 (* n (fact (1- n)))))) (fact x))`, []string{"1", "5"}},
	{"case", "(x)", `(case x (1 'one) ((2 3) 'few) (t 'many))`, []string{"1", "3", "9"}},
	{"mvb", "(x)", `(multiple-value-bind (q r) (floor x 3) (list q r))`, []string{"7", "-7"}},
	{"setf-nth", "(x)", `(let ((l (list 1 2 3))) (setf (nth 1 l) x) l)`, []string{"9"}},
	{"long-call", "(a)", `(list a (+ a 1) (+ a 2) (* a 3) (- a 4) "some text here" (list a a a) (+ a 5) (+ a 6) (* a 7) :keyword-value (- a 8) (+ a 9))`, []string{"1", "100"}},
	{"deep-nest", "(a)", `(list (list (list (list (list (list (list (list a (+ a 1)) (+ a 2)) (+ a 3)) (+ a 4)) (+ a 5)) (+ a 6)) (+ a 7)) (+ a 8))`, []string{"1"}},
	{"numbers", "(a)", `(list a 18446744073709551617 -2/3 1.5 0.1 2.5s0 1.0e100 #xff)`, []string{"1"}},
	{"vector-literal", "(a)", `(list a #(1 2 "x") #())`, []string{"1"}},
	{"backquote", "(x)", "`(a ,x ,@(list x x) b)", []string{"1"}},
	{"handler", "(x)", `(handler-case (/ 10 x) (error (e) 'div))`, []string{"0", "5"}},
	{"unwind", "(x)", `(let ((r nil)) (unwind-protect (setq r (list x)) (setq r (cons 'done r))) r)`, []string{"1"}},
	{"and-or", "(x y)", `(list (and x y) (or x y) (not x))`, []string{"nil 2", "1 nil", "1 2"}},
	{"make-instance", "(x)", `(make-instance 'vanilla-flavor)`, nil},
	{"defvar-in-body", "(x)", `(progn (defvar $v x "Doc var.") $v)`, []string{"1"}},
	// a call whose function position is a lambda expression, inside a body (a compiled call object without a name)
	{"inplace-lambda-call", "(y)", `((lambda (x) (+ x y)) 1)`, []string{"2"}},
	{"inplace-lambda-call-nested", "(y)", `(list ((lambda (x &optional (z 3)) (list x y z)) 1) y)`, []string{"2"}},
	{"empty-body", "(x)", ``, []string{"1"}},
}

func init() {
	// ---------------------------------------------------------------- numbers
	for _, n := range [][2]string{
		{"fix", "0"}, {"fix", "-1"}, {"fix", "4611686018427387904"}, {"fix", "-9223372036854775808"},
		{"big", "18446744073709551616"}, {"big", "-1180591620717411303424"},
		{"big", "1234567890123456789012345678901234567890123456789012345678901"},
		{"ratio", "1/2"}, {"ratio", "-18446744073709551616/3"},
		{"dbl", "1.5"}, {"dbl", "0.1"}, {"dbl", "1.0e100"}, {"dbl", "-1.0e-10"}, {"dbl", "123456789.125"}, {"dbl", "0.0"},
		{"sgl", "1.5s0"}, {"sgl", "0.1s0"}, {"sgl", "1.0s10"}, {"sgl", "-3.25s-5"},
		{"long", "1.5L0"}, {"long", "0.1L0"}, {"long", "1.23456789012345678901234567890L20"},
		{"complex", "#C(1 2)"}, {"complex", "#C(1.5 -2.5)"},
		{"octet", "(coerce 200 'octet)"},
		{"hex", "#xff"},
	} {
		data("number", n[0], "num:"+n[1], n[1])
	}
	// ---------------------------------------------------------------- strings
	for i, s := range [][2]string{
		{"empty", `""`}, {"plain", `"abc"`}, {"spaces", `"a b  c"`}, {"quote", `"a\"b"`}, {"backslash", `"a\\b"`},
		{"newline", "\"a\nb\""}, {"tab", "\"a\tb\""}, {"unicode", `"héé ü→"`}, {"parens", `"(a . b) ; c"`},
		{"long", `"` + rep("word", 40) + `"`}, {"long-nospace", `"` + strings.Repeat("x", 150) + `"`},
		{"bar", `"a|b"`}, {"hash", `"#(1 2)"`},
	} {
		data("string", s[0], fmt.Sprintf("str:%d:%s", i, s[0]), s[1])
	}
	// ---------------------------------------------------------------- symbols
	for _, s := range [][2]string{
		{"plain", "'abc"}, {"keyword", ":key"}, {"t", "t"}, {"dashes", "'a-long-symbol-name*"},
		{"piped-space", "go-symbol:Foo Bar"}, {"piped-case", "go-symbol:Foo"},
	} {
		data("symbol", s[0], "sym:"+s[0], s[1])
	}
	// ------------------------------------------------------------- characters
	for _, s := range [][2]string{
		{"letter", `#\a`}, {"upper", `#\A`}, {"space", `#\Space`}, {"newline", `#\Newline`}, {"digit", `#\7`},
		{"unicode", `#\ü`}, {"tab", `#\Tab`}, {"punct", `#\*`}, {"paren", `(code-char 40)`}, {"quote", `(code-char 34)`}, {"semicolon", `(code-char 59)`},
	} {
		data("character", s[0], "chr:"+s[0], s[1])
	}
	// ------------------------------------------------------------------ lists
	for _, e := range elems {
		data("list", e.feat, "list:2:"+e.feat, "'("+rep(e.quoted, 2)+")")
		data("list", e.feat, "list:14:"+e.feat, "'("+rep(e.quoted, 14)+")")
		data("list", e.feat, "list:nested:"+e.feat, "'(("+e.quoted+") ("+e.quoted+" ("+e.quoted+")))")
		// (x . (1 2)) IS the list (x 1 2) and (x . nil) is (x): only atom tails are dotted lists
		atomTail := e.feat != "lst" && e.feat != "dot" && e.feat != "nil"
		if atomTail {
			data("list-dotted", e.feat, "list:dot2:"+e.feat, "'("+e.quoted+" . "+e.quoted+")")
			data("list-dotted", e.feat, "list:dot3:"+e.feat, "'("+e.quoted+" "+e.quoted+" . "+e.quoted+")")
		} else if e.feat != "nil" {
			data("list-dotted", e.feat, "list:dot2:"+e.feat, "'("+e.quoted+" . 5)")
			data("list-dotted", e.feat, "list:dot3:"+e.feat, "'("+e.quoted+" "+e.quoted+" . \"tail\")")
		}
		dataT("list", e.feat, "list:40:"+e.feat, "'("+rep(e.quoted, 40)+")")
		if atomTail {
			dataT("list-dotted", e.feat, "list:dot12:"+e.feat, "'("+rep(e.quoted, 12)+" . "+e.quoted+")")
		}
	}
	data("list", "mixed", "list:mixed", `'(1 "two" 3.5 (4 (5 "six")) #\7 :eight 9/10 nil t)`)
	data("list", "deep", "list:deep", `'(1 (2 (3 (4 (5 (6 (7 (8 (9 (10))))))))))`)
	for i, a := range elems {
		for j, b := range elems {
			if i != j {
				dataT("list", a.feat+"+"+b.feat, "list:pair:"+a.feat+":"+b.feat, "'("+a.quoted+" "+b.quoted+" ("+b.quoted+" "+a.quoted+"))")
				lfIndex["list:pair:"+a.feat+":"+b.feat].parts = []string{"list:2:" + a.feat, "list:2:" + b.feat}
			}
		}
	}
	// ---------------------------------------------------------------- vectors
	for _, e := range elems {
		data("vector", e.feat, "vec:3:"+e.feat, "(vector "+rep(e.expr, 3)+")")
		data("vector", e.feat, "vec:14:"+e.feat, "(vector "+rep(e.expr, 14)+")")
		dataT("vector", e.feat, "vec:40:"+e.feat, "(vector "+rep(e.expr, 40)+")")
	}
	data("vector", "empty", "vec:empty", "(vector)")
	data("vector", "literal", "vec:literal", `#(1 "a" (2 3) #(4))`)
	data("vector", "adjustable", "vec:adjustable", "(make-array 3 :adjustable t :initial-contents '(1 2 3))")
	data("vector", "fill-pointer", "vec:fill-pointer", "(make-array 5 :fill-pointer 2 :initial-contents '(1 2 3 4 5))")
	data("vector", "element-type", "vec:element-type", "(make-array 3 :element-type 'fixnum :initial-contents '(1 2 3))")
	// vectors that changed size after they were made
	data("vector", "grown", "vec:grown", "(let ((v (make-array 2 :fill-pointer 2 :adjustable t :initial-contents '(1 2)))) (vector-push-extend 3 v) (vector-push-extend 4 v) v)")
	data("vector", "popped-then-grown", "vec:popped-grown", "(let ((v (make-array 4 :fill-pointer 3 :adjustable t :initial-contents '(1 2 3 4)))) (vector-pop v) (vector-push-extend 8 v) (vector-push-extend 9 v) (vector-push-extend 10 v) v)")
	data("vector", "pushed-within-size", "vec:pushed", "(let ((v (make-array 4 :fill-pointer 1 :initial-contents '(1 2 3 4)))) (vector-push 9 v) v)")
	data("vector", "adjusted", "vec:adjusted", "(adjust-array (make-array 2 :adjustable t :initial-contents '(1 2)) 4 :initial-element 7)")
	data("vector", "adjusted-smaller", "vec:adjusted-smaller", "(adjust-array (make-array 4 :adjustable t :initial-contents '(1 2 3 4)) 2)")
	data("vector", "octets", "vec:octets", `(coerce '(1 2 255) 'octets)`)
	data("vector", "bit-vector", "vec:bit-vector", `#*10110`)
	// ----------------------------------------------------------------- arrays
	for _, e := range elems {
		data("array", e.feat, "arr:2x2:"+e.feat, "(make-array '(2 2) :initial-contents (list (list "+rep(e.expr, 2)+") (list "+rep(e.expr, 2)+")))")
	}
	data("array", "rank3", "arr:2x3x2", "(make-array '(2 3 2) :initial-contents '(((1 2) (3 4) (5 6)) ((7 8) (9 10) (11 12))))")
	data("array", "wide", "arr:3x12", "(make-array '(3 12) :initial-element 1234567)")
	data("array", "element-type", "arr:fixnum", "(make-array '(2 2) :element-type 'fixnum :initial-contents '((1 2) (3 4)))")
	data("array", "adjustable", "arr:adjustable", "(make-array '(2 2) :adjustable t :initial-contents '((1 2) (3 4)))")
	// ------------------------------------------------------------ hash tables
	data("hash-table", "empty", "hash:empty", "(make-hash-table)")
	hash := func(k, v string) string {
		return "(let ((h (make-hash-table))) (setf (gethash " + k + " h) " + v + ") h)"
	}
	for _, e := range elems {
		if !hashKeyOK(e.feat) {
			continue
		}
		data("hash-table", "key="+e.feat, "hash:key:"+e.feat, hash(e.expr, "1"))
	}
	data("hash-table", "key=nil", "hash:key:nil", hash("nil", "1"))
	for _, e := range elems {
		data("hash-table", "val="+e.feat, "hash:val:"+e.feat, hash("1", e.expr))
	}
	data("hash-table", "val=hash", "hash:val:hash", hash(":k", hash("1", "2")))
	data("hash-table", "many", "hash:many", `(let ((h (make-hash-table))) (dotimes (i 12) (setf (gethash i h) (* i 1000000))) (setf (gethash "s" h) "v") (setf (gethash :k h) 2.5) h)`)
	data("hash-table", "test-equal", "hash:test-equal", `(let ((h (make-hash-table :test 'equal))) (setf (gethash "a" h) 1) h)`)
	for _, k := range elems {
		for _, v := range elems {
			if hashKeyOK(k.feat) {
				dataT("hash-table", "key="+k.feat+",val="+v.feat, "hash:kv:"+k.feat+":"+v.feat, hash(k.expr, v.expr))
				lfIndex["hash:kv:"+k.feat+":"+v.feat].parts = []string{"hash:key:" + k.feat, "hash:val:" + v.feat}
			}
		}
	}
	// ---------------------------------------------------------------- lambdas
	for _, ld := range lamDefs {
		var probes []string
		for _, call := range ld.calls {
			probes = append(probes, strings.TrimSpace("(funcall f "+call)+")")
		}
		sup := ""
		if strings.Contains(ld.body, "$v") {
			sup = "(defvar $v nil)"
		}
		addCase(&lfCase{label: "lambda:" + ld.feat, kind: "lambda", feat: ld.feat, support: sup,
			obj: "(lambda " + ld.args + " " + ld.body + ")", probes: probes})
		// the same body as a named function and as a macro-free defun
		var fprobes []string
		for _, call := range ld.calls {
			fprobes = append(fprobes, strings.TrimSpace("($f "+call)+")")
		}
		fprobes = append(fprobes, "(make-load-form '$f)")
		if strings.HasPrefix(ld.feat, "doc") {
			// next to the text comparison: what (documentation) answers
			fprobes = append(fprobes, "(documentation '$f 'function)")
		}
		addCase(&lfCase{label: "defun:" + ld.feat, kind: "defun", feat: ld.feat, support: sup,
			setup: "(defun $f " + ld.args + " " + ld.body + ")", defs: []string{"(make-load-form '$f)"}, probes: fprobes})
	}
	// ----------------------------------------------------------------- macros
	addCase(&lfCase{label: "defmacro:list", kind: "defmacro", feat: "list-built",
		setup: `(defmacro $m (a b) "Doc macro." (list '+ a (list '* 2 b)))`, defs: []string{"(make-load-form '$m)"},
		probes: []string{"($m 1 2)", "(macroexpand-1 '($m x y))", "(make-load-form '$m)"}})
	addCase(&lfCase{label: "defmacro:backquote", kind: "defmacro", feat: "backquote",
		setup: "(defmacro $m (a &rest body) `(let ((v ,a)) ,@body (list v ,a)))", defs: []string{"(make-load-form '$m)"},
		probes: []string{"($m 1 2)", "(macroexpand-1 '($m x y z))", "(make-load-form '$m)"}})
	addCase(&lfCase{label: "defmacro:optional", kind: "defmacro", feat: "optional",
		setup: `(defmacro $m (a &optional (b 5)) (list 'list a b))`, defs: []string{"(make-load-form '$m)"},
		probes: []string{"($m 1)", "($m 1 2)", "(make-load-form '$m)"}})
	// ------------------------------------------------------------------ calls
	for i, cs := range [][2]string{
		{"arith", `(+ 1 2)`}, {"strings", `(list 1 "a" :k #\c 2.5)`}, {"quote", `(car '(1 2))`},
		{"quote-nested", `(append '(1 2) '((3 . 4) "s" sym))`}, {"let", `(let ((a 1) (b 2)) (+ a b))`},
		{"let-star", `(let* ((a 1) (b (+ a 2))) (list a b))`},
		{"cond", `(cond ((< 1 2) 'a) (t 'b))`}, {"if", `(if t 1 2)`},
		{"dynamic", `((lambda (x y) (car x)) '(1 nil) 2)`}, {"format", `(format nil "~a-~a" 1 "x")`},
		{"funcall-lambda", `(funcall (lambda (x) (* x 2)) 4)`}, {"concatenate", `(concatenate 'string "a" "b")`},
		{"vector", `(vector 1 2)`}, {"nested", `(list (list 1 (list 2 (list 3 (list 4 (list 5 (list 6 (list 7 "eight" (list 9 10)))))))))`},
		{"long", `(list 1000001 1000002 1000003 1000004 1000005 1000006 1000007 1000008 1000009 1000010 1000011 1000012 1000013 1000014)`},
		{"progn", `(progn (list 1) (list 2 3))`}, {"dotimes", `(let ((s 0)) (dotimes (i 4) (setq s (+ s i))) s)`},
		{"block", `(block b (return-from b 5) 6)`}, {"mapcar", `(mapcar #'1+ '(1 2 3))`},
		{"nil-args", `(list nil nil t)`}, {"vector-literal", `(length #(1 2 3))`},
		{"string-esc", `(length "a\"b\\c")`}, {"with-output", `(with-output-to-string (s) (princ 12 s))`},
		{"make-hash", `(hash-table-count (make-hash-table))`}, {"setq-let", `(let ((a nil)) (setq a '(1 . 2)) a)`},
	} {
		addCase(&lfCase{label: fmt.Sprintf("call:%d:%s", i, cs[0]), kind: "call", feat: cs[0], obj: cs[1], funky: true})
	}
	// --------------------------------------------------------------- packages
	pkgProbe := "(c19-package-dump \"$p\")"
	addCase(&lfCase{label: "package:plain", kind: "package", feat: "plain",
		setup: `(defpackage :$p)`, defs: []string{"(make-load-form (find-package '$p))"}, probes: []string{pkgProbe}})
	addCase(&lfCase{label: "package:use", kind: "package", feat: "use",
		setup: `(defpackage :$p (:use cl gi))`, defs: []string{"(make-load-form (find-package '$p))"}, probes: []string{pkgProbe}})
	addCase(&lfCase{label: "package:nicknames", kind: "package", feat: "nicknames",
		setup: `(defpackage :$p (:nicknames $n $o))`, defs: []string{"(make-load-form (find-package '$p))"}, probes: []string{pkgProbe}})
	addCase(&lfCase{label: "package:export", kind: "package", feat: "export",
		setup: `(defpackage :$p (:use cl) (:export $x $y))`, defs: []string{"(make-load-form (find-package '$p))"}, probes: []string{pkgProbe}})
	addCase(&lfCase{label: "package:doc", kind: "package", feat: "documentation",
		setup: `(defpackage :$p (:documentation "Doc of the package."))`, defs: []string{"(make-load-form (find-package '$p))"}, probes: []string{pkgProbe}})
	addCase(&lfCase{label: "package:all", kind: "package", feat: "all-options",
		setup:  `(defpackage :$p (:nicknames $n) (:use cl) (:export $x-exported-symbol-one $y-exported-symbol-two $z-exported-symbol-three) (:documentation ` + longDoc + `))`,
		defs:   []string{"(make-load-form (find-package '$p))"},
		probes: []string{pkgProbe}})
	addCase(&lfCase{label: "package:uses-user-package", kind: "package", feat: "use-user-package",
		setup: `(defpackage :$b (:export $x)) (defpackage :$p (:use $b cl))`,
		defs:  []string{"(make-load-form (find-package '$b))", "(make-load-form (find-package '$p))"}, probes: []string{pkgProbe, "(c19-package-dump \"$b\")"}})
	// ---------------------------------------------------------------- flavors
	flv := func(feat, setup string, defs []string, probes ...string) {
		if defs == nil {
			defs = []string{"(make-load-form '$f)"}
		}
		probes = append(probes, "(make-load-form '$f)")
		if strings.HasPrefix(feat, "documentation") {
			probes = append(probes, "(documentation '$f 'type)")
		}
		addCase(&lfCase{label: "flavor:" + feat, kind: "flavor", feat: feat, setup: setup, defs: defs, probes: probes})
	}
	flv("plain", `(defflavor $f (a b) ())`, nil, "(c19-instance-dump (make-instance '$f))")
	flv("defaults", `(defflavor $f ((a 1) (b "two") (c 2.5) d) () :gettable-instance-variables)`, nil,
		"(c19-instance-dump (make-instance '$f))", "(send (make-instance '$f) :b)")
	flv("all-accessors", `(defflavor $f ((a 1) (b 2)) () :gettable-instance-variables :settable-instance-variables :inittable-instance-variables)`, nil,
		"(c19-instance-dump (make-instance '$f :a 5))", "(let ((i (make-instance '$f))) (send i :set-b 9) (send i :b))")
	flv("some-gettable", `(defflavor $f ((a 1) (b 2) (c 3)) () (:gettable-instance-variables a c))`, nil,
		"(send (make-instance '$f) :a)", "(send (make-instance '$f) :b)", "(send (make-instance '$f) :c)")
	flv("some-settable", `(defflavor $f ((a 1) (b 2) (c 3)) () (:settable-instance-variables b))`, nil,
		"(let ((i (make-instance '$f))) (send i :set-b 9) (c19-instance-dump i))", "(send (make-instance '$f) :set-a 4)")
	flv("some-inittable", `(defflavor $f ((a 1) (b 2) (c 3)) () (:inittable-instance-variables a c))`, nil,
		"(c19-instance-dump (make-instance '$f :a 7 :c 8))", "(c19-instance-dump (make-instance '$f :b 7))")
	flv("two-inittable-of-four", `(defflavor $f ((a 1) (b 2) (c 3) (d 4)) () (:inittable-instance-variables b d) :gettable-instance-variables)`, nil,
		"(c19-instance-dump (make-instance '$f :b 7 :d 8))", "(c19-instance-dump (make-instance '$f :a 7))")
	flv("default-init-plist", `(defflavor $f ((a 1) b) () :inittable-instance-variables (:default-init-plist (:b 22)))`, nil,
		"(c19-instance-dump (make-instance '$f))", "(c19-instance-dump (make-instance '$f :b 3))")
	flv("documentation", `(defflavor $f (a) () (:documentation "Doc of flavor."))`, nil, "(c19-instance-dump (make-instance '$f))")
	flv("documentation-long", `(defflavor $f (a) () (:documentation `+longDoc+`))`, nil, "(c19-instance-dump (make-instance '$f))")
	flv("abstract", `(defflavor $f (a) () :abstract-flavor)`, nil, "(make-instance '$f)")
	flv("no-vanilla", `(defflavor $f (a) () :no-vanilla-flavor)`, nil, "(send (make-instance '$f) :id)")
	flv("default-value-list", `(defflavor $f ((a '(1 2)) (b 'sym)) () :gettable-instance-variables)`, nil,
		"(c19-instance-dump (make-instance '$f))")
	flv("default-value-expr", `(defflavor $f ((a (+ 1 2)) (b (list 1 "x"))) () :gettable-instance-variables)`, nil,
		"(c19-instance-dump (make-instance '$f))")
	flv("many-vars", `(defflavor $f ((alpha-variable 100000) (beta-variable 200000) (gamma-variable "a string value") (delta-variable 4.5) (epsilon-variable :key) zeta-variable) () :gettable-instance-variables :settable-instance-variables)`, nil,
		"(c19-instance-dump (make-instance '$f))")
	flv("inherit", `(defflavor $b ((x 1)) () :gettable-instance-variables) (defflavor $f ((y 2)) ($b) :gettable-instance-variables)`,
		[]string{"(make-load-form '$b)", "(make-load-form '$f)"},
		"(c19-instance-dump (make-instance '$f))", "(send (make-instance '$f) :x)", "(make-load-form '$b)")
	flv("inherit-two", `(defflavor $b ((x 1)) ()) (defflavor $c ((z 3)) ()) (defflavor $f ((y 2)) ($b $c))`,
		[]string{"(make-load-form '$b)", "(make-load-form '$c)", "(make-load-form '$f)"},
		"(c19-instance-dump (make-instance '$f))")
	flv("inherit-override-default", `(defflavor $b ((x 1)) ()) (defflavor $f ((x 5)) ($b))`,
		[]string{"(make-load-form '$b)", "(make-load-form '$f)"},
		"(c19-instance-dump (make-instance '$f))", "(c19-instance-dump (make-instance '$b))")
	// defaults of an inherited variable that are not comparable with == in Go (a list, a vector, a hash table, a string)
	for _, dv := range [][2]string{{"list", "(list 1 2)"}, {"vector", "(vector 1 2)"}, {"string", `"s t"`}, {"quoted-list", "'(a (b))"}, {"hash", "(make-hash-table)"}} {
		flv("inherit-default-"+dv[0], "(defflavor $b ((x "+dv[1]+")) () :gettable-instance-variables) (defflavor $f ((y 2)) ($b))",
			[]string{"(make-load-form '$b)", "(make-load-form '$f)"},
			"(c19-instance-dump (make-instance '$f))", "(make-load-form '$b)")
	}
	flv("included", `(defflavor $b ((x 1)) ()) (defflavor $f ((y 2)) () (:included-flavors $b))`,
		[]string{"(make-load-form '$b)", "(make-load-form '$f)"},
		"(c19-instance-dump (make-instance '$f))")
	flv("method-primary", `(defflavor $f ((a 1)) ()) (defmethod ($f :sum) (n) "Doc of method." (+ a n))`,
		[]string{"(make-load-form '$f)", "method:$f:primary:sum"}, "(send (make-instance '$f) :sum 4)")
	flv("method-daemons", `(defvar $v nil) (defflavor $f ((a 1)) ())
(defmethod ($f :sum) (n) (setq $v (cons 'primary $v)) (+ a n))
(defmethod ($f :before :sum) (n) (setq $v (cons (list 'before n) $v)))
(defmethod ($f :after :sum) (n) (let ((x (* n 2))) (setq $v (cons (list 'after x) $v))))`,
		[]string{"(make-load-form '$f)", "method:$f:primary:sum", "method:$f:before:sum", "method:$f:after:sum"},
		"(progn (setq $v nil) (list (send (make-instance '$f) :sum 4) $v))")
	lfIndex["flavor:method-daemons"].support = "(defvar $v nil)"
	lfIndex["flavor:method-daemons"].setup = strings.Replace(lfIndex["flavor:method-daemons"].setup, "(defvar $v nil) ", "", 1)
	flv("method-long-body", `(defflavor $f ((a 1)) ()) (defmethod ($f :calc) (n &optional (m 2)) (let ((first-value (+ a n 100000)) (second-value (* m 200000))) (cond ((< n 0) (list 'negative first-value)) (t (list 'positive first-value second-value)))))`,
		[]string{"(make-load-form '$f)", "method:$f:primary:calc"}, "(send (make-instance '$f) :calc 4)", "(send (make-instance '$f) :calc -4 7)")
	// -------------------------------------------------------------- instances
	for _, e := range elems {
		addCase(&lfCase{label: "flavor-instance:" + e.feat, kind: "flavor-instance", feat: e.feat,
			setup: `(defflavor $f (a (b 2)) () :inittable-instance-variables)`, obj: "(make-instance '$f :a " + e.expr + ")"})
		addCase(&lfCase{label: "clos-instance:" + e.feat, kind: "clos-instance", feat: e.feat,
			setup: `(defclass $c () ((a :initarg :a) (b :initform 2)))`, obj: "(make-instance '$c :a " + e.expr + ")"})
	}
	addCase(&lfCase{label: "flavor-instance:many", kind: "flavor-instance", feat: "many-vars",
		setup: `(defflavor $f ((alpha-variable 100000) (beta-variable 200000) (gamma-variable "a string value") (delta-variable 4.5) (epsilon-variable :key)) () :inittable-instance-variables)`,
		obj:   "(make-instance '$f :beta-variable 7)"})
	addCase(&lfCase{label: "clos-instance:unbound", kind: "clos-instance", feat: "unbound-slot",
		setup: `(defclass $c () ((a :initarg :a) (b :initform 2)))`, obj: "(make-instance '$c)"})
	addCase(&lfCase{label: "clos-instance:inherited", kind: "clos-instance", feat: "inherited-slots",
		setup: `(defclass $b () ((x :initform 1))) (defclass $c ($b) ((a :initarg :a)))`, obj: "(make-instance '$c :a 3)"})
	addCase(&lfCase{label: "flavor-instance:nested", kind: "flavor-instance", feat: "instance-valued",
		setup: `(defflavor $f (a (b 2)) () :inittable-instance-variables)`, obj: "(make-instance '$f :a (make-instance '$f :a 1))"})
	// --------------------------------------------------- embedded special objects
	// objects whose load form is NOT their printed text (a vector with a fill pointer / element type / fixed size,
	// octets, a bit vector, an array, a hash table, an instance) one and two levels inside other containers: the load
	// form of the outer object has to rebuild them from THEIR load forms whatever the nesting
	specials := []struct{ feat, expr, support string }{
		{"fill-pointer", "(make-array 4 :fill-pointer 2 :initial-contents '(1 2 3 4))", ""},
		{"element-type", "(make-array 2 :element-type 'fixnum :initial-contents '(1 2))", ""},
		{"not-adjustable", "(make-array 2 :adjustable nil :initial-contents '(1 2))", ""},
		{"octets", "(coerce '(1 2 255) 'octets)", ""},
		{"bit-vector", "#*101", ""},
		{"array", "(make-array '(2 2) :initial-contents '((1 2) (3 4)))", ""},
		{"hash", "(let ((h (make-hash-table))) (setf (gethash :k h) 1) h)", ""},
	}
	for _, sp := range specials {
		x := sp.expr
		data("embedded", sp.feat+"/list", "emb:list:"+sp.feat, "(list 'a "+x+")")
		data("embedded", sp.feat+"/list-in-list", "emb:list2:"+sp.feat, "(list 'a (list \"b\" "+x+") 3)")
		data("embedded", sp.feat+"/alist", "emb:alist:"+sp.feat, "(list (cons \"k\" "+x+") (cons 'j 2))")
		data("embedded", sp.feat+"/list-in-vector", "emb:veclist:"+sp.feat, "(vector 1 (list 'b "+x+"))")
		data("embedded", sp.feat+"/hash-value", "emb:hashval:"+sp.feat, hash(":q", x))
		data("embedded", sp.feat+"/list-as-hash-value", "emb:hashlist:"+sp.feat, hash(":q", "(list 'b "+x+")"))
		dataT("embedded", sp.feat+"/list-in-list-in-list", "emb:list3:"+sp.feat, "(list (list (list "+x+" 1) 2) 3)")
		dataT("embedded", sp.feat+"/dotted", "emb:dotted:"+sp.feat, "(list 'a (cons 1 "+x+"))")
		addCase(&lfCase{label: "emb:flavor-slot:" + sp.feat, kind: "embedded", feat: sp.feat + "/list-in-flavor-instance",
			setup: `(defflavor $f (a (b 2)) () :inittable-instance-variables)`, obj: "(make-instance '$f :a (list 'b " + x + "))"})
		addCase(&lfCase{label: "emb:clos-slot:" + sp.feat, kind: "embedded", feat: sp.feat + "/list-in-clos-instance",
			setup: `(defclass $c () ((a :initarg :a) (b :initform 2)))`, obj: "(make-instance '$c :a (list 'b " + x + "))"})
		addCase(&lfCase{label: "emb:flavor-default:" + sp.feat, kind: "embedded", feat: sp.feat + "/list-as-flavor-default", tier: engine.Thorough,
			setup: "(defflavor $f ((a (list 'b " + x + "))) () :gettable-instance-variables)", defs: []string{"(make-load-form '$f)"},
			probes: []string{"(c19-instance-dump (make-instance '$f))", "(make-load-form '$f)"}})
	}
	// ---------------------------------------------------------------- classes
	cls := func(feat, setup string, defs []string, probes ...string) {
		if defs == nil {
			defs = []string{"(make-load-form '$c)"}
		}
		probes = append(probes, "(make-load-form '$c)")
		if strings.HasPrefix(feat, "documentation") {
			probes = append(probes, "(documentation '$c 'type)")
		}
		addCase(&lfCase{label: "class:" + feat, kind: "class", feat: feat, setup: setup, defs: defs, probes: probes})
	}
	cls("plain", `(defclass $c () (a b))`, nil, "(c19-instance-dump (make-instance '$c))")
	cls("empty", `(defclass $c () ())`, nil, "(c19-instance-dump (make-instance '$c))")
	cls("initarg-initform", `(defclass $c () ((a :initarg :a :initform 5) (b :initform "z") (c :initarg :c)))`, nil,
		"(c19-instance-dump (make-instance '$c))", "(c19-instance-dump (make-instance '$c :a 1 :c 2))")
	cls("initform-expr", `(defclass $c () ((a :initform (+ 1 2)) (b :initform (list 1 "x")) (c :initform 'sym)))`, nil,
		"(c19-instance-dump (make-instance '$c))")
	cls("reader", `(defclass $c () ((a :initarg :a :initform 5 :reader $r)))`, nil, "($r (make-instance '$c))", "($r (make-instance '$c :a 6))")
	cls("writer", `(defclass $c () ((a :initform 5 :writer $w)))`, nil, "(let ((i (make-instance '$c))) ($w i 8) (c19-instance-dump i))")
	cls("accessor", `(defclass $c () ((a :initform 5 :accessor $a)))`, nil, "(let ((i (make-instance '$c))) (setf ($a i) 8) (list ($a i) (c19-instance-dump i)))")
	cls("documentation", `(defclass $c () ((a :initform 5 :documentation "Doc of slot.")) (:documentation "Doc of class."))`, nil, "(c19-instance-dump (make-instance '$c))")
	cls("documentation-long", `(defclass $c () ((a :initform 5)) (:documentation `+longDoc+`))`, nil, "(c19-instance-dump (make-instance '$c))")
	cls("allocation-class", `(defclass $c () ((a :initform 5 :allocation :class) (b :initform 1)))`, nil,
		"(let ((i (make-instance '$c)) (j (make-instance '$c))) (setf (slot-value i 'a) 9) (slot-value j 'a))")
	cls("type", `(defclass $c () ((a :initform 5 :type fixnum :initarg :a)))`, nil, "(c19-instance-dump (make-instance '$c :a 6))")
	cls("default-initargs", `(defclass $c () ((a :initarg :a) (b :initarg :b)) (:default-initargs :a 10 :b "bee"))`, nil,
		"(c19-instance-dump (make-instance '$c))", "(c19-instance-dump (make-instance '$c :a 1))")
	cls("two-initargs", `(defclass $c () ((a :initarg :a :initarg :alpha :initform 0)))`, nil,
		"(c19-instance-dump (make-instance '$c :alpha 4))", "(c19-instance-dump (make-instance '$c :a 3))")
	cls("slot-order", `(defclass $c () ((zz :initform 1) (mm :initform 2) (aa :initform 3)))`, nil, "(c19-instance-dump (make-instance '$c))")
	cls("many-slots", `(defclass $c () ((alpha-slot :initarg :alpha-slot :initform 100000) (beta-slot :initarg :beta-slot :initform "a string value") (gamma-slot :initarg :gamma-slot :initform 4.5) (delta-slot :initform :key) epsilon-slot))`, nil,
		"(c19-instance-dump (make-instance '$c))", "(c19-instance-dump (make-instance '$c :beta-slot 1))")
	cls("inherit", `(defclass $b () ((x :initform 1 :initarg :x))) (defclass $c ($b) ((y :initform 2)))`,
		[]string{"(make-load-form '$b)", "(make-load-form '$c)"},
		"(c19-instance-dump (make-instance '$c))", "(c19-instance-dump (make-instance '$c :x 5))", "(make-load-form '$b)")
	cls("inherit-two", `(defclass $b () ((x :initform 1))) (defclass $d () ((x :initform 7) (z :initform 3))) (defclass $c ($b $d) ((y :initform 2)))`,
		[]string{"(make-load-form '$b)", "(make-load-form '$d)", "(make-load-form '$c)"},
		"(c19-instance-dump (make-instance '$c))")
	// ------------------------------------------------------------- structures
	str := func(feat, setup string, probes ...string) {
		probes = append(probes, "(make-load-form '$s)")
		addCase(&lfCase{label: "struct:" + feat, kind: "struct", feat: feat, setup: setup, defs: []string{"(make-load-form '$s)"}, probes: probes, optional: true})
	}
	str("plain", `(defstruct $s (x 1) y)`, "(list ($s-x (make-$s)) ($s-y (make-$s :y 2)) ($s-p (make-$s)))")
	str("conc-name", `(defstruct ($s (:conc-name $q-)) (x 1))`, "($q-x (make-$s))", "(fboundp '$s-x)")
	str("conc-name-nil", `(defstruct ($s (:conc-name nil)) ($x 1))`, "($x (make-$s))")
	str("constructor", `(defstruct ($s (:constructor $mk)) (x 1))`, "($s-x ($mk))", "(fboundp 'make-$s)")
	str("constructor-with-arguments", `(defstruct ($s (:constructor $mk (x &optional (y 5)))) x y)`, "(let ((i ($mk 1))) (list ($s-x i) ($s-y i)))")
	str("no-copier", `(defstruct ($s (:copier nil)) (x 1))`, "(fboundp 'copy-$s)", "($s-x (make-$s))")
	str("no-predicate", `(defstruct ($s (:predicate nil)) (x 1))`, "(fboundp '$s-p)", "($s-x (make-$s))")
	str("copier-and-predicate-names", `(defstruct ($s (:copier $cp) (:predicate $is)) (x 1))`, "($is (make-$s))", "($s-x ($cp (make-$s :x 4)))")
	str("slot-type", `(defstruct $s (x 1 :type fixnum))`, "($s-x (make-$s :x 2))", `(make-$s :x "s")`)
	str("slot-read-only", `(defstruct $s (x 1 :read-only t) (y 2))`, "(let ((i (make-$s))) (setf ($s-x i) 3) ($s-x i))", "(let ((i (make-$s))) (setf ($s-y i) 3) ($s-y i))")
	str("documentation", `(defstruct $s "Doc of the structure." (x 1))`, "($s-x (make-$s))", "(documentation '$s 'structure)")
	str("type-list", `(defstruct ($s (:type list)) (x 1) (y 2))`, "(make-$s)", "($s-y (make-$s :y 5))")
	str("type-vector-named", `(defstruct ($s (:type vector) :named) (x 1))`, "(make-$s)", "($s-x (make-$s))")
	str("initial-offset", `(defstruct ($s (:type list) (:initial-offset 2)) (x 1))`, "(make-$s)", "($s-x (make-$s))")
	str("include-with-default", `(defstruct $b (x 1)) (defstruct ($s (:include $b (x 5))) (y 2))`, "(let ((i (make-$s))) (list ($s-x i) ($s-y i) ($b-p i)))")
	lfIndex["struct:include-with-default"].defs = []string{"(make-load-form '$b)", "(make-load-form '$s)"}
	// an instance whose state lives in Go, not in instance variables
	data("flavor-instance", "go-backed-bag", "flavor-instance:bag", `(make-bag "{a:1 b:[1 2 true null] c:{d:\"x\"}}")`)
	// --------------------------------------------------------------- generics
	gen := func(feat, support, setup string, probes ...string) {
		probes = append(probes, "(make-load-form '$g)")
		if feat == "documentation" || feat == "long-bodies" || feat == "method-doc" {
			probes = append(probes, "(documentation '$g 'function)")
		}
		addCase(&lfCase{label: "generic:" + feat, kind: "generic", feat: feat, support: support, setup: setup,
			defs: []string{"(make-load-form '$g)"}, probes: probes})
	}
	gen("no-methods", "", `(defgeneric $g (a b))`, "($g 1 2)")
	gen("documentation", "", `(defgeneric $g (a) (:documentation "Doc of generic.")) (defmethod $g ((a fixnum)) (* a 2))`, "($g 1)", `($g "s")`)
	gen("builtin-specializers", "", `(defgeneric $g (a b))
(defmethod $g ((a fixnum) (b string)) (list 'fixnum-string a b))
(defmethod $g ((a string) b) (list 'string-any a b))
(defmethod $g ((a fixnum) (b fixnum)) (+ a b))`,
		`($g 1 "a")`, `($g "s" 2)`, `($g 1 2)`, `($g 1.5 2)`)
	gen("implicit-defgeneric", "", `(defmethod $g ((a fixnum)) (* a 3)) (defmethod $g ((a string)) (list a))`, "($g 2)", `($g "s")`, "($g 'q)")
	gen("qualifiers", "(defvar $v nil)", `(defgeneric $g (a))
(defmethod $g ((a fixnum)) (setq $v (cons 'primary $v)) (* a 2))
(defmethod $g :before ((a fixnum)) (setq $v (cons 'before $v)))
(defmethod $g :after ((a fixnum)) (setq $v (cons 'after $v)))
(defmethod $g :around ((a fixnum)) (setq $v (cons 'around $v)) (list 'wrapped (call-next-method)))`,
		"(progn (setq $v nil) (list ($g 4) $v))")
	gen("around-only-on-t", "(defvar $v nil)", `(defgeneric $g (a))
(defmethod $g ((a fixnum)) (* a 2))
(defmethod $g :around ((a t)) (list 'around (call-next-method)))`, "($g 4)")
	gen("call-next-method", "", `(defgeneric $g (a))
(defmethod $g ((a integer)) (list 'integer a))
(defmethod $g ((a fixnum)) (cons 'fixnum (call-next-method)))`, "($g 4)", "($g 18446744073709551617)")
	gen("user-class", "(defclass $b () ((x :initform 1))) (defclass $c ($b) ())", `(defgeneric $g (o n))
(defmethod $g ((o $b) n) (list 'base n (slot-value o 'x)))
(defmethod $g ((o $c) n) (cons 'derived (call-next-method)))`,
		"($g (make-instance '$c) 1)", "($g (make-instance '$b) 2)", "($g 3 3)")
	gen("optional-args", "", `(defgeneric $g (a &optional b))
(defmethod $g ((a fixnum) &optional (b 7)) (list a b))`, "($g 1)", "($g 1 2)")
	gen("key-args", "", `(defgeneric $g (a &key k))
(defmethod $g ((a fixnum) &key (k "d")) (list a k))`, "($g 1)", "($g 1 :k 2)")
	gen("rest-args", "", `(defgeneric $g (a &rest r))
(defmethod $g ((a fixnum) &rest r) (list a r))`, "($g 1)", "($g 1 2 3)")
	gen("method-doc", "", `(defgeneric $g (a))
(defmethod $g ((a fixnum)) "Doc of method." (* a 2))`, "($g 1)")
	gen("long-bodies", "", `(defgeneric $g (first-argument second-argument) (:documentation `+longDoc+`))
(defmethod $g ((first-argument fixnum) (second-argument string)) (let ((first-value (+ first-argument 100000)) (second-value (concatenate 'string second-argument "-suffix"))) (cond ((< first-argument 0) (list 'negative first-value)) (t (list 'positive first-value second-value)))))
(defmethod $g ((first-argument string) (second-argument t)) (list "a long string of words that is wider than the narrow margins" first-argument second-argument))`,
		`($g 1 "a")`, `($g -1 "a")`, `($g "s" 2)`)
	// every qualifier's method has a lambda list of its own: defaults and parameter names may differ from the primary method's
	gen("qualifier-own-defaults", "(defvar $v nil)", `(defgeneric $g (a &optional b))
(defmethod $g ((a fixnum) &optional (b 7)) (setq $v (cons (list 'primary b) $v)) (list a b))
(defmethod $g :before ((a fixnum) &optional (b 9)) (setq $v (cons (list 'before b) $v)))
(defmethod $g :after ((a fixnum) &optional (b 11)) (setq $v (cons (list 'after b) $v)))
(defmethod $g :around ((a fixnum) &optional (b 13)) (setq $v (cons (list 'around b) $v)) (call-next-method))`,
		"(progn (setq $v nil) (list ($g 1) $v))", "(progn (setq $v nil) (list ($g 1 2) $v))")
	gen("qualifier-own-parameter-names", "(defvar $v nil)", `(defgeneric $g (a))
(defmethod $g ((a fixnum)) (list 'primary a))
(defmethod $g :before ((x fixnum)) (setq $v (list 'before x)))
(defmethod $g :after ((y fixnum)) (setq $v (list $v 'after y)))`,
		"(progn (setq $v nil) (list ($g 1) $v))")
	gen("method-parameter-names-differ", "", `(defgeneric $g (a b))
(defmethod $g ((x fixnum) (y string)) (list 'fixnum-string x y))
(defmethod $g ((p string) (q t)) (list 'string-any p q))`, `($g 1 "a")`, `($g "s" 2)`)
	gen("empty-method-body", "", `(defgeneric $g (a))
(defmethod $g ((a fixnum)))
(defmethod $g ((a string)) (list a))`, "($g 1)", `($g "s")`)
	// a generic function that has the reader / accessor methods a defclass made AND methods written in Lisp
	addCase(&lfCase{label: "generic:accessor-and-user-method", kind: "generic", feat: "accessor-and-user-method",
		setup: `(defclass $c () ((s :initform 1 :accessor $g :reader $r)))
(defmethod $g ((x string)) (list 'string x))
(defmethod $r ((x fixnum)) (list 'fixnum x))`,
		defs:   []string{"(make-load-form '$c)", "(make-load-form '$g)", "(make-load-form '$r)"},
		pnames: []string{"accessor-method", "user-method", "setf-accessor", "reader-method", "user-method-on-reader", "", "", ""},
		probes: []string{"($g (make-instance '$c))", `($g "a")`, "(let ((i (make-instance '$c))) (setf ($g i) 4) ($g i))", "($r (make-instance '$c))", "($r 5)",
			"(make-load-form '$c)", "(make-load-form '$g)", "(make-load-form '$r)"}})
	gen("eql-free-three-args", "", `(defgeneric $g (a b c))
(defmethod $g ((a fixnum) (b t) (c string)) (list 1 a b c))
(defmethod $g ((a t) (b fixnum) (c t)) (list 2 a b c))`, `($g 1 2 "s")`, `($g "x" 2 3)`, `($g 1 'q "s")`)
}

func enumerateLF(tier string, emit func(string)) {
	for _, c := range lfCases {
		if c.tier == engine.Thorough && tier != engine.Thorough {
			continue
		}
		emit("lf|" + c.label)
	}
	enumerateInhLF(tier, emit)
	enumerateOvLF(tier, emit)
}

// lfCaseOf: table cases by label, inheritance worlds (inherit.go) built on demand.
func lfCaseOf(label string) *lfCase {
	if c := lfIndex[label]; c != nil {
		return c
	}
	if strings.HasPrefix(label, "inh:") {
		return inhCase(label)
	}
	if strings.HasPrefix(label, "ov:") {
		return ovCase(label)
	}
	return nil
}
