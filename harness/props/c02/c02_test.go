package c02

import (
	"testing"
)

// TestSelftest runs the oracle-sensitivity self-test alone (go test -tags verif ./props/c02).
func TestSelftest(t *testing.T) {
	for _, tier := range []string{"quick"} {
		killed, total, notes := selftest(tier)
		for _, n := range notes {
			t.Log(n)
		}
		if killed != total {
			t.Fatalf("%s: killed %d of %d", tier, killed, total)
		}
	}
}
