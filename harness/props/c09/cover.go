package c09

// cover.go: the object pool is complete BY CONSTRUCTION. One case (p|coverage) builds every pool object and asks
// slip itself for its class registry ((list-all-classes)): every class must have an instance in the pool (typep), or
// stand in poolUncoverable with the reason why no instance can be built inside the sandbox. A class that appears in a
// later version of slip without a pool object turns the run into a harness error, not into silence.

import (
	"fmt"
	"sort"
	"strings"

	"github.com/ohler55/slip"

	"verif/engine"
)

// poolUncoverable: classes without a pool instance, with the reason.
var poolUncoverable = map[string]string{
	"byte":            "an alias of octet in Go: every such object reports the class octet",
	"short-float":     "the reader and coerce produce a single-float for a short float: no object of this class can be built",
	"watch-channeler": "connects to a TCP port when it is created",
	"watch-client":    "connects to a TCP port when it is created",
	"watch-framer":    "connects to a TCP port when it is created",
	"watch-printer":   "connects to a TCP port when it is created",
}

// builtInGoSources: the constructors used by the pool objects that are built from Go code (pool.go build, state.go
// buildState) rather than from a src text.
const builtInGoSources = "(make-package (make-synonym-stream (make-instance (make-condition (make-string-input-stream (make-hash-table " +
	"(make-list (make-string (make-symbol (make-sequence "

// constructorExcused: make-... functions without a pool object of their own, with the reason.
var constructorExcused = map[string]string{
	"make-app":                "generates and builds a Go application (excluded from the sweep)",
	"make-socket":             "the socket flavor instance i:socket stands for it: an OS socket reaches outside the process",
	"make-load-form":          "returns a form (a list), not a new kind of object",
	"make-sequence":           "returns a list / vector / string / octets, all in the pool",
	"make-list":               "returns a list, in the pool",
	"make-string":             "returns a string, in the pool",
	"make-symbol":             "returns a symbol, in the pool",
	"make-instances-obsolete": "not a constructor",
}

// conditionClasses: one pool object (made with make-condition, no initargs) per condition class.
var conditionClasses = []string{"condition", "serious-condition", "error", "warning", "simple-condition", "simple-error", "simple-warning",
	"simple-type-error", "type-error", "arithmetic-error", "division-by-zero", "cell-error", "unbound-variable", "unbound-slot",
	"undefined-function", "control-error", "program-error", "package-error", "parse-error", "reader-error", "stream-error", "end-of-file",
	"file-error", "print-not-readable", "class-not-found", "invalid-method-error", "no-applicable-method-error", "name-service-error"}

// flavorClasses: one instance per built-in flavor that can be made inside the sandbox.
var flavorClasses = []string{"logger-flavor", "test-flavor", "suite-flavor", "testable-flavor", "system", "host-ent", "socket",
	"http-client-flavor", "http-request-flavor", "http-response-flavor", "http-response-writer-flavor", "http-server-flavor", "watch-server",
	"vanilla-flavor"}

// completePool: the remaining kinds of object slip can build (see also statePool in state.go).
var completePool = []poolEntry{
	{"bit", "int", "(coerce 1 'bit)", "bit"},
	{"octet", "int", "(coerce 7 'octet)", "octet"},
	{"sbyte", "int", "(coerce 7 'signed-byte)", "signed-byte"},
	{"ubyte", "int", "(coerce 7 'unsigned-byte)", "unsigned-byte"},
	{"bv", "other", "(make-array 3 :element-type 'bit :initial-contents (list 1 0 1))", "bit-vector"},
	{"rs", "other", "(make-random-state)", "random-state"},
	{"uuid", "other", "(make-uuid)", "uuid"},
	{"tch", "other", "(time-ticker 0.001)", "time channel that ticks every millisecond"},
	{"ois", "other", "(with-input-from-octets (s (make-octets 3 65)) s)", "input stream over octets"},
	{"oss", "other", "(let ((o nil)) (with-output-to-string (s) (setq o s)) o)", "output stream of with-output-to-string (after the form)"},
	{"fn", "other", "(function car)", "built-in function object"},
	{"ufn", "other", "", "function object of a defun"},
	{"gf", "other", "", "generic function with one method"},
	{"meth", "other", "", "method object"},
	{"bcls", "other", "(find-class 'fixnum)", "built-in class"},
	{"ccls", "other", "(find-class 'error)", "condition class"},
	{"lisppkg", "other", "(find-package 'common-lisp)", "the common-lisp package"},
	{"kwpkg", "other", "(find-package 'keyword)", "the keyword package"},
	{"stdin", "other", "*standard-input*", "the standard input stream of the case (an empty string stream)"},
	{"inet", "other", `(make-inet-address "127.0.0.1")`, "inet address"},
	{"inet6", "other", `(make-inet6-address "::1")`, "inet6 address"},
	{"dstr", "other", "(make-array 3 :element-type 'character :fill-pointer 2 :adjustable t :initial-element #\\a)", "adjustable string with a fill pointer"},
	{"esym", "other", "", "the symbol whose name is the empty string (built in Go; read as ||)"},
}

func init() {
	for _, c := range conditionClasses {
		completePool = append(completePool, poolEntry{"c:" + c, "other", "(make-condition '" + c + ")", "condition of class " + c})
	}
	for _, f := range flavorClasses {
		completePool = append(completePool, poolEntry{"i:" + f, "other", "(make-instance '" + f + ")", "instance of the flavor " + f})
	}
	fullPool = append(fullPool, completePool...)
	for i := range fullPool {
		poolByName[fullPool[i].name] = &fullPool[i]
	}
}

func enumCoverage(emit func(string)) { emit("p|coverage") }

func execCoverage(spec string) (res engine.Result) {
	leave := enter(false)
	defer leave()
	w := &world{scope: slip.NewScope()}
	defer w.done()
	scope := w.scope
	var objs slip.List
	kinds := map[string]bool{}
	if !setup(func() {
		for i := range fullPool {
			o := w.build(fullPool[i].name)
			objs = append(objs, o)
			kinds[fmt.Sprintf("%T", o)] = true
		}
	}) {
		res.Fail("harness:setup-failed", spec)
		return
	}
	scope.Let(slip.Symbol("c09pool"), objs)
	names := observe(func() slip.Object {
		return slip.ReadString(`(mapcar (lambda (c) (string-downcase (string (class-name c)))) (list-all-classes))`, scope).Eval(scope, nil)
	})
	list, _ := names.val.(slip.List)
	if names.kind != "value" || len(list) == 0 {
		res.Fail("harness:setup-failed", "list-all-classes: "+names.describe())
		return
	}
	var missing []string
	for _, n := range list {
		name := string(n.(slip.String))
		if strings.HasPrefix(name, "c09") {
			continue
		}
		scope.Let(slip.Symbol("c09cn"), slip.Symbol(name))
		o := observe(func() slip.Object {
			return slip.ReadString(`(let ((hit nil)) (dolist (x c09pool) (if (ignore-errors (typep x c09cn)) (setq hit t))) hit)`, scope).Eval(scope, nil)
		})
		switch {
		case o.kind == "value" && o.val != nil:
			res.Hit("pool-classes-covered")
		case poolUncoverable[name] != "":
			res.Hit("pool-classes-excused")
		default:
			missing = append(missing, name)
		}
	}
	// every constructor (exported function named make-...) must be used by some pool entry
	sources := builtInGoSources
	for i := range fullPool {
		sources += " " + fullPool[i].src
	}
	for _, f := range allFunctions() {
		name := f.name[strings.IndexByte(f.name, ':')+1:]
		if !strings.HasPrefix(name, "make-") {
			continue
		}
		switch {
		case strings.Contains(sources, "("+name+" ") || strings.Contains(sources, "("+name+")"):
			res.Hit("pool-constructors-covered")
		case constructorExcused[name] != "":
			res.Hit("pool-constructors-excused")
		default:
			missing = append(missing, "("+name+")")
		}
	}
	sort.Strings(missing)
	res.Hit("pool-go-types")
	res.Counters["pool-go-types"] = len(kinds)
	res.Outcome = fmt.Sprintf("classes=%d go-types=%d missing=%s", len(list), len(kinds), strings.Join(missing, ","))
	res.Nontrivial = true
	if 0 < len(missing) {
		res.Fail("harness:pool-incomplete", "no pool object is an instance of: "+strings.Join(missing, " "))
	}
	// the table of size parameters against the FuncDoc texts
	cov, tot, miss := sizeCoverage()
	res.Hit("size-parameters-documented")
	res.Counters["size-parameters-documented"] = tot
	res.Hit("size-parameters-covered")
	res.Counters["size-parameters-covered"] = cov
	if 0 < len(miss) {
		res.Fail("harness:size-table-incomplete", "documented fixnum / integer parameters without a template or an excuse: "+strings.Join(miss, " "))
	}
	return
}
