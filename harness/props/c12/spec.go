package c12

import (
	"fmt"
	"sort"
	"strconv"
	"strings"

	"verif/engine"
)

// ---------------------------------------------------------------- case description

// slotDecl is one slot specifier of one defclass form.
type slotDecl struct {
	name     string   // "s" or "u"
	initargs []string // subset of a, b, k (k is the initarg shared between s and u)
	form     int      // 0 = no initform, 1 = value initform, 2 = initform nil
	val      int      // value of the initform when form == 1
}

// classDef is one defclass form: ordered direct superclasses and the two slot
// option strings. Option letters: o = bare slot, a/b/k = :initarg :a/:b/:k,
// f = :initform <number>, n = :initform nil, "-" = slot not declared here.
type classDef struct {
	supers []int
	sopt   string
	uopt   string
	bump   bool // redefinition: initform values are shifted by +5
}

func (d classDef) String() string {
	return supText(d.supers) + "=" + d.sopt + "." + d.uopt
}

func supText(s []int) string {
	if len(s) == 0 {
		return "-"
	}
	var b strings.Builder
	for _, x := range s {
		b.WriteString(strconv.Itoa(x))
	}
	return b.String()
}

func parseSup(s string) []int {
	if s == "-" || s == "" {
		return nil
	}
	out := make([]int, 0, len(s))
	for _, ch := range s {
		out = append(out, int(ch-'0'))
	}
	return out
}

func declFrom(name, opt string, base int) (slotDecl, bool) {
	if opt == "-" || opt == "" {
		return slotDecl{}, false
	}
	d := slotDecl{name: name}
	for _, ch := range opt {
		switch ch {
		case 'a', 'b', 'k':
			d.initargs = append(d.initargs, string(ch))
		case 'f':
			d.form = 1
			d.val = base
		case 'n':
			d.form = 2
		case 'o':
		default:
			panic("bad slot option " + opt)
		}
	}
	return d, true
}

// slots of class i under this definition.
func (d classDef) slots(i int) []slotDecl {
	var out []slotDecl
	off := 0
	if d.bump {
		off = 5
	}
	if sd, ok := declFrom("s", d.sopt, 10*(i+1)+1+off); ok {
		out = append(out, sd)
	}
	if sd, ok := declFrom("u", d.uopt, 10*(i+1)+2+off); ok {
		out = append(out, sd)
	}
	return out
}

func (d classDef) slot(i int, name string) (slotDecl, bool) {
	for _, sd := range d.slots(i) {
		if sd.name == name {
			return sd, true
		}
	}
	return slotDecl{}, false
}

type redefSpec struct {
	r   int
	def classDef
}

type caseSpec struct {
	n     int
	defs  []classDef
	redef *redefSpec
	warm  bool
}

var slotNames = []string{"s", "u"}
var argValue = map[string]int{"a": 101, "b": 151, "k": 201}
var argOrder = []string{"a", "b", "k"}

func (c *caseSpec) String() string {
	var sup, sl []string
	for _, d := range c.defs {
		sup = append(sup, supText(d.supers))
		sl = append(sl, d.sopt+"."+d.uopt)
	}
	r := "-"
	if c.redef != nil {
		r = fmt.Sprintf("%d=%s", c.redef.r, c.redef.def.String())
	}
	w := "-"
	if c.warm {
		w = "w"
	}
	return fmt.Sprintf("%d|%s|%s|%s|%s", c.n, strings.Join(sup, ","), strings.Join(sl, ","), r, w)
}

func parseCase(spec string) (*caseSpec, error) {
	p := strings.Split(spec, "|")
	if len(p) != 5 {
		return nil, fmt.Errorf("want 5 fields")
	}
	n, err := strconv.Atoi(p[0])
	if err != nil || n < 1 || 9 < n {
		return nil, fmt.Errorf("bad n")
	}
	sup := strings.Split(p[1], ",")
	sl := strings.Split(p[2], ",")
	if len(sup) != n || len(sl) != n {
		return nil, fmt.Errorf("field count")
	}
	c := &caseSpec{n: n, warm: p[4] == "w"}
	parseSlots := func(s string) (string, string, error) {
		su := strings.Split(s, ".")
		if len(su) != 2 {
			return "", "", fmt.Errorf("bad slots %q", s)
		}
		return su[0], su[1], nil
	}
	for i := 0; i < n; i++ {
		so, uo, err := parseSlots(sl[i])
		if err != nil {
			return nil, err
		}
		d := classDef{supers: parseSup(sup[i]), sopt: so, uopt: uo}
		for _, x := range d.supers {
			if x < 0 || n <= x || x == i {
				return nil, fmt.Errorf("bad super")
			}
		}
		c.defs = append(c.defs, d)
	}
	if p[3] != "-" {
		q := strings.Split(p[3], "=")
		if len(q) != 3 {
			return nil, fmt.Errorf("bad redef")
		}
		r, err := strconv.Atoi(q[0])
		if err != nil || r < 0 || n <= r {
			return nil, fmt.Errorf("bad redef class")
		}
		so, uo, err := parseSlots(q[2])
		if err != nil {
			return nil, err
		}
		c.redef = &redefSpec{r: r, def: classDef{supers: parseSup(q[1]), sopt: so, uopt: uo, bump: true}}
	}
	return c, nil
}

// finalDefs are the definitions in force at the end of every history.
func (c *caseSpec) finalDefs() []classDef {
	out := append([]classDef(nil), c.defs...)
	if c.redef != nil {
		out[c.redef.r] = c.redef.def
	}
	return out
}

// ---------------------------------------------------------------- histories

// A history is an order of the forms 0..n-1 (original defclass of class i) and
// n (the redefinition, if any); the redefinition comes after the original.
func (c *caseSpec) histories() [][]int {
	m := c.n
	if c.redef != nil {
		m++
	}
	var out [][]int
	perm := make([]int, 0, m)
	used := make([]bool, m)
	var rec func()
	rec = func() {
		if len(perm) == m {
			out = append(out, append([]int(nil), perm...))
			return
		}
		for f := 0; f < m; f++ {
			if used[f] {
				continue
			}
			if f == c.n && !used[c.redef.r] {
				continue
			}
			used[f] = true
			perm = append(perm, f)
			rec()
			perm = perm[:len(perm)-1]
			used[f] = false
		}
	}
	rec()
	return out
}

// ---------------------------------------------------------------- class graph helpers

// ancestors of class i (excluding i) under defs restricted to defined classes;
// ok is false when some ancestor is not defined or the graph has a cycle through i.
func ancestors(defs []classDef, defined []bool, i int) (set map[int]bool, ok bool) {
	set = map[int]bool{}
	ok = true
	var walk func(x int, depth int)
	walk = func(x int, depth int) {
		if 20 < depth {
			ok = false
			return
		}
		for _, s := range defs[x].supers {
			if defined != nil && !defined[s] {
				ok = false
				continue
			}
			if s == i {
				ok = false
				continue
			}
			if !set[s] {
				set[s] = true
				walk(s, depth+1)
			}
		}
	}
	if defined != nil && !defined[i] {
		return set, false
	}
	walk(i, 0)
	return
}

// acyclic reports whether the definitions contain no inheritance cycle.
func acyclic(defs []classDef) bool {
	for i := range defs {
		if _, ok := ancestors(defs, nil, i); !ok {
			return false
		}
	}
	return true
}

// canonPrec is the precedence the sentence "direct superclasses in the order
// written followed by theirs" yields when read the way slip implements it:
// direct superclasses first, then each direct superclass' own list.
func canonPrec(defs []classDef, i int) []int {
	var inh func(x int, depth int) []int
	inh = func(x int, depth int) []int {
		var l []int
		has := func(y int) bool {
			for _, z := range l {
				if z == y {
					return true
				}
			}
			return false
		}
		for _, s := range defs[x].supers {
			if !has(s) {
				l = append(l, s)
			}
		}
		if depth < 12 {
			direct := append([]int(nil), l...)
			for _, d := range direct {
				for _, a := range inh(d, depth+1) {
					if !has(a) {
						l = append(l, a)
					}
				}
			}
		}
		return l
	}
	return append([]int{i}, inh(i, 0)...)
}

// shape classifies the ancestor graph of class i.
func shape(defs []classDef, i int) string {
	anc, _ := ancestors(defs, nil, i)
	if len(anc) == 0 {
		return "root"
	}
	multi := false
	paths := map[int]int{}
	var walk func(x int, depth int)
	walk = func(x int, depth int) {
		if 12 < depth {
			return
		}
		if 1 < len(defs[x].supers) {
			multi = true
		}
		for _, s := range defs[x].supers {
			paths[s]++
			walk(s, depth+1)
		}
	}
	walk(i, 0)
	if !multi {
		return "chain"
	}
	// a direct superclass that is also an ancestor of another direct superclass (at any level)
	for x := range anc {
		_ = x
	}
	redundant := false
	check := append([]int{i}, keys(anc)...)
	for _, x := range check {
		for _, d := range defs[x].supers {
			for _, e := range defs[x].supers {
				if d == e {
					continue
				}
				ea, _ := ancestors(defs, nil, e)
				if ea[d] {
					redundant = true
				}
			}
		}
	}
	if redundant {
		return "redundant-direct"
	}
	for _, cnt := range paths {
		if 1 < cnt {
			return "diamond"
		}
	}
	return "fork"
}

func keys(m map[int]bool) []int {
	var k []int
	for x := range m {
		k = append(k, x)
	}
	sort.Ints(k)
	return k
}

// validArgs: initargs declared for any slot of class i or of an ancestor.
func validArgs(defs []classDef, i int) []string {
	anc, _ := ancestors(defs, nil, i)
	anc[i] = true
	seen := map[string]bool{}
	for x := range anc {
		for _, sd := range defs[x].slots(x) {
			for _, a := range sd.initargs {
				seen[a] = true
			}
		}
	}
	var out []string
	for _, a := range argOrder {
		if seen[a] {
			out = append(out, a)
		}
	}
	return out
}

// argSlots: slots of class i (own or inherited) for which key is a declared initarg.
func argSlots(defs []classDef, i int, key string) []string {
	anc, _ := ancestors(defs, nil, i)
	anc[i] = true
	seen := map[string]bool{}
	for x := range anc {
		for _, sd := range defs[x].slots(x) {
			for _, a := range sd.initargs {
				if a == key {
					seen[sd.name] = true
				}
			}
		}
	}
	var out []string
	for _, n := range slotNames {
		if seen[n] {
			out = append(out, n)
		}
	}
	return out
}

func subsets(args []string) [][]string {
	var out [][]string
	for m := 0; m < 1<<len(args); m++ {
		var s []string
		for b, a := range args {
			if m&(1<<b) != 0 {
				s = append(s, a)
			}
		}
		out = append(out, s)
	}
	sort.SliceStable(out, func(a, b int) bool { return len(out[a]) < len(out[b]) })
	return out
}

func sigmaText(s []string) string {
	if len(s) == 0 {
		return "-"
	}
	return strings.Join(s, "+")
}

// accSigma: a maximal set of valid initargs in which no slot has two supplied
// matching initargs (the accessor checks want a determinate start state).
func accSigma(defs []classDef, i int) []string {
	var out []string
	taken := map[string]bool{}
	for _, a := range validArgs(defs, i) {
		ok := true
		for _, sl := range argSlots(defs, i, a) {
			if taken[sl] {
				ok = false
			}
		}
		if ok {
			out = append(out, a)
			for _, sl := range argSlots(defs, i, a) {
				taken[sl] = true
			}
		}
	}
	return out
}

// ---------------------------------------------------------------- enumeration

// ordered subsets of {0..i-1} with at most maxLen members.
func orderedSubsets(i, maxLen int) [][]int {
	out := [][]int{nil}
	var rec func(cur []int)
	rec = func(cur []int) {
		if len(cur) == maxLen {
			return
		}
		for x := 0; x < i; x++ {
			dup := false
			for _, y := range cur {
				if y == x {
					dup = true
				}
			}
			if dup {
				continue
			}
			nxt := append(append([]int(nil), cur...), x)
			out = append(out, nxt)
			rec(nxt)
		}
	}
	rec(nil)
	sort.SliceStable(out, func(a, b int) bool { return len(out[a]) < len(out[b]) })
	return out
}

// dags: every assignment of ordered direct-superclass lists where class i may
// only name classes j < i (so every DAG appears once up to naming of a
// topological order; the definition ORDER is permuted separately).
func dags(n, maxSup int) [][][]int {
	out := [][][]int{{}}
	for i := 0; i < n; i++ {
		var nxt [][][]int
		for _, d := range out {
			for _, s := range orderedSubsets(i, maxSup) {
				nd := append(append([][]int(nil), d...), s)
				nxt = append(nxt, nd)
			}
		}
		out = nxt
	}
	return out
}

func product(alpha []string, n int, f func([]string)) {
	cur := make([]string, n)
	var rec func(i int)
	rec = func(i int) {
		if i == n {
			f(cur)
			return
		}
		for _, a := range alpha {
			cur[i] = a
			rec(i + 1)
		}
	}
	rec(0)
}

var (
	// per-class slot alphabets ("sopt.uopt")
	alphaFull = func() []string {
		var out []string
		for _, u := range []string{"-", "f", "k", "kf"} {
			for _, s := range []string{"-", "o", "f", "a", "af", "k", "b", "bf"} {
				out = append(out, s+"."+u)
			}
		}
		return out
	}()
	// initform nil lives in a family of its own: on the pinned tree it faults in make-instance,
	// and mixed with the shared initarg k the fault would come and go with Go map order (S9)
	alphaNil     = []string{"-.-", "o.-", "f.-", "n.-", "an.-"}
	alphaCurated = []string{"-.-", "o.-", "f.-", "a.-", "af.-", "k.-", "-.k", "-.kf", "f.k", "k.k", "af.kf", "b.-", "bf.-"}
	alphaSmall   = []string{"-.-", "f.-", "a.-", "af.-", "k.k"}
	alphaTiny    = []string{"-.-", "f.-", "af.-"}
	alphaTwo     = []string{"-.-", "f.-"}
)

func mkCase(sup [][]int, sl []string) *caseSpec {
	c := &caseSpec{n: len(sup)}
	for i := range sup {
		su := strings.Split(sl[i], ".")
		c.defs = append(c.defs, classDef{supers: sup[i], sopt: su[0], uopt: su[1]})
	}
	return c
}

// redefinitions of class r of case c: one change each.
func redefsOf(c *caseSpec, r int) []classDef {
	old := c.defs[r]
	var out []classDef
	add := func(d classDef) {
		d.bump = true
		for _, o := range out {
			if o.String() == d.String() {
				return
			}
		}
		out = append(out, d)
	}
	// identical text but for the initform value / added slot s with an initform
	add(classDef{supers: old.supers, sopt: "f", uopt: old.uopt})
	// slot removed
	if old.sopt != "-" || old.uopt != "-" {
		add(classDef{supers: old.supers, sopt: "-", uopt: "-"})
	}
	// initform dropped, initarg only
	add(classDef{supers: old.supers, sopt: "a", uopt: old.uopt})
	// slot u added with the shared initarg
	if old.uopt == "-" {
		add(classDef{supers: old.supers, sopt: old.sopt, uopt: "kf"})
	}
	// superclass list reversed / first dropped / one added at the end or the front
	if 1 < len(old.supers) {
		rev := make([]int, len(old.supers))
		for i, s := range old.supers {
			rev[len(rev)-1-i] = s
		}
		add(classDef{supers: rev, sopt: old.sopt, uopt: old.uopt})
	}
	if 0 < len(old.supers) {
		add(classDef{supers: append([]int(nil), old.supers[1:]...), sopt: old.sopt, uopt: old.uopt})
	}
	for j := 0; j < c.n; j++ {
		if j == r {
			continue
		}
		dup := false
		for _, s := range old.supers {
			if s == j {
				dup = true
			}
		}
		if dup {
			continue
		}
		nd := classDef{supers: append(append([]int(nil), old.supers...), j), sopt: old.sopt, uopt: old.uopt}
		fin := c.finalDefsWith(r, nd)
		if acyclic(fin) {
			add(nd)
		}
	}
	return out
}

func (c *caseSpec) finalDefsWith(r int, d classDef) []classDef {
	out := append([]classDef(nil), c.defs...)
	out[r] = d
	return out
}

func emitP(emit func(string), n, maxSup int, alpha []string) {
	for _, g := range dags(n, maxSup) {
		product(alpha, n, func(sl []string) {
			emit(mkCase(g, sl).String())
		})
	}
}

func emitR(emit func(string), n, maxSup int, alpha []string, warmToo bool) {
	for _, g := range dags(n, maxSup) {
		product(alpha, n, func(sl []string) {
			c := mkCase(g, sl)
			for r := 0; r < n; r++ {
				for _, nd := range redefsOf(c, r) {
					c2 := *c
					c2.redef = &redefSpec{r: r, def: nd}
					emit(c2.String())
					if warmToo {
						c2.warm = true
						emit(c2.String())
					}
				}
			}
		})
	}
}

// shapes5: the 5-class chains and diamonds of the thorough tier.
var shapes5 = [][][]int{
	{nil, {0}, {1}, {2}, {3}},          // chain
	{nil, {0}, {0}, {1, 2}, {3}},       // diamond with a tail below
	{nil, {0}, {1}, {1}, {2, 3}},       // diamond on a stem
	{nil, {0}, {0}, {0}, {1, 2, 3}},    // triple diamond
	{nil, {0}, {0}, {1, 2}, {2, 1}},    // two joins of the same pair in opposite order
	{nil, nil, {0, 1}, {1, 0}, {2, 3}}, // crossing forks
	{nil, {0}, {0}, {1, 2}, {3, 0}},    // join plus a redundant direct superclass
	{nil, {0}, {1}, {0}, {2, 3}},       // long and short arm
	{nil, {0}, {0, 1}, {2}, {3, 1}},    // redundant direct superclasses at two levels
	{nil, nil, nil, {0, 1, 2}, {3}},    // wide fork with a tail
}

// shapesDiamond4: top c0; middles c1, c2; bottom c3.
var shapesDiamond4 = [][][]int{
	{nil, {0}, {0}, {1, 2}},    // diamond
	{nil, {0}, {0}, {2, 1}},    // diamond, middles in the other order
	{nil, {0}, {0}, {1, 2, 0}}, // diamond whose bottom also names the top directly
	{nil, {0}, {1}, {2, 0}},    // chain whose bottom also names the top directly (redundant-direct)
}

func enumerate(tier string, emit func(string)) {
	enumNilarg(emit)
	thorough := tier == engine.Thorough
	// family P: no redefinition, every permutation of the defclass forms
	emitP(emit, 1, 0, alphaFull)
	if thorough {
		emitP(emit, 2, 1, alphaFull)
		emitP(emit, 3, 2, alphaCurated)
	} else {
		emitP(emit, 2, 1, alphaCurated)
		emitP(emit, 3, 2, alphaQuick3)
	}
	// family N: initform nil
	emitP(emit, 1, 0, alphaNil)
	emitP(emit, 2, 1, alphaNil)
	if thorough {
		emitP(emit, 3, 2, alphaNil)
	} else {
		emitP(emit, 3, 2, []string{"-.-", "f.-", "n.-"})
	}
	// family R: one class redefined at any later point of the history
	if thorough {
		emitR(emit, 2, 1, alphaSmall, true)
		emitR(emit, 3, 2, alphaTiny, true)
		emitR(emit, 3, 2, []string{"-.-", "f.-", "k.k"}, false)
	} else {
		emitR(emit, 2, 1, alphaTiny, true)
		emitR(emit, 3, 2, alphaTwo, true)
	}
	// 4 classes: every DAG, every permutation
	emitP(emit, 4, 3, []string{"f.-"})
	// family RD (both tiers): the 4-class diamonds and redundant-direct shapes with the TOP class redefined
	// (every applicable kind, all 60 orders; cold, and warm for the all-initform slot assignment): the re-merge of the bottom class must wait for
	// BOTH middle classes (seeded change C12-diamond-redefinition-merged-once was only seen by thorough before)
	for _, g := range shapesDiamond4 {
		product(alphaTwo, 4, func(sl []string) {
			c := mkCase(g, sl)
			for _, nd := range redefsOf(c, 0) {
				c2 := *c
				c2.redef = &redefSpec{r: 0, def: nd}
				emit(c2.String())
				if strings.Join(sl, ",") == "f.-,f.-,f.-,f.-" { // warm dispatch cache: one slot assignment is enough (time)
					c2.warm = true
					emit(c2.String())
				}
			}
		})
	}
	if thorough {
		emitP(emit, 4, 3, alphaTiny)
		emitR(emit, 4, 2, []string{"f.-"}, false)
		for _, g := range shapes5 {
			product(alphaTwo, 5, func(sl []string) {
				emit(mkCase(g, sl).String())
			})
		}
	}
}

var alphaQuick3 = []string{"-.-", "o.-", "f.-", "a.-", "af.-", "k.-", "-.kf", "k.k"}
