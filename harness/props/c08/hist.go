package c08

import (
	"fmt"
	"io"
	"strings"

	"github.com/ohler55/slip"

	"verif/lisp"
)

// A history is a list of steps applied to the real slip. Code objects live in
// numbered slots so that "the same Code evaluated again" is expressible.
//
//	R<slot>  read src into the slot (slip.ReadString)
//	C<slot>  Code.Compile() on the slot
//	E<slot>  Code.Eval(scope) on the slot
//	L        (load <string-input-stream of src>)   = Read + Compile + Eval inside slip
type step struct {
	op   byte // 'R' 'C' 'E' 'L'
	slot int
	src  string
}

// obs is what one E/L step showed.
type obs struct {
	val   string   // lisp.Show of the value ("" when err)
	trace []string // (tr k v) keys logged during the step
	err   *lisp.Err
}

func (o obs) String() string {
	if o.err != nil {
		return "ERR[" + o.err.Class + ": " + o.err.Message + "] trace=" + strings.Join(o.trace, ",")
	}
	return o.val + " trace=" + strings.Join(o.trace, ",")
}

// digest without messages (unique names would otherwise leak into outcomes).
func (o obs) digest() string {
	if o.err != nil {
		return "ERR[" + o.err.Class + "] trace=" + strings.Join(o.trace, ",")
	}
	return o.val + " trace=" + strings.Join(o.trace, ",")
}

type machine struct {
	scope *slip.Scope
	slots map[int]slip.Code
}

func newMachine() *machine {
	slip.ErrorOutput = &slip.OutputStream{Writer: io.Discard} // "WARNING: redefining ..." lines
	return &machine{scope: slip.NewScope(), slots: map[int]slip.Code{}}
}

// do applies one step. R and C return an obs only when they fail.
func (m *machine) do(st step) (o obs, observed bool) {
	lisp.ResetTrace()
	defer func() {
		if rec := recover(); rec != nil {
			o = obs{err: lisp.ErrFromRecovered(rec), trace: lisp.Trace()}
			observed = true
		}
	}()
	switch st.op {
	case 'R':
		m.slots[st.slot] = slip.ReadString(st.src, m.scope)
		return obs{}, false
	case 'C':
		m.slots[st.slot].Compile()
		return obs{}, false
	case 'E':
		code, has := m.slots[st.slot]
		if !has {
			panic(fmt.Sprintf("harness: slot %d empty", st.slot))
		}
		v := code.Eval(m.scope, nil)
		return obs{val: lisp.Show(v), trace: lisp.Trace()}, true
	case 'L':
		m.scope.Let(slip.Symbol("c08-load-stream"), slip.NewStringStream([]byte(st.src)))
		code := slip.ReadString("(load c08-load-stream)", m.scope)
		v := code.Eval(m.scope, nil)
		return obs{val: lisp.Show(v), trace: lisp.Trace()}, true
	}
	panic("harness: bad step")
}

// parseRaw parses "R0 <src> ;; C0 ;; E0 ;; E0" (probe aid, spec "raw|...").
func parseRaw(s string) (steps []step) {
	for _, part := range strings.Split(s, ";;") {
		part = strings.TrimSpace(part)
		if part == "" {
			continue
		}
		st := step{op: part[0]}
		rest := part[1:]
		i := 0
		for i < len(rest) && '0' <= rest[i] && rest[i] <= '9' {
			st.slot = st.slot*10 + int(rest[i]-'0')
			i++
		}
		st.src = strings.TrimSpace(rest[i:])
		steps = append(steps, st)
	}
	return
}
