//go:build verif

package c20

// Oracle-sensitivity self-test (S6) of the families in big.go. The reference of the bigfile family is "the history
// file is its lines": parseBoring splits the text at newlines. Its mutants are chunked readers (a 4096-byte buffer
// with carry-over, the algorithm of pkg/repl/linereader.go re-written here) each with one realistic chunk-boundary
// bug; a mutant is distinguished when at least one final file of the enumerated case set parses differently.
// For the torn-write family the reference is "an unterminated tail is not an entry and the next entry starts on a
// line of its own"; the mutant appends the next entry directly to the tail.

import (
	"bytes"
	"encoding/json"
	"fmt"
	"strings"

	"verif/engine"
)

// lrModel: a line reader with a fixed buffer whose unconsumed rest is copied down before the next scan.
type lrModel struct {
	data []byte
	pos  int
	buf  []byte
	cnt  int
	line []byte
	mut  string

	full           bool // the previous read filled the buffer
	staleNL        bool // a newline of an earlier chunk sat beyond the valid bytes while the buffer was scanned
	shortAfterFull bool // a read shorter than the buffer followed a full one
}

func (m *lrModel) read() (eof bool) {
	if len(m.data) <= m.pos {
		m.cnt = 0
		return true
	}
	n := copy(m.buf, m.data[m.pos:])
	m.pos += n
	if m.full && n < len(m.buf) {
		m.shortAfterFull = true
	}
	m.full = n == len(m.buf)
	m.cnt = n
	return false
}

func (m *lrModel) readLine() (line []byte, eof bool) {
	m.line = m.line[:0]
	for {
		limit := m.cnt
		if bytes.IndexByte(m.buf[m.cnt:], '\n') >= 0 {
			m.staleNL = true
		}
		if m.mut == "scan-to-len-of-buffer" {
			limit = len(m.buf)
		}
		for i := 0; i < limit; i++ {
			if m.buf[i] == '\n' {
				if m.mut == "newline-first-in-buffer-drops-collected" && i == 0 && 0 < len(m.line) {
					m.line = m.line[:0]
				}
				m.line = append(m.line, m.buf[:i]...)
				i++
				if m.mut == "newline-last-in-buffer-not-consumed" && i == m.cnt && m.cnt == len(m.buf) {
					m.buf[i-1] = ' ' // the same buffer is scanned once more
					return m.line, false
				}
				copy(m.buf, m.buf[i:])
				m.cnt -= i
				if m.cnt < 0 {
					m.cnt = 0
				}
				return m.line, false
			}
		}
		if m.mut == "refill-forgets-collected" {
			m.line = m.line[:0]
		}
		m.line = append(m.line, m.buf[:m.cnt]...)
		if m.read() {
			return m.line, true
		}
	}
}

// parseChunked: History.Load over the model reader.
func parseChunked(file, mut string) []string {
	m := &lrModel{data: []byte(file), buf: make([]byte, bufSize), mut: mut}
	var out []string
	for n := 0; n < 1000; n++ {
		line, eof := m.readLine()
		if eof {
			break
		}
		if t := strings.TrimSpace(string(line)); t != "" {
			out = append(out, strings.ReplaceAll(t, "\t", "\n"))
		}
	}
	return out
}

// parseBoring: the entries of a history file.
func parseBoring(file string) []string {
	lines := strings.Split(file, "\n")
	var out []string
	for _, l := range lines[:len(lines)-1] { // what follows the last newline is not an entry
		if t := strings.TrimSpace(l); t != "" {
			out = append(out, strings.ReplaceAll(t, "\t", "\n"))
		}
	}
	return out
}

var readerMutants = []string{
	"refill-forgets-collected",
	"scan-to-len-of-buffer",
	"newline-last-in-buffer-not-consumed",
	"newline-first-in-buffer-drops-collected",
}

func selftest(tier string) (killed, total int, notes []string) {
	// the final files of the aimed non-crash history cases of length <= 2
	type tornCase struct{ file, next string }
	var files []string
	var torn []tornCase
	seen := map[string]bool{}
	// the quick enumeration is part of the thorough one: files that distinguish a mutant there do so in both tiers
	enumerateBig(engine.Quick, func(text string) {
		var sp spec
		if err := json.Unmarshal([]byte(text), &sp); err != nil || sp.K != "bighist" || 2 < len(sp.Ops) {
			return
		}
		if sp.Crash != 0 && sp.Tear == "" {
			return
		}
		sp.Mode = "n" // no reloads: the files depend on the writing code only
		sp.fill = pilotFill
		snap, ok := plainRun(&sp, 0)
		if !ok {
			return
		}
		m0, present := measure(snap[histFile], sp.Aim)
		if !present {
			return
		}
		if sp.fill = pilotFill + sp.B*bufSize + sp.D - m0; sp.fill < 0 {
			return
		}
		if snap, ok = plainRun(&sp, 0); !ok {
			return
		}
		f := snap[histFile]
		if len(f) == 0 {
			return
		}
		if sp.Tear == "" {
			if !seen[f] {
				seen[f] = true
				files = append(files, f)
			}
			return
		}
		// a torn tail: the last entry of the file cut at the points of the death model
		last := strings.LastIndexByte(f[:len(f)-1], '\n') + 1
		if cut := tearCut(sp.Tear, last, len(f)-last); 0 < cut {
			torn = append(torn, tornCase{f[:last+cut], "(z 0)\n"})
		}
	})
	total = len(readerMutants) + 1
	faithfulOK := true
	for _, f := range files {
		if !eqs(parseChunked(f, ""), parseBoring(f)) {
			faithfulOK = false
		}
	}
	if !faithfulOK || len(files) == 0 {
		notes = append(notes, fmt.Sprintf("the unmutated chunked reader model disagrees with the boring parser (or no files: %d)", len(files)))
		return 0, total, notes
	}
	for _, mut := range readerMutants {
		hit := false
		for _, f := range files {
			if !eqs(parseChunked(f, mut), parseBoring(f)) {
				hit = true
				break
			}
		}
		if hit {
			killed++
		} else {
			notes = append(notes, "bigfile: reader mutant not distinguished by any enumerated file: "+mut)
		}
	}
	// torn write: reference = tail dropped, next entry on its own line; mutant = next entry glued to the tail
	glued := false
	for _, t := range torn {
		cutAt := strings.LastIndexByte(t.file, '\n') + 1
		if !eqs(parseBoring(t.file[:cutAt]+t.next), parseBoring(t.file+t.next)) {
			glued = true
			break
		}
	}
	if glued {
		killed++
	} else {
		notes = append(notes, fmt.Sprintf("torn write: appending to the torn tail is not distinguished (%d torn files)", len(torn)))
	}
	return
}
