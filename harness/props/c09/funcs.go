package c09

import (
	"bytes"
	"encoding/json"
	"fmt"
	"os"
	"os/exec"
	"sort"
	"strings"
	"sync"
	"sync/atomic"
	"time"

	"github.com/ohler55/slip"

	"verif/engine"
)

// ---------------------------------------------------------------- the functions

type fnInfo struct {
	name  string // pkg:name
	macro bool   // does not evaluate (some of) its arguments
}

var (
	fnOnce sync.Once
	fnList []fnInfo
)

// harness-owned packages are not part of slip.
var ownPkgs = map[string]bool{"common-lisp-user": true, "keyword": true, selftestPkgName: true}

// allFunctions lists every exported function of every slip package, sorted.
func allFunctions() []fnInfo {
	fnOnce.Do(func() {
		for _, p := range slip.AllPackages() {
			if ownPkgs[p.Name] {
				continue
			}
			p.EachFuncInfo(func(fi *slip.FuncInfo) {
				if fi.Pkg != p || !fi.Export {
					return
				}
				info := fnInfo{name: p.Name + ":" + fi.Name}
				func() {
					defer func() { _ = recover() }()
					if f, ok := fi.Create(nil).(interface{ SkipArgEval(i int) bool }); ok {
						for i := 0; i < 4; i++ {
							info.macro = info.macro || f.SkipArgEval(i)
						}
					}
				}()
				fnList = append(fnList, info)
			})
		}
		sort.Slice(fnList, func(i, j int) bool { return fnList[i].name < fnList[j].name })
	})
	return fnList
}

// ---------------------------------------------------------------- exclusions

// excluded returns a reason when the call must not be made at all because the
// function blocks, destroys or reaches outside the process BY CONTRACT with
// these arguments (so the outcome says nothing about the property). Everything
// else is called.
func excluded(fn, mode string, args []string) string {
	kind := func(i int) string {
		if i < len(args) {
			return poolByName[args[i]].kind
		}
		return ""
	}
	isInt := func(i int) bool { k := kind(i); return k == "int" || k == "posint" }
	isPos := func(i int) bool { k := kind(i); return k == "posint" || k == "posreal" }
	switch fn {
	case "common-lisp:loop":
		return "loops forever by contract (no exit form can be built from pool objects)"
	case "common-lisp:do", "common-lisp:do*":
		if mode == "l" && 2 <= len(args) && args[0] == "lamx" && args[1] == "lamx" {
			// (do (lambda (x) x) (lambda (x) x)): the end test is the variable `lambda`, bound to nil by the binding list
			return "the end test is a variable bound to nil: loops forever by contract"
		}
	case "common-lisp:sleep":
		if len(args) == 1 && isPos(0) {
			return "sleeps for the given time by contract"
		}
	case "gi:send-signal":
		if len(args) == 2 && isInt(0) {
			return "would send a signal to real processes (pid 0/-1 = every process)"
		}
	case "gi:signal-wait":
		all := 0 < len(args)
		for i := range args {
			all = all && isInt(i)
		}
		if all {
			return "waits for an OS signal by contract"
		}
	case "gi:run":
		return "spawns OS processes"
	case "gi:range":
		if 2 <= len(args) && args[1] == "ch" {
			return "iterates until the channel is closed, by contract (the pool channel stays open)"
		}
	case "net:socket-select":
		if len(args) == 3 {
			empty := true
			for _, a := range args {
				empty = empty && (a == "nil" || a == "el" || a == "i:socket")
			}
			if empty {
				return "waits on empty socket lists without a timeout, by contract forever"
			}
		}
	case "net:wait-for-input":
		if 0 < len(args) && (args[0] == "el" || args[0] == "i:socket") {
			// (a socket instance that was never opened has no descriptor: the set that is waited on is empty)
			return "waits on an empty socket list without a timeout, by contract forever"
		}
	case "gi:make-app":
		if 3 <= len(args) {
			return "generates and builds a Go application"
		}
	case "test:benchmark":
		if len(args) == 1 || 2 <= len(args) && isPos(1) {
			return "runs for the given (default 3 s) duration by contract"
		}
	case "swank:swank-server", "swank:create-server", "swank:start-server", "swank:restart-server", "swank:setup-server":
		return "opens a listening TCP socket on a fixed port (outcome depends on other processes)"
	case "net:get-host-by-name", "net:get-host-by-address", "net:graphql-query":
		if 0 < len(args) && kind(0) == "string" {
			return "performs a network lookup/request"
		}
	}
	return ""
}

// needsEnvRestore: functions that edit the process environment.
func needsEnvRestore(fn string) bool {
	switch fn {
	case "gi:setenv", "gi:unsetenv", "gi:clearenv":
		return true
	}
	return false
}

// ---------------------------------------------------------------- isolation

// isolate says whether this call is known to kill or hang the process on the
// pinned tree. Such calls are executed in a child process of their own so that
// (a) the worker survives and (b) the failure gets a SPECIFIC signature
// (fn x hang|fatal class) instead of the engine's generic worker:fatal /
// worker:hang, which stay reserved for deaths nobody predicted. The verdict
// always comes from the real execution in the child, never from this table.
func isolate(fn, mode string, args []string) bool {
	if os.Getenv("C09_CHILD") != "" {
		return false
	}
	has := func(names ...string) bool {
		for _, a := range args {
			for _, n := range names {
				if a == n {
					return true
				}
			}
		}
		return false
	}
	if rule, ok := isolateRules[fn]; ok {
		return rule(mode, args, has)
	}
	return false
}

// isolateRules is filled from what the unchanged tree was observed to do
// (see isolate.go).
var isolateRules = map[string]func(mode string, args []string, has func(...string) bool) bool{}

// childDeadline: see helperDeadline (helper.go) - the child's own processor time decides, not the wall.
const childDeadline = 5 * time.Second
const childCPU = 3 * time.Second
const childWallMax = 60 * time.Second

// runChild executes the spec in a fresh process under a 3 GiB address-space
// limit and returns its result, or a failure describing how it died.
func runChild(spec, sigPrefix, what string) (res engine.Result) {
	sandboxInit()
	self, err := os.Executable()
	if err != nil {
		res.Fail("harness:no-executable", err.Error())
		return
	}
	f, err := os.CreateTemp(scratchRoot(), "child-*.spec")
	if err != nil {
		res.Fail("harness:child-spec", err.Error())
		return
	}
	defer os.Remove(f.Name())
	_, _ = f.WriteString(spec)
	_ = f.Close()
	cmd := exec.Command(self, "exec", "C09", "--spec-file", f.Name(), "--mem", "3")
	cmd.Env = append(append([]string{}, baseEnv...), "C09_CHILD=1", "GOMAXPROCS=2")
	cmd.Dir = "/"
	var out, errb bytes.Buffer
	cmd.Stdout, cmd.Stderr = &out, &errb
	if err = cmd.Start(); err != nil {
		res.Fail("harness:child-start", err.Error())
		return
	}
	done := make(chan error, 1)
	go func() { done <- cmd.Wait() }()
	if _, back := engine.WaitBounded(cmd.Process.Pid, done, childDeadline, childCPU, childWallMax, func() { res.Hit("child-wait-extended") }); !back {
		_ = cmd.Process.Kill()
		<-done
		res.Fail(sigPrefix+" kind=unbounded", fmt.Sprintf("%s => no outcome within %s in a process of its own (3 GiB address space)", what, childDeadline))
		res.Outcome = "unbounded"
		res.Nontrivial = true
		res.Hit("isolated")
		return
	}
	if jerr := json.Unmarshal(out.Bytes(), &res); jerr != nil {
		res = engine.Result{}
		kind := "fatal:" + fatalClass(errb.String())
		if kind == "fatal:out-of-memory" {
			kind = "unbounded" // running out of time and running out of memory are two faces of unbounded work
		}
		res.Fail(sigPrefix+" kind="+kind, what+" => the process died: "+firstLines(errb.String(), 6))
		res.Outcome = kind
		res.Nontrivial = true
	}
	res.Hit("isolated")
	return
}

func scratchRoot() string { return "/verif/.build/scratch/C09" }

func fatalClass(stderr string) string {
	switch {
	case strings.Contains(stderr, "out of memory"), strings.Contains(stderr, "cannot allocate memory"):
		return "out-of-memory"
	case strings.Contains(stderr, "stack overflow"), strings.Contains(stderr, "stack exceeds"):
		return "stack-overflow"
	case strings.Contains(stderr, "concurrent map"):
		return "concurrent-map-access"
	case strings.Contains(stderr, "all goroutines are asleep"):
		return "deadlock"
	case strings.Contains(stderr, "panic:"):
		return "unrecovered-panic"
	}
	return "other"
}

func firstLines(s string, n int) string {
	lines := strings.SplitN(s, "\n", n+1)
	if n < len(lines) {
		lines = lines[:n]
	}
	return strings.Join(lines, " | ")
}

// ---------------------------------------------------------------- enumeration

func tuples(names []string, n int, emit func([]string)) {
	cur := make([]string, n)
	var rec func(i int)
	rec = func(i int) {
		if i == n {
			emit(cur)
			return
		}
		for _, nm := range names {
			cur[i] = nm
			rec(i + 1)
		}
	}
	rec(0)
}

func poolNames() []string {
	names := make([]string, len(fullPool))
	for i := range fullPool {
		names[i] = fullPool[i].name
	}
	return names
}

func enumFuncs(tier string, emit func(string)) {
	fns := allFunctions()
	if one := os.Getenv("C09_FN"); one != "" { // development aid, see bound()
		var keep []fnInfo
		for _, f := range fns {
			if f.name == one {
				keep = append(keep, f)
			}
		}
		fns = keep
	}
	all := poolNames()
	pairs := quickPairNames
	if tier == engine.Thorough {
		pairs = all
	}
	modes := func(f fnInfo) []string {
		if f.macro {
			return []string{"v", "l"}
		}
		return []string{"v"}
	}
	for n := 0; n <= 2; n++ {
		names := all
		if n == 2 {
			names = pairs
		}
		for _, f := range fns {
			for _, m := range modes(f) {
				tuples(names, n, func(t []string) {
					emit("f|" + f.name + "|" + m + "|" + strings.Join(t, ","))
				})
			}
		}
	}
	if tier == engine.Thorough {
		for _, f := range fns {
			for _, m := range modes(f) {
				tuples(tripleNames, 3, func(t []string) {
					emit("f|" + f.name + "|" + m + "|" + strings.Join(t, ","))
				})
			}
		}
	}
}

// ---------------------------------------------------------------- execution

func splitArgs(s string) []string {
	if s == "" {
		return nil
	}
	// pool names contain no comma
	return strings.Split(s, ",")
}

func execFunc(spec string) (res engine.Result) {
	parts := strings.SplitN(spec, "|", 4)
	if len(parts) != 4 {
		res.Fail("harness:bad-spec", spec)
		return
	}
	fn, mode, args := parts[1], parts[2], splitArgs(parts[3])
	for _, a := range args {
		if poolByName[a] == nil {
			res.Fail("harness:bad-spec", spec)
			return
		}
	}
	res.Hit("fn-cases")
	if why := excluded(fn, mode, args); why != "" {
		res.Outcome = "excluded:" + why
		res.Hit("fn-excluded")
		return
	}
	sigPrefix := "fn=" + fn
	if isolate(fn, mode, args) {
		return runChild(spec, sigPrefix, callText(fn, mode, args))
	}
	leave := enter(needsEnvRestore(fn))
	defer leave()
	w := &world{scope: slip.NewScope()}
	defer w.done()
	// variable names are fresh per case: defconstant/defvar/defun given the VARIABLE as a name must not leak
	var vars []string
	if !setup(func() {
		id := atomic.AddInt64(&nameCounter, 1)
		for i, a := range args {
			v := fmt.Sprintf("c09v%dx%d", id, i)
			w.scope.Let(slip.Symbol(v), w.build(a))
			vars = append(vars, v)
		}
	}) {
		// the world of this process is broken (an earlier case): judge this case in a fresh process, then restart
		tainted = true
		res.Hit("setup-failed")
		if os.Getenv("C09_CHILD") == "" {
			r := runChild(spec, sigPrefix, callText(fn, mode, args))
			r.Hit("setup-failed")
			return r
		}
		res.Fail("harness:setup-failed", spec)
		return
	}
	var src string
	if mode == "l" {
		// the objects themselves are the (unevaluated) operands of the form
		src = "(eval (list '" + fn + " " + strings.Join(vars, " ") + "))"
	} else {
		src = "(" + fn + " " + strings.Join(vars, " ") + ")"
	}
	o := observe(func() slip.Object {
		code := slip.ReadString(src, w.scope)
		return code.Eval(w.scope, nil)
	})
	what := fmt.Sprintf("%s with %s", digest(src, 300), describeArgs(args))
	o.anyClass = throwsAnything[fn]
	judgeCall(&res, o, &realClassifier, sigPrefix, what)
	// Did the call poison the interpreter? A plain type error must still be a plain type error.
	slip.CurrentPackage = &slip.UserPkg
	probe := observe(func() slip.Object {
		s := slip.NewScope()
		return slip.ReadString("(funcall (lambda (x) (car x)) (if t 5 nil))", s).Eval(s, nil)
	})
	if fc := realClassifier.classify(probe); fc != "" {
		res.Hit("poisoned")
		res.Fail(fmt.Sprintf("%s kind=poisons-interpreter then=%s at=%s", sigPrefix, fc, probe.site),
			what+" => "+o.describe()+"; AFTERWARDS (funcall (lambda (x) (car x)) 5) in a fresh scope => "+probe.describe())
		tainted = true
	} else if probe.kind != "condition" || probe.class != "type-error" {
		// no fault, but the call changed what cl-user sees (e.g. unexported `lambda`): not this property's
		// business, yet later cases must not be judged in that world
		res.Hit("world-changed")
		tainted = true
		logLine("WORLD-CHANGED\t" + spec + "\t" + probe.describe())
	}
	return
}

// tainted: a case left the interpreter of this process broken (reported above);
// later failures of this process will not reproduce in a fresh process and are
// dropped by the engine.
var tainted bool

// callText describes a call without running it.
func callText(fn, mode string, args []string) string {
	var xs []string
	for i := range args {
		xs = append(xs, fmt.Sprintf("x%d", i))
	}
	form := "(" + fn + " " + strings.Join(xs, " ") + ")"
	if mode == "l" {
		form = "(eval (list '" + fn + " " + strings.Join(xs, " ") + "))"
	}
	return form + " with " + describeArgs(args)
}

func describeArgs(args []string) string {
	if len(args) == 0 {
		return "no arguments"
	}
	var b []string
	for i, a := range args {
		b = append(b, fmt.Sprintf("x%d=%s", i, a))
	}
	return strings.Join(b, " ")
}

// setup runs harness-side preparation; false when it panicked.
func setup(fn func()) (ok bool) {
	defer func() {
		if rec := recover(); rec != nil {
			ok = false
			logLine(fmt.Sprintf("SETUP-FAILED\t%v", rec))
		}
	}()
	fn()
	return true
}

// judgeCall applies the oracle to one observation and fills the result.
func judgeCall(res *engine.Result, o *obs, c *classifier, sigPrefix, what string) {
	res.Outcome = o.outcome()
	switch o.kind {
	case "value":
		res.Hit("fn-value")
		res.Nontrivial = true
	case "condition":
		res.Hit("fn-condition")
		for _, h := range o.hier {
			if h == "type-error" {
				res.Hit("fn-type-error")
			}
		}
		if !isArgCountMessage(o.msg) {
			res.Nontrivial = true
		} else {
			res.Hit("fn-arg-count-error")
		}
	}
	if o.catchAll {
		res.Hit("catch-all-conversions")
	}
	if fc := c.classify(o); fc != "" {
		res.Hit("faults")
		res.Nontrivial = true
		res.Fail(fmt.Sprintf("%s fault=%s at=%s", sigPrefix, fc, o.site), what+" => "+o.describe())
	} else if o.catchAll {
		res.Hit("catch-all-accepted")
		logAccepted(sigPrefix, o)
	}
}

func isArgCountMessage(msg string) bool {
	return strings.Contains(msg, "Too few arguments") || strings.Contains(msg, "Too many arguments") ||
		strings.Contains(msg, "too few arguments") || strings.Contains(msg, "too many arguments")
}

// logAccepted is a development aid: with C09_LOG set, catch-all conversions
// the oracle ACCEPTS are appended there for manual triage.
func logAccepted(sigPrefix string, o *obs) {
	if os.Getenv("C09_LOG") != "" {
		logLine(fmt.Sprintf("%s\t%s\t%s", sigPrefix, o.site, digest(o.msg, 160)))
	}
}

func logLine(line string) {
	path := os.Getenv("C09_LOG")
	if path == "" {
		return
	}
	if f, err := os.OpenFile(path, os.O_APPEND|os.O_CREATE|os.O_WRONLY, 0o644); err == nil {
		fmt.Fprintln(f, line)
		_ = f.Close()
	}
}
