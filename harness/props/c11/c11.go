// Package c11: flavors — component order, daemon order, history independence.
//
// A case is a DEFINITION SET (a flavor DAG + a set of :m daemons, or a flavor
// DAG + per-flavor variable/keyword/accessor options). Exec runs EVERY
// admissible definition order of that set (components before users, a flavor
// before its own methods) on the real slip, each with fresh flavor names, and
// applies two oracles: (1) the reference model of model.go, which does not
// know about orders; (2) model-free: all orders observe the same thing.
package c11

import (
	"fmt"
	"os"
	"sort"
	"strconv"
	"strings"

	"github.com/ohler55/slip"
	"github.com/ohler55/slip/pkg/flavors"

	"verif/engine"
	"verif/lisp"
)

func init() {
	engine.Register(&engine.Prop{
		ID:    "C11",
		Level: "model_checking",
		Rule: "case = definition set (flavor DAG x set of primary/:before/:after/whopper definitions for one message, or flavor DAG x " +
			"per-flavor variable/accessor/keyword options); every admissible definition order of the set is replayed on fresh flavors " +
			"(counter 'histories'), an instance of EVERY flavor is sent the message / probed, observations are compared with the " +
			"order-free reference model and with each other across orders. A case is non-trivial when some flavor inherits a method, " +
			"variable, accessor or keyword from a component and (method family) the set has at least two definition orders. " +
			"Family w (warm histories): probe(flavor) = make-instance + a send of every message of the case is an OPERATION placed between the defining forms " +
			"(every single (position, flavor), every pair, every subset, all at once - per tier), the instances it makes are sent the messages again at the end; " +
			"the observation at the end is the specification for the final definitions and equal across orders AND probe placements, an observation at a prefix is the " +
			"specification for the prefix; with two messages :m / :n, with a definition replaced by a later one, with the other spellings of the definitions, with " +
			":abstract-flavor / :no-vanilla-flavor / :required-methods components (specification) and :included-flavors (order- and placement-independence only). " +
			"At the final probe of every method case the message is also delivered by (send inst :send-if-handles :m) and from Go by (*flavors.Instance).Receive and .BoundReceive " +
			"(same specification, all routes agree); whoppers may continue twice (kind v: everything they wrap runs twice). " +
			"Family g: undefflavor of a flavor that has dependents and live instances, then the flavor with changed components / variable / options and its dependents again in every order " +
			"(specification for the final definitions, equal to a world without the first generation), and a second defflavor without removal (refused by slip: every flavor stays what it was)",
		Assumptions: []string{
			"messages :m / :n without arguments whose daemons only trace and return a constant; whoppers call continue-whopper once (kind w) or twice (kind v)",
			"flavors are defined and used in one package (cl-user)",
			"slip implements the daemon method combination only ((:method-combination ...) is 'not an option to defflavor') and has no undefmethod for flavors: nothing to enumerate there",
			"precedence with (:included-flavors ...), what make-instance of an abstract / no-vanilla / removed flavor does, what an instance of a removed flavor answers, :default-handler inheritance and the value of a variable declared without default are not constrained by the statement: recorded, compared across orders and probe placements only",
			"the return value of a send without primary, the handling of an unhandled message, undeclared init keywords and undeclared accessors are not constrained (S2)",
		},
		Enumerate: enumerate,
		Exec:      exec,
		Required: []string{"histories", "multi-order-case", "late-inherited-method", "diamond-instance", "tree-instance", "chain-instance",
			"nested-whoppers", "multi-before", "multi-after", "shadowed-primary", "shadowed-default", "inherited-default",
			"inherited-accessor", "inherited-keyword", "inherited-inittable", "accessor-vs-component-method", "explicit-nil-init-keyword", "message-vanilla-flavor-handles", "keyword-accepted-by-a-component",
			"nil-default-before-a-later-default", "nil-keyword-default-before-a-later-default",
			"go-route-receive", "go-route-bound-receive", "go-route-send-if-handles", "handled-message-after-an-unhandled-one", "whopper-continuing-twice", "whopper-continuing-twice-below-a-whopper", "whopper-below-a-whopper-continuing-twice",
			"warm-histories", "old-instance-probed-again", "probe-before-a-definition-that-changes-the-answer", "probe-before-a-late-definition-on-a-component",
			"probe-before-a-late-whopper-on-a-component", "probe-before-a-replacement", "method-replaced", "two-message-case", "two-messages-probe-between-definitions",
			"other-spelling-of-the-definitions", "abstract-component", "no-vanilla-component", "included-flavors-case",
			"defflavor-refused-for-a-required-method", "defflavor-accepted-with-a-required-method", "warm-variable-histories", "accessor-used-before-a-later-definition",
			"undefflavor-then-defined-again", "redefinition-with-instances-alive", "flavor-built-on-the-redefined-flavor", "redefinition-changes-the-answer",
			"redefinition-changes-the-precedence-of-a-flavor-built-on-it", "method-of-the-first-generation-gone", "defflavor-again-for-an-existing-flavor"},
		Bound:         bound,
		Selftest:      selftest,
		CaseDeadlineS: 60,
	})
}

const allKinds = "pbaw"

func bound(tier string) string {
	if tier == engine.Thorough {
		return "methods: all 10 DAGs on 3 flavors x every set of <= 4 of the 12 (flavor x primary/before/after/whopper) definitions x ALL definition orders; " +
			"all 160 DAGs on 4 flavors (<= 3 ordered components) x every set of <= 2 of 16 definitions x ALL orders; the 4-flavor DAGs whose last flavor " +
			"inherits all others x every set of 3 definitions x ALL orders and x every set of 4 primary/before/whopper definitions x early/late orders (each method directly after its " +
			"defflavor or after all defflavors, late ones in every permutation, every defflavor order); 5-flavor DAGs with <= 2 components whose last flavor " +
			"inherits all others x every set of <= 2 definitions x early/late orders. variables: all DAGs on 3 flavors x 9 option tokens per flavor, " +
			"all 160 DAGs on 4 flavors x 6 option tokens per flavor, every defflavor order; nil / absent / keyword defaults: 2-3 flavors x 8 tokens, 4 flavors (top-only) x 5 tokens; " +
			"3-flavor variable histories also warm (every flavor probed after every defflavor). " + boundWarm(tier)
	}
	return "methods: all 10 DAGs on 3 flavors x every set of <= 3 of the 12 (flavor x primary/before/after/whopper) definitions x ALL definition orders; " +
		"the 4-flavor DAGs (<= 3 ordered components) whose last flavor inherits all others x every set of <= 2 of 16 definitions x ALL orders, and x every set of 3 " +
		"primary/before/whopper or primary/after definitions restricted to early/late orders (each method directly after its defflavor or after all defflavors, late ones in every permutation). " +
		"variables: all 10 DAGs on 3 flavors x 9 option tokens per flavor (x default, bare gettable/settable/inittable, init keyword, second variable y) and 2-3 flavors x 8 tokens " +
		"((x nil), bare x, :default-init-plist (:k v) / (:k nil) against declarations with a value), every defflavor order, cold and warm (every flavor probed after every defflavor). " + boundWarm(tier)
}

var (
	tokens9 = []string{"-", "x", "xg", "xs", "xi", "xgsi", "k", "xk", "y"}
	tokens6 = []string{"-", "x", "xg", "xi", "k", "y"}
	// declarations with a nil default / without default / keyword defaults, against declarations with a value
	tokensNil  = []string{"-", "x", "xn", "xu", "xg", "k", "kd", "kn"}
	tokensNil4 = []string{"-", "x", "xn", "kd", "kn"}
)

func enumerate(tier string, emit func(string)) {
	emitM := func(dags [][][]int, kmin, kmax int, mode string, kinds string) {
		for _, d := range dags {
			n := len(d)
			for _, ms := range methSubsets(n, kmax, kinds) {
				if len(ms) < kmin {
					continue
				}
				emit("m|" + dagString(d) + "|" + methString(ms) + "|" + mode)
			}
		}
	}
	vsuffix := ""
	emitV := func(dags [][][]int, toks []string) {
		for _, d := range dags {
			n := len(d)
			idx := make([]int, n)
			for {
				parts := make([]string, n)
				for i, t := range idx {
					parts[i] = toks[t]
				}
				emit("v|" + dagString(d) + "|" + strings.Join(parts, ",") + vsuffix)
				i := n - 1
				for ; 0 <= i; i-- {
					idx[i]++
					if idx[i] < len(toks) {
						break
					}
					idx[i] = 0
				}
				if i < 0 {
					break
				}
			}
		}
	}
	// whoppers that continue twice (kind v; a flavor has one whopper: w or v): the sets that contain one
	emitTwice := func(dags [][][]int, kmax int, mode string) {
		for _, d := range dags {
		next:
			for _, ms := range methSubsets(len(d), kmax, allKinds+"v") {
				has := false
				for _, m := range ms {
					if m.kind == 'v' {
						has = true
						if hasMeth(ms, m.f, 'w') {
							continue next
						}
					}
				}
				if has {
					emit("m|" + dagString(d) + "|" + methString(ms) + "|" + mode)
				}
			}
		}
	}
	// simplest first
	enumUnhandled(emit)
	enumAccessors(emit)
	enumNilinit(emit)
	emitM(allDags(2, 3, false), 0, 3, "all", allKinds)
	// the same families on a message vanilla-flavor handles (its primary is last in every precedence list)
	emitVanilla := func(dags [][][]int, kmin, kmax int) {
		for _, d := range dags {
			for _, ms := range methSubsets(len(d), kmax, allKinds) {
				if kmin <= len(ms) {
					emit("m|" + dagString(d) + "|" + methString(ms) + "|all|id")
				}
			}
		}
	}
	emitVanilla(allDags(2, 3, false), 1, 3)
	emitVanilla(allDags(3, 3, false), 1, 2)
	emitTwice(allDags(2, 3, false), 3, "all")
	emitTwice(allDags(3, 3, false), 2, "all")
	if tier == engine.Thorough {
		emitTwice(allDags(3, 3, false), 3, "all")
		emitTwice(allDags(4, 3, true), 2, "all")
	} else {
		emitTwice(allDags(3, 3, false), 3, "el")
	}
	defer enumRegen(tier, emit)
	defer enumWarm(tier, emit)
	if tier == engine.Thorough {
		emitVanilla(allDags(3, 3, false), 3, 3)
		emitVanilla(allDags(4, 3, false), 1, 2)
		emitM(allDags(3, 3, false), 0, 4, "all", allKinds)
		vsuffix = "|hot"
		emitV(allDags(3, 3, false), tokens9)
		vsuffix = ""
		emitM(allDags(4, 3, false), 0, 2, "all", allKinds)
		emitM(allDags(4, 3, true), 3, 3, "all", allKinds)
		emitM(allDags(4, 3, true), 4, 4, "el", "pbw")
		emitV(allDags(4, 3, false), tokens6)
		vsuffix = "|hot"
		emitV(allDags(2, 3, false), tokensNil)
		emitV(allDags(3, 3, false), tokensNil)
		emitV(allDags(4, 3, true), tokensNil4)
		vsuffix = ""
		emitM(allDags(5, 2, true), 0, 2, "el", allKinds)
		return
	}
	emitM(allDags(3, 3, false), 0, 3, "all", allKinds)
	vsuffix = "|hot"
	emitV(allDags(3, 3, false), tokens9)
	emitV(allDags(2, 3, false), tokensNil)
	emitV(allDags(3, 3, false), tokensNil)
	vsuffix = ""
	emitM(allDags(4, 3, true), 0, 2, "all", allKinds)
	emitM(allDags(4, 3, true), 3, 3, "el", "pbw")
	emitM(allDags(4, 3, true), 3, 3, "el", "pa")
}

// ------------------------------------------------------------------- running

var nameCtr int

func freshNames(n int) []string {
	nameCtr++
	names := make([]string, n)
	for i := range names {
		names[i] = fmt.Sprintf("c11p%dn%df%d", os.Getpid(), nameCtr, i)
	}
	return names
}

// cleanup removes the flavors of one history: undefflavor (which also drops
// dependents) and then the package-level class / variable entries that
// undefflavor leaves behind, so that a long-lived worker does not slow down.
func cleanup(names []string) {
	for _, nm := range names {
		if flavors.Find(nm) != nil {
			_, _ = lisp.Eval("(undefflavor '" + nm + ")")
		}
	}
	for _, nm := range names {
		func() {
			defer func() { _ = recover() }()
			slip.CurrentPackage.Remove(nm)
		}()
	}
}

func flavorSrc(names []string, comps [][]int, f int, o fopt) string {
	var b strings.Builder
	b.WriteString("(defflavor ")
	b.WriteString(names[f])
	b.WriteString(" (")
	switch {
	case o.x && o.xnil:
		b.WriteString("(x nil)")
	case o.x && o.xplain:
		b.WriteString("x")
	case o.x:
		fmt.Fprintf(&b, "(x %d)", o.xdef(f))
	}
	if o.y {
		if o.x {
			b.WriteByte(' ')
		}
		fmt.Fprintf(&b, "(y %d)", yDefault(f))
	}
	b.WriteString(") (")
	for i, c := range comps[f] {
		if 0 < i {
			b.WriteByte(' ')
		}
		b.WriteString(names[c])
	}
	b.WriteString(")")
	if o.g {
		b.WriteString(" :gettable-instance-variables")
	}
	if o.s {
		b.WriteString(" :settable-instance-variables")
	}
	if o.i {
		b.WriteString(" :inittable-instance-variables")
	}
	if o.yi {
		b.WriteString(" (:inittable-instance-variables y)")
	}
	if o.k {
		b.WriteString(" (:init-keywords :k)")
	}
	if o.kd {
		fmt.Fprintf(&b, " (:default-init-plist (:k %d))", kDefault(f))
	}
	if o.kn {
		b.WriteString(" (:default-init-plist (:k nil))")
	}
	b.WriteString(")")
	return b.String()
}

// curMsg: the message of the method family. ":m" is handled by nobody but the methods of the case; ":id" is a message
// vanilla-flavor (last in every precedence list) has a primary method for: a primary of any flavor of the case shadows
// it, the daemons of the case run around whichever primary is first.
var curMsg = ":m"

func methSrc(names []string, m meth) string {
	if curMsg != ":m" {
		return strings.ReplaceAll(methSrcM(names, m), " :m)", " "+curMsg+")")
	}
	return methSrcM(names, m)
}

func methSrcM(names []string, m meth) string {
	id := strconv.Itoa(m.f)
	switch m.kind {
	case 'p':
		return fmt.Sprintf("(defmethod (%s :m) () (tr 'p%s) 'r%s)", names[m.f], id, id)
	case 'b':
		return fmt.Sprintf("(defmethod (%s :before :m) () (tr 'b%s) 'xb)", names[m.f], id)
	case 'a':
		return fmt.Sprintf("(defmethod (%s :after :m) () (tr 'a%s) 'xa)", names[m.f], id)
	case 'v':
		// a whopper that continues twice: everything it wraps runs twice
		return fmt.Sprintf("(defwhopper (%s :m) () (tr 'vi%s) (continue-whopper) (let ((r (continue-whopper))) (tr 'vo%s) r))", names[m.f], id, id)
	default:
		return fmt.Sprintf("(defwhopper (%s :m) () (tr 'wi%s) (let ((r (continue-whopper))) (tr 'wo%s) r))", names[m.f], id, id)
	}
}

// rename maps the fresh flavor names of one history back to f0, f1, ...
func rename(s string, names []string) string {
	for i := len(names) - 1; 0 <= i; i-- {
		s = strings.ReplaceAll(s, names[i], "f"+strconv.Itoa(i))
	}
	return s
}

// hierarchyOf reads the instance's class precedence (Go API) restricted to the
// flavors of this history.
func hierarchyOf(obj slip.Object, names []string) string {
	if obj == nil {
		return "?"
	}
	var out []string
	for _, h := range obj.Hierarchy() {
		for i, nm := range names {
			if strings.EqualFold(string(h), nm) {
				out = append(out, strconv.Itoa(i))
			}
		}
	}
	return strings.Join(out, " ")
}

func combosOf(name string, names []string) string {
	f := flavors.Find(name)
	if f == nil {
		return "<no flavor>"
	}
	m := f.GetMethod(curMsg)
	if m == nil {
		return "<no :m>"
	}
	var parts []string
	for _, c := range m.Combinations {
		s := "?"
		if c.From != nil {
			s = rename(c.From.Name(), names)
		}
		s += ":"
		if c.Wrap != nil {
			s += "w"
		}
		if c.Before != nil {
			s += "b"
		}
		if c.Primary != nil {
			s += "p"
		}
		if c.After != nil {
			s += "a"
		}
		parts = append(parts, s)
	}
	return "[" + strings.Join(parts, " ") + "]"
}

// ------------------------------------------------------------ method family

type sendObs struct {
	trace  []string
	ret    string
	err    string
	prec   string
	combos string
	// the same message delivered from Go (the extension interface): (*flavors.Instance).Receive and .BoundReceive
	recv, bound *sendObs
	// the same message by way of (send inst :send-if-handles :m), the other Lisp route slip has
	sendIf *sendObs
}

// goRoutes delivers msg to the instance the way Go code does: Receive (the route of send) and BoundReceive (all
// arguments already bound in a scope; Method.BoundCall / BoundInnerCall instead of Call / InnerCall).
func goRoutes(inst slip.Object, msg string) (recv, bound, sendIf *sendObs) {
	fi, ok := inst.(*flavors.Instance)
	if !ok {
		return nil, nil, nil
	}
	call := func(f func() slip.Object) *sendObs {
		var o sendObs
		lisp.ResetTrace()
		func() {
			defer func() {
				if rec := recover(); rec != nil {
					err := lisp.ErrFromRecovered(rec)
					o.err = err.Class
					if err.GoFault {
						o.err = "go-fault " + err.String()
					}
				}
			}()
			o.ret = lisp.Show(f())
		}()
		o.trace = lisp.Trace()
		return &o
	}
	recv = call(func() slip.Object { return fi.Receive(slip.NewScope(), msg, slip.List{}, 0) })
	bound = call(func() slip.Object { return fi.BoundReceive(slip.NewScope(), msg, nil, 0) })
	if fi.GetMethod(":send-if-handles") != nil {
		scope := slip.NewScope()
		scope.Let(slip.Symbol("inst"), inst)
		o := sendMsg(scope, ":send-if-handles "+msg)
		sendIf = &o
	}
	return
}

// judgeRoutes: the Go routes follow the same specification as send and so agree with it.
func judgeRoutes(res *engine.Result, fail func(sig, detail string), sh string, o sendObs, expTrace []string, expRet, suffix, where string, normRet func(string) string) {
	for _, r := range []struct {
		name string
		o    *sendObs
	}{{"receive", o.recv}, {"bound-receive", o.bound}, {"send-if-handles", o.sendIf}} {
		if r.o == nil {
			continue
		}
		res.Hit("go-route-" + r.name)
		ro := *r.o
		if normRet != nil {
			ro.ret = normRet(ro.ret)
		}
		judgeSend(fail, sh, ro, expTrace, expRet, suffix+" route="+r.name, where+" delivered from Go by "+r.name, "")
	}
}

func (o sendObs) key() string {
	return strings.Join(o.trace, " ") + " => " + o.ret + " !" + o.err + " prec=" + o.prec
}

type history struct {
	order  []form
	defErr string    // first error while defining ("" if none)
	obs    []sendObs // per flavor
}

func runMethodHistory(comps [][]int, ms []meth, order []form) (h history) {
	n := len(comps)
	names := freshNames(n)
	defer cleanup(names)
	h.order = order
	for _, fm := range order {
		var src, what string
		if fm.isMeth {
			src = methSrc(names, ms[fm.idx])
			what = "defmethod"
			if ms[fm.idx].kind == 'w' || ms[fm.idx].kind == 'v' {
				what = "defwhopper"
			}
		} else {
			src = flavorSrc(names, comps, fm.idx, fopt{})
			what = "defflavor"
		}
		if _, err := lisp.Eval(src); err != nil && h.defErr == "" {
			h.defErr = what + ": " + rename(err.String(), names)
			if err.GoFault {
				h.defErr = "go-fault in " + h.defErr
			}
		}
	}
	h.obs = make([]sendObs, n)
	for f := 0; f < n; f++ {
		var o sendObs
		scope := slip.NewScope()
		inst, err := lisp.EvalIn(scope, "(make-instance '"+names[f]+")")
		if err != nil {
			o.err = "make-instance: " + rename(err.String(), names)
			h.obs[f] = o
			continue
		}
		o.prec = hierarchyOf(inst, names)
		scope.Let(slip.Symbol("inst"), inst)
		lisp.ResetTrace()
		val, err := lisp.EvalIn(scope, "(send inst "+curMsg+")")
		o.trace = lisp.Trace()
		if err != nil {
			o.err = err.Class
			if err.GoFault {
				o.err = "go-fault " + err.String()
			}
		} else {
			o.ret = lisp.Show(val)
			if curMsg != ":m" && !(strings.HasPrefix(o.ret, "r") && len(o.ret) == 2) {
				o.ret = "<value-of-the-vanilla-method>" // an instance id: differs from instance to instance
			}
		}
		o.combos = combosOf(names[f], names)
		o.recv, o.bound, o.sendIf = goRoutes(inst, curMsg)
		h.obs[f] = o
	}
	return
}

func project(trace []string, kind byte) []string {
	var out []string
	for _, t := range trace {
		if t[0] == kind {
			out = append(out, t)
		}
	}
	return out
}

// diffKind classifies how an observed daemon sequence differs from the
// expected one: lost-or-dup (a daemon did not run or ran more often than
// required), misordered (same daemons, other order).
func diffKind(exp, got []string) string {
	if strings.Join(exp, " ") == strings.Join(got, " ") {
		return ""
	}
	ce, cg := map[string]int{}, map[string]int{}
	for _, t := range exp {
		ce[t]++
	}
	for _, t := range got {
		cg[t]++
	}
	for t, n := range ce {
		if cg[t] != n {
			return "lost-or-dup"
		}
	}
	for t, n := range cg {
		if ce[t] != n {
			return "lost-or-dup"
		}
	}
	return "misordered"
}

var daemonNames = map[byte]string{'w': "whopper", 'b': "before", 'p': "primary", 'a': "after", 'v': "whopper-continuing-twice"}

var judgedKinds = []byte{'w', 'v', 'b', 'p', 'a'}

func execMethods(spec string, parts []string) (res engine.Result) {
	curMsg = ":m"
	if len(parts) == 5 && parts[4] == "id" {
		curMsg = ":id"
		defer func() { curMsg = ":m" }()
		res.Hit("message-vanilla-flavor-handles")
	} else if len(parts) != 4 {
		res.Fail("harness:bad-spec", spec)
		return
	}
	comps := parseDag(parts[1])
	ms := parseMeths(parts[2])
	mode := parts[3]
	n := len(comps)

	var hs []history
	genOrders(comps, ms, mode, func(order []form) {
		hs = append(hs, runMethodHistory(comps, ms, order))
	})
	if res.Counters == nil {
		res.Counters = map[string]int{}
	}
	res.Counters["histories"] += len(hs)
	if 1 < len(hs) {
		res.Hit("multi-order-case")
	}
	inherits := false
	reported := map[string]bool{}
	fail := func(sig, detail string) {
		if curMsg != ":m" {
			sig += " msg=handled-by-vanilla"
		}
		if !reported[sig] {
			reported[sig] = true
			res.Fail(sig, detail)
		}
	}
	for _, h := range hs {
		if h.defErr != "" {
			what := strings.SplitN(h.defErr, ":", 2)[0]
			fail("define form="+strings.ReplaceAll(what, " ", "-")+" kind=error",
				fmt.Sprintf("%s order [%s]: %s", spec, orderString(h.order, ms), h.defErr))
		}
	}
	var outcome []string
	for f := 0; f < n; f++ {
		sh := shape(comps, f)
		prec := realRef.precedence(comps, f)
		var precS []string
		for _, g := range prec {
			precS = append(precS, strconv.Itoa(g))
		}
		expTrace, expRet, handled := realRef.expectSend(comps, ms, f)
		expTable := expectTable(prec, ms)
		// vacuity counters
		if handled {
			res.Hit(sh + "-instance")
			nw, nb, na, np := 0, 0, 0, 0
			vAbove := false
			for _, g := range prec {
				if hasMeth(ms, g, 'w') || hasMeth(ms, g, 'v') {
					nw++
				}
				if (hasMeth(ms, g, 'w') || hasMeth(ms, g, 'v')) && vAbove {
					res.Hit("whopper-below-a-whopper-continuing-twice")
				}
				if hasMeth(ms, g, 'v') {
					vAbove = true
					res.Hit("whopper-continuing-twice")
					if 1 < nw {
						res.Hit("whopper-continuing-twice-below-a-whopper")
					}
				}
				if hasMeth(ms, g, 'b') {
					nb++
				}
				if hasMeth(ms, g, 'a') {
					na++
				}
				if hasMeth(ms, g, 'p') {
					np++
				}
				if g != f && (hasMeth(ms, g, 'w') || hasMeth(ms, g, 'v') || hasMeth(ms, g, 'b') || hasMeth(ms, g, 'a') || hasMeth(ms, g, 'p')) {
					inherits = true
				}
			}
			if 1 < nw {
				res.Hit("nested-whoppers")
			}
			if 1 < nb {
				res.Hit("multi-before")
			}
			if 1 < na {
				res.Hit("multi-after")
			}
			if 1 < np {
				res.Hit("shadowed-primary")
			}
		}
		// do the orders agree with each other? (model-free)
		classes := map[string]int{}
		var firstKey string
		for i, h := range hs {
			k := h.obs[f].key()
			if i == 0 {
				firstKey = k
			}
			classes[k]++
		}
		hist := "all-orders"
		if 1 < len(classes) {
			hist = "order-dependent"
		}
		outcome = append(outcome, fmt.Sprintf("f%d{%s}x%d", f, firstKey, len(classes)))
		if 1 < len(classes) {
			// name what differs, against the first (textual) order
			what := map[string]bool{}
			var example string
			for _, h := range hs[1:] {
				a, b := hs[0].obs[f], h.obs[f]
				if a.key() == b.key() {
					continue
				}
				if strings.Join(a.trace, " ") != strings.Join(b.trace, " ") {
					what["trace"] = true
				}
				if a.ret != b.ret {
					what["return"] = true
				}
				if a.err != b.err {
					what["error"] = true
				}
				if a.prec != b.prec {
					what["precedence"] = true
				}
				if example == "" {
					example = fmt.Sprintf("order [%s] observes {%s} tables %s, order [%s] observes {%s} tables %s",
						orderString(hs[0].order, ms), a.key(), a.combos, orderString(h.order, ms), b.key(), b.combos)
				}
			}
			var ws []string
			for w := range what {
				ws = append(ws, w)
			}
			sort.Strings(ws)
			fail(fmt.Sprintf("differential shape=%s differs=%s", sh, strings.Join(ws, "+")),
				fmt.Sprintf("%s: instance of f%d: %d definition orders give %d different observations; %s", spec, f, len(hs), len(classes), example))
		}
		// reference model, order by order
		for _, h := range hs {
			o := h.obs[f]
			timing := "early"
			if isLate(comps, ms, h.order, f) {
				timing = "late"
				res.Hit("late-inherited-method")
			}
			where := fmt.Sprintf("%s: instance of f%d (precedence %s), order [%s]", spec, f, strings.Join(precS, " "), orderString(h.order, ms))
			if strings.HasPrefix(o.err, "make-instance") {
				fail(fmt.Sprintf("make-instance shape=%s kind=error hist=%s", sh, hist), where+": "+o.err)
				continue
			}
			if o.prec != strings.Join(precS, " ") {
				fail(fmt.Sprintf("precedence shape=%s kind=wrong-order hist=%s", sh, hist),
					fmt.Sprintf("%s: class precedence is [%s], required [%s]", where, o.prec, strings.Join(precS, " ")))
			}
			if !handled {
				continue // nothing handles :m; what happens then is not constrained
			}
			table := "ok"
			if o.combos != expTable {
				table = "wrong"
			}
			suffix := fmt.Sprintf("table=%s timing=%s", table, timing)
			tail := fmt.Sprintf(": trace [%s] => %s %s; required [%s] => %s; method table %s, a correct table is %s", strings.Join(o.trace, " "), o.ret, o.err,
				strings.Join(expTrace, " "), expRet, o.combos, expTable)
			if strings.HasPrefix(o.err, "go-fault") {
				fail(fmt.Sprintf("send shape=%s kind=go-fault %s", sh, suffix), where+tail)
				continue
			}
			anyDiff := false
			for _, kind := range judgedKinds {
				if dk := diffKind(project(expTrace, kind), project(o.trace, kind)); dk != "" {
					anyDiff = true
					fail(fmt.Sprintf("send shape=%s daemon=%s kind=%s %s", sh, daemonNames[kind], dk, suffix), where+tail)
				}
			}
			if !anyDiff && strings.Join(expTrace, " ") != strings.Join(o.trace, " ") {
				fail(fmt.Sprintf("send shape=%s daemon=phases kind=misordered %s", sh, suffix), where+tail)
			}
			if o.err != "" {
				fail(fmt.Sprintf("send shape=%s kind=error %s", sh, suffix), where+tail)
			} else if expRet != "" && o.ret != expRet && !anyDiff {
				// with the right daemons run, the value of the send is the first primary's value
				fail(fmt.Sprintf("send shape=%s kind=wrong-return %s", sh, suffix), where+tail)
			}
			judgeRoutes(&res, fail, sh, o, expTrace, expRet, suffix, where, func(r string) string {
				if curMsg != ":m" && !(strings.HasPrefix(r, "r") && len(r) == 2) {
					return "<value-of-the-vanilla-method>"
				}
				return r
			})
		}
	}
	res.Nontrivial = inherits && 1 < len(hs)
	res.Outcome = strings.Join(outcome, ";")
	return
}

// ---------------------------------------------------------- variable family

type varObs struct {
	x0, y0      string // default values read through the Go API ("unset" when the slot does not exist)
	getx        string // (send inst :x)
	setx        string // x after (send inst :set-x 77)
	kw          string // (make-instance 'f :k 5): "ok" or error class
	kdef        string // the default value of keyword :k as describe-flavor shows it ("-" when it shows no :k)
	initx       string // x after (make-instance 'f :x 99), or error
	inity       string
	prec        string
	instanceErr string
}

func (o varObs) key() string {
	return fmt.Sprintf("x0=%s y0=%s getx=%s setx=%s kw=%s kdef=%s initx=%s inity=%s prec=%s err=%s", o.x0, o.y0, o.getx, o.setx, o.kw, o.kdef, o.initx, o.inity, o.prec, o.instanceErr)
}

func slotOf(inst slip.Object, name string) string {
	if si, ok := inst.(slip.Instance); ok {
		if v, has := si.SlotValue(slip.Symbol(name)); has {
			return lisp.Show(v)
		}
	}
	return "unset"
}

// demandKind names how a demanded probe went wrong.
func demandKind(val string) string {
	switch {
	case strings.HasPrefix(val, "go-fault"):
		return "go-fault"
	case strings.HasPrefix(val, "error"):
		return "not-inherited"
	}
	return "wrong-value"
}

func errText(err *lisp.Err) string {
	if err.GoFault {
		return "go-fault:" + err.Message
	}
	return "error:" + err.Class
}

type varHistory struct {
	order   []int
	defErr  string
	obs     []varObs
	hot     bool
	changed []string // [flavor] how its answers changed while flavors were built on it ("" = not)
	oldGetx []string // [flavor] what the instance made right after the defflavor answers to :x at the end
}

// probeVars makes an instance of one flavor and uses its variable, accessors and init keywords.
func probeVars(names []string, f int) (o varObs, scope *slip.Scope) {
	scope = slip.NewScope()
	inst, err := lisp.EvalIn(scope, "(make-instance '"+names[f]+")")
	if err != nil {
		o.instanceErr = rename(err.String(), names)
		return o, nil
	}
	o.prec = hierarchyOf(inst, names)
	o.x0, o.y0 = slotOf(inst, "x"), slotOf(inst, "y")
	scope.Let(slip.Symbol("inst"), inst)
	if v, err := lisp.EvalIn(scope, "(send inst :x)"); err != nil {
		o.getx = errText(err)
	} else {
		o.getx = lisp.Show(v)
	}
	if _, err := lisp.EvalIn(scope, "(send inst :set-x 77)"); err != nil {
		o.setx = errText(err)
	} else {
		o.setx = slotOf(inst, "x")
	}
	if _, err := lisp.Eval("(make-instance '" + names[f] + " :k 5)"); err != nil {
		o.kw = errText(err)
	} else {
		o.kw = "ok"
	}
	o.kdef = keywordDefaultOf(names[f])
	if v, err := lisp.Eval("(make-instance '" + names[f] + " :x 99)"); err != nil {
		o.initx = errText(err)
	} else {
		o.initx = slotOf(v, "x")
	}
	if v, err := lisp.Eval("(make-instance '" + names[f] + " :y 98)"); err != nil {
		o.inity = errText(err)
	} else {
		o.inity = slotOf(v, "y")
	}
	return
}

// runVarHistory: hot = every flavor that exists is probed after EVERY defflavor form (not only at the end); what a
// flavor answers may not change when flavors are built on it, and the instance made first answers at the end like a
// new one.
func runVarHistory(comps [][]int, opts []fopt, ds []int, hot bool) (h varHistory) {
	n := len(comps)
	names := freshNames(n)
	defer cleanup(names)
	h.order = ds
	h.hot = hot
	h.changed = make([]string, n)
	h.oldGetx = make([]string, n)
	first := make([]*varObs, n)
	olds := make([]*slip.Scope, n)
	defined := make([]bool, n)
	for i, d := range ds {
		if _, err := lisp.Eval(flavorSrc(names, comps, d, opts[d])); err != nil && h.defErr == "" {
			h.defErr = "defflavor: " + rename(err.String(), names)
			if err.GoFault {
				h.defErr = "go-fault in " + h.defErr
			}
		}
		defined[d] = true
		if !hot || i == len(ds)-1 {
			continue
		}
		for f := 0; f < n; f++ {
			if !defined[f] {
				continue
			}
			o, scope := probeVars(names, f)
			if first[f] == nil {
				first[f], olds[f] = &o, scope
			} else if o.key() != first[f].key() && h.changed[f] == "" {
				h.changed[f] = fmt.Sprintf("after its defflavor {%s}, after the defflavor of f%d {%s}", first[f].key(), d, o.key())
			}
		}
	}
	h.obs = make([]varObs, n)
	for f := 0; f < n; f++ {
		h.obs[f], _ = probeVars(names, f)
		if first[f] != nil && h.changed[f] == "" && first[f].key() != h.obs[f].key() {
			h.changed[f] = fmt.Sprintf("after its defflavor {%s}, at the end {%s}", first[f].key(), h.obs[f].key())
		}
		if olds[f] != nil {
			// the old instance: x was set to 77 when its flavor allowed that
			want := slotOf(olds[f].Get(slip.Symbol("inst")), "x")
			if v, err := lisp.EvalIn(olds[f], "(send inst :x)"); err != nil {
				h.oldGetx[f] = errText(err)
			} else if lisp.Show(v) != want {
				h.oldGetx[f] = "answers " + lisp.Show(v) + ", x holds " + want
			} else {
				h.oldGetx[f] = "ok"
			}
		}
	}
	return
}

// keywordDefaultOf reads the default value of keyword :k from the text describe-flavor prints ("Keywords with default
// values:" section), "-" when :k is not listed.
func keywordDefaultOf(name string) string {
	f := flavors.Find(name)
	if f == nil {
		return "?"
	}
	text := string(f.Describe(nil, 0, 200, false))
	i := strings.Index(text, "Keywords with default values:")
	if i < 0 {
		return "-"
	}
	for _, line := range strings.Split(text[i:], "\n")[1:] {
		t := strings.TrimSpace(line)
		if strings.HasPrefix(t, ":k = ") {
			return strings.TrimPrefix(t, ":k = ")
		}
		if !strings.HasPrefix(t, ":") {
			break
		}
	}
	return "-"
}

func execVars(spec string, parts []string) (res engine.Result) {
	if len(parts) != 3 && !(len(parts) == 4 && parts[3] == "hot") {
		res.Fail("harness:bad-spec", spec)
		return
	}
	hot := len(parts) == 4
	comps := parseDag(parts[1])
	n := len(comps)
	toks := strings.Split(parts[2], ",")
	if len(toks) != n {
		res.Fail("harness:bad-spec", spec)
		return
	}
	opts := make([]fopt, n)
	for i, t := range toks {
		o, ok := optTokens[t]
		if !ok {
			res.Fail("harness:bad-spec", spec)
			return
		}
		opts[i] = o
	}
	var hs []varHistory
	genFlavorOrders(comps, func(ds []int) {
		hs = append(hs, runVarHistory(comps, opts, ds, false))
		if hot && 1 < len(ds) {
			hs = append(hs, runVarHistory(comps, opts, ds, true))
			res.Hit("warm-variable-histories")
		}
	})
	if res.Counters == nil {
		res.Counters = map[string]int{}
	}
	res.Counters["histories"] += len(hs)
	reported := map[string]bool{}
	fail := func(sig, detail string) {
		if !reported[sig] {
			reported[sig] = true
			res.Fail(sig, detail)
		}
	}
	ordS := func(ds []int) string {
		var s []string
		for _, d := range ds {
			s = append(s, "D"+strconv.Itoa(d))
		}
		return strings.Join(s, " ")
	}
	var outcome []string
	for _, h := range hs {
		if h.defErr != "" {
			fail("define form=defflavor kind=error", fmt.Sprintf("%s order [%s]: %s", spec, ordS(h.order), h.defErr))
		}
	}
	for f := 0; f < n; f++ {
		sh := shape(comps, f)
		e := realRef.expectVars(comps, opts, f)
		prec := realRef.precedence(comps, f)
		var precS []string
		for _, g := range prec {
			precS = append(precS, strconv.Itoa(g))
		}
		if e.xInherited {
			res.Hit("inherited-default")
			res.Nontrivial = true
		}
		if e.xShadowed {
			res.Hit("shadowed-default")
			res.Nontrivial = true
		}
		if e.accInherited {
			res.Hit("inherited-accessor")
			res.Nontrivial = true
		}
		if e.kInherited {
			res.Hit("inherited-keyword")
			res.Nontrivial = true
		}
		inhInit := false
		if (e.xInittable && !(opts[f].x && opts[f].i)) || (e.yInittable && !opts[f].y) {
			inhInit = true
			res.Hit("inherited-inittable")
			res.Nontrivial = true
		}
		_ = inhInit
		classes := map[string]int{}
		for _, h := range hs {
			classes[h.obs[f].key()]++
		}
		hist := "all-orders"
		if 1 < len(classes) {
			hist = "order-dependent"
			fail(fmt.Sprintf("differential-vars shape=%s", sh),
				fmt.Sprintf("%s: instance of f%d: %d defflavor orders give %d different observations, e.g. {%s} vs {%s}", spec, f, len(hs), len(classes),
					hs[0].obs[f].key(), func() string {
						for _, h := range hs[1:] {
							if h.obs[f].key() != hs[0].obs[f].key() {
								return "[" + ordS(h.order) + "] " + h.obs[f].key()
							}
						}
						return ""
					}()))
		}
		outcome = append(outcome, fmt.Sprintf("f%d{%s}x%d", f, hs[0].obs[f].key(), len(classes)))
		for _, h := range hs {
			o := h.obs[f]
			where := fmt.Sprintf("%s: instance of f%d (precedence %s), order [%s]", spec, f, strings.Join(precS, " "), ordS(h.order))
			sig := func(aspect, kind string) string {
				return fmt.Sprintf("vars shape=%s aspect=%s kind=%s hist=%s", sh, aspect, kind, hist)
			}
			if o.instanceErr != "" {
				fail(sig("make-instance", "error"), where+": "+o.instanceErr)
				continue
			}
			if o.prec != strings.Join(precS, " ") {
				fail(fmt.Sprintf("precedence shape=%s kind=wrong-order hist=%s", sh, hist),
					fmt.Sprintf("%s: class precedence is [%s], required [%s]", where, o.prec, strings.Join(precS, " ")))
			}
			if e.xDefault != nil && o.x0 != strconv.Itoa(*e.xDefault) {
				fail(sig("default", "wrong-value"), fmt.Sprintf("%s: x is %s after make-instance, required %d (default of the first flavor in precedence that declares x)", where, o.x0, *e.xDefault))
			}
			if e.yDefault != nil && o.y0 != strconv.Itoa(*e.yDefault) {
				fail(sig("default-y", "wrong-value"), fmt.Sprintf("%s: y is %s after make-instance, required %d", where, o.y0, *e.yDefault))
			}
			if h.hot {
				if h.changed[f] != "" {
					fail(fmt.Sprintf("vars-warm shape=%s kind=answers-change-when-flavors-are-built-on-it", sh), where+": "+h.changed[f])
				}
				if e.xGettable && (e.xDefault != nil || e.xNil) && h.oldGetx[f] != "" && h.oldGetx[f] != "ok" {
					fail(fmt.Sprintf("vars-warm shape=%s kind=old-instance-getter", sh), where+": the instance made right after the defflavor: (send inst :x) "+h.oldGetx[f])
				}
			}
			if e.xNilShadows {
				res.Hit("nil-default-before-a-later-default")
			}
			if e.kNilShadows {
				res.Hit("nil-keyword-default-before-a-later-default")
			}
			if e.xNil && o.x0 != "nil" {
				fail(sig("default", "wrong-value"), fmt.Sprintf("%s: x is %s after make-instance, required nil (the first flavor in precedence that declares x declares (x nil))", where, o.x0))
			}
			if e.kDefault != nil && o.kdef != *e.kDefault {
				fail(sig("init-keyword-default", "wrong-value"), fmt.Sprintf("%s: describe-flavor shows :k = %s, required %s (:default-init-plist of the first flavor in precedence that declares :k)", where, o.kdef, *e.kDefault))
			}
			if e.xGettable && (e.xDefault != nil || e.xNil) && o.getx != o.x0 {
				kind := demandKind(o.getx)
				fail(sig("getter", kind), fmt.Sprintf("%s: (send inst :x) gives %s, x holds %s; a flavor in precedence declares :gettable-instance-variables", where, o.getx, o.x0))
			}
			if e.xSettable && (e.xDefault != nil || e.xNil || e.xPlain) && o.setx != "77" {
				kind := demandKind(o.setx)
				fail(sig("setter", kind), fmt.Sprintf("%s: after (send inst :set-x 77) x is %s; a flavor in precedence declares :settable-instance-variables", where, o.setx))
			}
			if e.kAccepted && o.kw != "ok" {
				fail(sig("init-keyword", demandKind(o.kw)), fmt.Sprintf("%s: (make-instance 'f%d :k 5) gives %s; a flavor in precedence declares (:init-keywords :k)", where, f, o.kw))
			}
			if e.xInittable && o.initx != "99" {
				kind := demandKind(o.initx)
				fail(sig("inittable-x", kind), fmt.Sprintf("%s: (make-instance 'f%d :x 99) gives x=%s; a flavor in precedence declares x inittable", where, f, o.initx))
			}
			if e.yInittable && o.inity != "98" {
				kind := demandKind(o.inity)
				fail(sig("inittable-y", kind), fmt.Sprintf("%s: (make-instance 'f%d :y 98) gives y=%s; a flavor in precedence declares (:inittable-instance-variables y)", where, f, o.inity))
			}
			// init keywords are inherited (model-free): a keyword that make-instance accepts for a component, and that
			// sets the variable there, is accepted for every flavor built on that component and sets the variable too -
			// whatever rule made it acceptable for the component (a declaration, or slip's "no declaration: every own variable")
			for _, g := range prec {
				if g == f {
					continue
				}
				og := h.obs[g]
				if og.instanceErr != "" {
					continue
				}
				if og.initx == "99" && o.initx != "99" && !e.xInittable {
					res.Hit("keyword-of-a-component-without-declaration")
					fail(sig("inherited-init-keyword-x", demandKind(o.initx)), fmt.Sprintf("%s: (make-instance 'f%d :x 99) sets x, (make-instance 'f%d :x 99) gives x=%s although f%d is a component", where, g, f, o.initx, g))
				}
				if og.inity == "98" && o.inity != "98" && !e.yInittable {
					res.Hit("keyword-of-a-component-without-declaration")
					fail(sig("inherited-init-keyword-y", demandKind(o.inity)), fmt.Sprintf("%s: (make-instance 'f%d :y 98) sets y, (make-instance 'f%d :y 98) gives y=%s although f%d is a component", where, g, f, o.inity, g))
				}
				if og.initx == "99" || og.inity == "98" {
					res.Hit("keyword-accepted-by-a-component")
				}
			}
		}
	}
	res.Outcome = strings.Join(outcome, ";")
	return
}

func exec(spec string) (res engine.Result) {
	parts := strings.Split(spec, "|")
	defer func() {
		if rec := recover(); rec != nil {
			res.Fail("harness:exec-panic", fmt.Sprintf("%s: %v", spec, rec))
		}
	}()
	switch parts[0] {
	case "m":
		return execMethods(spec, parts)
	case "v":
		return execVars(spec, parts)
	case "acc":
		return execAccessors(spec, parts)
	case "nilinit":
		return execNilinit(spec, parts)
	case "w":
		return execWarm(spec, parts)
	case "g":
		return execRegen(spec, parts)
	case "unh":
		return execUnhandled(spec, parts)
	}
	res.Fail("harness:bad-spec", spec)
	return
}

// ------------------------------------------------------------------ selftest

func selftest(tier string) (killed, total int, notes []string) {
	type mcase struct {
		comps [][]int
		ms    []meth
		mode  string
	}
	type vcase struct {
		comps [][]int
		opts  []fopt
	}
	var mcases []mcase
	var vcases []vcase
	enumerate(tier, func(spec string) {
		parts := strings.Split(spec, "|")
		switch parts[0] {
		case "m":
			mcases = append(mcases, mcase{parseDag(parts[1]), parseMeths(parts[2]), parts[3]})
		case "v":
			comps := parseDag(parts[1])
			var opts []fopt
			for _, t := range strings.Split(parts[2], ",") {
				opts = append(opts, optTokens[t])
			}
			vcases = append(vcases, vcase{comps, opts})
		}
	})
	for _, mut := range refMutants {
		total++
		found := ""
	search:
		for _, c := range mcases {
			for f := range c.comps {
				et, er, eh := realRef.expectSend(c.comps, c.ms, f)
				mt, mr, mh := mut.expectSend(c.comps, c.ms, f)
				if eh != mh || er != mr || strings.Join(et, " ") != strings.Join(mt, " ") {
					found = fmt.Sprintf("m|%s|%s f%d: [%s] vs [%s]", dagString(c.comps), methString(c.ms), f, strings.Join(et, " "), strings.Join(mt, " "))
					break search
				}
			}
		}
		if found == "" {
			for _, c := range vcases {
				for f := range c.comps {
					a, b := realRef.expectVars(c.comps, c.opts, f), mut.expectVars(c.comps, c.opts, f)
					if a.xDefault != nil && b.xDefault != nil && *a.xDefault != *b.xDefault {
						found = fmt.Sprintf("v|%s f%d: x default %d vs %d", dagString(c.comps), f, *a.xDefault, *b.xDefault)
						break
					}
					if a.xNil && b.xDefault != nil {
						found = fmt.Sprintf("v|%s f%d: x default nil vs %d", dagString(c.comps), f, *b.xDefault)
						break
					}
					if a.kDefault != nil && b.kDefault != nil && *a.kDefault != *b.kDefault {
						found = fmt.Sprintf("v|%s f%d: :k default %s vs %s", dagString(c.comps), f, *a.kDefault, *b.kDefault)
						break
					}
				}
				if found != "" {
					break
				}
			}
		}
		if found != "" {
			killed++
			notes = append(notes, mut.name+": distinguished by "+found)
		} else {
			notes = append(notes, mut.name+": NOT distinguished")
		}
	}
	// history-dependent implementation models: the enumerated orders must expose them
	for _, sv := range simMutants {
		total++
		found := ""
		for _, c := range mcases {
			if found != "" {
				break
			}
			twice := false
			for _, m := range c.ms {
				twice = twice || m.kind == 'v'
			}
			if twice {
				continue // the table simulations know one kind of whopper
			}
			genOrders(c.comps, c.ms, c.mode, func(order []form) {
				if found != "" {
					return
				}
				lists := sv.simulate(c.comps, c.ms, order)
				for f := range c.comps {
					et, _, _ := realRef.expectSend(c.comps, c.ms, f)
					st := traceFromList(lists[f], c.ms)
					if strings.Join(et, " ") != strings.Join(st, " ") {
						found = fmt.Sprintf("m|%s|%s order [%s] f%d: [%s] vs [%s]", dagString(c.comps), methString(c.ms), orderString(order, c.ms), f,
							strings.Join(et, " "), strings.Join(st, " "))
						return
					}
				}
			})
		}
		if found != "" {
			killed++
			notes = append(notes, sv.name+": distinguished by "+found)
		} else {
			notes = append(notes, sv.name+": NOT distinguished")
		}
	}
	wk, wt, wn := selftestWarm(tier)
	killed, total, notes = killed+wk, total+wt, append(notes, wn...)
	return
}
