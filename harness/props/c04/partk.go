package c04

import (
	"fmt"
	"regexp"
	"strconv"
	"strings"

	"verif/engine"
	"verif/lisp"
)

// Part B, keywords (sixth round). For every built-in whose documented lambda list has &key parameters:
//
//	one   : the required and optional arguments followed by ONE documented keyword and a value of its documented type,
//	        for every documented keyword - the call may fail for many reasons, but not because the function does not
//	        know the keyword it documents, and not for its argument count;
//	odd   : the same positional arguments followed by a documented keyword WITHOUT a value;
//	undoc : ... followed by the pair :c04-undocumented 7.
//
// odd / undoc: an error is fine, and so is ignoring the tail - the value must then be the one of the call without the
// tail (differential: the call without the tail is made twice first; if those two do not agree the case is only counted).

func enumerateK(tier string, emit func(string)) {
	for _, fn := range allFuncs() {
		id := fn.pkg + ":" + fn.name
		if neverCall(id, fn.name) {
			continue
		}
		if _, noIn := skipInRange[id]; noIn {
			continue
		}
		r := parseDoc(fn.fi.Doc, rmNone)
		if r.vague || len(r.keys) == 0 {
			continue
		}
		for j := range r.keys {
			emit("K|" + fn.pkg + "|" + fn.name + "|one|" + strconv.Itoa(j))
		}
		if r.rest {
			continue // with &rest the tail legitimately belongs to the rest list
		}
		for j := range r.keys {
			emit("K|" + fn.pkg + "|" + fn.name + "|odd|" + strconv.Itoa(j))
		}
		if !r.allowOther {
			emit("K|" + fn.pkg + "|" + fn.name + "|undoc|0")
		}
	}
}

const undocumentedKey = "c04-undocumented"

var unknownKeywordRe = regexp.MustCompile(`(?i)(unknown|invalid|unexpected|unrecognized|unsupported|illegal|bad|not a valid|not a known) +(keyword|key)\b`)

// keywordRejected: the error says that the keyword itself is not acceptable: slip's type-error text ends in
// "... not :kw, a symbol." when the datum is the keyword.
func keywordRejected(err *lisp.Err, kw string) bool {
	msg := strings.ToLower(err.Message)
	k := ":" + strings.ToLower(kw)
	if strings.Contains(msg, "not "+k+", a symbol") {
		return true
	}
	return unknownKeywordRe.MatchString(msg) && strings.Contains(msg, k)
}

func execK(spec string) (res engine.Result) {
	f := strings.Split(spec, "|")
	if len(f) != 5 {
		res.Fail("harness:bad-spec", spec)
		return
	}
	fn := findFunc(f[1], f[2])
	if fn == nil {
		res.Fail("harness:unknown-function", spec)
		return
	}
	kind := f[3]
	j, _ := strconv.Atoi(f[4])
	id := fn.pkg + ":" + fn.name
	_, inert := skipInRange[id]
	if neverCall(id, fn.name) || inert {
		res.Outcome = "skipped"
		return
	}
	r := parseDoc(fn.fi.Doc, rmNone)
	if len(r.keys) <= j {
		res.Fail("harness:bad-spec", spec)
		return
	}
	scope, vc, cleanup := setupB()
	defer cleanup()
	vc.listLen = 3
	skip := skipper(fn.fi)
	kw := strings.TrimPrefix(r.keys[j].Name, ":")
	build := func(tail string) string {
		var args []string
		for i, p := range r.pos {
			args = append(args, valueFor(p.Type, !skip(i), vc))
		}
		switch tail {
		case "one":
			args = append(args, ":"+kw, valueFor(r.keys[j].Type, !skip(len(r.pos)+1), vc))
		case "odd":
			args = append(args, ":"+kw)
		case "undoc":
			args = append(args, ":"+undocumentedKey, "7")
		}
		sep := ":"
		if !fn.fi.Export {
			sep = "::"
		}
		src := "(" + fn.pkg + sep + fn.name
		if 0 < len(args) {
			src += " " + strings.Join(args, " ")
		}
		return src + ")"
	}
	show := func(v any, err *lisp.Err) string {
		if err != nil {
			return "error " + err.String()
		}
		return "value " + v.(string)
	}
	run := func(src string) (string, *lisp.Err) {
		resetPlace(scope)
		val, err := lisp.EvalIn(scope, src)
		if err != nil {
			return "", err
		}
		s := lisp.Show(val)
		if 200 < len(s) {
			s = s[:200] + "..."
		}
		return s, nil
	}
	doc := docText(fn.fi.Doc)
	res.Nontrivial = true
	switch kind {
	case "one":
		src := build("one")
		val, err := run(src)
		res.Hit("K:documented-keyword-call")
		switch {
		case err == nil:
			res.Outcome = "value"
			res.Hit("K:documented-keyword-accepted")
		case err.GoFault:
			res.Outcome = "go-fault"
			res.Hit("K:documented-keyword-inconclusive")
		case keywordRejected(err, kw):
			res.Outcome = "keyword-rejected"
			res.Fail(fmt.Sprintf("K fn=%s key=:%s kind=documented-keyword-rejected", id, kw),
				fmt.Sprintf("%s => %s; the documented lambda list %s has the keyword :%s", src, show(val, err), doc, kw))
		case arityRe.MatchString(err.Message) && strings.Contains(strings.ToLower(err.Message), strings.ToLower(fn.name)):
			res.Outcome = "arity-error"
			// blamed on the call only if it persists whatever the length of the list-valued arguments is
			persists := true
			for _, l := range []int{2, 1} {
				vc.listLen = l
				alt := build("one")
				if alt == src {
					continue
				}
				if _, aerr := run(alt); aerr == nil || !arityRe.MatchString(aerr.Message) {
					persists = false
				}
			}
			if persists {
				res.Fail(fmt.Sprintf("K fn=%s key=:%s kind=documented-keyword-call-rejected-for-its-argument-count", id, kw),
					fmt.Sprintf("%s => %s; the documented lambda list %s allows the keyword :%s after %d positional argument(s)", src, show(val, err), doc, kw, len(r.pos)))
			}
		default:
			res.Outcome = "error:" + err.Class
			res.Hit("K:documented-keyword-inconclusive")
		}
		if debugB {
			res.Outcome += " <= " + src + " => " + show(val, err)
		}
	case "odd", "undoc":
		base := build("")
		b1, e1 := run(base)
		b2, e2 := run(base)
		src := build(kind)
		val, err := run(src)
		res.Hit("K:" + kind + "-tail-call")
		what := "a documented keyword without a value"
		sig := fmt.Sprintf("K fn=%s key=:%s kind=odd-keyword-tail-changes-the-result", id, kw)
		if kind == "undoc" {
			what = "an undocumented keyword and a value"
			sig = fmt.Sprintf("K fn=%s kind=undocumented-keyword-changes-the-result", id)
		}
		switch {
		case err != nil && err.GoFault && !(e1 != nil && e1.GoFault):
			res.Outcome = "go-fault"
			res.Fail(strings.Replace(sig, "changes-the-result", "go-fault", 1), fmt.Sprintf("%s => %s (%s => %s)", src, show(val, err), base, show(b1, e1)))
		case err != nil:
			res.Outcome = "rejected"
			res.Hit("K:" + kind + "-tail-rejected")
		case e1 != nil || e2 != nil || b1 != b2:
			res.Outcome = "not-comparable"
			res.Hit("K:" + kind + "-tail-not-comparable")
		case val == b1:
			res.Outcome = "ignored"
			res.Hit("K:" + kind + "-tail-ignored")
		default:
			res.Outcome = "changed"
			res.Fail(sig, fmt.Sprintf("%s => %s, but %s => %s: %s after the positional arguments is neither rejected nor ignored (documented lambda list %s)",
				src, show(val, err), base, show(b1, e1), what, doc))
		}
		if debugB {
			res.Outcome += " <= " + src + " => " + show(val, err) + " ; base " + show(b1, e1)
		}
	default:
		res.Fail("harness:bad-spec", spec)
	}
	return
}
