//go:build verif

package c16

import (
	"math"
	"math/big"
	"strings"
	"sync"

	"github.com/ohler55/slip"

	"verif/lisp"
)

// elem is one object of the generated universe. The object is built afresh
// (ReadString+Eval of src in a fresh scope) every time a case needs it, so
// two elements with the same src are two separately built objects.
type elem struct {
	name  string // unique, used in specs
	src   string // Lisp source building the object
	quick bool   // member of the quick-tier relation universe (every element is in the thorough one and in the type universe)
	m     *mv    // model value for the oracle-sensitivity self-test (nil: not part of the self-test universe)
	norel bool   // member of the type / coerce universe only (takes no part in the pair / triple relations of either tier)
}

// mv is a model value: the reference semantics of the four predicates and
// sxhash are defined on it in selftest.go.
type mv struct {
	k    string   // int ratio float complex str sym char nil t list vec table inst fn
	r    *big.Rat // numbers: exact value
	s    string   // str/sym/char text
	kids []*mv
}

func mint(s string) *mv {
	r, _ := new(big.Rat).SetString(s)
	return &mv{k: "int", r: r}
}
func mflt(s string) *mv {
	r, _ := new(big.Rat).SetString(s)
	return &mv{k: "float", r: r}
}
func mrat(s string) *mv {
	r, _ := new(big.Rat).SetString(s)
	return &mv{k: "ratio", r: r}
}

const (
	two64  = "18446744073709551616"
	two64p = "18446744073709551617"
	two53  = "9007199254740992"
	two53p = "9007199254740993"
)

var universe = []*elem{
	// ---- numbers: equal values in different representations and identities
	{name: "i0", src: "0", quick: true},
	{name: "i1", src: "1", quick: true, m: mint("1")},
	{name: "i2", src: "2"},
	{name: "i1000a", src: "1000", quick: true},
	{name: "i1000b", src: "1000", quick: true},
	{name: "d1", src: "1.0d0", quick: true, m: mflt("1")},
	{name: "f1", src: "1.0f0", quick: true, m: mflt("1")},
	{name: "l1", src: "1.0l0", quick: true},
	{name: "l1b", src: "1.0l0"},
	{name: "c1", src: "#C(1 0)", quick: true},
	{name: "c12a", src: "#C(1 2)"},
	{name: "c12b", src: "#C(1 2)"},
	{name: "d0", src: "0.0d0", quick: true},
	{name: "dm0", src: "-0.0d0", quick: true},
	{name: "big64a", src: two64, quick: true, m: mint(two64)},
	{name: "big64b", src: two64, quick: true, m: mint(two64)},
	{name: "big64p", src: two64p, quick: true, m: mint(two64p)},
	{name: "d64", src: two64 + ".0d0", quick: true, m: mflt(two64)},
	{name: "l64", src: two64 + ".0l0"},
	{name: "i53", src: two53, quick: true, m: mint(two53)},
	{name: "i53p", src: two53p, quick: true, m: mint(two53p)},
	{name: "d53", src: two53 + ".0d0", quick: true, m: mflt(two53)},
	// the precision edge of each float format: an integer the format cannot hold next to the float of the rounded value
	// (a comparison that goes through the float type calls them equal and breaks transitivity / sxhash agreement)
	{name: "i24", src: "16777216", quick: true, m: mint("16777216")},
	{name: "i24p", src: "16777217", quick: true, m: mint("16777217")},
	{name: "f24", src: "(coerce 16777216 'single-float)", quick: true, m: mflt("16777216")},
	{name: "d24p", src: "16777217.0d0", quick: true, m: mflt("16777217")},
	{name: "i32p", src: "4294967297"},
	{name: "f32", src: "(coerce 4294967296 'single-float)"},
	{name: "l53p", src: two53p + ".0l0", quick: true},
	{name: "im24p", src: "-16777217"},
	{name: "fm24", src: "(coerce -16777216 'single-float)"},
	{name: "r12a", src: "1/2", quick: true, m: mrat("1/2")},
	{name: "r12b", src: "1/2", quick: true, m: mrat("1/2")},
	{name: "d05", src: "0.5d0", quick: true, m: mflt("1/2")},
	{name: "f05", src: "0.5f0", quick: true},
	{name: "r13", src: "1/3", quick: true},
	{name: "d13", src: "0.3333333333333333d0", quick: true},
	{name: "r13x", src: "6004799503160661/18014398509481984"}, // the exact value of the double nearest 1/3
	{name: "oct1", src: "(coerce 1 'octet)"},
	// ---- round 6: every equivalence class slip's predicates measure on numbers in EVERY representation that can hold the
	// value (held by value: fixnum, single, double, complex; held by reference: bignum, ratio, long-float), non-integral
	// values in particular; the same elements are the key alphabet of the table pair family (pairs.go)
	{name: "l05", src: "0.5l0", quick: true},
	{name: "c05", src: "#C(0.5 0)", quick: true},
	{name: "rm74", src: "-7/4", quick: true, m: mrat("-7/4")},
	{name: "dm175", src: "-1.75d0", quick: true, m: mflt("-7/4")},
	{name: "fm175", src: "-1.75f0"},
	{name: "lm175", src: "-1.75l0"},
	{name: "r14", src: "1/4"},
	{name: "d025", src: "0.25d0"},
	{name: "l025", src: "0.25l0", quick: true},
	{name: "d2", src: "2.0d0"},
	{name: "f2", src: "2.0f0"},
	{name: "l2", src: "2.0l0"},
	{name: "big2", src: "(coerce 2 'bignum)", quick: true}, // a bignum that holds a fixnum value
	{name: "r42", src: "4/2", quick: true},                 // a ratio that holds an integer (the reader does not normalise it)
	{name: "c2", src: "#C(2 0)"},
	{name: "f64", src: "(coerce " + two64 + " 'single-float)", quick: true},
	{name: "r64", src: "36893488147419103232/2"}, // 2^64 held by a ratio
	{name: "l64p", src: two64p + ".0l0"},
	{name: "f0", src: "0.0f0"},
	{name: "fm0", src: "-0.0f0"},
	{name: "l0", src: "0.0l0"},
	{name: "lm0", src: "-0.0l0"},
	{name: "c0", src: "#C(0 0)"},
	{name: "f13", src: "(coerce 1/3 'single-float)"},
	// bystander keys of the table pair family: equal to no other element
	{name: "r15", src: "1/5"},
	{name: "l075", src: "0.75l0"},
	{name: "big65", src: "36893488147419103232"},
	{name: "szz", src: `"zz"`},
	// non-finite floats (reachable through overflow): every predicate must still answer, equal ones hash alike
	{name: "dinf", src: "(* 1.0d308 10)", quick: true},
	{name: "dinf_b", src: "(* 1.0d308 100)"},
	{name: "finf", src: "(coerce (* 1.0d308 10) 'single-float)", quick: true},
	{name: "linf", src: "(coerce (* 1.0d308 10) 'long-float)"},
	{name: "dminf", src: "(- (* 1.0d308 10))"},
	{name: "dnan", src: "(let ((i (* 1.0d308 10))) (- i i))", quick: true},
	{name: "dnan_b", src: "(let ((i (* 1.0d308 100))) (- i i))"},
	// values at the edge of the integer result types of coerce (sign, 8 bits, fraction, magnitude)
	{name: "im1", src: "-1"},
	{name: "i255", src: "255"},
	{name: "i256", src: "256"},
	{name: "d15", src: "1.5d0"},
	{name: "dm1", src: "-1.0d0"},
	{name: "d1e300", src: "1.0d300"},
	{name: "bigm64", src: "-" + two64},
	{name: "rm12", src: "-1/2"},
	{name: "cm1", src: "#C(-1 0)"},
	{name: "sbm3", src: "(coerce -3 'signed-byte)"},
	// ---- strings, symbols, characters
	{name: "sabc_a", src: `"abc"`, quick: true, m: &mv{k: "str", s: "abc"}},
	{name: "sabc_b", src: `(copy-seq "abc")`, quick: true, m: &mv{k: "str", s: "abc"}},
	{name: "SABC", src: `"ABC"`, quick: true, m: &mv{k: "str", s: "ABC"}},
	{name: "sabd", src: `"abd"`},
	{name: "sa", src: `"a"`, quick: true},
	{name: "sempty", src: `""`},
	{name: "yabc", src: "'abc", quick: true, m: &mv{k: "sym", s: "abc"}},
	{name: "yABC", src: `(car (list (intern "ABC")))`, quick: true, m: &mv{k: "sym", s: "ABC"}},
	{name: "yabd", src: "'abd"},
	{name: "kabc", src: ":abc", quick: true, m: &mv{k: "sym", s: ":abc"}},
	{name: "ca", src: `#\a`, quick: true, m: &mv{k: "char", s: "a"}},
	{name: "cA", src: `#\A`, quick: true, m: &mv{k: "char", s: "A"}},
	{name: "cb", src: `#\b`},
	// non-ASCII letters in both cases: equalp folds case, equal and sxhash must stay coherent with it
	{name: "se_lo", src: "(coerce (list (code-char 233) #\\x) 'string)", quick: true},
	{name: "se_up", src: "(coerce (list (code-char 201) #\\X) 'string)", quick: true},
	{name: "se_lo2", src: "(coerce (list (code-char 233) #\\x) 'string)"},
	{name: "ce_lo", src: "(code-char 233)", quick: true},
	{name: "ce_up", src: "(code-char 201)", quick: true},
	{name: "lse_lo", src: "(list (coerce (list (code-char 233)) 'string))"},
	{name: "lse_up", src: "(list (coerce (list (code-char 201)) 'string))"},
	{name: "nil", src: "nil", quick: true, m: &mv{k: "nil"}},
	{name: "empty", src: "'()", quick: true},
	{name: "t", src: "t", quick: true, m: &mv{k: "t"}},
	// ---- lists and vectors (nested, differing in case / number representation)
	{name: "l12a", src: "(list 1 2)", quick: true, m: &mv{k: "list", kids: []*mv{mint("1"), mint("2")}}},
	{name: "l12b", src: "(list 1 2)", quick: true, m: &mv{k: "list", kids: []*mv{mint("1"), mint("2")}}},
	{name: "l12d", src: "(list 1 2.0d0)", quick: true, m: &mv{k: "list", kids: []*mv{mint("1"), mflt("2")}}},
	{name: "lsa", src: `(list "a")`, quick: true, m: &mv{k: "list", kids: []*mv{{k: "str", s: "a"}}}},
	{name: "lsA", src: `(list "A")`, quick: true, m: &mv{k: "list", kids: []*mv{{k: "str", s: "A"}}}},
	{name: "lca", src: `(list #\a)`, quick: true},
	{name: "lcA", src: `(list #\A)`, quick: true},
	{name: "lr12", src: "(list 1/2)", quick: true}, // containers whose elements are one number in different representations
	{name: "ld05", src: "(list 0.5d0)", quick: true},
	{name: "ll05", src: "(list 0.5l0)", quick: true},
	{name: "lc05", src: "(list #C(0.5 0))"},
	{name: "ld64", src: "(list " + two64 + ".0d0)"},
	{name: "vr12", src: "(vector 1/2)"},
	{name: "vd05", src: "(vector 0.5d0)"},
	{name: "vl05", src: "(vector 0.5l0)"},
	{name: "dotr12", src: "'(a . 1/2)"},
	{name: "dotl05", src: "'(a . 0.5l0)"},
	{name: "lnest_a", src: "(list 1 (list 2 3))"},
	{name: "lnest_b", src: "(list 1 (list 2 3))"},
	{name: "lbig_a", src: "(list " + two64 + ")"},
	{name: "lbig_b", src: "(list " + two64 + ")"},
	{name: "dot_a", src: "'(1 . 2)", quick: true},
	{name: "dot_b", src: "'(1 . 2)", quick: true},
	{name: "dotc_a", src: `'(1 . #\a)`},
	{name: "dotc_A", src: `'(1 . #\A)`},
	{name: "v12a", src: "(vector 1 2)", quick: true, m: &mv{k: "vec", kids: []*mv{mint("1"), mint("2")}}},
	{name: "v12b", src: "(vector 1 2)", quick: true, m: &mv{k: "vec", kids: []*mv{mint("1"), mint("2")}}},
	{name: "v12d", src: "(vector 1 2.0d0)", quick: true},
	{name: "vsa", src: `(vector "a")`, quick: true},
	{name: "vsA", src: `(vector "A")`, quick: true},
	// the same elements in vectors of another make (element type, adjustability, fill pointer, octets) and vectors
	// holding case-differing strings inside other containers: equal and equalp walk containers with different code
	{name: "v12fix", src: "(make-array 2 :element-type 'fixnum :initial-contents '(1 2))", quick: true},
	{name: "v12nadj", src: "(make-array 2 :adjustable nil :initial-contents '(1 2))", quick: true},
	{name: "v12fp", src: "(let ((v (make-array 3 :fill-pointer 2 :initial-element 0))) (setf (aref v 0) 1) (setf (aref v 1) 2) v)", quick: true},
	{name: "lvsa", src: `(list (vector "a"))`, quick: true},
	{name: "lvsA", src: `(list (vector "A"))`, quick: true},
	{name: "vvsa", src: `(vector (vector "a") 1)`},
	{name: "vvsA", src: `(vector (vector "A") 1)`},
	{name: "vca", src: `(vector #\a)`},
	{name: "vcA", src: `(vector #\A)`},
	{name: "arr_a", src: "(make-array '(2 2) :initial-contents '((1 2) (3 4)))", quick: true},
	{name: "arr_b", src: "(make-array '(2 2) :initial-contents '((1 2) (3 4)))", quick: true},
	{name: "bv_a", src: "#*101"},
	{name: "bv_b", src: "#*101"},
	{name: "oc_a", src: "(coerce '(1 2) 'octets)", quick: true},
	{name: "oc_b", src: "(coerce '(1 2) 'octets)"},
	// ---- tables, instances, functions
	{name: "h0a", src: "(make-hash-table)", quick: true, m: &mv{k: "table"}},
	{name: "h0b", src: "(make-hash-table)", quick: true, m: &mv{k: "table"}},
	{name: "h1a", src: "(let ((h (make-hash-table))) (setf (gethash 'k h) 1) h)", quick: true},
	{name: "h1b", src: "(let ((h (make-hash-table))) (setf (gethash 'k h) 1) h)", quick: true},
	{name: "h1d", src: "(let ((h (make-hash-table))) (setf (gethash 'k h) 1.0d0) h)"},
	{name: "fl1a", src: "(make-instance 'c16-fl :a 1)", quick: true, m: &mv{k: "inst", s: "c16-fl", kids: []*mv{mint("1")}}},
	{name: "fl1b", src: "(make-instance 'c16-fl :a 1)", quick: true, m: &mv{k: "inst", s: "c16-fl", kids: []*mv{mint("1")}}},
	{name: "fl2", src: "(make-instance 'c16-fl :a 2)", quick: true},
	{name: "cl1a", src: "(make-instance 'c16-cl :x 1)"},
	{name: "cl1b", src: "(make-instance 'c16-cl :x 1)"},
	{name: "fcar", src: "#'car", quick: true},
	{name: "lam_a", src: "(lambda (x) x)"},
	{name: "lam_b", src: "(lambda (x) x)"},
	// ---- further kinds (types / coerce; relations in thorough)
	{name: "pkg", src: "*package*"},
	{name: "sstrm", src: "(make-string-output-stream)"},
	{name: "ostrm", src: "*standard-output*"},
	{name: "tm", src: "@2022-04-01T00:00:00Z"},
	{name: "chan", src: "(make-channel 1)"},
	{name: "cond", src: "(make-condition 'simple-error)"},
	{name: "tcond", src: "(make-condition 'simple-type-error)"},
	{name: "rcond", src: "(make-condition 'reader-error)"},
	{name: "cls", src: "(find-class 'fixnum)"},
	{name: "fcls", src: "(find-class 'vanilla-flavor)"},
	{name: "ccls", src: "(find-class 'error)"},
	{name: "sb3", src: "(coerce 3 'signed-byte)"},
	{name: "ub3", src: "(coerce 3 'unsigned-byte)"},
	{name: "bit1", src: "(coerce 1 'bit)"},
	{name: "vfl", src: "(make-instance 'vanilla-flavor)"},
	{name: "bagi", src: "(make-instance 'bag-flavor)"},
	// ---- round 6: kinds the type / coerce universe lacked (typep of own type-of and of every supertype, coerce from every
	// kind the table of coerce documents). Type universe only unless marked otherwise.
	{name: "assoc", src: "'((a . 1) (b . 2))"},
	{name: "lchars", src: `(list #\a #\b)`},
	{name: "lbits", src: "(list 1 0 1)"},
	{name: "vbits", src: "(vector 1 0 1)", norel: true},
	{name: "vchars", src: `(vector #\a #\b)`, norel: true},
	{name: "scar", src: `"car"`},
	{name: "ycar", src: "'car"},
	{name: "s12", src: `"12"`, norel: true},
	{name: "clam", src: "(code-char 955)"},
	{name: "bv0", src: "#*", norel: true},
	{name: "oc0", src: "(coerce '() 'octets)", norel: true},
	{name: "v0", src: "(vector)", norel: true},
	{name: "vch", src: "(make-array 2 :element-type 'character :initial-element #\\a)", norel: true},
	{name: "vbit", src: "(make-array 3 :element-type 'bit)", norel: true},
	{name: "voct", src: "(make-array 2 :element-type 'octet)", norel: true},
	{name: "mkstr", src: "(make-string 2)", norel: true},
	{name: "gsym", src: "(gensym)", norel: true},
	{name: "usym", src: `(make-symbol "abc")`},
	{name: "byte1", src: "(coerce 1 'byte)", norel: true},
	{name: "shf1", src: "(coerce 1 'short-float)", norel: true},
	{name: "tnow", src: "(now)", norel: true},
	{name: "rstate", src: "(make-random-state)", norel: true},
	{name: "pkgcl", src: "(find-package 'cl)", norel: true},
	{name: "pkgkw", src: "(find-package 'keyword)", norel: true},
	// streams
	{name: "sistrm", src: `(make-string-input-stream "abc")`, norel: true},
	{name: "istrm", src: "*standard-input*", norel: true},
	{name: "bstrm", src: "(make-broadcast-stream)", norel: true},
	{name: "twstrm", src: "(make-two-way-stream (make-string-input-stream \"a\") (make-string-output-stream))", norel: true},
	{name: "ecstrm", src: "(make-echo-stream (make-string-input-stream \"a\") (make-string-output-stream))", norel: true},
	{name: "systrm", src: "(make-synonym-stream '*standard-output*)", norel: true},
	{name: "ccstrm", src: "(make-concatenated-stream)", norel: true},
	// functions of every make
	{name: "gfn", src: "#'c16-gf", norel: true},
	{name: "mac", src: "#'when", norel: true},
	{name: "fdef", src: "#'c16-fn", norel: true},
	{name: "fclos", src: "(let ((n 1)) (lambda (x) (+ x n)))", norel: true},
	// classes, flavors and structures as objects, and their instances
	{name: "cls1", src: "(class-of 1)", norel: true},
	{name: "ucls", src: "(find-class 'c16-cl)", norel: true},
	{name: "bpcls", src: "(find-class 'bag-path)", norel: true},
	{name: "uflv", src: "(find-flavor 'c16-fl)", norel: true},
	{name: "stcls", src: "(find-class 'c16-st)", norel: true},
	{name: "sti_a", src: "(make-c16-st :a 1)"},
	{name: "sti_b", src: "(make-c16-st :a 1)"},
	{name: "cl2", src: "(make-instance 'c16-cl2 :x 1 :y 2)", norel: true},
	{name: "fl3", src: "(make-instance 'c16-fl2 :a 1)", norel: true},
	{name: "bagp", src: `(make-bag-path "a.b")`, norel: true},
	{name: "sock", src: "(make-instance 'socket)", norel: true},
	{name: "logr", src: "(make-instance 'logger-flavor)", norel: true},
	{name: "sysi", src: "(make-instance 'system)", norel: true},
	{name: "suite", src: "(make-instance 'suite-flavor)", norel: true},
	{name: "testi", src: "(make-instance 'test-flavor)", norel: true},
	{name: "tstbl", src: "(make-instance 'testable-flavor)", norel: true},
	{name: "hreq", src: "(make-instance 'http-request-flavor)", norel: true},
	{name: "hres", src: "(make-instance 'http-response-flavor)", norel: true},
	{name: "hcli", src: "(make-instance 'http-client-flavor)", norel: true},
	{name: "hent", src: "(make-instance 'host-ent)", norel: true},
	// conditions: made by make-condition for every condition class of the registry, and as the runtime raises them
	{name: "k_arith", src: "(make-condition 'arithmetic-error)", norel: true},
	{name: "k_cell", src: "(make-condition 'cell-error)", norel: true},
	{name: "k_cnf", src: "(make-condition 'class-not-found)", norel: true},
	{name: "k_cond", src: "(make-condition 'condition)", norel: true},
	{name: "k_ctrl", src: "(make-condition 'control-error)", norel: true},
	{name: "k_div0", src: "(make-condition 'division-by-zero)", norel: true},
	{name: "k_eof", src: "(make-condition 'end-of-file)", norel: true},
	{name: "k_err", src: "(make-condition 'error)", norel: true},
	{name: "k_file", src: "(make-condition 'file-error)", norel: true},
	{name: "k_inval", src: "(make-condition 'invalid-method-error)", norel: true},
	{name: "k_names", src: "(make-condition 'name-service-error)", norel: true},
	{name: "k_noapp", src: "(make-condition 'no-applicable-method-error)", norel: true},
	{name: "k_pkg", src: "(make-condition 'package-error)", norel: true},
	{name: "k_parse", src: "(make-condition 'parse-error)", norel: true},
	{name: "k_pnr", src: "(make-condition 'print-not-readable)", norel: true},
	{name: "k_prog", src: "(make-condition 'program-error)", norel: true},
	{name: "k_ser", src: "(make-condition 'serious-condition)", norel: true},
	{name: "k_scond", src: "(make-condition 'simple-condition)", norel: true},
	{name: "k_swarn", src: "(make-condition 'simple-warning)", norel: true},
	{name: "k_strm", src: "(make-condition 'stream-error)", norel: true},
	{name: "k_type", src: "(make-condition 'type-error)", norel: true},
	{name: "k_uslot", src: "(make-condition 'unbound-slot)", norel: true},
	{name: "k_uvar", src: "(make-condition 'unbound-variable)", norel: true},
	{name: "k_ufun", src: "(make-condition 'undefined-function)", norel: true},
	{name: "k_warn", src: "(make-condition 'warning)", norel: true},
	{name: "k_user", src: "(make-condition 'c16-cond)", norel: true},
	{name: "x_div0", src: "(cadr (multiple-value-list (ignore-errors (/ 1 0))))", norel: true},
	{name: "x_type", src: "(cadr (multiple-value-list (ignore-errors (car 1))))", norel: true},
	{name: "x_uvar", src: "(cadr (multiple-value-list (ignore-errors (eval 'c16-unbound-variable))))", norel: true},
	{name: "x_cnf", src: "(cadr (multiple-value-list (ignore-errors (find-class 'c16-no-such-class t))))", norel: true},
	{name: "x_pkg", src: "(cadr (multiple-value-list (ignore-errors (in-package 'c16-no-such-package))))", norel: true},
	{name: "x_file", src: `(cadr (multiple-value-list (ignore-errors (open "/nonexistent/c16"))))`, norel: true},
	{name: "x_ctrl", src: "(cadr (multiple-value-list (ignore-errors (return-from c16-no-such-block 1))))", norel: true},
	{name: "x_inval", src: "(cadr (multiple-value-list (ignore-errors (send (make-instance 'vanilla-flavor) :c16-no-such-method))))", norel: true},
	{name: "x_err", src: `(cadr (multiple-value-list (ignore-errors (error "c16"))))`, norel: true},
	{name: "x_parse", src: `(cadr (multiple-value-list (ignore-errors (read-from-string "(1 2"))))`, norel: true},
}

var elemByName = func() map[string]*elem {
	m := map[string]*elem{}
	for _, e := range universe {
		if m[e.name] != nil {
			panic("duplicate universe element " + e.name)
		}
		m[e.name] = e
	}
	return m
}()

func relUniverse(tier string) (u []*elem) {
	for _, e := range universe {
		if e.norel {
			continue
		}
		if e.quick || tier == "thorough" {
			u = append(u, e)
		}
	}
	return
}

var prepOnce sync.Once

// prep defines the flavor and the class the instance elements need. The
// definitions are constants (same text in every process), nothing else in this
// harness touches a process-global table.
func prep() {
	prepOnce.Do(func() {
		_, _ = lisp.Eval("(defflavor c16-fl ((a 1)) () :settable-instance-variables :initable-instance-variables)")
		_, _ = lisp.Eval("(defclass c16-cl () ((x :initarg :x)))")
		_, _ = lisp.Eval("(defclass c16-cl2 (c16-cl) ((y :initarg :y)))")
		_, _ = lisp.Eval("(defflavor c16-fl2 () (c16-fl))")
		_, _ = lisp.Eval("(defstruct c16-st a)")
		_, _ = lisp.Eval("(defgeneric c16-gf (x))")
		_, _ = lisp.Eval("(defun c16-fn (x) x)")
		_, _ = lisp.Eval("(define-condition c16-cond (error) ())")
	})
}

// build evaluates the element's source in a fresh scope.
func (e *elem) build() (slip.Object, *lisp.Err) {
	prep()
	return lisp.Eval(e.src)
}

// fineKind names the representation of an object (Go type switch, never slip's own type-of).
func fineKind(o slip.Object) string {
	switch v := o.(type) {
	case nil:
		return "nil"
	case slip.Fixnum:
		return "fixnum"
	case *slip.Bignum:
		return "bignum"
	case *slip.Ratio:
		return "ratio"
	case slip.SingleFloat:
		return "single-float"
	case slip.DoubleFloat:
		if math.IsNaN(float64(v)) {
			return "double-float-nan" // its own kind: Go's == never holds on it, signatures must tell it apart
		}
		return "double-float"
	case *slip.LongFloat:
		return "long-float"
	case slip.Complex:
		return "complex"
	case slip.Octet:
		return "octet"
	case *slip.SignedByte:
		return "signed-byte"
	case *slip.UnsignedByte:
		return "unsigned-byte"
	case slip.Bit:
		return "bit"
	case slip.String:
		return "string"
	case slip.Symbol:
		if strings.HasPrefix(string(v), ":") {
			return "keyword"
		}
		return "symbol"
	case slip.Character:
		return "character"
	case slip.List:
		if len(v) == 0 {
			return "empty-list"
		}
		if _, ok := v[len(v)-1].(slip.Tail); ok {
			return "dotted-list"
		}
		return "list"
	case *slip.Vector:
		return "vector"
	case slip.Octets:
		return "octets"
	case *slip.BitVector:
		return "bit-vector"
	case *slip.Array:
		return "array"
	case slip.HashTable:
		return "hash-table"
	case *slip.Lambda:
		return "lambda"
	case *slip.FuncInfo:
		return "function"
	case slip.Values:
		return "values"
	}
	if o == slip.True {
		return "t"
	}
	if _, ok := o.(slip.Class); ok {
		return "class"
	}
	if _, ok := o.(slip.Instance); ok {
		return "instance"
	}
	if h := o.Hierarchy(); 0 < len(h) {
		return "other:" + string(h[0])
	}
	return "other"
}

// kindOf is the moderate granularity used in relation signatures.
func kindOf(fine string) string {
	switch fine {
	case "fixnum", "bignum", "octet", "signed-byte", "unsigned-byte", "bit":
		return "integer"
	case "single-float", "double-float", "long-float":
		return "float"
	case "double-float-nan":
		return "nan"
	case "keyword":
		return "symbol"
	case "dotted-list":
		return "list"
	case "empty-list":
		return "nil"
	case "octets", "bit-vector":
		return "vector"
	case "lambda":
		return "function"
	}
	if strings.HasPrefix(fine, "other") {
		return "other"
	}
	return fine
}

func isNumberKind(k string) bool {
	return k == "integer" || k == "ratio" || k == "float" || k == "complex" || k == "nan"
}
