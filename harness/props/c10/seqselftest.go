//go:build verif

package c10

// Oracle-sensitivity self-test (S6): mutated reference models, each encoding
// one realistic dispatch or cache bug. The histories explored by the tier
// (enumerated here in pure Go, shortest first, over the same alphabets and
// with the same probes) must contain one on which the oracle's comparison
// tells the mutant from the real reference.

import (
	"fmt"
	"strings"
)

type refMutant struct {
	name string
	opts refOpts
}

var refMutants = []refMutant{
	{"cache-not-cleared-by-remove-method", refOpts{staleOnRemove: true}},
	{"cache-not-cleared-by-defmethod-on-a-new-specialiser-tuple", refOpts{staleOnNewKey: true}},
	{"replaced-method-body-still-served-from-cache", refOpts{staleOnReplace: true}},
	{"single-method-fast-path-not-recomputed-by-remove-method", refOpts{staleDefault: true}},
	{"after-methods-most-specific-first", refOpts{aftersForward: true}},
	{"second-argument-decides-specificity-first", refOpts{rightToLeft: true}},
	{"every-second-around-skipped-by-call-next-method", refOpts{aroundSkipSecond: true}},
	{"least-specific-primary-chosen", refOpts{primaryLeast: true}},
	{"around-without-call-next-method-still-runs-the-rest", refOpts{stopRunsInner: true}},
	{"remove-method-no-op-when-the-tuple-was-first-defined-with-an-unspecialised-parameter", refOpts{removeKeepsUnspecialised: true}},
}

// wouldFlag mirrors checker.check on the level of expectations: would the
// oracle report a failure if slip behaved like `got` where the reference
// demands `want`?
func wouldFlag(want, got expect) bool {
	switch want.kind {
	case exStrict:
		return got.kind == exNone || !equalStrings(want.trace, got.trace) || want.value != got.value
	case exNone:
		return got.kind != exNone
	}
	// lenient: only entries that are not applicable under the current table are flagged
	ok := map[string]bool{}
	for s := 0; s < 4; s++ {
		for _, t := range want.applicable[s] {
			ok[t] = true
		}
	}
	seen := map[string]bool{}
	for _, e := range got.trace {
		if strings.HasSuffix(e, "-out") {
			continue
		}
		t := baseTag(e)
		if !ok[t] || seen[t] {
			return true
		}
		seen[t] = true
	}
	return false
}

// distinguish searches the histories of cfg of exactly length limit for one
// that tells the mutant from the reference.
func distinguish(cfg *config, mut refOpts, limit int) (hist []string, found bool) {
	ops := cfg.ops()
	var cur []string
	replay := func(h []string, o refOpts) *model {
		md := newModel(cfg, o)
		for _, s := range h {
			po, _ := parseOp(s)
			if po.kind == 'c' {
				md.call(po.spec)
			} else {
				md.apply(po)
			}
		}
		return md
	}
	var search func(limit int) bool
	search = func(limit int) bool {
		var dfs func() bool
		dfs = func() bool {
			if len(cur) == limit {
				// oracle on the last op and the probes, as exec does
				ref := replay(cur[:len(cur)-1], refOpts{})
				m := replay(cur[:len(cur)-1], mut)
				po, _ := parseOp(cur[len(cur)-1])
				if po.kind == 'c' {
					if wouldFlag(ref.call(po.spec), m.call(po.spec)) {
						return true
					}
				} else {
					ref.apply(po)
					m.apply(po)
				}
				for _, a := range cfg.calls {
					if wouldFlag(ref.call(a), m.call(a)) {
						return true
					}
				}
				return false
			}
			ref := replay(cur, refOpts{})
			for _, o := range ops {
				po, _ := parseOp(o)
				if po.kind == 'r' && !ref.present(slotOf(po.variant), po.spec) {
					continue
				}
				cur = append(cur, o)
				if dfs() {
					return true
				}
				cur = cur[:len(cur)-1]
			}
			return false
		}
		return dfs()
	}
	if search(limit) {
		return append([]string(nil), cur...), true
	}
	return nil, false
}

func selftest(tier string) (killed, total int, notes []string) {
	maxLen := histLen(tier)
	if 4 < maxLen {
		maxLen = 4
	}
	for _, mu := range refMutants {
		total++
		done := false
		for limit := 1; limit <= maxLen && !done; limit++ {
			for _, cfg := range tierConfigs(tier) {
				if limit > cfg.maxLen {
					continue
				}
				if h, ok := distinguish(cfg.config, mu.opts, limit); ok {
					killed++
					done = true
					notes = append(notes, fmt.Sprintf("%s: distinguished by history [cfg:%s %s] (+ probes)", mu.name, cfg.id, strings.Join(h, " ")))
					break
				}
			}
		}
		if !done {
			notes = append(notes, fmt.Sprintf("%s: NOT distinguished by any history of length <= %d", mu.name, maxLen))
		}
	}
	return
}
