//go:build verif

package c16

import (
	"fmt"
	"math"
	"sort"
	"strings"
	"sync"

	"github.com/ohler55/slip"

	"verif/engine"
	"verif/lisp"
)

// ---------------------------------------------------------------- alphabet

var tableTests = []string{"eql", "eq", "equal", "equalp"}

// keys of the full alphabet: every hashable kind, incl. pointer-represented
// (bignum, ratio, long-float, vector) and slice/map-represented (list, hash-table) keys.
var fullKeysQuick = []string{"i1", "d1", "big64a", "big64b", "r12a", "r12b", "sabc_a", "sabc_b", "SABC", "yabc",
	"ca", "nil", "l12a", "v12a", "h0a"}
var fullKeysThorough = append(append([]string{}, fullKeysQuick...), "kabc", "f1", "l1", "l1b", "cA", "empty")

// keys of the sub-alphabet explored to the fixpoint of the reachable contents
var subKeysQuick = []string{"i1", "d1", "big64a", "big64b"}
var subKeysThorough = []string{"i1", "d1", "big64a", "big64b", "r12a", "sabc_a"}

// keys of the representation alphabet (mode rep), explored to the fixpoint of the reachable contents: classes of
// slip's eql with several representations of one non-integral value (held by reference: ratio, long-float; held by
// value: double, single, complex), a ratio no float equals next to the nearest double, and an integral value held by
// a bignum, a double, a ratio. No key of this alphabet is unhashable.
var repKeysQuick = []string{"r12a", "d05", "f05", "l05", "r13", "d13", "big2", "d2"}
var repKeysThorough = []string{"r12a", "d05", "f05", "l05", "c05", "rm74", "dm175", "r13", "d13", "big2", "d2", "r42", "d0", "dm0"}

var tableVals = []string{"a", "nil"}

func repKeys(tier string) []string {
	if tier == engine.Thorough {
		return repKeysThorough
	}
	return repKeysQuick
}

func modeKeys(mode, tier string) []string {
	switch mode {
	case "sub":
		return subKeys(tier)
	case "rep":
		return repKeys(tier)
	}
	return fullKeys(tier)
}

func fullKeys(tier string) []string {
	if tier == engine.Thorough {
		return fullKeysThorough
	}
	return fullKeysQuick
}

func subKeys(tier string) []string {
	if tier == engine.Thorough {
		return subKeysThorough
	}
	return subKeysQuick
}

func fullDepth(tier string) int {
	if tier == engine.Thorough {
		return 4
	}
	return 3
}

func opsFor(keys []string) (ops []string) {
	for _, k := range keys {
		for _, v := range tableVals {
			ops = append(ops, "set:"+k+":"+v)
		}
	}
	for _, k := range keys {
		ops = append(ops, "rem:"+k)
	}
	ops = append(ops, "clr")
	return
}

func newOps() (ops []string) {
	for _, mode := range []string{"full", "sub", "rep"} {
		for _, t := range tableTests {
			ops = append(ops, "new:"+mode+":"+t)
		}
	}
	return
}

func bfsOps(tier string) []string {
	return append(append(newOps(), opsFor(fullKeys(tier))...), "stop")
}

// tierOfHistory: the BFS spec does not carry the tier; the alphabet it was
// generated from is recognised by the mode op and the tier marker in it.
// ("new:full:eql" is the quick alphabet, "new:full:eql:T" the thorough one.)

// ---------------------------------------------------------------- oracle

type entry struct{ key, val string }

type probeRes struct {
	val   string
	found bool
	bad   tri
}

// equiv is an equivalence on key names (classes measured on slip's own predicate, or synthetic in the self-test).
type equiv struct {
	name  string
	class map[string]int
}

func (e *equiv) cls(k string) int {
	if c, has := e.class[k]; has {
		return c
	}
	// a key that is not in the alphabet (cannot happen on the real table unless slip invents keys)
	h := 0
	for _, b := range []byte(k) {
		h = h*131 + int(b)
	}
	return -1 - (h & 0xfffff)
}

// norm maps class -> values (more than one value or more than one entry = incoherent under e).
func (e *equiv) norm(entries []entry) (m map[int][]entry, coherent bool) {
	m = map[int][]entry{}
	coherent = true
	for _, en := range entries {
		c := e.cls(en.key)
		if 0 < len(m[c]) {
			coherent = false
		}
		m[c] = append(m[c], en)
	}
	return
}

type tableObs struct {
	test     string
	pre      []entry
	op       string // set:k:v | rem:k | clr
	opResult string
	opBad    tri
	post     []entry
	probes   map[string]probeRes
	probeKey []string
	count    int
	countBad tri
	visited  []entry
	visitBad tri
}

func entriesString(es []entry) string {
	var s []string
	for _, e := range es {
		s = append(s, e.key+"=>"+e.val)
	}
	sort.Strings(s)
	return "{" + strings.Join(s, ", ") + "}"
}

func sameEntries(a, b []entry) bool {
	return entriesString(a) == entriesString(b)
}

// checkStep applies the finite-map oracle to ONE step: the expected result and
// post-state are computed from the OBSERVED pre-state (S3). Every item is
// accepted when it is right under at least one equivalence of `accept`
// (accept[0] is the primary one and names the failure).
func checkStep(o *tableObs, accept []*equiv, fine func(key string) string) (v verdict) {
	parts := strings.Split(o.op, ":")
	opName := map[string]string{"set": "setf-gethash", "rem": "remhash", "clr": "clrhash"}[parts[0]]
	key := ""
	if 1 < len(parts) {
		key = parts[1]
	}
	sigHead := fmt.Sprintf("table test=%s op=%s", o.test, opName)
	if key != "" {
		sigHead += " key=" + fine(key)
	}
	where := fmt.Sprintf("on a (make-hash-table :test '%s) holding %s, %s", o.test, entriesString(o.pre), describeOp(o.op))
	if o.opBad.v == -1 {
		v.fail(sigHead+" result="+o.opBad.why, where+" => "+o.opBad.msg)
		v.outcome = o.opBad.why
		return
	}
	prim := accept[0]
	// ---- hit counters (primary equivalence)
	if key != "" {
		switch fine(key) {
		case "bignum", "ratio", "long-float", "vector":
			v.hits = append(v.hits, "table-pointer-represented-key")
		}
		pm, _ := prim.norm(o.pre)
		if es := pm[prim.cls(key)]; 0 < len(es) {
			other := false
			for _, e := range es {
				other = other || e.key != key
			}
			if other {
				v.hits = append(v.hits, "table-"+parts[0]+"-via-equivalent-key")
				v.nontrivial = true
			}
			if parts[0] == "set" {
				v.hits = append(v.hits, "table-overwrite")
			}
			if parts[0] == "rem" {
				v.hits = append(v.hits, "table-remove-present")
			}
		}
	}
	if parts[0] == "clr" && 0 < len(o.pre) {
		v.hits = append(v.hits, "table-clear-nonempty")
	}
	// ---- op result (remhash: t iff an equivalent key was present)
	postWhy, postKind := "", ""
	{
		ok := false
		for i, e := range accept {
			why, kind := postStateProblem(e, o, parts, fine)
			if why == "" {
				ok = true
				break
			}
			if i == 0 {
				postWhy, postKind = why, kind
			}
		}
		if ok {
			postWhy, postKind = "", ""
		}
	}
	if parts[0] == "rem" && postWhy == "" { // a wrong post-state is reported below; one event, one signature
		ok := false
		var want string
		for i, e := range accept {
			pm, _ := e.norm(o.pre)
			w := "nil"
			if 0 < len(pm[e.cls(key)]) {
				w = "t"
			}
			if 1 < len(pm[e.cls(key)]) {
				ok = true // S3: the class already holds two equivalent keys (reported where it arose)
			}
			if i == 0 {
				want = w
			}
			ok = ok || w == o.opResult
		}
		if !ok {
			v.fail(sigHead+" kind=wrong-result", fmt.Sprintf("%s => %s; expected %s", where, o.opResult, want))
		}
	}
	// ---- post-state = transformation of the observed pre-state
	if postWhy != "" {
		v.fail(sigHead+" kind="+postKind, fmt.Sprintf("%s leaves %s; %s", where, entriesString(o.post), postWhy))
	}
	// ---- lookups on the post-state: value last stored under an equivalent key
	for _, q := range o.probeKey {
		pr := o.probes[q]
		ph := fmt.Sprintf("table test=%s op=gethash key=%s", o.test, fine(q))
		pwhere := fmt.Sprintf("on a (make-hash-table :test '%s) holding %s, (gethash %s h)", o.test, entriesString(o.post), keySrc(q))
		if pr.bad.v == -1 {
			v.fail(ph+" result="+pr.bad.why, pwhere+" => "+pr.bad.msg)
			continue
		}
		ok := false
		var primWhy, primKind string
		for i, e := range accept {
			pm, _ := e.norm(o.post)
			es := pm[e.cls(q)]
			why, kind := "", ""
			switch {
			case len(es) == 0 && pr.found:
				why, kind = "no equivalent key is stored; expected nil, nil", "found-without-equivalent-key"
			case 0 < len(es) && !pr.found:
				es = preferSameType(es, fine(q), fine)
				why = fmt.Sprintf("the equivalent key %s [%s] is stored (%s says so); expected its value %s, t", keySrc(es[0].key), fine(es[0].key), e.name, es[0].val)
				kind = "equivalent-key-not-found stored=" + storedClass(fine(q), fine(es[0].key))
			case 0 < len(es):
				match := false
				for _, en := range es {
					match = match || en.val == pr.val
				}
				if !match {
					why, kind = "expected the value "+es[0].val, "wrong-value"
				}
			}
			if why == "" {
				ok = true
				break
			}
			if i == 0 {
				primWhy, primKind = why, kind
			}
		}
		if i := prim.cls(q); true {
			pm, _ := prim.norm(o.post)
			for _, en := range pm[i] {
				if en.key != q {
					v.hits = append(v.hits, "table-lookup-via-equivalent-key")
					break
				}
			}
		}
		if !ok {
			v.fail(ph+" kind="+primKind, fmt.Sprintf("%s => %s, %v; %s", pwhere, pr.val, pr.found, primWhy))
		}
	}
	// ---- count and maphash against the contents
	if o.countBad.v == -1 {
		v.fail(fmt.Sprintf("table test=%s op=hash-table-count result=%s", o.test, o.countBad.why), o.countBad.msg)
	} else if o.count != len(o.post) {
		v.fail(fmt.Sprintf("table test=%s op=hash-table-count kind=differs-from-contents", o.test),
			fmt.Sprintf("table holds %s but hash-table-count => %d", entriesString(o.post), o.count))
	}
	if o.visitBad.v == -1 {
		v.fail(fmt.Sprintf("table test=%s op=maphash result=%s", o.test, o.visitBad.why), o.visitBad.msg)
	} else if !sameEntries(o.visited, o.post) {
		v.fail(fmt.Sprintf("table test=%s op=maphash kind=visits-differ-from-contents", o.test),
			fmt.Sprintf("table holds %s but maphash visited %s", entriesString(o.post), entriesString(o.visited)))
	}
	v.outcome = o.opResult + " " + entriesString(o.post)
	if 0 < len(o.post) {
		v.nontrivial = true
	}
	return
}

// postStateProblem: "" when the post-state is the right transformation of the pre-state under e.
func postStateProblem(e *equiv, o *tableObs, parts []string, fine func(string) string) (why, kind string) {
	pre, _ := e.norm(o.pre)
	post, _ := e.norm(o.post)
	// S3: a class that already holds two equivalent keys in the observed pre-state (reported at the step that
	// made it so) is left alone; everything else is demanded.
	skip := map[int]bool{}
	want := map[int]string{}
	for c, es := range pre {
		if 1 < len(es) {
			skip[c] = true
		} else {
			want[c] = es[0].val
		}
	}
	kind = "wrong-post-state"
	switch parts[0] {
	case "set":
		c := e.cls(parts[1])
		if es := preferSameType(pre[c], fine(parts[1]), fine); 0 < len(es) && 1 < len(post[c]) {
			kind = "store-duplicates-equivalent-key stored=" + storedClass(fine(parts[1]), fine(es[0].key))
		}
		if !skip[c] {
			want[c] = parts[2]
		}
	case "rem":
		c := e.cls(parts[1])
		if es := preferSameType(pre[c], fine(parts[1]), fine); 0 < len(es) && 0 < len(post[c]) {
			kind = "equivalent-key-not-removed stored=" + storedClass(fine(parts[1]), fine(es[0].key))
		}
		delete(want, c)
	case "clr":
		want = map[int]string{}
		skip = map[int]bool{}
		kind = "not-empty-after-clrhash"
	}
	var diffs []string
	for c, es := range post {
		if 1 < len(es) && !skip[c] {
			diffs = append(diffs, fmt.Sprintf("the keys %s and %s, which are equivalent (%s), are both stored, so the count is not the number of distinct keys", es[0].key, es[1].key, e.name))
		}
	}
	for c, w := range want {
		es := post[c]
		switch {
		case len(es) == 0:
			diffs = append(diffs, fmt.Sprintf("an entry with value %s is missing", w))
		case len(es) == 1 && es[0].val != w:
			diffs = append(diffs, fmt.Sprintf("key %s has value %s, expected %s", es[0].key, es[0].val, w))
		}
	}
	for c, es := range post {
		if _, has := want[c]; !has && !skip[c] {
			diffs = append(diffs, fmt.Sprintf("unexpected entry %s=>%s", es[0].key, es[0].val))
		}
	}
	if len(diffs) == 0 {
		return "", ""
	}
	sort.Strings(diffs)
	return strings.Join(diffs, "; "), kind
}

// storedClass relates the representation of the stored equivalent key to that of the key used: one
// signature per defect class (same representation, different object / another numeric representation).
func storedClass(keyFine, storedFine string) string {
	switch {
	case keyFine == storedFine:
		return "same-type"
	case isNumberKind(kindOf(keyFine)) && isNumberKind(kindOf(storedFine)):
		return "other-number-type"
	}
	return storedFine
}

func preferSameType(es []entry, keyFine string, fine func(string) string) []entry {
	for i, e := range es {
		if fine(e.key) == keyFine {
			return append([]entry{e}, append(append([]entry(nil), es[:i]...), es[i+1:]...)...)
		}
	}
	return es
}

func keySrc(k string) string {
	if e := elemByName[k]; e != nil {
		return e.src
	}
	return k
}

func describeOp(op string) string {
	parts := strings.Split(op, ":")
	switch parts[0] {
	case "set":
		v := "'" + parts[2]
		if parts[2] == "nil" {
			v = "nil"
		}
		return fmt.Sprintf("(setf (gethash %s h) %s)", keySrc(parts[1]), v)
	case "rem":
		return fmt.Sprintf("(remhash %s h)", keySrc(parts[1]))
	}
	return "(clrhash h)"
}

// ---------------------------------------------------------------- real table

// The key objects are immutable for every operation of the alphabet, so one
// set per process is shared by all cases (needed: the equivalence classes are
// measured on exactly the objects that are used as keys).
var (
	keyOnce  sync.Once
	keyObjs  map[string]slip.Object
	keyFine  map[string]string
	keyErr   string
	eqvMu    sync.Mutex
	predMemo = map[string]bool{}
	eqvMemo  = map[string]map[string]*equiv{}
)

// keyPred: slip's own predicate on two key objects (in either order); a predicate that does not answer counts as nil.
func keyPred(test, a, b string) bool {
	id := test + "|" + a + "|" + b
	if v, has := predMemo[id]; has {
		return v
	}
	sys := &realRel{objs: keyObjs}
	v := sys.pred(test, a, b).v == 1 || sys.pred(test, b, a).v == 1
	predMemo[id] = v
	return v
}

// equivsOver measures, for each table test, the classes of slip's own predicate on the key objects `names` (every key
// that can be stored or looked up in the case at hand): union-find over "the predicate says t".
func equivsOver(names []string) map[string]*equiv {
	eqvMu.Lock()
	defer eqvMu.Unlock()
	id := strings.Join(names, ",")
	if m, has := eqvMemo[id]; has {
		return m
	}
	m := map[string]*equiv{}
	for _, t := range tableTests {
		parent := map[string]string{}
		var find func(string) string
		find = func(a string) string {
			if parent[a] == "" || parent[a] == a {
				return a
			}
			r := find(parent[a])
			parent[a] = r
			return r
		}
		for i, a := range names {
			for _, b := range names[i+1:] {
				if keyPred(t, a, b) {
					parent[find(b)] = find(a)
				}
			}
		}
		eq := &equiv{name: "slip's " + t, class: map[string]int{}}
		ids := map[string]int{}
		for _, a := range names {
			r := find(a)
			if _, has := ids[r]; !has {
				ids[r] = len(ids)
			}
			eq.class[a] = ids[r]
		}
		m[t] = eq
	}
	eqvMemo[id] = m
	return m
}

// every key object of any table family: the BFS alphabets of both tiers, the representation alphabets (mode rep) and
// the alphabet and bystanders of the pair family
var allKeys = func() (ks []string) {
	seen := map[string]bool{}
	for _, set := range [][]string{fullKeysThorough, repKeysThorough, repKeysQuick, pairKeys, pairBystanders} {
		for _, k := range set {
			if !seen[k] {
				seen[k] = true
				ks = append(ks, k)
			}
		}
	}
	return
}()

var keyVarOf = func() map[string]string {
	m := map[string]string{}
	for i, n := range allKeys {
		m[n] = fmt.Sprintf("k%d_", i)
	}
	return m
}()

func allTableKeys() []string { return allKeys }

func keySetup() {
	keyOnce.Do(func() {
		keyObjs = map[string]slip.Object{}
		keyFine = map[string]string{}
		names := allTableKeys()
		for _, n := range names {
			e := elemByName[n]
			if e == nil {
				keyErr = "unknown key element " + n
				return
			}
			o, err := e.build()
			if err != nil {
				keyErr = n + ": " + err.String()
				return
			}
			keyObjs[n] = o
			keyFine[n] = fineKind(o)
		}
	})
}

// keyVar: slip variable names are case-insensitive, element names are not.
func keyVar(name string) string {
	if v, has := keyVarOf[name]; has {
		return v
	}
	return "k_unknown_"
}

func goSame(a, b slip.Object) (same bool) {
	defer func() {
		if recover() != nil {
			same = false
		}
	}()
	switch fa := a.(type) {
	case slip.DoubleFloat:
		if fb, ok := b.(slip.DoubleFloat); ok {
			if math.IsNaN(float64(fa)) && math.IsNaN(float64(fb)) {
				return true // a NaN key is recognised as the NaN of the alphabet (Go's == never holds on it)
			}
			return math.Float64bits(float64(fa)) == math.Float64bits(float64(fb)) // 0.0 and -0.0 are told apart
		}
		return false
	case slip.SingleFloat:
		if fb, ok := b.(slip.SingleFloat); ok {
			return math.Float32bits(float32(fa)) == math.Float32bits(float32(fb))
		}
		return false
	}
	return a == b
}

func keyName(o slip.Object) string {
	for _, n := range allTableKeys() {
		if goSame(keyObjs[n], o) {
			return n
		}
	}
	// a key object the table made up itself (say, the double of a single-float it was given): it takes part in the
	// classes like any other key, measured with slip's own predicate
	name := "?" + lisp.Show(o)
	eqvMu.Lock()
	if _, has := keyObjs[name]; !has {
		keyObjs[name] = o
		keyFine[name] = fineKind(o)
	}
	eqvMu.Unlock()
	return name
}

func valName(o slip.Object) string {
	return lisp.Show(o)
}

type realTable struct {
	scope *slip.Scope
}

func newRealTable(test string) (*realTable, *lisp.Err) {
	keySetup()
	t := &realTable{scope: slip.NewScope()}
	for n, v := range keyVarOf {
		t.scope.Let(slip.Symbol(v), keyObjs[n])
	}
	h, err := lisp.EvalIn(t.scope, "(make-hash-table :test '"+test+")")
	if err != nil {
		return nil, err
	}
	t.scope.Let("h_", h)
	return t, nil
}

func (t *realTable) apply(op string) (string, tri) {
	parts := strings.Split(op, ":")
	var src string
	switch parts[0] {
	case "set":
		v := "'" + parts[2]
		if parts[2] == "nil" {
			v = "nil"
		}
		src = "(setf (gethash " + keyVar(parts[1]) + " h_) " + v + ")"
	case "rem":
		src = "(remhash " + keyVar(parts[1]) + " h_)"
	case "clr":
		src = "(progn (clrhash h_) nil)"
	}
	val, err := lisp.EvalIn(t.scope, src)
	if err != nil {
		return "", errTri(err)
	}
	return lisp.Show(val), tri{v: 1}
}

func (t *realTable) entries() []entry {
	h, _ := t.scope.Get("h_").(slip.HashTable)
	var es []entry
	for k, v := range h {
		es = append(es, entry{keyName(k), valName(v)})
	}
	sort.Slice(es, func(i, j int) bool { return es[i].key+"\x00"+es[i].val < es[j].key+"\x00"+es[j].val })
	return es
}

func (t *realTable) probe(k string) probeRes {
	val, err := lisp.EvalIn(t.scope, "(gethash "+keyVar(k)+" h_)")
	if err != nil {
		return probeRes{bad: errTri(err)}
	}
	vs, ok := val.(slip.Values)
	if !ok || len(vs) != 2 {
		return probeRes{bad: tri{v: -1, why: "not-two-values", msg: lisp.Show(val)}}
	}
	return probeRes{val: valName(vs[0]), found: lisp.Truthy(vs[1]), bad: tri{v: 1}}
}

func (t *realTable) count() (int, tri) {
	val, err := lisp.EvalIn(t.scope, "(hash-table-count h_)")
	if err != nil {
		return 0, errTri(err)
	}
	n, ok := val.(slip.Fixnum)
	if !ok {
		return 0, tri{v: -1, why: "not-a-fixnum", msg: lisp.Show(val)}
	}
	return int(n), tri{v: 1}
}

func (t *realTable) visit() ([]entry, tri) {
	val, err := lisp.EvalIn(t.scope, "(let ((ks_ nil) (vs_ nil)) (maphash (lambda (k v) (setq ks_ (cons k ks_)) (setq vs_ (cons v vs_))) h_) (list ks_ vs_))")
	if err != nil {
		return nil, errTri(err)
	}
	l, ok := val.(slip.List)
	if !ok || len(l) != 2 {
		return nil, tri{v: -1, why: "bad-collection", msg: lisp.Show(val)}
	}
	ks, _ := l[0].(slip.List)
	vs, _ := l[1].(slip.List)
	if len(ks) != len(vs) {
		return nil, tri{v: -1, why: "bad-collection", msg: lisp.Show(val)}
	}
	var es []entry
	for i := range ks {
		es = append(es, entry{keyName(ks[i]), valName(vs[i])})
	}
	return es, tri{v: 1}
}

// tableImpl is what a history is replayed on: the real slip table or a model (self-test).
type tableImpl interface {
	apply(op string) (string, tri)
	entries() []entry
	probe(k string) probeRes
	count() (int, tri)
	visit() ([]entry, tri)
}

// observeStep replays nothing: it applies `op` to impl and gathers the observation.
func observeStep(impl tableImpl, test, op string, probeKeys []string) *tableObs {
	o := &tableObs{test: test, op: op, pre: impl.entries(), probes: map[string]probeRes{}, probeKey: probeKeys}
	o.opResult, o.opBad = impl.apply(op)
	o.post = impl.entries()
	if o.opBad.v == -1 {
		return o
	}
	for _, q := range probeKeys {
		o.probes[q] = impl.probe(q)
	}
	o.count, o.countBad = impl.count()
	o.visited, o.visitBad = impl.visit()
	return o
}

// stepEquivs: the classes for one observed step, measured on the keys of the alphabet at hand AND on every key object
// the table is seen to hold (a table may keep another object than the one it was given: a number with a fixnum value
// is kept as that fixnum).
func stepEquivs(o *tableObs, keys []string) map[string]*equiv {
	seen := map[string]bool{}
	var names []string
	add := func(k string) {
		if _, isKey := keyObjs[k]; isKey && !seen[k] {
			seen[k] = true
			names = append(names, k)
		}
	}
	for _, k := range keys {
		add(k)
	}
	for _, es := range [][]entry{o.pre, o.post, o.visited} {
		for _, e := range es {
			add(e.key)
		}
	}
	return equivsOver(names)
}

func acceptFor(test string, eqv map[string]*equiv) []*equiv {
	// make-hash-table documents ":test ... Ignored and eql always used": the primary model is slip's own eql;
	// a table that honours the requested test is accepted as well (S2).
	acc := []*equiv{eqv["eql"]}
	if test != "eql" {
		acc = append(acc, eqv[test])
	}
	return acc
}

// ---------------------------------------------------------------- BFS exec

func execBFS(hist []string) (res engine.Result) {
	if len(hist) == 0 {
		res.Key = "root"
		res.Enabled = nil // filled by the caller (tier dependent)
		return
	}
	first := strings.Split(hist[0], ":")
	if len(first) < 3 || first[0] != "new" {
		return // not applicable: a table operation without a table
	}
	mode, test := first[1], first[2]
	tier := engine.Quick
	if len(first) == 4 && first[3] == "T" {
		tier = engine.Thorough
	}
	if mode != "full" && mode != "sub" && mode != "rep" {
		return
	}
	keys := modeKeys(mode, tier)
	last := hist[len(hist)-1]
	if last == "stop" || strings.HasPrefix(last, "new:") && 1 < len(hist) {
		return
	}
	keySetup()
	if keyErr != "" {
		res.Fail("harness:cannot-build-key", keyErr)
		return
	}
	tab, err := newRealTable(test)
	if err != nil {
		sig := "table test=" + test + " op=make-hash-table result=error:" + err.Class
		if err.GoFault {
			sig = "table test=" + test + " op=make-hash-table result=go-fault"
		}
		res.Fail(sig, "(make-hash-table :test '"+test+") => "+err.String())
		return
	}
	allowed := map[string]bool{}
	for _, op := range opsFor(keys) {
		allowed[op] = true
	}
	if 1 < len(hist) {
		for _, op := range hist[1:] {
			if !allowed[op] {
				return // not applicable in this mode
			}
		}
		for _, op := range hist[1 : len(hist)-1] {
			if _, bad := tab.apply(op); bad.v == -1 {
				return // the prefix already faulted (reported there)
			}
		}
		o := observeStep(tab, test, last, keys)
		v := checkStep(o, acceptFor(test, stepEquivs(o, keys)), func(k string) string {
			if f, has := keyFine[k]; has {
				return f
			}
			return "unknown"
		})
		v.into(&res)
		if mode == "rep" {
			for _, h := range v.hits {
				if strings.HasSuffix(h, "-via-equivalent-key") {
					res.Hit("rep-mode-" + h)
				}
			}
		}
		if o.opBad.v == -1 {
			return // no successor state
		}
	} else {
		res.Outcome = "new " + test
	}
	res.Key = mode + "|" + tier + "|" + test + "|" + entriesString(tab.entries())
	if mode == "full" && fullDepth(tier) <= len(hist)-1 {
		res.Enabled = []string{"stop"}
	} else {
		res.Enabled = opsFor(keys)
	}
	return
}
