package c04

import (
	"fmt"
	"io"
	"os"
	"regexp"
	"strconv"
	"strings"
	"sync"
	"sync/atomic"

	"github.com/ohler55/slip"

	"verif/engine"
	"verif/lisp"
)

// ---------------------------------------------------------------- documented range

// docRange is what a documented lambda list allows.
type docRange struct {
	req, opt   int
	rest       bool // &rest / &body (or a parameter written name*: "zero or more")
	keys       []*slip.DocArg
	restArg    *slip.DocArg
	pos        []*slip.DocArg // required then optional
	vague      bool           // the lambda list uses the BNF star (name*): counts are not pinned down, nothing is demanded
	allowOther bool           // &allow-other-keys is documented
}

type rangeMutation int

const (
	rmNone rangeMutation = iota
	rmOptionalIsRequired
	rmRestIgnored
	rmMaxOffByOne
)

func parseDoc(fd *slip.FuncDoc, m rangeMutation) *docRange {
	r := &docRange{}
	mode := "req"
	for _, a := range fd.Args {
		switch strings.ToLower(a.Name) {
		case slip.AmpOptional:
			mode = "opt"
			continue
		case slip.AmpRest, slip.AmpBody:
			mode = "rest"
			continue
		case slip.AmpKey:
			mode = "key"
			continue
		case slip.AmpAux:
			mode = "aux"
			continue
		case slip.AmpAllowOtherKeys:
			r.allowOther = true
			continue
		}
		if strings.HasSuffix(a.Name, "*") && mode != "key" {
			r.vague = true
		}
		switch mode {
		case "req":
			r.req++
			r.pos = append(r.pos, a)
		case "opt":
			if m == rmOptionalIsRequired {
				r.req++
			} else {
				r.opt++
			}
			r.pos = append(r.pos, a)
		case "rest":
			if m != rmRestIgnored {
				r.rest = true
			}
			if r.restArg == nil {
				r.restArg = a
			}
		case "key":
			r.keys = append(r.keys, a)
		}
	}
	if m == rmMaxOffByOne {
		r.opt++
	}
	return r
}

// counts returns the argument counts to try: in-range ones and out-of-range ones.
//   - below the minimum: 0..req-1
//   - in range: req..req+opt; with &rest two more; with &key (and no &rest) one more pair per declared key
//   - above the maximum (only when the list has neither &rest nor &key): max+1, max+2
func (r *docRange) counts() (in, out []int) {
	for n := 0; n < r.req; n++ {
		out = append(out, n)
	}
	for n := r.req; n <= r.req+r.opt; n++ {
		in = append(in, n)
	}
	top := r.req + r.opt
	switch {
	case r.rest:
		in = append(in, top+1, top+2)
	case 0 < len(r.keys):
		for j := range r.keys {
			in = append(in, top+2*(j+1))
		}
	default:
		out = append(out, top+1, top+2)
	}
	return
}

func (r *docRange) inRange(n int) bool {
	if n < r.req {
		return false
	}
	if r.rest || 0 < len(r.keys) {
		return true
	}
	return n <= r.req+r.opt
}

// ---------------------------------------------------------------- exclusions

// never called at all: even a call that ought to be rejected for its count could do damage or block if it is not
var skipAlways = map[string]string{
	"gi:send-signal":       "sends a signal to another process",
	"gi:clearenv":          "wipes the environment of the worker process",
	"gi:signal-wait":       "blocks until a signal arrives",
	"swank:create-server":  "opens a network listener",
	"swank:restart-server": "opens a network listener",
	"swank:setup-server":   "opens a network listener",
	"swank:start-server":   "opens a network listener and writes a port file",
	"swank:stop-server":    "network listener control",
	"swank:swank-server":   "opens a network listener and blocks",
	"swank:swank-stop":     "network listener control",
	"common-lisp:trace":    "switches global tracing on (output from every later evaluation)",
	"common-lisp:untrace":  "global tracing state",
}

// not called with a documented count (blocking / destructive / process-global side effects); still
// called with counts outside the documented range and inert arguments (0), where the count check must fire
var skipInRange = map[string]string{
	"common-lisp:sleep":                    "blocks",
	"common-lisp:loop":                     "(loop) without an exit never returns",
	"common-lisp:do":                       "can loop forever with an empty end test",
	"common-lisp:do*":                      "can loop forever with an empty end test",
	"common-lisp:y-or-n-p":                 "reads the terminal until it gets an answer",
	"common-lisp:yes-or-no-p":              "reads the terminal until it gets an answer",
	"common-lisp:delete-file":              "deletes files",
	"common-lisp:rename-file":              "renames files",
	"common-lisp:ensure-directories-exist": "creates directories",
	"common-lisp:open":                     "creates/truncates files",
	"common-lisp:with-open-file":           "creates/truncates files",
	"common-lisp:load":                     "evaluates a file",
	"common-lisp:require":                  "loads plugins / files",
	"common-lisp:dribble":                  "redirects the standard streams of the process to a file",
	"common-lisp:in-package":               "changes *package*",
	"common-lisp:delete-package":           "removes a package",
	"gi:snapshot":                          "dumps the whole image (to a file when given a string)",
	"gi:encrypt-file":                      "writes files",
	"gi:decrypt-file":                      "writes files",
	"gi:make-app":                          "writes files and runs the Go tool chain",
	"gi:run":                               "starts a goroutine",
	"gi:select":                            "blocks on channels",
	"gi:channel-pop":                       "blocks on an empty channel",
	"gi:channel-push":                      "blocks on a full channel",
	"gi:range":                             "blocks on a channel",
	"gi:read-push":                         "starts a reader goroutine feeding a channel",
	"gi:time-ticker":                       "starts a ticker goroutine",
	"gi:time-after":                        "starts a timer",
	"gi:setenv":                            "changes the process environment",
	"gi:unsetenv":                          "changes the process environment",
	"gi:lock-package":                      "locks a package",
	"gi:gc":                                "forces a garbage collection (slow)",
	"bag:load-bag":                         "reads a file",
	"net:make-socket":                      "creates OS sockets",
	"net:socket-pair":                      "creates OS sockets",
	"net:get-host-by-name":                 "DNS lookup (network, may block)",
	"net:get-host-by-address":              "DNS lookup (network, may block)",
	"net:graphql-query":                    "HTTP request (network, may block)",
	"test:benchmark":                       "runs a timed loop",
}

// defensive: process-control names that do not exist in the pinned tree but would end or fork the worker
var dangerousName = regexp.MustCompile(`^(exit|quit|bye|halt|kill|shutdown|reboot|fork|exec|spawn|daemon|shell|system)($|-)`)

func neverCall(id, name string) bool {
	if _, skip := skipAlways[id]; skip {
		return true
	}
	return dangerousName.MatchString(name)
}

// ---------------------------------------------------------------- enumeration

func enumerateB(tier string, emit func(string)) {
	for _, fn := range allFuncs() {
		id := fn.pkg + ":" + fn.name
		if neverCall(id, fn.name) {
			continue
		}
		r := parseDoc(fn.fi.Doc, rmNone)
		if r.vague {
			continue
		}
		in, out := r.counts()
		_, noIn := skipInRange[id]
		all := append([]int(nil), out...)
		if !noIn {
			all = append(all, in...)
		}
		for _, n := range all {
			emit("B|" + fn.pkg + "|" + fn.name + "|" + strconv.Itoa(n))
		}
	}
}

// ---------------------------------------------------------------- values by documented type

var caseCounter int64

type valueCtx struct {
	sym     string // unique symbol of this case
	pkg     string // name of the scratch package of this case
	listLen int    // 3 (default), 2 or 1: length of every list-typed argument (re-check of in-range arity errors)
}

func (vc *valueCtx) list(evaluated bool) string {
	switch {
	case vc.listLen == 2 && evaluated:
		return "(list 1 2)"
	case vc.listLen == 2:
		return "(" + vc.sym + "v 7)"
	case vc.listLen == 1 && evaluated:
		return "(list 1)"
	case vc.listLen == 1:
		return "(" + vc.sym + "v)"
	case evaluated:
		return "(list 1 2 3)"
	}
	return "(1 2 3)"
}

// valueFor returns a Lisp expression for an argument of the documented type; quoted tells whether the
// argument position is evaluated (true: build the value with an expression) or taken literally.
func valueFor(typ string, evaluated bool, vc *valueCtx) string {
	t := strings.ToLower(strings.TrimSpace(typ))
	if strings.HasPrefix(t, "symbol|lambda") || t == "symbol|function" {
		t = "function"
	}
	if i := strings.IndexAny(t, "|"); 0 < i {
		t = strings.TrimSpace(t[:i])
	}
	q := func(ev, lit string) string {
		if evaluated {
			return ev
		}
		return lit
	}
	switch t {
	case "fixnum", "integer", "number", "real", "rational", "fixnum or nil", "octet", "unsigned-byte", "byte":
		return "1"
	case "float":
		return "1.5"
	case "string", "pathname", "filepath":
		return `"/verif/.build/scratch/C04/none/zz"`
	case "list", "cons", "sequence", "sequemce", "list of strings", "list of packages", "lambda-list", "list placer":
		return vc.list(evaluated)
	case "association list":
		return q("(list (cons 1 2))", "((1 . 2))")
	case "property list":
		return q("(list 'a 1)", "(a 1)")
	case "symbol", "function-name", "symbol or list":
		return q("'"+vc.sym, vc.sym)
	case "function", "function-designator", "lambda", "symbol|lambda", "symbol|function", "symbol|lambda|channel":
		return q("'list", "list")
	case "boolean", "t":
		return "t"
	case "character":
		return `#\a`
	case "keyword":
		return ":c04k"
	case "bit-array", "simple-bit-array":
		return "#*1010"
	case "array":
		return q("(make-array (list 2 2))", "#2A((1 2) (3 4))")
	case "vector", "simple-vector":
		return q("(vector 1 2 3)", "#(1 2 3)")
	case "hash-table":
		return q("(make-hash-table)", "7")
	case "output-stream", "stream", "string-output-stream":
		return q("(make-string-output-stream)", "7")
	case "input-stream":
		return q(`(make-string-input-stream "1 2 3")`, "7")
	case "two-way-stream":
		return q(`(make-two-way-stream (make-string-input-stream "1 2 3") (make-string-output-stream))`, "7")
	case "echo-stream":
		return q(`(make-echo-stream (make-string-input-stream "1 2 3") (make-string-output-stream))`, "7")
	case "broadcast-stream":
		return q("(make-broadcast-stream)", "7")
	case "concatenated-stream":
		return q("(make-concatenated-stream)", "7")
	case "synonym-stream":
		return q("(make-synonym-stream '*standard-output*)", "7")
	case "package", "package designator":
		return q(`(find-package "`+vc.pkg+`")`, vc.pkg)
	case "form", "statement", "for":
		return "(list 1)"
	case "place", "placer":
		return "c04place"
	case "bag":
		return q(`(bag:make-bag "{a:1}")`, "7")
	case "time":
		return q("(gi:make-time 2024 1 2)", "7")
	case "octets":
		return q(`(gi:string-to-octets "abc")`, "7")
	case "instance", "standard-object":
		return q("(make-instance 'vanilla-flavor)", "7")
	case "class", "class designator":
		return q("(find-class 'fixnum)", "fixnum")
	case "flavor":
		return q("(find-flavor 'vanilla-flavor)", "vanilla-flavor")
	case "uuid":
		return q("(gi:make-uuid)", "7")
	case "random-state":
		return q("(make-random-state)", "7")
	case "mutex":
		return q("(gi:make-mutex)", "7")
	case "type specifier":
		return q("'fixnum", "fixnum")
	case "type-error", "cell-error", "arithmetic-error", "file-error", "package-error", "stream-error",
		"simple-condition", "print-not-readable", "unbound-slot", "invalid-method-error":
		return q("(make-condition '"+t+")", "7")
	}
	return "7"
}

// ---------------------------------------------------------------- execution

var arityRe = regexp.MustCompile(`(?i)too (few|many) arguments|wrong number of arguments`)

var (
	streamsOnce sync.Once
)

// quietStreams points slip's process-wide standard streams away from the worker's stdout (which carries
// the engine's protocol) and stdin. Idempotent configuration, done before the first Part B case.
func quietStreams() {
	streamsOnce.Do(func() {
		slip.StandardOutput = &slip.OutputStream{Writer: io.Discard}
		slip.ErrorOutput = &slip.OutputStream{Writer: io.Discard}
		slip.TraceOutput = &slip.OutputStream{Writer: io.Discard}
		slip.StandardInput = slip.NewInputStream(strings.NewReader(""))
	})
}

func skipper(fi *slip.FuncInfo) func(i int) bool {
	defer func() { _ = recover() }()
	if f, ok := fi.Create(nil).(interface{ SkipArgEval(int) bool }); ok {
		return f.SkipArgEval
	}
	return func(int) bool { return false }
}

func findFunc(pkg, name string) *fnEntry {
	for _, fn := range allFuncs() {
		if fn.pkg == pkg && fn.name == name {
			return fn
		}
	}
	return nil
}

// setupB: fresh scratch package as *package*, fresh symbol, fresh scope with private standard streams.
func setupB() (scope *slip.Scope, vc *valueCtx, cleanup func()) {
	quietStreams()
	k := atomic.AddInt64(&caseCounter, 1)
	vc = &valueCtx{sym: "c04s" + strconv.FormatInt(k, 10), pkg: "c04p" + strconv.FormatInt(k, 10)}
	scratch := slip.DefPackage(vc.pkg, nil, "C04 scratch package")
	for _, u := range slip.UserPkg.Uses {
		scratch.Use(u)
	}
	scratch.Use(&slip.UserPkg) // condition classes are registered there
	saved := slip.CurrentPackage
	slip.CurrentPackage = scratch
	cleanup = func() {
		slip.CurrentPackage = saved
		defer func() { _ = recover() }()
		scratch.Locked = false
		slip.RemovePackage(scratch)
	}
	scope = slip.NewScope()
	scope.Let(slip.Symbol("*standard-input*"), slip.NewInputStream(strings.NewReader("1 2 3\n4 5 6\n")))
	scope.Let(slip.Symbol("*standard-output*"), &slip.OutputStream{Writer: io.Discard})
	scope.Let(slip.Symbol("*error-output*"), &slip.OutputStream{Writer: io.Discard})
	scope.Let(slip.Symbol("*trace-output*"), &slip.OutputStream{Writer: io.Discard})
	resetPlace(scope)
	return
}

func resetPlace(scope *slip.Scope) {
	scope.Let(slip.Symbol("c04place"), slip.List{slip.Fixnum(1), slip.Fixnum(2), slip.Fixnum(3)})
}

func execB(spec string) (res engine.Result) {
	f := strings.Split(spec, "|")
	if len(f) != 4 {
		res.Fail("harness:bad-spec", spec)
		return
	}
	n, _ := strconv.Atoi(f[3])
	fn := findFunc(f[1], f[2])
	if fn == nil {
		res.Fail("harness:unknown-function", spec)
		return
	}
	id := fn.pkg + ":" + fn.name
	if neverCall(id, fn.name) {
		res.Outcome = "skipped"
		return
	}
	r := parseDoc(fn.fi.Doc, rmNone)
	in := r.inRange(n)
	_, inert := skipInRange[id]
	if in && inert {
		res.Outcome = "skipped"
		return
	}
	quietStreams()

	scope, vc, cleanup := setupB()
	defer cleanup()

	// build the call
	skip := skipper(fn.fi)
	build := func() string {
		var args []string
		for i := 0; i < n; i++ {
			ev := !skip(i)
			switch {
			case inert:
				args = append(args, "0")
			case i < len(r.pos):
				args = append(args, valueFor(r.pos[i].Type, ev, vc))
			case r.rest && r.restArg != nil:
				args = append(args, valueFor(r.restArg.Type, ev, vc))
			case 0 < len(r.keys) && in:
				j := i - len(r.pos)
				ka := r.keys[j/2]
				if j%2 == 0 {
					args = append(args, ":"+strings.TrimPrefix(ka.Name, ":"))
				} else {
					args = append(args, valueFor(ka.Type, ev, vc))
				}
			default:
				args = append(args, "7")
			}
		}
		sep := ":"
		if !fn.fi.Export {
			sep = "::"
		}
		src := "(" + fn.pkg + sep + fn.name
		if 0 < len(args) {
			src += " " + strings.Join(args, " ")
		}
		return src + ")"
	}
	vc.listLen = 3
	src := build()

	val, err := lisp.EvalIn(scope, src)

	res.Nontrivial = !in || 0 < r.opt || r.rest || 0 < len(r.keys)
	var class string
	switch {
	case err == nil:
		class = "value"
	case arityRe.MatchString(err.Message):
		class = "arity-error"
	case err.GoFault:
		class = "go-fault"
	default:
		class = "error:" + err.Class
	}
	res.Outcome = class
	if debugB {
		res.Outcome = class + " <= " + src + " => " + fmt.Sprint(err)
	}
	doc := docText(fn.fi.Doc)
	got := func() string {
		if err != nil {
			return "error " + err.String()
		}
		v := lisp.Show(val)
		if 120 < len(v) {
			v = v[:120] + "..."
		}
		return "value " + v
	}
	// an in-range arity error is blamed on the call's argument count only if it persists whatever the
	// length of the list-valued arguments is
	arityPersists := func() bool {
		for _, l := range []int{2, 1} {
			vc.listLen = l
			alt := build()
			if alt == src {
				continue
			}
			_, aerr := lisp.EvalIn(scope, alt)
			if aerr == nil || !arityRe.MatchString(aerr.Message) {
				return false
			}
		}
		return true
	}
	mentionsSelf := err != nil && strings.Contains(strings.ToLower(err.Message), strings.ToLower(fn.name))
	switch {
	case in:
		res.Hit("B:in-range")
		if 0 < len(r.keys) && r.req+r.opt < n {
			res.Hit("B:in-range-with-keys")
		}
		if r.req < n && n <= r.req+r.opt {
			res.Hit("B:in-range-optional-supplied")
		}
		switch {
		case class == "arity-error" && mentionsSelf && !arityPersists():
			// the complaint was about the length of a list-valued argument (e.g. the (var value) list of a with- macro), not about the call
			res.Hit("B:in-range-arity-error-about-a-list-argument")
		case class == "arity-error" && mentionsSelf:
			res.Fail(fmt.Sprintf("B fn=%s n=%d kind=documented-count-rejected", id, n),
				fmt.Sprintf("%s => %s; documented lambda list %s allows %d argument(s)", src, got(), doc, n))
		case class == "arity-error":
			res.Hit("B:in-range-arity-error-of-another-function")
		case class == "go-fault" && indexFaultAtCount(err.Message, n):
			res.Hit("B:in-range-index-fault-at-count")
			res.Fail(fmt.Sprintf("B fn=%s n=%d kind=documented-count-faults-on-missing-argument", id, n),
				fmt.Sprintf("%s => %s; documented lambda list %s allows %d argument(s), the function indexes an argument that is not there", src, got(), doc, n))
		}
	case n < r.req:
		res.Hit("B:below-min")
		switch class {
		case "value":
			res.Fail(fmt.Sprintf("B fn=%s n=%d kind=undocumented-count-accepted:below-min", id, n),
				fmt.Sprintf("%s => %s; documented lambda list %s requires at least %d argument(s)", src, got(), doc, r.req))
		case "arity-error":
			res.Hit("B:out-of-range-arity-error")
		default:
			res.Hit("B:out-of-range-inconclusive")
		}
	default:
		res.Hit("B:above-max")
		switch class {
		case "value":
			res.Fail(fmt.Sprintf("B fn=%s n=%d kind=undocumented-count-accepted:above-max", id, n),
				fmt.Sprintf("%s => %s; documented lambda list %s allows at most %d argument(s)", src, got(), doc, r.req+r.opt))
		case "arity-error":
			res.Hit("B:out-of-range-arity-error")
		default:
			res.Hit("B:out-of-range-inconclusive")
		}
	}
	return
}

var debugB = os.Getenv("C04_DEBUG") != "" // dev aid: show the call and the raw error in the outcome

var indexFaultRe = regexp.MustCompile(`index out of range \[(\d+)\] with length (\d+)`)

// indexFaultAtCount: a Go index fault whose slice length equals the number of arguments passed and
// whose index is the first missing argument or beyond: the function reads an argument that was not supplied.
func indexFaultAtCount(msg string, n int) bool {
	m := indexFaultRe.FindStringSubmatch(msg)
	if m == nil {
		return false
	}
	idx, _ := strconv.Atoi(m[1])
	l, _ := strconv.Atoi(m[2])
	return l == n && n <= idx
}

func docText(fd *slip.FuncDoc) string {
	var p []string
	for _, a := range fd.Args {
		p = append(p, a.Name)
	}
	return "(" + strings.Join(p, " ") + ")"
}
