package main

import "fmt"

func rewriteSched(repo, out string, replace map[string]string) ([]string, error) {
	return nil, fmt.Errorf("sched engine not implemented yet")
}
