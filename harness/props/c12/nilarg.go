package c12

// nilarg.go: an initarg that is supplied with the value nil is a supplied initarg ("make-instance fills each slot
// from the matching initarg if supplied, otherwise from the most specific initform"). A small hand-written family:
// the model of the main families encodes values as integers and reserves nil for ":initform nil".
//
// spec: nilarg|<k>

import (
	"fmt"
	"os"
	"strings"
	"sync/atomic"

	"verif/engine"
	"verif/lisp"
)

var nilargCases = []struct{ name, defs, probe, want string }{
	{"own-initform", "(defclass @a () ((s :initarg :s :initform 5)))", "(slot-value (make-instance '@a :s nil) 's)", "nil"},
	{"own-initform-accessor", "(defclass @a () ((s :initarg :s :initform 5 :accessor @a-s)))", "(@a-s (make-instance '@a :s nil))", "nil"},
	{"inherited-slot", "(defclass @a () ((s :initarg :s :initform 5))) (defclass @b (@a) ())", "(slot-value (make-instance '@b :s nil) 's)", "nil"},
	{"shadowing-initform", "(defclass @a () ((s :initarg :s :initform 5))) (defclass @b (@a) ((s :initform 6)))", "(slot-value (make-instance '@b :s nil) 's)", "nil"},
	{"superclass-defined-later", "(defclass @b (@a) ((s :initform 6))) (defclass @a () ((s :initarg :s :initform 5)))", "(slot-value (make-instance '@b :s nil) 's)", "nil"},
	{"two-slots-one-nil", "(defclass @a () ((s :initarg :s :initform 5) (u :initarg :u :initform 7)))",
		"(let ((i (make-instance '@a :s nil))) (list (slot-value i 's) (slot-value i 'u)))", "(nil 7)"},
	{"default-initargs", "(defclass @a () ((s :initarg :s :initform 5)) (:default-initargs :s 8))", "(slot-value (make-instance '@a :s nil) 's)", "nil"},
	{"shared-initarg", "(defclass @a () ((s :initarg :k :initform 1) (u :initarg :k :initform 2)))",
		"(let ((i (make-instance '@a :k nil))) (list (slot-value i 's) (slot-value i 'u)))", "(nil nil)"},
	{"no-initform-stays-bound", "(defclass @a () ((s :initarg :s)))", "(slot-boundp (make-instance '@a :s nil) 's)", "t"},
	{"after-redefinition", "(defclass @a () ((s :initarg :s :initform 5))) (defclass @a () ((s :initarg :s :initform 9) (u :initform 1)))",
		"(slot-value (make-instance '@a :s nil) 's)", "nil"},
}

var nilargCtr int64

func enumNilarg(emit func(string)) {
	for i := range nilargCases {
		emit(fmt.Sprintf("nilarg|%d", i))
	}
}

func execNilarg(spec string) (res engine.Result) {
	var k int
	if _, err := fmt.Sscanf(spec, "nilarg|%d", &k); err != nil || k < 0 || len(nilargCases) <= k {
		res.Fail("harness:bad-spec", spec)
		return
	}
	c := nilargCases[k]
	tag := fmt.Sprintf("c12n%dx%d", os.Getpid(), atomic.AddInt64(&nilargCtr, 1))
	ren := func(s string) string { return strings.ReplaceAll(s, "@", tag) }
	res.Nontrivial = true
	res.Hit("explicit-nil-initarg")
	if _, err := lisp.Eval("(progn " + ren(c.defs) + ")"); err != nil {
		res.Fail("aspect=slot-init kind=nil-initarg case="+c.name+" got=definition-error:"+err.Class, ren(c.defs)+" => "+err.String())
		return
	}
	v, err := lisp.Eval(ren(c.probe))
	switch {
	case err != nil:
		res.Fail("aspect=slot-init kind=nil-initarg case="+c.name+" got=error:"+err.Class, ren(c.defs)+" "+ren(c.probe)+" => "+err.String())
	case lisp.Show(v) != c.want:
		res.Fail("aspect=slot-init kind=nil-initarg case="+c.name+" got=wrong-value",
			fmt.Sprintf("%s %s => %s; the initarg was supplied with nil, required %s", ren(c.defs), ren(c.probe), lisp.Show(v), c.want))
	}
	res.Outcome = lisp.Show(v)
	return
}
