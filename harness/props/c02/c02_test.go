package c02

import (
	"testing"
)

func TestSelftest(t *testing.T) {
	for _, tier := range []string{"quick"} {
		killed, total, notes := selftest(tier)
		for _, n := range notes {
			t.Log(n)
		}
		if killed != total {
			t.Fatalf("%s: killed %d of %d", tier, killed, total)
		}
	}
}

func TestSpeed(t *testing.T) {
	n := 0
	fails := 0
	enumerate("quick", func(spec string) {
		n++
		if n%20 != 0 {
			return
		}
		r := exec(spec)
		fails += len(r.Failures)
	})
	t.Logf("specs %d executed %d failures %d", n, n/20, fails)
}
