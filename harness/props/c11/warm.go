package c11

// warm.go: family "w" - WARM histories. A history is no longer "all defining forms, then the probes": probe(flavor) =
// (make-instance 'flavor) followed by a send of every message of the case is an OPERATION that may occur between any
// two defining forms, and the instances made by it are kept and sent the messages again at the end. The oracle is the
// one of the cold family: the observation at the end is the specification for the final definitions, it is the same
// for every order of the forms AND for every placement of the probes; an instance made before a definition sees the
// definition like a new instance does; an observation made at a prefix is the specification for the definitions of
// that prefix (a prefix of a history is a history).
//
// The same runner carries the other dimensions added in this round:
//   * two messages :m and :n whose definitions are interleaved (a cache keyed per flavor and invalidated per message,
//     or the other way round, is visible only then);
//   * a defmethod / defwhopper that REPLACES an existing method of the same kind (token suffix g; the last definition
//     is the method);
//   * the other spellings slip accepts for the same definitions ("door"): (defmethod (f :primary :m)),
//     (defmethod (f :whopper :m)), (defmethod (f :wrapper :m));
//   * defflavor options: :abstract-flavor and :no-vanilla-flavor on a component (no instance of that flavor is made,
//     everything built on it follows the specification), (:included-flavors g) (not covered by the statement:
//     order-independence and probe-placement-independence only), (:required-methods :m) (a defflavor that slip rejects
//     because the method does not exist yet ends that history: recorded, the histories slip accepts are judged).
//
// spec: w|<dag>|<defs>|<order mode: all|el>|<probe modes: subset of c h 1 2 s>|<options k=v,...>
//   defs    <flavor><kind p|b|a|w>[n][g] joined by "."   (n = for message :n, g = replacement of the same definition)
//   probes  c = no probe before the end (cold), h = every flavor after every form, 1 = every single (position, flavor),
//           2 = every pair of them, s = every subset of them
//   options msgs=2  flags=<per flavor - A N>  inc=<i>><j>  req=<j>  door=alt

import (
	"fmt"
	"sort"
	"strconv"
	"strings"

	"github.com/ohler55/slip"
	"github.com/ohler55/slip/pkg/flavors"

	"verif/engine"
	"verif/lisp"
)

var msgNames = []string{":m", ":n"}

type mdef struct {
	f    int
	kind byte // p b a w
	msg  int  // 0 = :m, 1 = :n
	gen  int  // 0 = first definition, 1 = replacement of it
}

func (d mdef) suffix() string {
	s := ""
	if d.msg == 1 {
		s += "n"
	}
	if d.gen == 1 {
		s += "g"
	}
	return s
}

func (d mdef) String() string { return strconv.Itoa(d.f) + string(d.kind) + d.suffix() }

func parseMdefs(s string) []mdef {
	if s == "-" || s == "" {
		return nil
	}
	var ds []mdef
	for _, p := range strings.Split(s, ".") {
		d := mdef{f: int(p[0] - '0'), kind: p[1]}
		for _, c := range p[2:] {
			switch c {
			case 'n':
				d.msg = 1
			case 'g':
				d.gen = 1
			}
		}
		ds = append(ds, d)
	}
	return ds
}

func mdefsString(ds []mdef) string {
	if len(ds) == 0 {
		return "-"
	}
	parts := make([]string, len(ds))
	for i, d := range ds {
		parts[i] = d.String()
	}
	return strings.Join(parts, ".")
}

type wcase struct {
	comps [][]int
	defs  []mdef
	mode  string
	pmode string
	nmsg  int
	flags []byte
	inc   [][]int
	req   []bool
	door  bool
	// derived
	anyInc bool
	anyReq bool
}

func parseWcase(parts []string) (c *wcase, ok bool) {
	if len(parts) != 6 {
		return nil, false
	}
	c = &wcase{comps: parseDag(parts[1]), defs: parseMdefs(parts[2]), mode: parts[3], pmode: parts[4], nmsg: 1}
	n := len(c.comps)
	c.flags = []byte(strings.Repeat("-", n))
	c.inc = make([][]int, n)
	c.req = make([]bool, n)
	if parts[5] != "" && parts[5] != "-" {
		for _, kv := range strings.Split(parts[5], ",") {
			p := strings.SplitN(kv, "=", 2)
			if len(p) != 2 {
				return nil, false
			}
			switch p[0] {
			case "msgs":
				c.nmsg, _ = strconv.Atoi(p[1])
			case "flags":
				if len(p[1]) != n {
					return nil, false
				}
				c.flags = []byte(p[1])
			case "inc":
				q := strings.Split(p[1], ">")
				if len(q) != 2 {
					return nil, false
				}
				i, _ := strconv.Atoi(q[0])
				j, _ := strconv.Atoi(q[1])
				c.inc[i] = append(c.inc[i], j)
				c.anyInc = true
			case "req":
				// the flavor that requires the method is abstract (a flavor that is not must have the method itself)
				j, _ := strconv.Atoi(p[1])
				c.req[j] = true
				c.flags[j] = 'A'
				c.anyReq = true
			case "door":
				c.door = p[1] == "alt"
			default:
				return nil, false
			}
		}
	}
	if c.nmsg < 1 || 2 < c.nmsg {
		return nil, false
	}
	return c, true
}

func (c *wcase) instantiable(f int) bool { return c.flags[f] == '-' }

func (c *wcase) flavorSrc(names []string, f int) string {
	var b strings.Builder
	fmt.Fprintf(&b, "(defflavor %s () (", names[f])
	for i, g := range c.comps[f] {
		if 0 < i {
			b.WriteByte(' ')
		}
		b.WriteString(names[g])
	}
	b.WriteString(")")
	switch c.flags[f] {
	case 'A':
		b.WriteString(" :abstract-flavor")
	case 'N':
		b.WriteString(" :no-vanilla-flavor")
	}
	if 0 < len(c.inc[f]) {
		b.WriteString(" (:included-flavors")
		for _, g := range c.inc[f] {
			b.WriteString(" " + names[g])
		}
		b.WriteString(")")
	}
	if c.req[f] {
		b.WriteString(" (:required-methods :m)")
	}
	b.WriteString(")")
	return b.String()
}

func mdefSrc(names []string, d mdef, door bool) string {
	id := strconv.Itoa(d.f) + d.suffix()
	msg := msgNames[d.msg]
	switch d.kind {
	case 'p':
		q := ""
		if door {
			q = ":primary "
		}
		return fmt.Sprintf("(defmethod (%s %s%s) () (tr 'p%s) 'r%s)", names[d.f], q, msg, id, id)
	case 'b':
		return fmt.Sprintf("(defmethod (%s :before %s) () (tr 'b%s) 'xb)", names[d.f], msg, id)
	case 'a':
		return fmt.Sprintf("(defmethod (%s :after %s) () (tr 'a%s) 'xa)", names[d.f], msg, id)
	}
	body := fmt.Sprintf("(tr 'wi%s) (let ((r (continue-whopper))) (tr 'wo%s) r)", id, id)
	if d.kind == 'v' {
		body = fmt.Sprintf("(tr 'vi%s) (continue-whopper) (let ((r (continue-whopper))) (tr 'vo%s) r)", id, id)
	}
	if door {
		q := ":whopper"
		if d.gen == 1 {
			q = ":wrapper"
		}
		return fmt.Sprintf("(defmethod (%s %s %s) () %s)", names[d.f], q, msg, body)
	}
	return fmt.Sprintf("(defwhopper (%s %s) () %s)", names[d.f], msg, body)
}

// ------------------------------------------------------------------ forms, orders, probe placements

// wform: one defining form of the case. Forms are numbered in textual order (each defflavor followed by the
// definitions for that flavor in the order of the case's list).
type wform struct {
	isMeth bool
	idx    int   // flavor index / index into defs
	preds  []int // forms that must be evaluated before this one
}

func (c *wcase) forms() []wform {
	var fs []wform
	dAt := make([]int, len(c.comps))
	mAt := make([]int, len(c.defs))
	for d := range c.comps {
		dAt[d] = len(fs)
		fs = append(fs, wform{idx: d})
		for j, m := range c.defs {
			if m.f == d {
				mAt[j] = len(fs)
				fs = append(fs, wform{isMeth: true, idx: j})
			}
		}
	}
	for i := range fs {
		if !fs[i].isMeth {
			d := fs[i].idx
			for _, g := range c.comps[d] {
				fs[i].preds = append(fs[i].preds, dAt[g])
			}
			for _, g := range c.inc[d] {
				fs[i].preds = append(fs[i].preds, dAt[g])
			}
			continue
		}
		m := c.defs[fs[i].idx]
		fs[i].preds = append(fs[i].preds, dAt[m.f])
		if m.gen == 1 {
			for j, o := range c.defs {
				if o.f == m.f && o.kind == m.kind && o.msg == m.msg && o.gen == 0 {
					fs[i].preds = append(fs[i].preds, mAt[j])
				}
			}
		}
	}
	return fs
}

func admissible(fs []wform, order []int) bool {
	pos := make([]int, len(fs))
	for i, k := range order {
		pos[k] = i
	}
	for k, f := range fs {
		for _, p := range f.preds {
			if pos[k] < pos[p] {
				return false
			}
		}
	}
	return true
}

// genWOrders: mode "all" = every linear extension (textual order first); mode "el" = every linear extension of the
// defflavor forms x each definition early (directly after its defflavor) or late (after all defflavors, the late ones
// in every permutation), restricted to the admissible ones.
func genWOrders(c *wcase, fs []wform, yield func(order []int)) {
	if c.mode == "el" {
		var ds, ms []int
		for k, f := range fs {
			if f.isMeth {
				ms = append(ms, k)
			} else {
				ds = append(ds, k)
			}
		}
		var dorders [][]int
		used := make([]bool, len(fs))
		var cur []int
		var rec func()
		rec = func() {
			if len(cur) == len(ds) {
				dorders = append(dorders, append([]int(nil), cur...))
				return
			}
			for _, k := range ds {
				if used[k] {
					continue
				}
				ready := true
				for _, p := range fs[k].preds {
					if !used[p] {
						ready = false
					}
				}
				if !ready {
					continue
				}
				used[k] = true
				cur = append(cur, k)
				rec()
				cur = cur[:len(cur)-1]
				used[k] = false
			}
		}
		rec()
		for _, do := range dorders {
			for mask := 0; mask < 1<<len(ms); mask++ {
				var late []int
				for j, k := range ms {
					if mask&(1<<j) != 0 {
						late = append(late, k)
					}
				}
				permute(late, func(lp []int) {
					var order []int
					for _, dk := range do {
						order = append(order, dk)
						for j, k := range ms {
							if mask&(1<<j) == 0 && c.defs[fs[k].idx].f == fs[dk].idx {
								order = append(order, k)
							}
						}
					}
					order = append(order, lp...)
					if admissible(fs, order) {
						yield(order)
					}
				})
			}
		}
		return
	}
	used := make([]bool, len(fs))
	cur := make([]int, 0, len(fs))
	var rec func()
	rec = func() {
		if len(cur) == len(fs) {
			yield(append([]int(nil), cur...))
			return
		}
		for k := range fs {
			if used[k] {
				continue
			}
			ready := true
			for _, p := range fs[k].preds {
				if !used[p] {
					ready = false
				}
			}
			if !ready {
				continue
			}
			used[k] = true
			cur = append(cur, k)
			rec()
			cur = cur[:len(cur)-1]
			used[k] = false
		}
	}
	rec()
}

// probeOp: after the pos-th form of the order (1 <= pos < len(order)) an instance of flavor f is made and sent the
// messages.
type probeOp struct{ pos, f int }

// placements enumerates the probe placements of one order for the probe modes of the case.
func placements(c *wcase, fs []wform, order []int, yield func(ops []probeOp)) {
	var all []probeOp
	defined := make([]bool, len(c.comps))
	for i, k := range order[:len(order)-1] {
		if !fs[k].isMeth {
			defined[fs[k].idx] = true
		}
		for f := range c.comps {
			if defined[f] && c.instantiable(f) {
				all = append(all, probeOp{i + 1, f})
			}
		}
	}
	for _, m := range c.pmode {
		switch m {
		case 'c':
			yield(nil)
		case 'h':
			if 0 < len(all) {
				yield(all)
			}
		case '1':
			for _, op := range all {
				yield([]probeOp{op})
			}
		case '2':
			for i := range all {
				for j := i + 1; j < len(all); j++ {
					yield([]probeOp{all[i], all[j]})
				}
			}
		case 's':
			if 16 < len(all) {
				panic("subset probe mode over more than 16 probe operations")
			}
			for mask := 1; mask < 1<<len(all); mask++ {
				var ops []probeOp
				for i, op := range all {
					if mask&(1<<i) != 0 {
						ops = append(ops, op)
					}
				}
				yield(ops)
			}
		}
	}
}

// ------------------------------------------------------------------ reference for a set of definitions

// expectW: what (send <instance of f> msg) must do when exactly the definitions `live` exist (for each flavor, kind
// and message the LAST of them in the list is the method).
func (c *wcase) expectW(v variant, live []mdef, msg, f int) (trace []string, ret string, handled bool, table string) {
	var ms []meth
	suf := map[meth]string{}
	for _, d := range live {
		if d.msg != msg {
			continue
		}
		k := meth{d.f, d.kind}
		if _, has := suf[k]; !has {
			ms = append(ms, k)
		}
		suf[k] = d.suffix()
	}
	sort.Slice(ms, func(a, b int) bool {
		if ms[a].f != ms[b].f {
			return ms[a].f < ms[b].f
		}
		return strings.IndexByte(allKinds+"v", ms[a].kind) < strings.IndexByte(allKinds+"v", ms[b].kind)
	})
	t, r, h := v.expectSend(c.comps, ms, f)
	for _, tag := range t {
		// tag = wi<g> wo<g> b<g> p<g> a<g>
		i := 1
		if tag[0] == 'w' || tag[0] == 'v' {
			i = 2
		}
		g, _ := strconv.Atoi(tag[i:])
		trace = append(trace, tag+suf[meth{g, tag[0]}])
	}
	if r != "" {
		g, _ := strconv.Atoi(r[1:])
		ret = r + suf[meth{g, 'p'}]
	}
	return trace, ret, h, expectTable(v.precedence(c.comps, f), ms)
}

// ------------------------------------------------------------------ running one history

type midObs struct {
	pos, f int
	err    string    // make-instance failed
	obs    []sendObs // per message
}

type oldInst struct {
	pos   int
	scope *slip.Scope
	obs   []sendObs // per message, at the end
}

type whist struct {
	order    []int
	ops      []probeOp
	defErr   string
	rejected bool // a defflavor was refused because of (:required-methods :m)
	mid      []midObs
	fin      [][]sendObs // [flavor][message], fresh instance at the end
	again    []sendObs   // [flavor] first message sent a second time to the fresh instance
	old      [][]oldInst // [flavor]
	mkErr    []string    // [flavor] make-instance error of a flavor flagged A / N ("" = an instance was made)
}

func combosOfMsg(name string, names []string, msg string) string {
	f := flavors.Find(name)
	if f == nil {
		return "<no flavor>"
	}
	m := f.GetMethod(msg)
	if m == nil {
		return "<no :m>"
	}
	var parts []string
	for _, c := range m.Combinations {
		s := "?"
		if c.From != nil {
			s = rename(c.From.Name(), names)
		}
		s += ":"
		if c.Wrap != nil {
			s += "w"
		}
		if c.Before != nil {
			s += "b"
		}
		if c.Primary != nil {
			s += "p"
		}
		if c.After != nil {
			s += "a"
		}
		parts = append(parts, s)
	}
	return "[" + strings.Join(parts, " ") + "]"
}

func sendMsg(scope *slip.Scope, msg string) (o sendObs) {
	lisp.ResetTrace()
	val, err := lisp.EvalIn(scope, "(send inst "+msg+")")
	o.trace = lisp.Trace()
	if err != nil {
		o.err = err.Class
		if err.GoFault {
			o.err = "go-fault " + err.String()
		}
	} else {
		o.ret = lisp.Show(val)
	}
	return
}

func runW(c *wcase, fs []wform, order []int, ops []probeOp) (h whist) {
	n := len(c.comps)
	names := freshNames(n)
	defer cleanup(names)
	h.order, h.ops = order, ops
	h.old = make([][]oldInst, n)
	probe := func(f int) (scope *slip.Scope, obs []sendObs, mkErr string) {
		scope = slip.NewScope()
		inst, err := lisp.EvalIn(scope, "(make-instance '"+names[f]+")")
		if err != nil {
			return nil, nil, "make-instance: " + rename(err.String(), names)
		}
		scope.Let(slip.Symbol("inst"), inst)
		for k := 0; k < c.nmsg; k++ {
			obs = append(obs, sendMsg(scope, msgNames[k]))
		}
		return
	}
	for i, k := range order {
		fm := fs[k]
		var src, what string
		if fm.isMeth {
			src = mdefSrc(names, c.defs[fm.idx], c.door)
			what = "defmethod"
			if (c.defs[fm.idx].kind == 'w' || c.defs[fm.idx].kind == 'v') && !c.door {
				what = "defwhopper"
			}
		} else {
			src = c.flavorSrc(names, fm.idx)
			what = "defflavor"
		}
		if _, err := lisp.Eval(src); err != nil {
			if what == "defflavor" && c.anyReq && !err.GoFault && strings.Contains(err.Message, "required method") {
				h.rejected = true
				return
			}
			if h.defErr == "" {
				h.defErr = what + ": " + rename(err.String(), names)
				if err.GoFault {
					h.defErr = "go-fault in " + h.defErr
				}
			}
		}
		for _, op := range ops {
			if op.pos != i+1 {
				continue
			}
			scope, obs, mkErr := probe(op.f)
			h.mid = append(h.mid, midObs{pos: op.pos, f: op.f, err: mkErr, obs: obs})
			if scope != nil {
				h.old[op.f] = append(h.old[op.f], oldInst{pos: op.pos, scope: scope})
			}
		}
	}
	h.fin = make([][]sendObs, n)
	h.again = make([]sendObs, n)
	h.mkErr = make([]string, n)
	for f := 0; f < n; f++ {
		if !c.instantiable(f) {
			if _, err := lisp.Eval("(make-instance '" + names[f] + ")"); err != nil {
				h.mkErr[f] = err.Class
				if err.GoFault {
					h.mkErr[f] = "go-fault " + err.String()
				}
			}
			continue
		}
		scope, obs, mkErr := probe(f)
		if mkErr != "" {
			h.fin[f] = []sendObs{{err: mkErr}}
			continue
		}
		inst := scope.Get(slip.Symbol("inst"))
		for k := range obs {
			obs[k].prec = hierarchyOf(inst, names)
			obs[k].combos = combosOfMsg(names[f], names, msgNames[k])
			// the other routes on an instance of their own (the one above may have been sent a message it does not handle)
			if ri, err := lisp.Eval("(make-instance '" + names[f] + ")"); err == nil {
				obs[k].recv, obs[k].bound, obs[k].sendIf = goRoutes(ri, msgNames[k])
			}
		}
		h.fin[f] = obs
		h.again[f] = sendMsg(scope, msgNames[0])
		for i := range h.old[f] {
			for k := 0; k < c.nmsg; k++ {
				h.old[f][i].obs = append(h.old[f][i].obs, sendMsg(h.old[f][i].scope, msgNames[k]))
			}
		}
	}
	return
}

func sendKey(o sendObs) string { return strings.Join(o.trace, " ") + " => " + o.ret + " !" + o.err }

// ------------------------------------------------------------------ the case

func (c *wcase) orderString(fs []wform, order []int, ops []probeOp) string {
	var parts []string
	for i, k := range order {
		if fs[k].isMeth {
			parts = append(parts, "M"+c.defs[fs[k].idx].String())
		} else {
			parts = append(parts, "D"+strconv.Itoa(fs[k].idx))
		}
		for _, op := range ops {
			if op.pos == i+1 {
				parts = append(parts, "probe(f"+strconv.Itoa(op.f)+")")
			}
		}
	}
	return strings.Join(parts, " ")
}

// liveAt: the definitions evaluated by the first p forms of the order, in evaluation order.
func (c *wcase) liveAt(fs []wform, order []int, p int) (live []mdef) {
	for _, k := range order[:p] {
		if fs[k].isMeth {
			live = append(live, c.defs[fs[k].idx])
		}
	}
	return
}

// lateFor: some flavor h in precedence(f) existed before a definition for message msg of one of h's proper components.
func (c *wcase) lateFor(fs []wform, order []int, msg, f int) bool {
	pos := map[int]int{}
	for i, k := range order {
		if !fs[k].isMeth {
			pos[fs[k].idx] = i
		}
	}
	for _, h := range realRef.precedence(c.comps, f) {
		anc := map[int]bool{}
		for _, g := range realRef.precedence(c.comps, h)[1:] {
			anc[g] = true
		}
		for i, k := range order {
			if fs[k].isMeth && c.defs[fs[k].idx].msg == msg && anc[c.defs[fs[k].idx].f] && pos[h] < i {
				return true
			}
		}
	}
	return false
}

func execWarm(spec string, parts []string) (res engine.Result) {
	c, ok := parseWcase(parts)
	if !ok {
		res.Fail("harness:bad-spec", spec)
		return
	}
	n := len(c.comps)
	fs := c.forms()
	var hs []whist
	genWOrders(c, fs, func(order []int) {
		placements(c, fs, order, func(ops []probeOp) {
			hs = append(hs, runW(c, fs, order, ops))
		})
	})
	if res.Counters == nil {
		res.Counters = map[string]int{}
	}
	res.Counters["histories"] += len(hs)
	if len(hs) == 0 {
		res.Fail("harness:no-history", spec)
		return
	}
	extra := ""
	if c.nmsg == 2 {
		extra += " msgs=2"
		res.Hit("two-message-case")
	}
	if c.door {
		extra += " door=alt"
		res.Hit("other-spelling-of-the-definitions")
	}
	if c.anyInc {
		extra += " opt=included-flavors"
		res.Hit("included-flavors-case")
	}
	if c.anyReq {
		extra += " opt=required-methods"
	}
	for f := range c.comps {
		switch c.flags[f] {
		case 'A':
			extra += " opt=abstract-flavor"
		case 'N':
			extra += " opt=no-vanilla-flavor"
		}
	}
	for _, d := range c.defs {
		if d.gen == 1 {
			res.Hit("method-replaced")
			break
		}
	}
	reported := map[string]bool{}
	fail := func(sig, detail string) {
		sig += extra
		if !reported[sig] {
			reported[sig] = true
			res.Fail(sig, detail)
		}
	}
	var judged []*whist
	for i := range hs {
		h := &hs[i]
		if h.rejected {
			res.Hit("defflavor-refused-for-a-required-method")
			continue
		}
		if c.anyReq {
			res.Hit("defflavor-accepted-with-a-required-method")
		}
		judged = append(judged, h)
		if 0 < len(h.ops) {
			res.Hit("warm-histories")
		}
		if h.defErr != "" {
			what := strings.SplitN(h.defErr, ":", 2)[0]
			fail("define form="+strings.ReplaceAll(what, " ", "-")+" kind=error",
				fmt.Sprintf("%s history [%s]: %s", spec, c.orderString(fs, h.order, h.ops), h.defErr))
		}
	}
	if len(judged) == 0 {
		res.Outcome = "every history refused"
		return
	}
	inherits := false
	var outcome []string
	for f := 0; f < n; f++ {
		sh := shape(c.comps, f)
		prec := realRef.precedence(c.comps, f)
		var precS []string
		for _, g := range prec {
			precS = append(precS, strconv.Itoa(g))
		}
		for _, g := range prec[1:] {
			switch c.flags[g] {
			case 'A':
				res.Hit("abstract-component")
			case 'N':
				res.Hit("no-vanilla-component")
			}
		}
		if !c.instantiable(f) {
			// not demanded (S2): what make-instance of an abstract / no-vanilla flavor does is recorded
			outcome = append(outcome, fmt.Sprintf("f%d{make-instance:%s}", f, judged[0].mkErr[f]))
			continue
		}
		for k := 0; k < c.nmsg; k++ {
			finalLive := c.liveAt(fs, judged[0].order, len(fs))
			expTrace, expRet, handled, expTable := c.expectW(realRef, finalLive, k, f)
			if handled {
				res.Hit(sh + "-instance")
				for _, d := range c.defs {
					if d.msg == k && d.f != f {
						for _, g := range prec[1:] {
							if g == d.f {
								inherits = true
							}
						}
					}
				}
			}
			// model-free: every order and every probe placement observes the same at the end
			classes := map[string]int{}
			for _, h := range judged {
				classes[h.fin[f][min(k, len(h.fin[f])-1)].key()]++
			}
			outcome = append(outcome, fmt.Sprintf("f%d%s{%s}x%d", f, msgNames[k], judged[0].fin[f][min(k, len(judged[0].fin[f])-1)].key(), len(classes)))
			if 1 < len(classes) {
				a := judged[0]
				for _, h := range judged[1:] {
					if len(h.fin[f]) <= k || len(a.fin[f]) <= k || a.fin[f][k].key() == h.fin[f][k].key() {
						continue
					}
					what := "trace"
					if strings.Join(a.fin[f][k].trace, " ") == strings.Join(h.fin[f][k].trace, " ") {
						what = "return-or-error-or-precedence"
					}
					by := "order"
					if fmt.Sprint(a.order) == fmt.Sprint(h.order) {
						by = "probe-placement"
					} else if 0 < len(h.ops) || 0 < len(a.ops) {
						by = "order-or-probe-placement"
					}
					fail(fmt.Sprintf("differential shape=%s differs=%s by=%s", sh, what, by),
						fmt.Sprintf("%s: new instance of f%d, (send inst %s): history [%s] observes {%s} tables %s, history [%s] observes {%s} tables %s", spec, f, msgNames[k],
							c.orderString(fs, a.order, a.ops), a.fin[f][k].key(), a.fin[f][k].combos, c.orderString(fs, h.order, h.ops), h.fin[f][k].key(), h.fin[f][k].combos))
					break
				}
			}
			for _, h := range judged {
				where := fmt.Sprintf("%s: instance of f%d (precedence %s), history [%s], (send inst %s)", spec, f, strings.Join(precS, " "), c.orderString(fs, h.order, h.ops), msgNames[k])
				if len(h.fin[f]) == 1 && strings.HasPrefix(h.fin[f][0].err, "make-instance") {
					if k == 0 {
						fail(fmt.Sprintf("make-instance shape=%s kind=error", sh), where+": "+h.fin[f][0].err)
					}
					continue
				}
				o := h.fin[f][k]
				hist := "cold"
				if 0 < len(h.ops) {
					hist = "warm"
				}
				timing := "early"
				if c.lateFor(fs, h.order, k, f) {
					timing = "late"
					res.Hit("late-inherited-method")
				}
				if !c.anyInc {
					if k == 0 && o.prec != strings.Join(precS, " ") {
						fail(fmt.Sprintf("precedence shape=%s kind=wrong-order", sh), fmt.Sprintf("%s: class precedence is [%s], required [%s]", where, o.prec, strings.Join(precS, " ")))
					}
					if handled {
						table := "ok"
						if o.combos != expTable {
							table = "wrong"
						}
						judgeSend(fail, sh, o, expTrace, expRet, fmt.Sprintf("table=%s timing=%s hist=%s", table, timing, hist),
							where, fmt.Sprintf("; method table %s, a correct table is %s", o.combos, expTable))
						judgeRoutes(&res, fail, sh, o, expTrace, expRet, fmt.Sprintf("table=%s timing=%s hist=%s", table, timing, hist), where, nil)
					}
				}
				// the same message again to the same instance
				// (not after an unhandled message: what happens then is not constrained - slip leaves the instance's
				// own `self` bound to the condition object, so the next unhandled send is a Go fault; reported for C09)
				if o.err != "" {
					continue
				}
				if k == 0 && sendKey(h.again[f]) != sendKey(h.fin[f][0]) {
					fail(fmt.Sprintf("send shape=%s kind=second-send-differs hist=%s", sh, hist),
						fmt.Sprintf("%s: first send {%s}, the same send again {%s}", where, sendKey(h.fin[f][0]), sendKey(h.again[f])))
				}
				// instances made before later definitions see the final definitions like a new instance (model-free)
				for _, old := range h.old[f] {
					res.Hit("old-instance-probed-again")
					if sendKey(old.obs[k]) != sendKey(o) {
						fail(fmt.Sprintf("send shape=%s kind=old-instance-differs-from-new timing=%s", sh, timing),
							fmt.Sprintf("%s: the instance made after form %d observes {%s}, a new instance {%s}; required [%s] => %s", where, old.pos, sendKey(old.obs[k]), sendKey(o), strings.Join(expTrace, " "), expRet))
					}
				}
			}
		}
	}
	// observations at a prefix: the specification for the definitions of the prefix
	for _, h := range judged {
		for _, m := range h.mid {
			sh := shape(c.comps, m.f)
			where := fmt.Sprintf("%s: history [%s], probe of f%d after form %d", spec, c.orderString(fs, h.order, h.ops), m.f, m.pos)
			if m.err != "" {
				fail(fmt.Sprintf("make-instance shape=%s kind=error at=prefix", sh), where+": "+m.err)
				continue
			}
			live := c.liveAt(fs, h.order, m.pos)
			finalLive := c.liveAt(fs, h.order, len(fs))
			for k := 0; k < c.nmsg; k++ {
				expTrace, expRet, handled, _ := c.expectW(realRef, live, k, m.f)
				finTrace, _, _, _ := c.expectW(realRef, finalLive, k, m.f)
				if strings.Join(expTrace, " ") != strings.Join(finTrace, " ") {
					res.Hit("probe-before-a-definition-that-changes-the-answer")
					for _, k2 := range h.order[m.pos:] {
						if fs[k2].isMeth {
							d := c.defs[fs[k2].idx]
							if d.f != m.f && d.msg == k {
								res.Hit("probe-before-a-late-definition-on-a-component")
								if d.kind == 'w' {
									res.Hit("probe-before-a-late-whopper-on-a-component")
								}
							}
							if d.gen == 1 && d.msg == k {
								res.Hit("probe-before-a-replacement")
							}
							if c.nmsg == 2 {
								res.Hit("two-messages-probe-between-definitions")
							}
						}
					}
				}
				if !handled || c.anyInc {
					continue
				}
				judgeSend(fail, sh, m.obs[k], expTrace, expRet, "at=prefix", where+", (send inst "+msgNames[k]+")", "")
			}
		}
	}
	res.Nontrivial = inherits && 1 < len(judged)
	res.Outcome = strings.Join(outcome, ";")
	return
}

// judgeSend compares one observed send with the specification (the same comparison as the cold family).
func judgeSend(fail func(sig, detail string), sh string, o sendObs, expTrace []string, expRet, suffix, where, more string) {
	tail := fmt.Sprintf(": trace [%s] => %s %s; required [%s] => %s%s", strings.Join(o.trace, " "), o.ret, o.err, strings.Join(expTrace, " "), expRet, more)
	if strings.HasPrefix(o.err, "go-fault") {
		fail(fmt.Sprintf("send shape=%s kind=go-fault %s", sh, suffix), where+tail)
		return
	}
	anyDiff := false
	for _, kind := range judgedKinds {
		if dk := diffKind(project(expTrace, kind), project(o.trace, kind)); dk != "" {
			anyDiff = true
			fail(fmt.Sprintf("send shape=%s daemon=%s kind=%s %s", sh, daemonNames[kind], dk, suffix), where+tail)
		}
	}
	if !anyDiff && strings.Join(expTrace, " ") != strings.Join(o.trace, " ") {
		fail(fmt.Sprintf("send shape=%s daemon=phases kind=misordered %s", sh, suffix), where+tail)
	}
	if o.err != "" {
		fail(fmt.Sprintf("send shape=%s kind=error %s", sh, suffix), where+tail)
	} else if expRet != "" && o.ret != expRet && !anyDiff {
		fail(fmt.Sprintf("send shape=%s kind=wrong-return %s", sh, suffix), where+tail)
	}
}

// ------------------------------------------------------------------ enumeration of the family

// mdefSubsets: sets of <= k definitions out of flavor x kinds x messages (smallest first); with both = true only the
// sets that define something for each of the two messages.
func mdefSubsets(n, k int, kinds string, nmsg int, both bool) [][]mdef {
	var slots []mdef
	for f := 0; f < n; f++ {
		for i := 0; i < len(kinds); i++ {
			for m := 0; m < nmsg; m++ {
				slots = append(slots, mdef{f: f, kind: kinds[i], msg: m})
			}
		}
	}
	var out [][]mdef
	for size := 0; size <= k; size++ {
		var rec func(start int, cur []mdef)
		rec = func(start int, cur []mdef) {
			if len(cur) == size {
				if both {
					seen := [2]bool{}
					for _, d := range cur {
						seen[d.msg] = true
					}
					if !seen[0] || !seen[1] {
						return
					}
				}
				out = append(out, append([]mdef(nil), cur...))
				return
			}
			for i := start; i < len(slots); i++ {
				rec(i+1, append(cur, slots[i]))
			}
		}
		rec(0, nil)
	}
	return out
}

func enumWarm(tier string, emit func(string)) {
	w := func(d [][]int, ds []mdef, mode, pmode, opts string) {
		if opts == "" {
			opts = "-"
		}
		emit("w|" + dagString(d) + "|" + mdefsString(ds) + "|" + mode + "|" + pmode + "|" + opts)
	}
	thorough := tier == engine.Thorough
	d2, d3, d4 := allDags(2, 3, false), allDags(3, 3, false), allDags(4, 3, true)
	// (1) one message, warm: every single (position, flavor) probe, every pair of them, all of them at once (hot)
	for _, d := range append(append([][][]int{}, d2...), d3...) {
		for _, ds := range mdefSubsets(len(d), 3, allKinds, 1, false) {
			if len(ds) == 0 {
				continue
			}
			switch {
			case len(ds) <= 2 && thorough:
				w(d, ds, "all", "chs", "")
			case len(ds) <= 2 || len(d) == 2:
				w(d, ds, "all", "ch12", "")
			case thorough:
				w(d, ds, "all", "ch1", "")
			default:
				w(d, ds, "all", "h", "")
			}
		}
	}
	for _, d := range d4 {
		k4 := "pbw"
		if thorough {
			k4 = allKinds
		}
		for _, ds := range mdefSubsets(4, 2, k4, 1, false) {
			switch {
			case len(ds) == 0:
			case thorough && len(ds) == 1:
				w(d, ds, "all", "ch1", "")
			default:
				w(d, ds, "all", "h", "")
			}
		}
	}
	// (2) two messages with interleaved definitions
	for _, d := range append(append([][][]int{}, d2...), d3...) {
		for _, ds := range mdefSubsets(len(d), 3, allKinds, 2, true) {
			switch {
			case len(ds) == 2 && thorough:
				w(d, ds, "all", "ch12", "msgs=2")
			case len(ds) == 2 && len(d) == 2:
				w(d, ds, "all", "ch12", "msgs=2")
			}
		}
		if thorough {
			for _, ds := range mdefSubsets(len(d), 3, "pbw", 2, true) {
				if len(ds) == 3 {
					w(d, ds, "all", "h", "msgs=2")
				}
			}
		}
		if !thorough {
			if len(d) == 3 {
				for _, ds := range mdefSubsets(3, 2, "pbw", 2, true) {
					w(d, ds, "all", "ch1", "msgs=2")
				}
			}
			for _, ds := range mdefSubsets(len(d), 3, "pw", 2, true) {
				if len(ds) == 3 {
					w(d, ds, "all", "h", "msgs=2")
				}
			}
		}
	}
	if thorough {
		for _, d := range d4 {
			for _, ds := range mdefSubsets(4, 2, "pbw", 2, true) {
				w(d, ds, "all", "h", "msgs=2")
			}
		}
	}
	// (3) a definition replaced by a later one of the same kind: every set of <= 2 definitions, each of them in turn replaced
	repl := func(dags [][][]int, kmax int, pmode string) {
		for _, d := range dags {
			for _, ds := range mdefSubsets(len(d), kmax, allKinds, 1, false) {
				for i := range ds {
					r := ds[i]
					r.gen = 1
					w(d, append(append([]mdef(nil), ds...), r), "all", pmode, "")
				}
			}
		}
	}
	repl(d2, 2, "ch12")
	if thorough {
		repl(d3, 1, "ch12")
		repl(d3, 2, "ch1")
		repl(d4, 1, "ch1")
	} else {
		repl(d3, 1, "ch12")
		repl(d3, 2, "ch")
	}
	// (4) the other spellings of the same definitions
	for _, d := range d3 {
		for _, ds := range mdefSubsets(3, 2, "pw", 1, false) {
			if 0 < len(ds) {
				w(d, ds, "all", "ch", "door=alt")
				for i := range ds {
					if ds[i].kind == 'w' {
						r := ds[i]
						r.gen = 1
						w(d, append(append([]mdef(nil), ds...), r), "all", "ch", "door=alt")
					}
				}
			}
		}
	}
	// (5) defflavor options on one flavor of the DAG
	optDags := d3
	if thorough {
		optDags = append(append([][][]int{}, d3...), d4...)
	}
	for _, d := range optDags {
		n := len(d)
		kmax := 2
		if n == 4 {
			kmax = 1
		}
		for f := 0; f < n; f++ {
			for _, fl := range []byte{'A', 'N'} {
				flags := []byte(strings.Repeat("-", n))
				flags[f] = fl
				for _, ds := range mdefSubsets(n, kmax, allKinds, 1, false) {
					if 0 < len(ds) {
						w(d, ds, "all", map[bool]string{true: "ch", false: "h"}[thorough], "flags="+string(flags))
					}
				}
			}
			for _, ds := range mdefSubsets(n, kmax, allKinds, 1, false) {
				if 0 < len(ds) {
					w(d, ds, "all", "c", "req="+strconv.Itoa(f))
				}
			}
			for g := 0; g < f; g++ {
				for _, ds := range mdefSubsets(n, kmax, allKinds, 1, false) {
					if 0 < len(ds) {
						w(d, ds, "all", "ch", fmt.Sprintf("inc=%d>%d", f, g)) // differential only: the cold history is the other side
					}
				}
			}
		}
	}
}

// ------------------------------------------------------------------ self-test (S6): implementations with a cache

// cacheMutants: plausible ways to put a cache in front of the per-flavor method tables and get the invalidation
// wrong. Each is simulated on top of the REFERENCE (what it caches is always right when it is computed); the enumerated
// (order, probe placement) histories must make each of them answer differently from the reference at the end,
// otherwise the warm family could not see that class of bug.
var cacheMutants = []string{
	"cache-per-flavor-dropped-for-the-defining-flavor-only",       // the seeded change C11-7 generalised to every daemon kind
	"cache-dropped-for-inheritors-only-when-the-definer-has-one",  // needs a probe of the inheritor WITHOUT a probe of the component
	"cache-per-flavor-holds-all-messages-dropped-per-message",     // needs two messages
	"instance-keeps-the-table-of-the-moment-it-was-made",          // needs the old instances probed again
}

func (c *wcase) traceKey(live []mdef, msg, f int) string {
	t, r, _, _ := c.expectW(realRef, live, msg, f)
	return strings.Join(t, " ") + "=>" + r
}

// simulateCache returns true when the mutant's observations at the end of the history differ from the reference's.
func (c *wcase) simulateCache(mut string, fs []wform, order []int, ops []probeOp) bool {
	n := len(c.comps)
	type entry struct {
		filledBy int
		val      map[int]string
	}
	cache := make([]*entry, n)
	inherits := func(h, g int) bool {
		for _, a := range realRef.precedence(c.comps, h) {
			if a == g {
				return true
			}
		}
		return false
	}
	send := func(live []mdef, f, msg int) string {
		e := cache[f]
		if e == nil {
			e = &entry{filledBy: msg, val: map[int]string{}}
			cache[f] = e
			if mut == "cache-per-flavor-holds-all-messages-dropped-per-message" {
				for k := 0; k < c.nmsg; k++ {
					e.val[k] = c.traceKey(live, k, f)
				}
			}
		}
		if v, has := e.val[msg]; has {
			return v
		}
		e.val[msg] = c.traceKey(live, msg, f)
		return e.val[msg]
	}
	type oldI struct {
		f    int
		live []mdef
	}
	var olds []oldI
	var live []mdef
	for i, k := range order {
		if fs[k].isMeth {
			d := c.defs[fs[k].idx]
			live = append(live, d)
			switch mut {
			case "cache-per-flavor-dropped-for-the-defining-flavor-only":
				cache[d.f] = nil
			case "cache-dropped-for-inheritors-only-when-the-definer-has-one":
				if cache[d.f] != nil {
					for h := 0; h < n; h++ {
						if inherits(h, d.f) {
							cache[h] = nil
						}
					}
				}
			case "cache-per-flavor-holds-all-messages-dropped-per-message":
				for h := 0; h < n; h++ {
					if inherits(h, d.f) && cache[h] != nil && cache[h].filledBy == d.msg {
						cache[h] = nil
					}
				}
			default:
				for h := 0; h < n; h++ {
					cache[h] = nil
				}
			}
		}
		for _, op := range ops {
			if op.pos == i+1 {
				for k := 0; k < c.nmsg; k++ {
					send(live, op.f, k)
				}
				olds = append(olds, oldI{op.f, append([]mdef(nil), live...)})
			}
		}
	}
	for f := 0; f < n; f++ {
		if !c.instantiable(f) {
			continue
		}
		for k := 0; k < c.nmsg; k++ {
			if send(live, f, k) != c.traceKey(live, k, f) {
				return true
			}
		}
	}
	if mut == "instance-keeps-the-table-of-the-moment-it-was-made" {
		for _, o := range olds {
			for k := 0; k < c.nmsg; k++ {
				if c.traceKey(o.live, k, o.f) != c.traceKey(live, k, o.f) {
					return true
				}
			}
		}
	}
	return false
}

func selftestWarm(tier string) (killed, total int, notes []string) {
	var cases []*wcase
	var specs []string
	enumWarm(tier, func(spec string) {
		if c, ok := parseWcase(strings.Split(spec, "|")); ok && !c.anyInc && !c.anyReq {
			cases = append(cases, c)
			specs = append(specs, spec)
		}
	})
	for _, mut := range cacheMutants {
		total++
		found := ""
		for i, c := range cases {
			if mut == "cache-per-flavor-holds-all-messages-dropped-per-message" && c.nmsg != 2 {
				continue
			}
			fs := c.forms()
			genWOrders(c, fs, func(order []int) {
				if found != "" {
					return
				}
				placements(c, fs, order, func(ops []probeOp) {
					if found == "" && c.simulateCache(mut, fs, order, ops) {
						found = specs[i] + " history [" + c.orderString(fs, order, ops) + "]"
					}
				})
			})
			if found != "" {
				break
			}
		}
		if found != "" {
			killed++
			notes = append(notes, mut+": distinguished by "+found)
		} else {
			notes = append(notes, mut+": NOT distinguished")
		}
	}
	return
}

func boundWarm(tier string) string {
	if tier == engine.Thorough {
		return "WARM (probe = make-instance + send of every message, an operation between the defining forms; old instances sent the messages again at the end): " +
			"2-3 flavors x <= 2 definitions x ALL orders x EVERY SUBSET of the (position, flavor) probes; 3 definitions x all orders x {none, all, every single, every pair} (2 flavors) / {none, all, every single} (3 flavors); " +
			"4-flavor top-only DAGs x <= 2 definitions x all orders x {none, all, every single}, x 3 p/b/w definitions x early/late orders x all probes. " +
			"Two messages (sets defining something for both): 2-3 flavors x 2 definitions x all orders x {none, all, single, pair}, 3 definitions x {none, all}; 4 flavors x 2 definitions x {none, all}. " +
			"Replacement of a definition: 2-3 flavors x <= 2 definitions x each replaced in turn x {none, all, single, pair}, 4 flavors x 1 definition x {none, all, single}. " +
			"Other spellings ((f :primary :m), (f :whopper :m), (f :wrapper :m)): 3 flavors x <= 2 p/w definitions (+ a replaced whopper). " +
			"Options on one flavor: :abstract-flavor, :no-vanilla-flavor, (:required-methods :m) [abstract], (:included-flavors g) for every g < f: 3 flavors x <= 2 definitions, 4 flavors x 1 definition, all orders x {none, all}. " +
			"REDEFINITION (family g): 2-3 flavors x <= 2 definitions, 4 flavors x <= 1: every flavor k removed by undefflavor with instances of every flavor alive, k given every ordered set of <= 2 earlier flavors as new components, " +
			"variable x (gettable) kept with another default / dropped / added, each definition of a removed flavor made again or not, generation 2 in EVERY order; second defflavor without removal"
	}
	return "WARM (probe = make-instance + send of every message, an operation between the defining forms; old instances sent the messages again at the end): " +
		"2-3 flavors x <= 2 definitions x ALL orders x {no probe, all probes, EVERY SINGLE (position, flavor) probe, EVERY PAIR}; 2 flavors x 3 definitions the same; 3 flavors x 3 definitions and 4-flavor top-only DAGs x <= 2 definitions x all orders x all probes at once. " +
		"Two messages (sets defining something for both): 2 flavors x 2 definitions x {none, all, single, pair}, 3 flavors x 2 definitions x {none, all, single}, 2-3 flavors x 3 p/b/w definitions x all probes at once. " +
		"Replacement of a definition: 2 flavors x <= 2 definitions and 3 flavors x 1 definition x each replaced x {none, all, single, pair}, 3 flavors x 2 definitions x {none, all}. " +
		"Other spellings ((f :primary :m), (f :whopper :m), (f :wrapper :m)): 3 flavors x <= 2 p/w definitions (+ a replaced whopper). " +
		"Options on one flavor: :abstract-flavor, :no-vanilla-flavor, (:required-methods :m) [abstract], (:included-flavors g) for every g < f: 3 flavors x <= 2 definitions x all orders x {none, all}. " +
		"REDEFINITION (family g): 2-3 flavors x <= 2 definitions: every flavor k removed by undefflavor with instances of every flavor alive, k given every ordered set of <= 2 earlier flavors as new components and another default for its variable, " +
		"each definition of a removed flavor made again or not, generation 2 in EVERY order (<= 1 definition: also variable dropped / added / none, cold); second defflavor without removal"
}

// ------------------------------------------------------------------ family "unh": a handled message after an unhandled one
//
// What an unhandled message does is not constrained; the instance is a flavor instance afterwards all the same and a
// message it handles runs its daemons, by every route. spec: unh|<route>

var unhRoutes = []string{"send", "send-if-handles", "receive", "bound-receive"}

func enumUnhandled(emit func(string)) {
	for _, r := range unhRoutes {
		emit("unh|" + r)
	}
}

func execUnhandled(spec string, parts []string) (res engine.Result) {
	if len(parts) != 2 {
		res.Fail("harness:bad-spec", spec)
		return
	}
	route := parts[1]
	names := freshNames(2)
	defer cleanup(names)
	src := fmt.Sprintf("(defflavor %s () ()) (defflavor %s () (%s)) (defmethod (%s :before :m) () (tr 'b0)) (defmethod (%s :m) () (tr 'p1) 'r1) (defmethod (%s :who) () self)",
		names[0], names[1], names[0], names[0], names[1], names[1])
	if _, err := lisp.Eval("(progn " + src + ")"); err != nil {
		res.Fail("after-unhandled-message kind=definition-error", rename(src, names)+" => "+err.String())
		return
	}
	res.Hit("histories")
	res.Hit("handled-message-after-an-unhandled-one")
	res.Nontrivial = true
	scope := slip.NewScope()
	inst, err := lisp.EvalIn(scope, "(make-instance '"+names[1]+")")
	if err != nil {
		res.Fail("after-unhandled-message kind=make-instance-error", err.String())
		return
	}
	scope.Let(slip.Symbol("inst"), inst)
	first := sendMsg(scope, ":zz")
	var o sendObs
	switch route {
	case "send":
		o = sendMsg(scope, ":m")
	default:
		recv, bound, sendIf := goRoutes(inst, ":m")
		switch route {
		case "receive":
			o = *recv
		case "bound-receive":
			o = *bound
		default:
			if sendIf == nil {
				res.Fail("harness:no-send-if-handles", spec)
				return
			}
			o = *sendIf
		}
	}
	who := sendMsg(scope, ":who")
	self := "the-instance"
	if who.err != "" || who.ret != lisp.Show(inst) {
		self = "something-else" // recorded, not judged: the statement does not speak of self
	}
	if sendKey(o) != "b0 p1 => r1 !" {
		res.Fail("after-unhandled-message route="+route+" kind=daemons-lost",
			fmt.Sprintf("%s ; (send inst :zz) => %s ; then :m by %s: trace [%s] => %s %s; required [b0 p1] => r1 (self inside a method is now %s)",
				rename(src, names), first.err, route, strings.Join(o.trace, " "), o.ret, o.err, self))
	}
	res.Outcome = "unhandled:" + first.err + " then:" + sendKey(o) + " self:" + self
	return
}
