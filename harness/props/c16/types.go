//go:build verif

package c16

import (
	"fmt"
	"math/big"
	"sort"
	"strings"

	"github.com/ohler55/slip"

	"verif/engine"
	"verif/lisp"
)

// typSys is what the type oracle looks at: the real slip or a model.
type typSys interface {
	types() []string                     // every type symbol known to the class registry
	objects() []string                   // the object universe
	registered(T string) bool            // T names a class of the registry
	typeOf(x string) (string, tri)       // (type-of x)
	typep(x, T string) tri               // (typep x T)
	subtypep(A, B string) tri            // first value of (subtypep A B)
	coerce(x, T string) (st, got string) // st: "typed" | "untyped" | "error:<class>" | "go-fault"; got: kind of the result
	objKind(x string) string             // fine kind, for signatures
}

// registryTypes lists the class registry as seen from the user package
// (what find-class / subtypep consult), sorted.
func registryTypes() []string {
	var names []string
	seen := map[string]bool{}
	for _, c := range slip.UserPkg.AllClasses() {
		n := strings.ToLower(c.Name())
		// classes created by this harness or by other cases of this process are not part of the alphabet
		if strings.HasPrefix(n, "c16-") || seen[n] {
			continue
		}
		seen[n] = true
		names = append(names, n)
	}
	sort.Strings(names)
	return names
}

// coerceMenu: the result types of coerce's own documentation table (assoc is
// not a type and is left out) plus t and bit.
var coerceMenu = []string{"t", "list", "string", "vector", "octets", "bit-vector", "character", "integer", "fixnum",
	"octet", "byte", "bignum", "float", "short-float", "single-float", "double-float", "long-float", "rational", "ratio",
	"complex", "symbol", "hash-table", "function", "signed-byte", "unsigned-byte", "bit"}

// ------------------------------------------------------------------ real

type realTyp struct {
	objs map[string]slip.Object
	errs map[string]*lisp.Err
}

func newRealTyp(names ...string) *realTyp {
	rr := newRealRel(names...)
	return &realTyp{objs: rr.objs, errs: rr.errs}
}

func (r *realTyp) types() []string { return registryTypes() }
func (r *realTyp) objects() []string {
	var n []string
	for _, e := range universe {
		n = append(n, e.name)
	}
	return n
}
func (r *realTyp) registered(T string) bool { return slip.UserPkg.FindClass(T) != nil }
func (r *realTyp) objKind(x string) string  { return fineKind(r.get(x)) }

func (r *realTyp) get(x string) slip.Object {
	if o, has := r.objs[x]; has {
		return o
	}
	o, err := elemByName[x].build()
	if err != nil {
		r.errs[x] = err
	}
	r.objs[x] = o
	return o
}

func boolTri(val slip.Object, err *lisp.Err) tri {
	if err != nil {
		return errTri(err)
	}
	if vs, ok := val.(slip.Values); ok {
		if len(vs) == 0 {
			return tri{v: 0}
		}
		val = vs[0]
	}
	if lisp.Truthy(val) {
		return tri{v: 1}
	}
	return tri{v: 0}
}

func (r *realTyp) typeOf(x string) (string, tri) {
	scope := slip.NewScope()
	scope.Let("x_", r.get(x))
	val, err := lisp.EvalIn(scope, "(type-of x_)")
	if err != nil {
		return "", errTri(err)
	}
	sym, ok := val.(slip.Symbol)
	if !ok {
		return "", tri{v: -1, why: "not-a-symbol", msg: lisp.Show(val)}
	}
	return strings.ToLower(string(sym)), tri{v: 1}
}

func (r *realTyp) typep(x, T string) tri {
	return typepObj(r.get(x), T)
}

func typepObj(o slip.Object, T string) tri {
	scope := slip.NewScope()
	scope.Let("x_", o)
	scope.Let("ty_", slip.Symbol(T))
	return boolTri(lisp.EvalIn(scope, "(typep x_ ty_)"))
}

func (r *realTyp) subtypep(A, B string) tri {
	scope := slip.NewScope()
	scope.Let("a_", slip.Symbol(A))
	scope.Let("b_", slip.Symbol(B))
	return boolTri(lisp.EvalIn(scope, "(subtypep a_ b_)"))
}

func (r *realTyp) coerce(x, T string) (string, string) {
	scope := slip.NewScope()
	scope.Let("x_", r.get(x))
	scope.Let("ty_", slip.Symbol(T))
	val, err := lisp.EvalIn(scope, "(coerce x_ ty_)")
	if err != nil {
		if err.GoFault {
			return "go-fault", err.String()
		}
		return "error:" + err.Class, err.String()
	}
	got := fineKind(val) + " " + lisp.Show(val)
	// S2: the result is accepted when slip's own typep says it is of the type, or
	// when it is of that type by the Common Lisp definition (independent Go check).
	if typepObj(val, T).v == 1 || goTypep(val, T) {
		return "typed", got
	}
	return "untyped", got
}

// goTypep: membership by the Common Lisp definitions, decided on the Go representation.
func goTypep(v slip.Object, T string) bool {
	isInt := func() (*big.Int, bool) {
		switch n := v.(type) {
		case slip.Fixnum:
			return big.NewInt(int64(n)), true
		case slip.Octet:
			return big.NewInt(int64(n)), true
		case slip.Bit:
			return big.NewInt(int64(n)), true
		case *slip.Bignum:
			return (*big.Int)(n), true
		case *slip.SignedByte:
			if b, ok := n.AsFixOrBig().(*slip.Bignum); ok {
				return (*big.Int)(b), true
			}
			if f, ok := n.AsFixOrBig().(slip.Fixnum); ok {
				return big.NewInt(int64(f)), true
			}
		case *slip.UnsignedByte:
			if b, ok := n.AsFixOrBig().(*slip.Bignum); ok {
				return (*big.Int)(b), true
			}
			if f, ok := n.AsFixOrBig().(slip.Fixnum); ok {
				return big.NewInt(int64(f)), true
			}
		}
		return nil, false
	}
	isNil := v == nil
	if l, ok := v.(slip.List); ok && len(l) == 0 {
		isNil = true
	}
	if isNil {
		// slip passes nil (its empty sequence) through coerce to a sequence type; its own tests pin
		// (coerce nil 'vector) => nil and (coerce nil 'octets) => nil (test/cl/coerce_test.go), so nil is
		// accepted as a member of every sequence type (S2).
		switch T {
		case "vector", "octets", "string", "bit-vector":
			return true
		}
	}
	switch T {
	case "t":
		return true
	case "list":
		_, ok := v.(slip.List)
		return ok || isNil
	case "string":
		_, ok := v.(slip.String)
		return ok
	case "vector":
		switch v.(type) {
		case *slip.Vector, slip.String, slip.Octets, *slip.BitVector:
			return true
		}
	case "octets":
		_, ok := v.(slip.Octets)
		return ok
	case "bit-vector":
		_, ok := v.(*slip.BitVector)
		return ok
	case "character":
		_, ok := v.(slip.Character)
		return ok
	case "integer", "signed-byte":
		_, ok := isInt()
		return ok
	case "unsigned-byte":
		n, ok := isInt()
		return ok && 0 <= n.Sign()
	case "bit":
		n, ok := isInt()
		return ok && (n.Sign() == 0 || n.Cmp(big.NewInt(1)) == 0)
	case "octet", "byte":
		n, ok := isInt()
		return ok && 0 <= n.Sign() && n.Cmp(big.NewInt(255)) <= 0
	case "fixnum":
		n, ok := isInt()
		return ok && n.IsInt64()
	case "bignum":
		n, ok := isInt()
		return ok && !n.IsInt64()
	case "float":
		switch v.(type) {
		case slip.SingleFloat, slip.DoubleFloat, *slip.LongFloat:
			return true
		}
	case "short-float", "single-float":
		_, ok := v.(slip.SingleFloat)
		return ok
	case "double-float":
		_, ok := v.(slip.DoubleFloat)
		return ok
	case "long-float":
		_, ok := v.(*slip.LongFloat)
		return ok
	case "rational":
		if _, ok := isInt(); ok {
			return true
		}
		_, ok := v.(*slip.Ratio)
		return ok
	case "ratio":
		r, ok := v.(*slip.Ratio)
		return ok && !(*big.Rat)(r).IsInt()
	case "complex":
		_, ok := v.(slip.Complex)
		return ok
	case "symbol":
		_, ok := v.(slip.Symbol)
		return ok || isNil || v == slip.True
	case "hash-table":
		_, ok := v.(slip.HashTable)
		return ok
	case "function":
		switch v.(type) {
		case *slip.Lambda, *slip.FuncInfo:
			return true
		}
	}
	return false
}

// ------------------------------------------------------------------ oracle

// checkTypeOf: (typep x (type-of x)).
func checkTypeOf(sys typSys, x, src string) (v verdict) {
	T0, st := sys.typeOf(x)
	fk := sys.objKind(x)
	if st.v == -1 {
		v.fail(fmt.Sprintf("fn=type-of result=%s obj=%s", st.why, fk), fmt.Sprintf("(type-of x) with x = %s => %s", src, st.msg))
		v.outcome = st.why
		return
	}
	r := sys.typep(x, T0)
	v.outcome = T0 + ":" + r.String()
	v.nontrivial = true
	v.hits = append(v.hits, "typep-of-own-type-of")
	switch r.v {
	case -1:
		v.fail(fmt.Sprintf("fn=typep result=%s obj=%s type=own-type-of", r.why, fk), fmt.Sprintf("(typep x '%s) with x = %s => %s", T0, src, r.msg))
	case 0:
		v.fail(fmt.Sprintf("law=typep-own-type-of type-of=%s", T0), fmt.Sprintf("(type-of x) => %s but (typep x '%s) => nil, with x = %s [%s]", T0, T0, src, fk))
	}
	return
}

// checkObjType: object x against registry type S:
//
//	subtypep((type-of x), S)  =>  typep(x, S)      every object is of every supertype of its type-of
//	typep(x, S) and type-of x is a registered class  =>  subtypep((type-of x), S)   (subtypep agrees with typep)
func checkObjType(sys typSys, x, S, src string) (v verdict) {
	T0, st := sys.typeOf(x)
	if st.v == -1 {
		v.outcome = st.why // reported by checkTypeOf
		return
	}
	fk := sys.objKind(x)
	a := sys.subtypep(T0, S)
	b := sys.typep(x, S)
	v.outcome = a.String() + "/" + b.String()
	if b.v == -1 {
		v.fail(fmt.Sprintf("fn=typep result=%s obj=%s type=%s", b.why, kindOf(fk), S), fmt.Sprintf("(typep x '%s) with x = %s => %s", S, src, b.msg))
	}
	if a.v == -1 {
		v.fail(fmt.Sprintf("fn=subtypep result=%s a=%s b=%s", a.why, T0, S), fmt.Sprintf("(subtypep '%s '%s) => %s", T0, S, a.msg))
	}
	if a.v == 1 {
		v.nontrivial = true
		v.hits = append(v.hits, "supertype-of-type-of")
		if T0 != S {
			v.hits = append(v.hits, "proper-supertype-of-type-of")
		}
		if b.v == 0 {
			v.fail(fmt.Sprintf("law=typep-of-supertype type-of=%s super=%s", T0, S),
				fmt.Sprintf("(type-of x) => %s and (subtypep '%s '%s) => t but (typep x '%s) => nil, with x = %s [%s]", T0, T0, S, S, src, fk))
		}
	}
	if b.v == 1 && sys.registered(T0) {
		v.nontrivial = true
		v.hits = append(v.hits, "typep-true-on-registered-type")
		if a.v == 0 {
			v.fail(fmt.Sprintf("law=typep-agrees-with-subtypep type-of=%s type=%s", T0, S),
				fmt.Sprintf("(type-of x) => %s (a registered class) and (typep x '%s) => t but (subtypep '%s '%s) => nil, with x = %s [%s]", T0, S, T0, S, src, fk))
		}
	}
	return
}

// checkSubtype: the pair of registry types (A, B): reflexivity (A is B),
// and when subtypep(A,B): transitivity against every C and agreement with typep
// on every object of the universe.
func checkSubtype(sys typSys, A, B string) (v verdict) {
	r := sys.subtypep(A, B)
	v.outcome = r.String()
	if r.v == -1 {
		v.fail(fmt.Sprintf("fn=subtypep result=%s a=%s b=%s", r.why, A, B), fmt.Sprintf("(subtypep '%s '%s) => %s", A, B, r.msg))
		return
	}
	if A == B {
		v.hits = append(v.hits, "subtypep-reflexive-checked")
		v.nontrivial = true
		if r.v == 0 {
			v.fail("law=subtypep-reflexive type="+A, fmt.Sprintf("(subtypep '%s '%s) => nil", A, A))
		}
	}
	if r.v != 1 {
		return
	}
	v.nontrivial = true
	nt, no := 0, 0
	for _, C := range sys.types() {
		bc := sys.subtypep(B, C)
		if bc.v != 1 {
			continue
		}
		nt++
		v.hits = append(v.hits, "subtypep-transitive-antecedent")
		if A != B && B != C {
			v.hits = append(v.hits, "subtypep-transitive-proper-chain")
		}
		if ac := sys.subtypep(A, C); ac.v == 0 {
			v.fail(fmt.Sprintf("law=subtypep-transitive a=%s c=%s", A, C),
				fmt.Sprintf("(subtypep '%s '%s) => t and (subtypep '%s '%s) => t but (subtypep '%s '%s) => nil", A, B, B, C, A, C))
		}
	}
	if A != B {
		for _, x := range sys.objects() {
			if sys.typep(x, A).v != 1 {
				continue
			}
			no++
			v.hits = append(v.hits, "subtypep-vs-typep-antecedent")
			if sys.typep(x, B).v == 0 {
				v.fail(fmt.Sprintf("law=subtypep-agrees-with-typep sub=%s super=%s", A, B),
					fmt.Sprintf("(subtypep '%s '%s) => t and (typep x '%s) => t but (typep x '%s) => nil, with x = %s [%s]", A, B, A, B, x, sys.objKind(x)))
			}
		}
	}
	v.outcome = fmt.Sprintf("t chains=%d objs=%d", nt, no)
	return
}

// checkCoerce: if (coerce x T) returns v then v is of type T. A Lisp-level
// error is an accepted outcome (the statement is about what coerce returns).
func checkCoerce(sys typSys, x, T, src string) (v verdict) {
	st, got := sys.coerce(x, T)
	fk := sys.objKind(x)
	v.outcome = st
	switch st {
	case "typed":
		v.nontrivial = true
		v.hits = append(v.hits, "coerce-returned")
		if !strings.HasPrefix(got, fk+" ") {
			v.hits = append(v.hits, "coerce-changed-representation")
		}
	case "untyped":
		v.nontrivial = true
		v.hits = append(v.hits, "coerce-returned")
		gk := got
		if i := strings.IndexByte(got, ' '); 0 < i {
			gk = got[:i]
		}
		v.fail(fmt.Sprintf("fn=coerce law=result-of-requested-type from=%s to=%s got=%s", fk, T, gk),
			fmt.Sprintf("(coerce x '%s) with x = %s [%s] => %s, which is not of type %s (neither by slip's typep nor by the Common Lisp definition)", T, src, fk, got, T))
	case "go-fault":
		v.fail(fmt.Sprintf("fn=coerce result=go-fault from=%s to=%s", fk, T), fmt.Sprintf("(coerce x '%s) with x = %s [%s] => %s", T, src, fk, got))
	default:
		v.hits = append(v.hits, "coerce-signalled")
	}
	return
}

func execType(parts []string) (res engine.Result) {
	bad := func() engine.Result {
		res.Fail("harness:bad-spec", strings.Join(parts, "|"))
		return res
	}
	var v verdict
	switch parts[0] {
	case "to":
		if len(parts) != 2 || elemByName[parts[1]] == nil {
			return bad()
		}
		sys := newRealTyp(parts[1])
		v = checkTypeOf(sys, parts[1], elemByName[parts[1]].src)
		buildErrs(sys, &res)
	case "ty":
		if len(parts) != 3 || elemByName[parts[1]] == nil {
			return bad()
		}
		sys := newRealTyp(parts[1])
		v = checkObjType(sys, parts[1], parts[2], elemByName[parts[1]].src)
		buildErrs(sys, &res)
	case "st":
		if len(parts) != 3 {
			return bad()
		}
		sys := newRealTyp()
		v = checkSubtype(sys, parts[1], parts[2])
		buildErrs(sys, &res)
	case "co":
		if len(parts) != 3 || elemByName[parts[1]] == nil {
			return bad()
		}
		sys := newRealTyp(parts[1])
		v = checkCoerce(sys, parts[1], parts[2], elemByName[parts[1]].src)
		buildErrs(sys, &res)
	}
	v.into(&res)
	return
}

func buildErrs(sys *realTyp, res *engine.Result) {
	for n, e := range sys.errs {
		res.Fail("harness:cannot-build-element", n+": "+e.String())
	}
}
