package c06

import (
	"fmt"
	"strings"
	"sync"
	"unsafe"

	"github.com/ohler55/slip"

	"verif/lisp"
)

// slipImpl drives the real interpreter: a fresh scope with the local
// variables a, b, c; every step is source text -> ReadString -> Eval.
type slipImpl struct {
	scope *slip.Scope
	box   [nLoc]bool        // container created for this history
	sites map[string]string // call sites defined in this history -> the name they got
}

var boxClassOnce sync.Once

var globalSites = map[string]bool{}

var siteCounter int

// container set-up forms (evaluated once per history, only when the history mentions the location)
const (
	boxClassDef = "(defclass c06-box () ((s :initform nil :initarg :s)))"
	hashSetup   = "(setq h (make-hash-table))"
	objSetup    = "(setq o (make-instance 'c06-box))"
	// op 0: read, 1: write, 2: push, 3: pop, 4: (setq x (cdr x))
	closSetup = "(setq k (let ((x nil)) (lambda (op v) (cond ((eql op 0) x) ((eql op 1) (setq x v)) ((eql op 2) (push v x)) " +
		"((eql op 3) (pop x)) ((eql op 4) (setq x (cdr x)))))))"
)

func defineBoxClass() {
	boxClassOnce.Do(func() {
		if _, err := lisp.EvalIn(slip.NewScope(), boxClassDef); err != nil {
			panic("c06: cannot define the container class: " + err.String())
		}
	})
}

var boxSetup = [nLoc]string{3: hashSetup, 4: objSetup, 5: closSetup}

func (m *slipImpl) reset(hist []*opDef) {
	m.scope = slip.NewScope()
	for _, v := range varNames {
		m.scope.Let(slip.Symbol(v), nil)
	}
	m.box = [nLoc]bool{}
	m.sites = nil
	if _, err := lisp.EvalIn(m.scope, "(setq a (list 1 2 3 4))"); err != nil {
		panic("c06: cannot build the initial state: " + err.String())
	}
	for _, o := range hist {
		for loc := 3; loc < nLoc; loc++ {
			if !mentions(o, loc) || m.box[loc] {
				continue
			}
			if loc == 4 {
				defineBoxClass()
			}
			if _, err := lisp.EvalIn(m.scope, boxSetup[loc]); err != nil {
				panic("c06: cannot build the container " + varNames[loc] + ": " + err.String())
			}
			m.box[loc] = true
		}
	}
}

func (m *slipImpl) exec(o *opDef, n int64) *execErr {
	if o.site != nil && o.site.once {
		if o.site.name == "c06-box-class" {
			defineBoxClass()
		} else if !globalSites[o.site.name] {
			if _, err := lisp.EvalIn(slip.NewScope(), o.site.def); err != nil {
				return &execErr{class: "site-definition:" + err.Class, msg: err.Message, goFault: err.GoFault}
			}
			globalSites[o.site.name] = true
		}
	} else if o.site != nil && m.sites[o.site.name] == "" {
		// the call site is defined once per history, before its first use; a defun gets a name of its own in every
		// history (function definitions are global: nothing may be left over from another history)
		if m.sites == nil {
			m.sites = map[string]string{}
		}
		name := o.site.name
		if o.site.isFn {
			siteCounter++
			name = fmt.Sprintf("%s-%d", o.site.name, siteCounter)
		} else {
			m.scope.Let(slip.Symbol(name), nil)
		}
		if _, err := lisp.EvalIn(m.scope, expand(o.site.def, -1, -1, -1, 0, name)); err != nil {
			return &execErr{class: "site-definition:" + err.Class, msg: err.Message, goFault: err.GoFault}
		}
		m.sites[o.site.name] = name
	}
	form := o.lisp(n)
	if o.site != nil && !o.site.once && o.site.isFn {
		form = strings.ReplaceAll(form, "("+o.site.name+" ", "("+m.sites[o.site.name]+" ")
		form = strings.ReplaceAll(form, "("+o.site.name+")", "("+m.sites[o.site.name]+")")
	}
	_, err := lisp.EvalIn(m.scope, form)
	if err != nil {
		return &execErr{class: err.Class, msg: err.Message, goFault: err.GoFault}
	}
	return nil
}

func (m *slipImpl) observe() (st state) {
	for i := 0; i < 3; i++ {
		st[i] = observeObject(m.scope.Get(slip.Symbol(varNames[i])))
	}
	if m.box[3] {
		if ht, ok := m.scope.Get(slip.Symbol("h")).(slip.HashTable); ok {
			st[3] = observeObject(ht[slip.Fixnum(1)])
		} else {
			st[3].bad = "container-lost"
		}
	}
	if m.box[4] {
		if inst, ok := m.scope.Get(slip.Symbol("o")).(slip.Instance); ok {
			v, _ := inst.SlotValue(slip.Symbol("s"))
			st[4] = observeObject(v)
		} else {
			st[4].bad = "container-lost"
		}
	}
	if m.box[5] {
		v, err := lisp.EvalIn(m.scope, "(funcall k 0 nil)")
		if err != nil {
			st[5].bad = "container-lost"
		} else {
			st[5] = observeObject(v)
		}
	}
	return
}

var objSize = unsafe.Sizeof(slip.Object(nil))

func observeObject(obj slip.Object) (o obsVar) {
	switch t := obj.(type) {
	case nil:
	case slip.List:
		o.present = true
		walkList(t, &o, 0)
	default:
		o.bad = fmt.Sprintf("non-list:%T", obj)
	}
	return
}

func walkList(l slip.List, o *obsVar, depth int) {
	if 50 < depth {
		o.bad = "tail-chain-too-deep"
		return
	}
	seg := segment{si: sliceInfo{ptr: uintptr(unsafe.Pointer(unsafe.SliceData(l))), len: len(l), cap: cap(l), esize: objSize}}
	idx := len(o.segs)
	o.segs = append(o.segs, seg)
	for i, e := range l {
		switch te := e.(type) {
		case slip.Fixnum:
			o.elems = append(o.elems, int64(te))
			o.segs[idx].elems = append(o.segs[idx].elems, int64(te))
		case slip.Tail:
			if i != len(l)-1 {
				o.bad = "tail-not-last"
				return
			}
			switch tv := te.Value.(type) {
			case nil:
				o.bad = "tail-nil"
			case slip.List:
				// (list* 8 9 '(1 2)) must be (8 9 1 2); slip itself sees a Tail holding a list as a dotted
				// pair (length 3, printed "(8 9 . (1 2))"): outside the model, reported and not extended
				walkList(tv, o, depth+1)
				if o.bad == "" {
					o.bad = "tail-list"
				}
			default:
				o.bad = fmt.Sprintf("dotted:%T", tv)
			}
			return
		case nil:
			o.bad = "elem-nil"
			return
		default:
			o.bad = fmt.Sprintf("elem:%T", e)
			return
		}
	}
}
