package c07

// r8check.go (round 8): the error-class alphabet, what is left out of the compared traces (S2), the release checks of
// the with-open-file variants, vacuity counters, the routine family, mutated references.

import (
	"fmt"
	"os"
	"regexp"
	"strings"

	"github.com/ohler55/slip"

	"verif/engine"
	"verif/lisp"
	"verif/ref/eval"
)

// ---------------------------------------------------------------- error classes

type errSpec struct {
	name  string // exit name
	class string // what ref/eval calls the class
	form  func() eval.Node
	how   string // raised by the interpreter / by the program through make-condition
}

func mc(class string, initargs ...eval.Node) func() eval.Node {
	return func() eval.Node {
		return eval.L(sy("panic"), append(eval.List{sy("make-condition"), eval.Q(sy(class))}, initargs...))
	}
}

// r8Errors: one error form per condition class the repository defines a base class for and that a program can make
// the interpreter signal, plus classes the program signals itself (make-condition + panic, the only way slip offers to
// signal a condition of a chosen class: error takes a format string only) incl. two classes of its own
// (define-condition). warn writes a warning and returns, signal does not exist in slip.
var r8Errors = []errSpec{
	// (funcall 'name ..): the function is looked up when the call is made (slip resolves the forms of a loop body
	// before the first pass, see newkinds.go)
	{"err-undef", "undefined-function", func() eval.Node {
		return eval.L(sy("funcall"), eval.Q(sy("c07-no-such-function")), eval.Int(1))
	}, "interpreter"},
	{"err-file", "file-error", func() eval.Node { return eval.L(sy("open"), eval.Str("/nonexistent-c07/x")) }, "interpreter"},
	{"err-parse", "parse-error", func() eval.Node { return eval.L(sy("read-from-string"), eval.Str("#<")) }, "interpreter"},
	{"err-control", "control-error", func() eval.Node { return eval.L(sy("return-from"), sy("c07-no-such-block"), eval.Int(1)) }, "interpreter"},
	{"err-args", "arg-count", func() eval.Node { return eval.L(sy("car")) }, "interpreter"},
	{"err-stream", "stream-error", func() eval.Node {
		return eval.L(sy("read-char"), eval.L(sy("make-string-input-stream"), eval.Str("")))
	}, "interpreter"},
	{"err-package", "package-error", func() eval.Node {
		return eval.L(sy("export"), eval.Q(sy("c07x")), eval.Q(sy("c07-no-such-package")))
	}, "interpreter"},
	{"err-noclass", "class-not-found", func() eval.Node { return eval.L(sy("make-instance"), eval.Q(sy("c07-nope"))) }, "interpreter"},
	{"err-user", "c07-user-error", mc("c07-user-error", sy(":x"), eval.Int(1)), "program"},
	{"err-user-arith", "c07-user-arith", mc("c07-user-arith"), "program"},
	{"err-mc-arith", "arithmetic-error", mc("arithmetic-error"), "program"},
	{"err-mc-simple", "simple-error", mc("simple-error", sy(":format-control"), eval.Str("c07")), "program"},
	{"err-mc-program", "program-error", mc("program-error"), "program"},
	{"err-mc-eof", "end-of-file", mc("end-of-file"), "program"},
	{"err-mc-cell", "cell-error", mc("cell-error", sy(":name"), eval.Q(sy("c07x"))), "program"},
	{"err-panic-obj", "error", func() eval.Node { return eval.L(sy("panic"), eval.Int(5)) }, "program"},
}

var r8ErrorExits = func() (out []string) {
	for _, e := range r8Errors {
		out = append(out, e.name)
	}
	return
}()

func r8ErrorForm(name string) eval.Node {
	for _, e := range r8Errors {
		if e.name == name {
			return e.form()
		}
	}
	return nil
}

func allErrorExits() []string { return append(append([]string(nil), errorExits...), r8ErrorExits...) }

func usesR8Errors(p *program) bool { return r8ErrorForm(p.exit) != nil || p.exit == "warn" }

// ---------------------------------------------------------------- traces

// r8FilterTraces leaves out of both traces what the statement does not speak about (S2):
//   - markers of role vpre: forms evaluated BEFORE the slot in the same form when the slot is in a value position (an
//     argument, an init form, ...). An exit there is judged for: no host fault, every cleanup exactly once and in
//     order, control reaches the target and nothing that the exit abandons runs; the order of evaluation in front
//     of the exit is C01's subject.
//   - markers of role late (calls a caller makes AFTER the call that ran the slot) unless the caller is abandoned:
//     how often and in which order mapcar, find-if, sort, maphash ... call their function is the subject of the
//     sequence-function property (C14; find-if and position-if for instance scan a list a second time when nothing
//     matched). When control is transferred to a target outside of the caller (tgt is further out than the caller,
//     or the top level) and the reference shows no late marker of that caller, every late marker slip shows is a
//     call that must not have happened, and it is compared.
func r8FilterTraces(b *built, exp, obs []string, tgt int) ([]string, []string) {
	any := false
	hofLevel := map[int]bool{}
	for i, c := range b.p.ctxs {
		if isValueKind(c.kind) {
			any = true
		}
		if isHOF(c.kind) {
			hofLevel[i] = true
			any = true
		}
	}
	if !any {
		return exp, obs
	}
	lateInRef := map[int]bool{}
	for _, key := range exp {
		if m, ok := markerInfo(b, key); ok && m.role == "late" && hofLevel[m.owner] {
			lateInRef[m.owner] = true
		}
	}
	drop := func(key string) bool {
		m, ok := markerInfo(b, key)
		if !ok {
			return false
		}
		switch m.role {
		case "vpre":
			return true
		case "late":
			abandoned := tgt != -2 && tgt < m.owner
			return hofLevel[m.owner] && (lateInRef[m.owner] || !abandoned)
		}
		return false
	}
	filter := func(t []string) []string {
		out := make([]string, 0, len(t))
		for _, key := range t {
			if !drop(key) {
				out = append(out, key)
			}
		}
		return out
	}
	return filter(exp), filter(obs)
}

// ---------------------------------------------------------------- release

// checkRelease: the stream of a with-open-file variant after the program: released (IsOpen false, a later write
// fails) and the file holds exactly what was written while the stream was open (flushed and closed).
func checkRelease(res *engine.Result, b *built, ex *expectation, scope *slip.Scope, level int, fs *slip.FileStream, closed bool,
	exitSig string, tgt int, src string) {
	p := b.p
	k := p.ctxs[level].kind
	if !isWOF(k) {
		return
	}
	sig := func(kind string) string {
		if coarseSig(p) {
			return "ctx=tagbody-sym exit=" + exitSig + " kind=" + kind
		}
		return fmt.Sprintf("exit=%s target=%s form=%s kind=%s", exitSig, targetName(p, tgt), k.name, kind)
	}
	if ex.streamOpen {
		return // a mutated reference
	}
	res.Hit("released:" + k.name)
	if fs.IsOpen() && closed {
		res.Fail(sig("open-stream-p-after-close"), src+"\nthe file is closed but the stream still says it is open")
	}
	opens := ex.streams[string(lv("fs", level))]
	if len(opens) == 0 {
		return
	}
	// the form may have been entered several times (inside a loop): every time adds to the file
	want, bak, hasBak := "", "", false
	exists := wofByKind[k.name].exists
	if exists {
		want = wofInit
	}
	for _, st := range opens {
		if k.name == "wof-rename" && exists {
			bak, hasBak = want, true
		}
		want = st.Content(want)
		exists = true
	}
	got, err := os.ReadFile(b.wofPath(level))
	switch {
	case err != nil:
		res.Fail(sig("file-missing"), src+"\n"+err.Error())
	case string(got) != want:
		res.Fail(sig("file-content"), fmt.Sprintf("%s\nthe file of %s at level %d holds %q, written while the stream was open: %q", src, k.name, level+1, got, want))
	default:
		res.Hit("content-checked:" + k.name)
	}
	if hasBak {
		if onDisk, err := os.ReadFile(b.wofPath(level) + ".bak"); err != nil || string(onDisk) != bak {
			res.Fail(sig("renamed-file-content"), fmt.Sprintf("%s\nthe renamed file holds %q (%v), expected %q", src, onDisk, err, bak))
		}
	}
	if closed {
		// a later write fails and leaves the file alone
		_, werr := lisp.EvalIn(scope, fmt.Sprintf("(write-string \"x\" %s)", lv("keep", level)))
		after, _ := os.ReadFile(b.wofPath(level))
		switch {
		case werr == nil || string(after) != string(got):
			res.Fail(sig("write-after-close"), fmt.Sprintf("%s\na write to the stream after the program: error %v, file %q", src, werr, after))
		case werr.GoFault:
			res.Fail(sig("write-after-close-go-fault"), src+"\n"+werr.Message)
		default:
			res.Hit("write-after-release-fails:" + k.name)
		}
	}
}

// ---------------------------------------------------------------- signatures

var (
	r8FormRe  = regexp.MustCompile(`(hofn?-[a-z*-]+|call-by-[a-z]+|v-[a-z*-]+|wof-[a-z]+)`)
	r8ExitRe  = regexp.MustCompile(`exit=([a-z-]+)`)
	r8KindRe  = regexp.MustCompile(`kind=([a-z-]+)`)
	r8ClassRe = regexp.MustCompile(`class=([a-z0-9-]+)`)
)

// coarsenR8: a failure of a round-8 program that names one of the round-8 forms gets the signature
// "fam=<family> form=<form> exit=<return|go|error|normal> kind=<verdict>": one per (form, exit class, verdict), which
// is the unit a repair has (every caller and every form with a value position looks at the result of the call or
// sub-form itself). The target kind, the cleanup variants and the marker names stay in the detail.
func coarsenR8(fam string, res *engine.Result) {
	for i, f := range res.Failures {
		if strings.HasPrefix(f.Sig, "harness:") || strings.HasPrefix(f.Sig, "ctx=") {
			continue
		}
		m := r8FormRe.FindString(f.Sig)
		if m == "" {
			continue
		}
		formName := strings.Replace(m, "hofn-", "hof-", 1)
		ex, kind := "", ""
		if x := r8ExitRe.FindStringSubmatch(f.Sig); x != nil {
			ex = exitClass(x[1])
		}
		if x := r8KindRe.FindStringSubmatch(f.Sig); x != nil {
			kind = x[1]
		}
		sig := fmt.Sprintf("fam=%s form=%s exit=%s kind=%s", fam, formName, ex, kind)
		if x := r8ClassRe.FindStringSubmatch(f.Sig); x != nil && kind == "unexpected-error" {
			sig += " class=" + x[1]
		}
		res.Failures[i].Detail = "signature before coarsening: " + f.Sig + "\n" + f.Detail
		res.Failures[i].Sig = sig
	}
}

// ---------------------------------------------------------------- vacuity counters

func exitClass(exitSig string) string {
	switch {
	case strings.HasPrefix(exitSig, "return"):
		return "return"
	case strings.HasPrefix(exitSig, "go-"):
		return "go"
	case strings.HasPrefix(exitSig, "error"):
		return "error"
	}
	return "normal"
}

// countR8: which kinds of round 8 the exit crosses (tgt is the exit's own target).
func countR8(res *engine.Result, p *program, tgt int, exitSig string) {
	control := isControl(exitSig)
	n := len(p.ctxs)
	for i := n - 1; tgt < i && 0 <= i; i-- {
		c := p.ctxs[i]
		k := c.kind
		if !r8KindSet[k.name] {
			continue
		}
		switch {
		case isHOF(k) && control:
			res.Hit("exit-leaves-function-called-by:" + strings.TrimPrefix(strings.TrimPrefix(k.name, "hofn-"), "hof-"))
			res.Hit("exit-on-call:" + c.pos)
			if isNamedHOF(k) {
				res.Hit("exit-leaves-named-function-called-by-built-in")
			}
			for j := i - 1; tgt < j; j-- {
				if p.ctxs[j].kind.name == "unwind-protect" {
					res.Hit("cleanup-between-caller-and-target")
				}
			}
			for j := i + 1; j < n; j++ {
				if p.ctxs[j].kind.name == "unwind-protect" {
					res.Hit("cleanup-inside-called-function")
				}
			}
		case isHOF(k):
			res.Hit("error-through-caller:" + strings.TrimPrefix(strings.TrimPrefix(k.name, "hofn-"), "hof-"))
		case isValueKind(k) && control:
			res.Hit("exit-in-value-position:" + k.name)
			for j := i - 1; tgt < j; j-- {
				if p.ctxs[j].kind.name == "unwind-protect" {
					res.Hit("cleanup-around-value-position")
				}
			}
		case isValueKind(k):
			res.Hit("error-in-value-position:" + k.name)
		case isWOF(k):
			res.Hit("release-on-" + exitClass(exitSig) + ":" + k.name)
			for j := i + 1; j < n; j++ {
				if isClosure(p.ctxs[j].kind) || isHOF(p.ctxs[j].kind) {
					res.Hit("release-on-exit-from-nested-closure-call")
				}
				if failingCleanup(p.ctxs[j]) {
					res.Hit("release-with-error-inside-a-cleanup-form")
				}
			}
		}
	}
	if usesR8Errors(p) && p.exit != "warn" {
		res.Hit("class:" + p.exit)
		if tgt == -1 {
			res.Hit("class-seen-at-top:" + p.exit)
		}
	}
}

func requiredR8() (out []string) {
	seen := map[string]bool{}
	add := func(s string) {
		if !seen[s] {
			seen[s] = true
			out = append(out, s)
		}
	}
	for _, h := range hofSpecs {
		add("exit-leaves-function-called-by:" + h.name)
		add("error-through-caller:" + h.name)
	}
	for _, n := range callBySpecs {
		add("exit-leaves-function-called-by:" + n)
		add("error-through-caller:" + n)
	}
	for _, k := range valueKinds {
		add("exit-in-value-position:" + k.name)
		add("error-in-value-position:" + k.name)
	}
	for _, m := range wofModes {
		for _, c := range []string{"return", "go", "error"} {
			add("release-on-" + c + ":" + m.name)
		}
		add("released:" + m.name)
		add("content-checked:" + m.name)
		add("write-after-release-fails:" + m.name)
	}
	for _, e := range r8ErrorExits {
		add("class-seen-at-top:" + e)
	}
	for _, s := range []string{"exit-on-call:c1", "exit-on-call:c2", "exit-on-call:c3", "exit-leaves-named-function-called-by-built-in",
		"cleanup-between-caller-and-target", "cleanup-inside-called-function", "cleanup-around-value-position",
		"release-on-exit-from-nested-closure-call", "release-with-error-inside-a-cleanup-form", "mutex-can-be-taken-again",
		"routine-exit-does-not-leave-the-outer-block", "warn-carries-on"} {
		add(s)
	}
	return
}

// ---------------------------------------------------------------- routines

// The routine family. slip documents run as "evaluates a form in a separate thread (go routine)" and nothing about
// exits; the language has no threads. An exit evaluated in a routine whose target is a block / tagbody / loop of the
// routine that started it crosses a routine boundary. Demanded (and nothing else): the host does not fault, the
// starting routine's block is NOT left by the other routine's exit (it runs to its end and yields its own value),
// and the cleanup form of an unwind-protect inside the routine runs exactly once.
//
// spec: rt|<exit>|<via>     exit: return-from | return | go | return-from-dolist;  via: direct | lambda | mapc
var rtExits = []string{"return-from", "return", "go", "return-dolist"}
var rtVias = []string{"direct", "lambda", "mapc"}

func enumRoutines(emit func(string)) {
	for _, e := range rtExits {
		for _, v := range rtVias {
			emit("rt|" + e + "|" + v)
		}
	}
}

func routineSource(exit, via string) string {
	var ex string
	switch exit {
	case "return-from":
		ex = "(return-from b 7)"
	case "return", "return-dolist":
		ex = "(return 7)"
	case "go":
		ex = "(go out)"
	}
	switch via {
	case "lambda":
		ex = "(funcall (lambda () " + ex + "))"
	case "mapc":
		ex = "(mapc (lambda (x) " + ex + ") '(1 2))"
	}
	routine := "(run (unwind-protect (progn (tr 2) " + ex + " (tr 3)) (tr 8) (channel-push c 1)))"
	switch exit {
	case "return-from":
		return "(let ((c (make-channel 1))) (list (block b (tr 1) " + routine + " (channel-pop c) (tr 4 'own)) (tr 5)))"
	case "return":
		return "(let ((c (make-channel 1))) (list (block nil (tr 1) " + routine + " (channel-pop c) (tr 4 'own)) (tr 5)))"
	case "return-dolist":
		return "(let ((c (make-channel 1))) (list (dolist (i '(1) (tr 4 'own)) (tr 1) " + routine + " (channel-pop c)) (tr 5)))"
	}
	return "(let ((c (make-channel 1)) (r nil)) (list (tagbody (tr 1) " + routine + " (channel-pop c) (setq r (tr 4 'own)) out (tr 6)) r (tr 5)))"
}

func execRoutine(spec string) (res engine.Result) {
	parts := strings.Split(spec, "|")
	if len(parts) != 3 {
		res.Fail("harness:bad-spec", spec)
		return
	}
	src := routineSource(parts[1], parts[2])
	lisp.ResetTrace()
	val, err := lisp.EvalIn(slip.NewScope(), src)
	trace := lisp.Trace()
	res.Nontrivial = true
	sig := func(kind string) string {
		return fmt.Sprintf("routine exit=%s via=%s kind=%s", parts[1], parts[2], kind)
	}
	count := map[string]int{}
	for _, k := range trace {
		count[k]++
	}
	detail := fmt.Sprintf("%s\n=> %s %v trace %v", src, lisp.Show(val), err, trace)
	wantVal := "(own nil)"
	if parts[1] == "go" {
		wantVal = "(nil own nil)"
	}
	switch {
	case err != nil && err.GoFault:
		res.Fail(sig("go-fault"), detail)
	case err != nil:
		res.Fail(sig("error:"+err.Class), detail)
	case count["4"] != 1 || count["5"] != 1 || count["1"] != 1 || lisp.Show(val) != wantVal:
		res.Fail(sig("outer-block-left"), detail+"\nthe block of the starting routine must run to its end (markers 1, 4, 5 once each) and yield "+wantVal)
	case count["8"] != 1:
		res.Fail(sig("cleanup-count"), detail+"\nthe cleanup form of the routine (marker 8) must run exactly once")
	case count["2"] != 1:
		res.Fail(sig("routine-not-run"), detail)
	default:
		res.Hit("routine-exit-does-not-leave-the-outer-block")
		res.Hit("nontrivial-passed")
	}
	// whether the routine carries on behind its exit (marker 3) is not judged
	delete(count, "3")
	res.Outcome = fmt.Sprintf("%s|%v", lisp.Show(val), count)
	return
}

// ---------------------------------------------------------------- mutated references (S6)

type r8Mutant struct {
	name string
	m    eval.Mutations
	fams string // the families whose cases have to tell it apart
}

func r8Mutants() (out []r8Mutant) {
	seen := map[string]bool{}
	for _, h := range hofSpecs {
		fn := hofFunctionName(&h)
		if seen[fn] {
			continue
		}
		seen[fn] = true
		out = append(out, r8Mutant{fn + " takes a return-from / return / go that leaves the function it called for that function's value and carries on",
			eval.Mutations{HOFSwallows: fn}, "hof"})
	}
	for _, pos := range []string{"arg", "init", "setq", "test", "loop-form", "with-arg", "value"} {
		out = append(out, r8Mutant{"an exit that leaves a form in a value position (" + pos + ") is dropped and the enclosing form carries on",
			eval.Mutations{ValueSwallow: pos}, "val"})
	}
	out = append(out,
		r8Mutant{"an error that passes a built-in higher-order function surfaces as a plain error", eval.Mutations{ClassLostInHOF: true}, "cls"},
		r8Mutant{"an error that unwinds through unwind-protect surfaces as a plain error (round-8 classes)", eval.Mutations{ErrorClassLost: true}, "cls"},
		r8Mutant{"with-open-file (output) keeps the stream open when left by an error", eval.Mutations{StreamKeptOnError: true}, "rel"},
		r8Mutant{"with-open-file (output) keeps the stream open when left by return-from / go", eval.Mutations{StreamKeptOnExit: true}, "rel"})
	return
}

// hofFunctionName: the function of ref/eval that makes the calls of this caller.
func hofFunctionName(h *hofSpec) string {
	n := h.name
	switch {
	case strings.HasPrefix(n, "map-") && n != "map-into":
		return "map"
	case strings.HasPrefix(n, "reduce"):
		return "reduce"
	case n == "format-call":
		return "format"
	case n == "apply-mapcar" || n == "funcall-mapcar":
		return "mapcar"
	case n == "funcall-every":
		return "every"
	}
	for _, suf := range []string{"-test", "-key", "-pred"} {
		n = strings.TrimSuffix(n, suf)
	}
	return n
}

// selftestR8 runs the mutated references of round 8 against the round-8 case set.
func selftestR8(tier string) (killed, total int, notes []string) {
	mutants := r8Mutants()
	total = len(mutants)
	alive := make([]bool, total)
	for i := range alive {
		alive[i] = true
	}
	left := total
	cases := 0
	done := fmt.Errorf("done")
	func() {
		defer func() {
			if r := recover(); r != nil && r != done {
				panic(r)
			}
		}()
		enumR8(tier, func(p *program) {
			cases++
			need := false
			for i, mu := range mutants {
				need = need || (alive[i] && mu.fams == p.fam)
			}
			if !need {
				return
			}
			b := buildProgram(p, "st")
			ref := runRef(b, eval.Mutations{})
			d := ref.digest()
			for i, mu := range mutants {
				if !alive[i] || mu.fams != p.fam {
					continue
				}
				if got := runRef(b, mu.m); got.digest() != d {
					alive[i] = false
					left--
					killed++
					notes = append(notes, fmt.Sprintf("killed: %s — first distinguishing case #%d %s", mu.name, cases, p.spec()))
				}
			}
			if left == 0 {
				panic(done)
			}
		})
	}()
	for i, mu := range mutants {
		if alive[i] {
			notes = append(notes, "SURVIVED: "+mu.name)
		}
	}
	return
}
