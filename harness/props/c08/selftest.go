package c08

import (
	"fmt"
	"sort"
	"strings"
)

// runRef executes a history on a (possibly mutated) reference and returns what
// the oracle would look at: value/trace of every compared step.
func runRef(h []hstep, mut mutation) (out []string) {
	defer func() {
		if rec := recover(); rec != nil {
			out = append(out, fmt.Sprintf("reference broke: %v", rec))
		}
	}()
	r := newRefMachine(mut)
	for _, st := range h {
		o, seen := r.do(st.step)
		if !seen {
			continue
		}
		switch st.check {
		case chkExact:
			out = append(out, st.label+"="+o.digest())
		case chkOK:
			out = append(out, st.label+" trace="+strings.Join(o.trace, ","))
			if o.err != nil {
				out = append(out, st.label+" fails")
			}
		}
	}
	return
}

// selftest (S6): every mutated reference must be told apart from the real
// reference by at least one enumerated case, using only what the oracle compares.
func selftest(tier string) (killed, total int, notes []string) {
	alive := map[mutation]bool{}
	for _, m := range allMutations {
		alive[m] = true
	}
	total = len(allMutations)
	killer := map[mutation]string{}
	uniq := func(s string) string { return strings.ReplaceAll(s, "@", "st-") }
	// visit the programs family-interleaved (first program of every family, then the second ...)
	// so that the scan can stop early; the set scanned is a prefix of the enumerated set
	rank := map[string]int{}
	famSeen := map[string]int{}
	for _, p := range allPrograms() {
		rank[p.id] = famSeen[p.fam]
		famSeen[p.fam]++
	}
	var specs []string
	enumClassic(tier, func(spec string) { specs = append(specs, spec) })
	sort.SliceStable(specs, func(a, b int) bool {
		return rank[specs[a][:strings.IndexByte(specs[a], '|')]] < rank[specs[b][:strings.IndexByte(specs[b], '|')]]
	})
	// the tree family: a prefix of every cross-section of the tier (trees of <= 3 call nodes), scanned first - the scan
	// stops as soon as every mutant is told apart
	var treeSpecs []string
	enumTrees(tier, 3, 4000, func(spec string) { treeSpecs = append(treeSpecs, spec) })
	specs = append(treeSpecs, specs...)
	done := false
	visit := func(spec string) {
		if done {
			return
		}
		p, perm, mode, err := parseSpec(spec)
		if err != nil {
			return
		}
		h, err := buildHistory(p, perm, mode, uniq)
		if err != nil {
			return
		}
		base := strings.Join(runRef(h, mutNone), " | ")
		for _, m := range allMutations {
			if !alive[m] {
				continue
			}
			if strings.Join(runRef(h, m), " | ") != base {
				alive[m] = false
				killer[m] = spec
				killed++
			}
		}
		done = killed == total
	}
	for _, spec := range specs {
		visit(spec)
	}
	for _, m := range allMutations {
		if alive[m] {
			notes = append(notes, "NOT distinguished: "+mutNames[m])
		} else {
			notes = append(notes, mutNames[m]+": first distinguished by "+killer[m])
		}
	}
	return
}
