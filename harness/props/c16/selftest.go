//go:build verif

package c16

import (
	"fmt"
	"math/big"
	"sort"
	"strings"
)

// Oracle-sensitivity self-test (S6). The oracles of this package are written
// against interfaces (relSys, typSys, tableImpl); here they are run on pure Go
// MODELS instead of slip: the reference model must pass every case, and each
// mutated model (one realistic bug each) must be caught by at least one case
// of the same enumerated case set. Nothing here calls slip.

// ------------------------------------------------------------ relations

type modelRel struct{ mut string }

func (m modelRel) val(x string) *mv { return elemByName[x].m }

func (m modelRel) kind(x string) (string, string) {
	v := m.val(x)
	switch v.k {
	case "int":
		if v.r.Num().IsInt64() {
			return "integer", "fixnum"
		}
		return "integer", "bignum"
	case "float":
		return "float", "double-float"
	case "str":
		return "string", "string"
	case "sym":
		return "symbol", "symbol"
	case "char":
		return "character", "character"
	case "vec":
		return "vector", "vector"
	case "table":
		return "hash-table", "hash-table"
	case "inst":
		return "instance", "instance"
	}
	return v.k, v.k
}

func isNum(v *mv) bool { return v.k == "int" || v.k == "ratio" || v.k == "float" }

func (m modelRel) numEq(a, b *mv, same bool) bool {
	if m.mut == "numbers-compared-as-doubles" && (a.k == "float" || b.k == "float") {
		fa, _ := new(big.Float).SetRat(a.r).Float64()
		fb, _ := new(big.Float).SetRat(b.r).Float64()
		return fa == fb
	}
	if m.mut == "ratios-compared-by-identity" && a.k == "ratio" && b.k == "ratio" {
		return same
	}
	return a.r.Cmp(b.r) == 0
}

func (m modelRel) rel(p string, a, b *mv, same bool) bool {
	// eq
	eq := same || a.k == b.k && (a.k == "sym" || a.k == "char" || a.k == "nil" || a.k == "t") && a.s == b.s
	if p == "eq" {
		return eq
	}
	if eq && !(m.mut == "eql-without-eq-shortcut" && (a.k == "table" || a.k == "inst")) {
		return true
	}
	if eq && p != "eql" {
		return true
	}
	// eql
	switch {
	case isNum(a) && isNum(b):
		return m.numEq(a, b, same)
	case a.k == "char" && b.k == "char":
		if a.s == b.s {
			return true
		}
		return p == "equalp" && strings.EqualFold(a.s, b.s)
	case a.k == "str" && b.k == "str":
		if a.s == b.s {
			return true
		}
		return p != "eql" && strings.EqualFold(a.s, b.s)
	}
	if p == "eql" {
		return false
	}
	// equal / equalp
	if m.mut == "equal-dispatches-on-first-argument" && p == "equal" && a.k == "str" && b.k == "sym" {
		return strings.EqualFold(a.s, b.s)
	}
	switch {
	case a.k == "sym" && b.k == "sym":
		return p == "equalp" && strings.EqualFold(a.s, b.s)
	case (a.k == "list" || a.k == "vec") && a.k == b.k:
		if m.mut == "equalp-on-vectors-is-identity" && p == "equalp" && a.k == "vec" {
			return false
		}
		if len(a.kids) != len(b.kids) {
			return false
		}
		for i := range a.kids {
			if !m.rel(p, a.kids[i], b.kids[i], false) {
				return false
			}
		}
		return true
	case a.k == "table" && b.k == "table":
		return p == "equalp" && len(a.kids) == 0 && len(b.kids) == 0
	case a.k == "inst" && b.k == "inst":
		if p != "equalp" || a.s != b.s || len(a.kids) != len(b.kids) {
			return false
		}
		for i := range a.kids {
			if !m.rel(p, a.kids[i], b.kids[i], false) {
				return false
			}
		}
		return true
	}
	return false
}

func (m modelRel) pred(p, x, y string) tri {
	if m.rel(p, m.val(x), m.val(y), x == y) {
		return tri{v: 1}
	}
	return tri{v: 0}
}

func (m modelRel) code(v *mv) string {
	switch v.k {
	case "int", "ratio", "float":
		if m.mut == "sxhash-by-representation" {
			return v.k + v.r.String()
		}
		return "n" + v.r.String()
	case "str":
		if m.mut == "sxhash-case-sensitive" {
			return "s" + v.s
		}
		return "s" + strings.ToLower(v.s)
	case "sym", "char":
		return v.k + v.s
	case "list", "vec":
		var ks []string
		for _, k := range v.kids {
			ks = append(ks, m.code(k))
		}
		return v.k + "(" + strings.Join(ks, " ") + ")"
	}
	return v.k
}

func (m modelRel) hash(x string) (string, tri) { return m.code(m.val(x)), tri{v: 1} }

var relMutants = []string{"numbers-compared-as-doubles", "ratios-compared-by-identity", "eql-without-eq-shortcut",
	"equal-dispatches-on-first-argument", "equalp-on-vectors-is-identity", "sxhash-by-representation", "sxhash-case-sensitive"}

// runRelModel runs the pair and triple cases of the tier restricted to the elements that have a model value.
func runRelModel(tier, mut string) (sigs map[string]bool) {
	sigs = map[string]bool{}
	var u []*elem
	for _, e := range relUniverse(tier) {
		if e.m != nil {
			u = append(u, e)
		}
	}
	sys := modelRel{mut: mut}
	for i, x := range u {
		for _, y := range u[i:] {
			for _, f := range checkPair(sys, x.name, y.name, x.src, y.src).fails {
				sigs[f.Sig] = true
			}
		}
	}
	for _, x := range u {
		for _, y := range u {
			if x == y {
				continue
			}
			for _, z := range u {
				if y == z {
					continue
				}
				for _, f := range checkTriple(sys, x.name, y.name, z.name, [3]string{x.src, y.src, z.src}).fails {
					sigs[f.Sig] = true
				}
			}
		}
	}
	return
}

// ------------------------------------------------------------ types

type modelTyp struct{ mut string }

var mtParents = map[string][]string{
	"number": nil, "real": {"number"}, "rational": {"real"}, "integer": {"rational"}, "fixnum": {"integer"}, "bignum": {"integer"},
	"float": {"real"}, "double-float": {"float"}, "sequence": nil, "array": nil, "vector": {"array", "sequence"}, "string": {"vector"},
	"symbol": nil, "condition": nil, "error": {"condition"}, "type-error": {"error"},
}

// model objects: name -> most specific type
var mtObjects = map[string]string{"o-fix": "fixnum", "o-big": "bignum", "o-dbl": "double-float", "o-vec": "vector", "o-str": "string",
	"o-arr": "array", "o-sym": "symbol", "o-err": "type-error", "o-list": "list"}

func (m modelTyp) types() []string {
	var t []string
	for k := range mtParents {
		t = append(t, k)
	}
	sort.Strings(t)
	return t
}

func (m modelTyp) objects() []string {
	var t []string
	for k := range mtObjects {
		t = append(t, k)
	}
	sort.Strings(t)
	return t
}

func (m modelTyp) registered(T string) bool { _, has := mtParents[T]; return has }
func (m modelTyp) objKind(x string) string  { return mtObjects[x] }

func ancestors(T string, skip func(child, parent string) bool) map[string]bool {
	out := map[string]bool{T: true}
	var walk func(string)
	walk = func(c string) {
		for _, p := range mtParents[c] {
			if skip != nil && skip(c, p) {
				continue
			}
			if !out[p] {
				out[p] = true
				walk(p)
			}
		}
	}
	walk(T)
	return out
}

func (m modelTyp) typeOf(x string) (string, tri) {
	if m.mut == "type-of-names-a-type-the-object-is-not" && x == "o-list" {
		return "cons", tri{v: 1}
	}
	return mtObjects[x], tri{v: 1}
}

func b2t(b bool) tri {
	if b {
		return tri{v: 1}
	}
	return tri{v: 0}
}

func (m modelTyp) typep(x, T string) tri {
	t0 := mtObjects[x]
	switch m.mut {
	case "typep-checks-only-the-most-specific-type":
		return b2t(T == t0)
	case "object-hierarchy-lacks-a-registered-ancestor":
		if t0 == "fixnum" && T == "rational" {
			return tri{v: 0}
		}
	}
	return b2t(ancestors(t0, nil)[T])
}

func (m modelTyp) subtypep(A, B string) tri {
	if !m.registered(A) || !m.registered(B) {
		return tri{v: 0}
	}
	switch m.mut {
	case "subtypep-consults-only-the-direct-superclass":
		if A == B {
			return tri{v: 1}
		}
		for _, p := range mtParents[A] {
			if p == B {
				return tri{v: 1}
			}
		}
		return tri{v: 0}
	case "subtypep-not-reflexive-on-root-classes":
		if A == B && len(mtParents[A]) == 0 {
			return tri{v: 0}
		}
	case "registry-misses-an-edge-the-objects-have":
		return b2t(ancestors(A, func(c, p string) bool { return c == "integer" && p == "rational" })[B])
	case "registry-has-an-edge-the-objects-lack":
		if A == "array" && B == "sequence" {
			return tri{v: 1}
		}
	}
	return b2t(ancestors(A, nil)[B])
}

func (m modelTyp) coerce(x, T string) (string, string) {
	t0 := mtObjects[x]
	num := ancestors(t0, nil)["number"]
	switch {
	case T == "t":
		return "typed", t0 + " same"
	case T == "float" && num:
		if m.mut == "coerce-to-float-returns-the-integer" && t0 != "double-float" {
			return "untyped", t0 + " same"
		}
		return "typed", "double-float 1.0"
	case T == t0:
		return "typed", t0 + " same"
	}
	return "error:type-error", ""
}

var typMutants = []string{"typep-checks-only-the-most-specific-type", "object-hierarchy-lacks-a-registered-ancestor",
	"subtypep-consults-only-the-direct-superclass", "subtypep-not-reflexive-on-root-classes",
	"registry-misses-an-edge-the-objects-have", "registry-has-an-edge-the-objects-lack",
	"coerce-to-float-returns-the-integer", "type-of-names-a-type-the-object-is-not"}

func runTypModel(mut string) (sigs map[string]bool) {
	sigs = map[string]bool{}
	sys := modelTyp{mut: mut}
	add := func(v verdict) {
		for _, f := range v.fails {
			sigs[f.Sig] = true
		}
	}
	for _, x := range sys.objects() {
		add(checkTypeOf(sys, x, x))
		for _, T := range []string{"t", "float", "fixnum", "string"} {
			add(checkCoerce(sys, x, T, x))
		}
		for _, S := range sys.types() {
			add(checkObjType(sys, x, S, x))
		}
	}
	for _, A := range sys.types() {
		for _, B := range sys.types() {
			add(checkSubtype(sys, A, B))
		}
	}
	return
}

// ------------------------------------------------------------ tables

// synthetic equivalence on the quick key alphabet (what a coherent eql would give)
func synthEquiv() *equiv {
	e := &equiv{name: "the model's eql", class: map[string]int{}}
	groups := [][]string{{"i1", "d1"}, {"big64a", "big64b"}, {"r12a", "r12b"}, {"sabc_a", "sabc_b"}}
	n := 0
	for _, g := range groups {
		for _, k := range g {
			e.class[k] = n
		}
		n++
	}
	for _, k := range fullKeysQuick {
		if _, has := e.class[k]; !has {
			e.class[k] = n
			n++
		}
	}
	return e
}

type modelTable struct {
	mut   string
	e     *equiv
	slots []entry // in insertion order
	cnt   int
}

func (t *modelTable) find(k string, identity bool) int {
	for i, s := range t.slots {
		if s.key == k || !identity && t.e.cls(s.key) == t.e.cls(k) {
			return i
		}
	}
	return -1
}

func (t *modelTable) apply(op string) (string, tri) {
	parts := strings.Split(op, ":")
	byIdentity := t.mut == "keys-compared-by-identity"
	switch parts[0] {
	case "set":
		i := t.find(parts[1], byIdentity || t.mut == "store-under-equivalent-key-adds-an-entry")
		if i < 0 {
			t.slots = append(t.slots, entry{parts[1], parts[2]})
			t.cnt++
		} else {
			t.slots[i].val = parts[2]
		}
		return parts[2], tri{v: 1}
	case "rem":
		i := t.find(parts[1], byIdentity || t.mut == "remhash-by-identity")
		if i < 0 {
			return "nil", tri{v: 1}
		}
		t.slots = append(t.slots[:i:i], t.slots[i+1:]...)
		if t.mut != "count-never-decremented" {
			t.cnt--
		}
		return "t", tri{v: 1}
	case "clr":
		var keep []entry
		if t.mut == "clrhash-keeps-nil-valued-entries" {
			for _, s := range t.slots {
				if s.val == "nil" {
					keep = append(keep, s)
				}
			}
		}
		t.slots = keep
		t.cnt = len(keep)
	}
	return "nil", tri{v: 1}
}

func (t *modelTable) entries() []entry {
	es := append([]entry(nil), t.slots...)
	sort.Slice(es, func(i, j int) bool { return es[i].key < es[j].key })
	return es
}

func (t *modelTable) probe(k string) probeRes {
	i := t.find(k, t.mut == "keys-compared-by-identity")
	if i < 0 {
		return probeRes{val: "nil", bad: tri{v: 1}}
	}
	found := true
	if t.mut == "gethash-reports-nil-value-as-missing" && t.slots[i].val == "nil" {
		found = false
	}
	return probeRes{val: t.slots[i].val, found: found, bad: tri{v: 1}}
}

func (t *modelTable) count() (int, tri) { return t.cnt, tri{v: 1} }

func (t *modelTable) visit() ([]entry, tri) {
	var es []entry
	for _, s := range t.slots {
		if t.mut == "maphash-skips-nil-valued-entries" && s.val == "nil" {
			continue
		}
		es = append(es, s)
	}
	return es, tri{v: 1}
}

var tabMutants = []string{"keys-compared-by-identity", "remhash-by-identity", "store-under-equivalent-key-adds-an-entry",
	"count-never-decremented", "clrhash-keeps-nil-valued-entries", "gethash-reports-nil-value-as-missing", "maphash-skips-nil-valued-entries"}

// runTabModel replays every history of the quick full alphabet up to `depth` operations (no dedup) on the model.
func runTabModel(mut string, depth int) (sigs map[string]bool) {
	sigs = map[string]bool{}
	e := synthEquiv()
	ops := opsFor(fullKeysQuick)
	fine := func(k string) string { return k }
	var rec func(hist []string)
	rec = func(hist []string) {
		if 0 < len(hist) {
			t := &modelTable{mut: mut, e: e}
			for _, op := range hist[:len(hist)-1] {
				t.apply(op)
			}
			o := observeStep(t, "eql", hist[len(hist)-1], fullKeysQuick)
			for _, f := range checkStep(o, []*equiv{e}, fine).fails {
				sigs[f.Sig] = true
			}
		}
		if len(hist) == depth {
			return
		}
		for _, op := range ops {
			rec(append(append([]string(nil), hist...), op))
		}
	}
	rec(nil)
	return
}

// ------------------------------------------------------------ tables: the pair family

// pairModelFine: the representation of a pair key, read off its name (the model never builds slip objects).
func pairModelFine(k string) string {
	switch {
	case strings.HasPrefix(k, "big"):
		return "bignum"
	case k == "nil" || k == "t":
		return "symbol"
	case strings.HasPrefix(k, "sabc") || k == "SABC" || k == "szz":
		return "string"
	case k == "ca" || k == "cA":
		return "character"
	case strings.HasPrefix(k, "y") || strings.HasPrefix(k, "k"):
		return "symbol"
	case strings.HasPrefix(k, "r"):
		return "ratio"
	case strings.HasPrefix(k, "d"):
		return "double-float"
	case strings.HasPrefix(k, "f"):
		return "single-float"
	case strings.HasPrefix(k, "l"):
		return "long-float"
	case strings.HasPrefix(k, "c"):
		return "complex"
	case strings.HasPrefix(k, "i"):
		return "fixnum"
	}
	return "other"
}

// pairSynthEquiv: what a coherent eql gives on the pair alphabet.
func pairSynthEquiv() *equiv {
	e := &equiv{name: "the model's eql", class: map[string]int{}}
	n := 0
	for _, g := range pairGroups {
		var parts [][]string
		switch g.name {
		case "third":
			parts = [][]string{{"r13"}, {"d13", "r13x"}, {"f13"}}
		case "infinite":
			parts = [][]string{{"dinf", "dinf_b", "finf", "linf"}, {"dminf"}}
		case "character":
			parts = [][]string{{"ca"}, {"cA"}}
		case "string":
			parts = [][]string{{"sabc_a", "sabc_b"}, {"SABC"}}
		case "symbol":
			for _, k := range g.keys {
				parts = append(parts, []string{k})
			}
		default:
			parts = [][]string{g.keys}
		}
		for _, p := range parts {
			for _, k := range p {
				e.class[k] = n
			}
			n++
		}
	}
	for _, k := range pairBystanders {
		e.class[k] = n
		n++
	}
	return e
}

// pairModelTable is modelTable with the defects of a table that looks numbers up by representation.
type pairModelTable struct {
	modelTable
}

func (t *pairModelTable) findPair(k string) int {
	for i, s := range t.slots {
		if s.key == k {
			return i
		}
		if t.e.cls(s.key) != t.e.cls(k) {
			if t.mut == "search-stops-at-the-first-number-key" && pairModelFine(s.key) != "string" && pairModelFine(s.key) != "symbol" &&
				pairModelFine(s.key) != "character" && pairModelFine(k) != "string" && pairModelFine(k) != "symbol" && pairModelFine(k) != "character" {
				return -1
			}
			continue
		}
		fk, fs := pairModelFine(k), pairModelFine(s.key)
		switch t.mut {
		case "value-held-key-looked-up-directly-skips-reference-held-entries":
			// the seeded defect: only a key held by reference searches the table; a float goes to the map directly, which
			// finds the fixnum an integral value is normalised to and any entry held by value with the same bits
			if !heldByReference(fk) && heldByReference(fs) && nonIntegralKey[s.key] {
				continue
			}
		case "negative-zero-is-its-own-key":
			if strings.HasSuffix(k, "m0") != strings.HasSuffix(s.key, "m0") {
				continue
			}
		}
		return i
	}
	return -1
}

func (t *pairModelTable) apply(op string) (string, tri) {
	parts := strings.Split(op, ":")
	switch parts[0] {
	case "set":
		if i := t.findPair(parts[1]); i < 0 {
			t.slots = append(t.slots, entry{parts[1], parts[2]})
			t.cnt++
		} else {
			t.slots[i].val = parts[2]
		}
		return parts[2], tri{v: 1}
	case "rem":
		i := t.findPair(parts[1])
		if i < 0 {
			return "nil", tri{v: 1}
		}
		t.slots = append(t.slots[:i:i], t.slots[i+1:]...)
		t.cnt--
		return "t", tri{v: 1}
	}
	return t.modelTable.apply(op)
}

func (t *pairModelTable) probe(k string) probeRes {
	i := t.findPair(k)
	if i < 0 {
		return probeRes{val: "nil", bad: tri{v: 1}}
	}
	return probeRes{val: t.slots[i].val, found: true, bad: tri{v: 1}}
}

var pairMutants = []string{"value-held-key-looked-up-directly-skips-reference-held-entries", "search-stops-at-the-first-number-key",
	"negative-zero-is-its-own-key"}

// runPairModel replays the 1- and 2-operation histories of the pair family (test eql, with and without bystanders, keys of
// one group or of neighbouring groups) on the model.
func runPairModel(mut string) (sigs map[string]bool, hits map[string]int) {
	sigs, hits = map[string]bool{}, map[string]int{}
	e := pairSynthEquiv()
	run := func(bg bool, ops ...string) {
		var keys []string
		seen := map[string]bool{}
		for _, op := range ops {
			k := strings.Split(op, ":")[1]
			if !seen[k] {
				seen[k] = true
				keys = append(keys, k)
			}
		}
		t := &pairModelTable{modelTable{mut: mut, e: e}}
		v := runPairHistory(t, "eql", bg, ops, keys, pairModelFine, func(*tableObs, []string) []*equiv { return []*equiv{e} })
		for _, f := range v.fails {
			sigs[f.Sig] = true
		}
		for _, h := range v.hits {
			hits[h]++
		}
	}
	for _, bg := range []bool{false, true} {
		for _, k1 := range pairKeys {
			run(bg, "set:"+k1+":a")
			for _, k2 := range pairKeys {
				if pairNear(k1, k2) {
					run(bg, "set:"+k1+":a", "set:"+k2+":b")
					run(bg, "set:"+k1+":a", "rem:"+k2)
				}
			}
		}
	}
	return
}

// ------------------------------------------------------------ driver

func selftest(tier string) (killed, total int, notes []string) {
	first := func(sigs map[string]bool) string {
		var s []string
		for k := range sigs {
			s = append(s, k)
		}
		sort.Strings(s)
		if len(s) == 0 {
			return ""
		}
		return fmt.Sprintf("%s (+%d more)", s[0], len(s)-1)
	}
	refOK := true
	if s := runRelModel(tier, ""); 0 < len(s) {
		refOK = false
		notes = append(notes, "REFERENCE relation model fails its own oracle: "+first(s))
	}
	if s := runTypModel(""); 0 < len(s) {
		refOK = false
		notes = append(notes, "REFERENCE type model fails its own oracle: "+first(s))
	}
	if s := runTabModel("", 2); 0 < len(s) {
		refOK = false
		notes = append(notes, "REFERENCE table model fails its own oracle: "+first(s))
	}
	pairRef, pairHits := runPairModel("")
	if 0 < len(pairRef) {
		refOK = false
		notes = append(notes, "REFERENCE pair-family table model fails its own oracle: "+first(pairRef))
	}
	for _, h := range pairRequired {
		if pairHits[h] == 0 && h != "pair-addresses-key-equivalent-under-the-named-test-only" { // the model has one test
			refOK = false
			notes = append(notes, "pair family on the reference model never hits "+h)
		}
	}
	for _, m := range pairMutants {
		total++
		if s, _ := runPairModel(m); 0 < len(s) && refOK {
			killed++
			notes = append(notes, "table-pairs/"+m+": caught by "+first(s))
		} else {
			notes = append(notes, "table-pairs/"+m+": NOT caught")
		}
	}
	for _, m := range relMutants {
		total++
		if s := runRelModel(tier, m); 0 < len(s) && refOK {
			killed++
			notes = append(notes, "relations/"+m+": caught by "+first(s))
		} else {
			notes = append(notes, "relations/"+m+": NOT caught")
		}
	}
	for _, m := range typMutants {
		total++
		if s := runTypModel(m); 0 < len(s) && refOK {
			killed++
			notes = append(notes, "types/"+m+": caught by "+first(s))
		} else {
			notes = append(notes, "types/"+m+": NOT caught")
		}
	}
	for _, m := range tabMutants {
		total++
		if s := runTabModel(m, 2); 0 < len(s) && refOK {
			killed++
			notes = append(notes, "tables/"+m+": caught by "+first(s))
		} else {
			notes = append(notes, "tables/"+m+": NOT caught")
		}
	}
	return
}
