package c04

import (
	"fmt"
	"sort"
	"strings"

	"github.com/ohler55/slip"
)

// dumpFuncs lists every function of every package with its documented lambda list (dev aid, spec "dump:funcs").
func dumpFuncs() string {
	var lines []string
	for _, fn := range allFuncs() {
		var parts []string
		for _, a := range fn.fi.Doc.Args {
			s := a.Name
			if a.Type != "" {
				s += "<" + a.Type + ">"
			}
			if a.Default != nil {
				s += "=" + slip.ObjectString(a.Default)
			}
			parts = append(parts, s)
		}
		lines = append(lines, fmt.Sprintf("%s:%s\t%s\t(%s)", fn.pkg, fn.name, fn.fi.Kind, strings.Join(parts, " ")))
	}
	sort.Strings(lines)
	return strings.Join(lines, "\n")
}
