//go:build verif

// Package c01: core evaluation follows the language rules for order, binding
// and control. Exhaustive enumeration of programs built from form templates
// with typed holes (deviation-bounded nesting), each run on the real slip and
// compared - value and trace of side effects - with an independent reference
// evaluator; plus a table of quoted data in a fixed set of contexts.
package c01

import (
	"fmt"
	"os"
	"sort"
	"strings"

	"github.com/ohler55/slip"

	"verif/engine"
	"verif/lisp"
)

const (
	refBudgetSteps = 20000
	stepSentinel   = "c01: slip step budget exceeded"
)

func init() {
	engine.Register(&engine.Prop{
		ID:    "C01",
		Level: "exploration",
		Rule: "every program obtained from the form templates (one per form kind and variant, every evaluated position a typed hole " +
			"whose default filling is a trace leaf (tr 'kN N)) by filling holes with further templates or environment leaves " +
			"(variable read / variable increment / call of a closure in scope) up to the deviation bound of the tier, plus every " +
			"quoted datum of the datum table in every context of the context table; each program is rendered to text, read and " +
			"evaluated by slip in a fresh scope, and its value (converted by Go type switch) and its trace of side effects must " +
			"equal those of the independent reference evaluator. Re-entrant family: every multi-part form of the core language in the body " +
			"of a function (defun / lambda held in a variable / called through a designator / through a second function) with a call of " +
			"that very function in every evaluated position in turn (and in every pair of positions, and in all at once), a depth counter " +
			"ending the recursion after 1 or 2 nested inner activations that run the same form to completion, cold and after a completed " +
			"warm-up call. Scenario family: complete programs about special variables, closures over special variables, closures made in " +
			"loops and setq from closures, with the set of outcomes the language definition and slip's documentation both allow. Quote: " +
			"data written in every reader syntax, returned through every binding / call route, evaluated again (same object), taken apart. " +
			"A case is non-trivial when it composes at least two form kinds " +
			"(>= 2 deviations), is a re-entrant or scenario case, or, for quote cases, when the quoted datum sits inside another form",
		Assumptions: []string{
			"the reference evaluator implements the Common Lisp rules for the core forms (order of evaluation, lexical scoping, multiple values)",
			"programs are closed, well typed, free of non-local exits (C07), redefinition (C08), lambda-list keywords (C04) and large integers (C05)",
			"implementation-dependent points: a closure that captures a dolist/dotimes variable beyond its iteration may see one shared binding or one per iteration (both accepted, scenario family only); " +
				"dolist/dotimes variables are never assigned, literal data is never modified, (values ...) is written only as the value of a function body or as the values-form of a multiple-value consumer (slip documents that use)",
			"S2: a closure over a SPECIAL variable: the language definition reads the dynamic value at call time, the property statement says a closure sees the binding it was created in, slip documents nothing: both outcomes accepted (accepted:special-captured)",
			"S2: case compares with equal in slip (documented) and eql in the language definition: keys are chosen so that both agree (a key that is a list never equals the integer key; nil in the place of the keys is only used with a non-nil key); " +
				"the value of psetq is never used (slip documents the last value, the language definition nil); setq of a variable bound nowhere has no meaning in the language definition: only a Go fault or a hang fails",
			"S2: the datum of a backquote form is not fixed by the language definition: only not-evaluated / no fault / same on every evaluation is demanded; one quote form evaluated twice gives the identical (eq) object, for numbers and characters an eql one",
			"S2: where Common Lisp reduces a stored or passed-on result to its primary value (init forms of let/let*/do, non-final forms of or, results collected by mapcar) " +
				"slip may keep the whole values object (its own tests rely on a variable holding one); such outcomes are accepted and counted (accepted:...)",
			"S2: a quoted datum is compared by structure and type with symbol case folded; an unsuffixed float may be single or double; the ' shorthand inside quoted data is not exercised",
			"a slip run is cut off after 4x the reference's evaluation count + 2000 function evaluations and reported as runaway",
		},
		Enumerate: enumerate,
		Exec:      exec,
		Required: []string{"closure-call", "closure-updates-captured-variable", "branch-skipped", "shadowing-binding", "setq-outer-binding",
			"loop-second-iteration", "recursive-call", "mv-bind-2", "traced-args>=2", "nested-forms>=2", "env-leaf", "quote-compound", "quote-evaluated-twice",
			// round 8
			"psetq", "mv-list", "mv-call", "mv-setq", "mv-prog1", "nth-value", "mapc", "maplist",
			"reentrant:form-entered-again-while-active", "reentrant:several-positions", "reentrant:at=do-step", "reentrant:at=call-argument",
			"reentrant:carrier=lambda-in-variable", "reentrant:mode=warm-full", "reentrant:depth=2",
			"scenario:special-dynamic-binding-seen", "scenario:special-binding-undone", "scenario:non-local-exit",
			"quote-same-object-on-the-next-evaluation", "quote-datum-taken-apart", "quote-shorthand-inside-quoted-data", "quote-empty-list-is-nil"},
		Bound:    bound,
		Selftest: selftest,
	})
}

// ---------------------------------------------------------------- enumeration

type tierPlan struct {
	what string
	opts genOpts
	devs []int
}

func plans(tier string) []tierPlan {
	if tier == engine.Thorough {
		return []tierPlan{
			{"all templates at every level, D<=2", genOpts{}, []int{1, 2}},
			{"all but the variant templates at every level, D=3", genOpts{rankAt: []int{0}}, []int{3}},
			{"root from all templates (variants included), second and third level from the core subset, D=3", genOpts{rankAt: []int{-1, 1}}, []int{3}},
			{"root from all templates, lower levels from the spine subset, D=4", genOpts{rankAt: []int{0, 2}}, []int{4}},
			{"every level from the deep subset, D=5", genOpts{rankAt: []int{3}}, []int{5}},
			{"spines (one filled hole per form, i.e. nesting depth 6) over the deepest subset, D=6", genOpts{rankAt: []int{4}, spine: true}, []int{6}},
		}
	}
	return []tierPlan{
		{"all templates at every level, D<=2", genOpts{}, []int{1, 2}},
		{"root from all templates, second and third level from the core subset, D=3", genOpts{rankAt: []int{-1, 1}}, []int{3}},
	}
}

func forgetFunction(name string) { slip.VerifForgetFunction(slip.CurrentPackage, name) }

// onlyFamilies: development aid (C01_ONLY=q,r,s,p restricts the enumeration to some families; bin/check never
// sets it and Bound says so when it is set).
func onlyFamilies(f string) bool {
	only := os.Getenv("C01_ONLY")
	return only == "" || strings.Contains(","+only+",", ","+f+",")
}

func enumerate(tier string, emit func(string)) {
	if onlyFamilies("q") {
		enumerateQuotes(emit)
	}
	if onlyFamilies("r") {
		enumerateReentrant(tier, emit)
	}
	if onlyFamilies("s") {
		enumerateScenarios(emit)
	}
	if !onlyFamilies("p") {
		return
	}
	for _, pl := range plans(tier) {
		g := newGenerator(pl.opts)
		for _, d := range pl.devs {
			g.roots(d, func(s string) { emit("p|" + s) })
		}
	}
}

func bound(tier string) string {
	var parts []string
	for _, pl := range plans(tier) {
		parts = append(parts, pl.what)
	}
	var n [5]int
	variants := 0
	for _, t := range templates {
		for r := 1; r <= t.rank; r++ {
			n[r]++
		}
		if t.rank < 0 {
			variants++
		}
	}
	restricted := ""
	if only := os.Getenv("C01_ONLY"); only != "" {
		restricted = "RESTRICTED DEVELOPMENT RUN (C01_ONLY=" + only + "), not the tier: "
	}
	return restricted + fmt.Sprintf("%d templates (%d of them variant templates; subsets: core %d, spine %d, deep %d, deepest %d), nesting depth <= 6, deviations D counted including the root form "+
		"(a deviation = a hole filled with a template or an environment leaf): %s; %s; %s; %s",
		len(templates), variants, n[1], n[2], n[3], n[4], strings.Join(parts, "; "), quoteBound(), reentrantBound(tier), scenarioBound())
}

// ---------------------------------------------------------------- running

type observation struct {
	val     string
	trace   []string
	err     *lisp.Err
	runaway bool
}

func runSlip(text string, limit int) (o observation) {
	scope := slip.NewScope()
	n := 0
	fired := false
	scope.InterruptCheck = func() {
		n++
		if limit < n && !fired {
			fired = true // one shot: slip builds a condition from the panic by evaluating more functions
			panic(stepSentinel)
		}
	}
	lisp.ResetTrace()
	obj, err := lisp.EvalIn(scope, text)
	o.trace = lisp.Trace()
	o.err = err
	if err != nil {
		o.runaway = fired
		return
	}
	if vs, ok := obj.(slip.Values); ok && len(vs) == 1 {
		obj = vs[0]
	}
	o.val = lisp.Show(obj)
	return
}

type verdict struct {
	ok         bool
	kind       string // failure kind
	text       string
	want       string
	wantTr     []string
	got        observation
	lenient    bool   // accepted only because secondary values kept by slip are ignored (S2)
	acceptedAs string // which accepted alternative of the reference matched (scenario family)
	skip       string // reference could not evaluate (budget / generator bug)
	hits       map[string]int
	refSteps   int
}

func sameTrace(a, b []string) bool {
	if len(a) != len(b) {
		return false
	}
	for i := range a {
		if a[i] != b[i] {
			return false
		}
	}
	return true
}

func traceKind(want, got []string) string {
	cnt := map[string]int{}
	for _, k := range want {
		cnt[k]++
	}
	extra, missing := false, false
	for _, k := range got {
		cnt[k]--
	}
	for _, c := range cnt {
		if c < 0 {
			extra = true
		}
		if 0 < c {
			missing = true
		}
	}
	switch {
	case extra && missing:
		return "trace-differs"
	case extra:
		return "trace-extra-effects"
	case missing:
		return "trace-missing-effects"
	}
	return "trace-order"
}

// judge runs one term on the reference and on slip.
func judge(t *term, prefix string) (v verdict) { return judgeRenaming(t, prefix, nil) }

func judgeRenaming(t *term, prefix string, rename *term) (v verdict) {
	p := instantiateRenaming(t, prefix, rename)
	v.text = p.text()
	r := newRef("", refBudgetSteps)
	want, rerr := r.run(p.forms)
	v.hits = r.hits
	v.refSteps = r.steps
	if rerr != "" {
		v.skip = rerr
		return
	}
	v.want = showVal(want)
	v.wantTr = r.trace
	v.got = runSlip(v.text, slipLimit(r.steps))
	// slip keeps every defined function in its package for ever (about 2 KB each): take this run's uniquely named
	// functions out again, after the observation, so that a worker survives millions of cases
	for i := 1; i <= p.nameSeq; i++ {
		slip.VerifForgetFunction(slip.CurrentPackage, fmt.Sprintf("%sn%d", p.prefix, i))
	}
	switch {
	case v.got.runaway:
		v.kind = "runaway"
	case v.got.err != nil && v.got.err.GoFault:
		v.kind = "go-fault"
	case v.got.err != nil:
		v.kind = "error:" + v.got.err.Class
	case !sameTrace(v.wantTr, v.got.trace):
		v.kind = traceKind(v.wantTr, v.got.trace)
	case v.want != v.got.val:
		v.kind = "value"
	default:
		v.ok = true
	}
	if !v.ok && v.got.err == nil && strings.Contains(v.text, "(values") {
		// Rule S2. slip treats a multiple-values object as an ordinary object that can be stored in a variable
		// and passed on (its own tests keep the result of a two-valued function in a let variable and take it
		// apart later with nth-value). Where Common Lisp reduces a result to its primary value because it is
		// stored or passed on - the init form of let/let*/do, a non-final form of or, the results collected by
		// mapcar - keeping all the values is therefore accepted: the outcome must equal that of the reference
		// with some subset of those positions keeping values objects. Dropping values, reducing them in a
		// value-transparent position, or taking the wrong branch is not accepted by any of these.
		for mask := 1; mask < 1<<len(keepPositions) && !v.ok; mask++ {
			alt := newRef("", refBudgetSteps)
			alt.keep = map[string]bool{}
			for i, pos := range keepPositions {
				alt.keep[pos] = mask&(1<<i) != 0
			}
			if av, aerr := alt.run(p.forms); aerr == "" && showVal(av) == v.got.val && sameTrace(alt.trace, v.got.trace) {
				v.ok, v.lenient, v.kind = true, true, ""
			}
		}
	}
	return
}

var keepPositions = []string{"let-init", "or-argument", "mapcar-result", "do-init-step"}

// slipLimit bounds slip's work on a program by the reference's: the reference counts every evaluation (atoms
// included), slip's interrupt check only fires on function forms, so a conforming run needs fewer than refSteps.
// A run that exceeds 4x that plus a margin is reported as runaway (deep runaway recursion is very slow to unwind).
func slipLimit(refSteps int) int { return 4*refSteps + 2000 }

func clip(tr []string) string {
	if 60 < len(tr) {
		return strings.Join(tr[:60], ",") + fmt.Sprintf(",…(%d)", len(tr))
	}
	return strings.Join(tr, ",")
}

func (v *verdict) describe() string {
	got := ""
	switch {
	case v.got.runaway:
		got = "still running after 4x the reference's evaluation count (+2000)"
	case v.got.err != nil:
		got = "signals " + v.got.err.String() + " after trace [" + clip(v.got.trace) + "]"
	default:
		got = v.got.val + " with trace [" + clip(v.got.trace) + "]"
	}
	return fmt.Sprintf("%s => slip: %s; language definition: %s with trace [%s]", v.text, got, v.want, clip(v.wantTr))
}

// ---------------------------------------------------------------- signature by minimisation

// minimise greedily reduces a failing term to a locally minimal failing term:
// replace a subtree by the default leaf, hoist a subtree to the root, or
// replace a node by one of its children, as long as the program still fails.
// The reduced term names *what* fails: it is the signature.
func minimise(t *term, prefix string, budget int) (*term, verdict) {
	seq := 0
	try := func(c *term) (verdict, bool) {
		if budget <= 0 || !valid(c, 'a', scope{}) {
			return verdict{}, false
		}
		budget--
		seq++
		v := judge(c, fmt.Sprintf("%sm%d", prefix, seq))
		return v, v.skip == "" && !v.ok
	}
	cur := t
	var curV verdict
	have := false
	for again := true; again; {
		again = false
		for {
			improved := false
			// all nodes in preorder with a way to rebuild the tree with that node replaced
			type site struct {
				node    *term
				replace func(by *term) *term
			}
			var sites []site
			var walk func(n *term, rebuild func(*term) *term)
			walk = func(n *term, rebuild func(*term) *term) {
				sites = append(sites, site{n, rebuild})
				for i := range n.kids {
					i := i
					walk(n.kids[i], func(by *term) *term {
						c := &term{kind: n.kind, kids: append([]*term(nil), n.kids...)}
						c.kids[i] = by
						return rebuild(c)
					})
				}
			}
			walk(cur, func(by *term) *term { return by })
			var cands []*term
			for _, s := range sites[1:] {
				if s.node.kind != "_" {
					cands = append(cands, s.replace(leafTerm())) // drop the subtree
				}
			}
			for _, s := range sites[1:] {
				if s.node.kind != "_" && !strings.HasPrefix(s.node.kind, "$") {
					cands = append(cands, s.node) // hoist to the root
				}
			}
			for _, s := range sites {
				for _, k := range s.node.kids {
					if k.kind != "_" {
						cands = append(cands, s.replace(k)) // splice a child in place of its parent
					}
				}
			}
			sort.SliceStable(cands, func(a, b int) bool { return cands[a].deviations() < cands[b].deviations() })
			for _, c := range cands {
				if v, fails := try(c); fails {
					cur, curV, have, improved = c, v, true, true
					break
				}
			}
			if !improved {
				break
			}
		}
		// canonicalise: a template that is only needed as "some list / some integer / some value" is replaced by
		// the simplest template of that type, so that one defect does not get one signature per bystander
		for changed := true; changed; {
			changed = false
			var sites []func(by *term) *term
			var nodes []*term
			var walk func(n *term, rebuild func(*term) *term)
			walk = func(n *term, rebuild func(*term) *term) {
				nodes = append(nodes, n)
				sites = append(sites, rebuild)
				for i := range n.kids {
					i := i
					walk(n.kids[i], func(by *term) *term {
						c := &term{kind: n.kind, kids: append([]*term(nil), n.kids...)}
						c.kids[i] = by
						return rebuild(c)
					})
				}
			}
			walk(cur, func(by *term) *term { return by })
		search:
			for i := 1; i < len(nodes); i++ {
				if !isTemplate(nodes[i]) {
					continue
				}
				// a form that only carries one inner form (it is needed for the types to fit, or merely sits in
				// between) is replaced by progn around that inner form
				if nodes[i].kind != "pg1" && nodes[i].kind != "pg2" {
					var only *term
					count := 0
					for _, k := range nodes[i].kids {
						if k.kind != "_" {
							only = k
							count++
						}
					}
					if count == 1 {
						for _, wrap := range []*term{{kind: "pg1", kids: []*term{only}}, {kind: "pg2", kids: []*term{only, leafTerm()}}} {
							c := sites[i](wrap)
							if v, fails := try(c); fails {
								cur, curV, have, changed, again = c, v, true, true, true
								break search
							}
						}
					}
				}
				// a values-returning form whose primary value is nil: (values nil x) is the canonical one
				if d := nodes[i].deviations(); d == 2 && nodes[i].kind != "vln" {
					c := sites[i](defaultsOf("vln"))
					if v, fails := try(c); fails {
						cur, curV, have, changed, again = c, v, true, true, true
						break search
					}
				}
				if 1 < nodes[i].deviations() {
					continue
				}
				// a leaf form that is only needed as "some list / some integer / some value / nil"
				for _, canon := range []string{"lst", "add", "pg1", "pg0"} {
					if nodes[i].kind == canon {
						break
					}
					c := sites[i](defaultsOf(canon))
					if v, fails := try(c); fails {
						cur, curV, have, changed, again = c, v, true, true, true
						break search
					}
				}
			}
		}
	}
	if !have {
		curV = judge(cur, prefix+"m0")
	}
	return cur, curV
}

// ---------------------------------------------------------------- exec

func exec(spec string) (res engine.Result) {
	switch {
	case strings.HasPrefix(spec, "raw:"):
		o := runSlip(spec[4:], 20000)
		res.Outcome = "val=" + o.val + " trace=" + strings.Join(o.trace, ",") + " err=" + o.err.String()
		return
	case strings.HasPrefix(spec, "count:"):
		// count:<min rank of the root>:<min rank below>:<spine 0|1>:<dev> - size of an enumeration (development aid)
		var r1, r2, sp, dev int
		_, _ = fmt.Sscanf(spec, "count:%d:%d:%d:%d", &r1, &r2, &sp, &dev)
		n := 0
		newGenerator(genOpts{rankAt: []int{r1, r2}, spine: sp == 1}).roots(dev, func(string) { n++ })
		res.Outcome = fmt.Sprint(n)
		return
	case strings.HasPrefix(spec, "show:"):
		t, err := parseTerm(spec[5:])
		if err != nil {
			res.Fail("harness:bad-spec", err.Error())
			return
		}
		v := judge(t, "c01s")
		res.Outcome = fmt.Sprintf("ok=%v kind=%s skip=%s :: %s", v.ok, v.kind, v.skip, v.describe())
		return
	case strings.HasPrefix(spec, "q|"):
		return execQuote(spec)
	case strings.HasPrefix(spec, "r|"):
		return execReentrant(spec)
	case strings.HasPrefix(spec, "s|"):
		return execScenario(spec)
	case strings.HasPrefix(spec, "p|"):
	default:
		res.Fail("harness:bad-spec", spec)
		return
	}
	t, err := parseTerm(spec[2:])
	if err != nil || !valid(t, 'a', scope{}) {
		res.Fail("harness:bad-spec", fmt.Sprintf("%s: %v", spec, err))
		return
	}
	prefix := fmt.Sprintf("c01f%x", engine.Hash64(spec))
	v := judge(t, prefix)
	if v.skip != "" {
		if strings.HasPrefix(v.skip, "ref-error") {
			res.Fail("harness:generator-produced-ill-typed-program", v.text+" :: "+v.skip)
			return
		}
		res.Hit("skipped:" + v.skip)
		res.Outcome = "skipped:" + v.skip
		return
	}
	dev := t.deviations()
	res.Nontrivial = 2 <= dev
	res.Counters = map[string]int{}
	for k, n := range v.hits {
		if 0 < n {
			res.Counters[k] = 1
		}
	}
	if 2 <= dev {
		res.Hit("nested-forms>=2")
	}
	if 3 <= t.depth() {
		res.Hit("nesting-depth>=3")
	}
	if strings.Contains(spec, "$") {
		res.Hit("env-leaf")
	}
	if 2 <= len(v.wantTr) {
		res.Hit("traced-args>=2")
	}
	if 0 < v.hits["closure-call"] && 0 < v.hits["setq-outer-binding"] {
		res.Hit("closure-updates-captured-variable")
	}
	if v.got.err != nil {
		res.Outcome = "err:" + v.got.err.Class + "|" + clip(v.got.trace)
	} else {
		res.Outcome = v.got.val + "|" + clip(v.got.trace)
	}
	if v.lenient {
		res.Hit("accepted:secondary-values-kept-where-the-language-drops-them")
	}
	if v.ok {
		return
	}
	for _, f := range attribute(t, prefix, &v) {
		res.Fail(f.Sig, f.Detail)
	}
	return
}

// ---------------------------------------------------------------- attribution

// A failing program is attributed to the smallest failing programs it
// contains, so that one defect gives the same signature wherever it shows:
//  1. every template of the program that already fails on its own (all holes
//     default) is reported as  form=<family>:<name> kind=...;
//  2. every parent/child pair of templates that fails as a two-template
//     program is reported as  form=<family> hole=<role> inner=<name> kind=...;
//  3. the parts found in 1 and 2 are cut out (replaced by default leaves) and
//     what remains is judged again (rule S9: a known defect must not blind the
//     rest of the case); if it still fails it is reduced greedily and reported
//     as  core=<reduced term> kind=....
//
// The verdicts of single templates and of pairs are pure functions of the
// template names, so they are cached per process.
var (
	singleCache = map[string]*verdict{}
	pairCache   = map[string]*verdict{}
)

var pairClashCache = map[string][2]string{}

func pairClash(outer string, i int, inner string, pv *verdict) (sig, note string) {
	key := fmt.Sprintf("%s|%d|%s", outer, i, inner)
	if r, has := pairClashCache[key]; has {
		return r[0], r[1]
	}
	t := defaultsOf(outer)
	t.kids[i] = defaultsOf(inner)
	sig, note = nameClash(t, pv, fmt.Sprintf("c01clash%sh%d%s", outer, i, inner))
	pairClashCache[key] = [2]string{sig, note}
	return
}

func defaultsOf(kind string) *term {
	t := &term{kind: kind}
	for i := 0; i < arity(kind); i++ {
		t.kids = append(t.kids, leafTerm())
	}
	return t
}

func singleVerdict(name string) *verdict {
	if v, has := singleCache[name]; has {
		return v
	}
	v := judge(defaultsOf(name), "c01single"+name)
	singleCache[name] = &v
	return &v
}

func pairVerdict(outer string, i int, inner string) *verdict {
	key := fmt.Sprintf("%s|%d|%s", outer, i, inner)
	if v, has := pairCache[key]; has {
		return v
	}
	t := defaultsOf(outer)
	t.kids[i] = defaultsOf(inner)
	var v verdict
	if valid(t, 'a', scope{}) {
		v = judge(t, fmt.Sprintf("c01pair%sh%d%s", outer, i, inner))
	} else {
		v.ok = true
	}
	pairCache[key] = &v
	return &v
}

func isTemplate(t *term) bool { return t.kind != "_" && !strings.HasPrefix(t.kind, "$") }

func attribute(t *term, prefix string, whole *verdict) (out []engine.Failure) {
	seen := map[string]bool{}
	add := func(sig, detail string) {
		if !seen[sig] {
			seen[sig] = true
			out = append(out, engine.Failure{Sig: sig, Detail: detail})
		}
	}
	from := fmt.Sprintf(" [found in %s: %s]", t, whole.describe())
	cut := map[*term]bool{}
	var walk func(n *term)
	walk = func(n *term) {
		if !isTemplate(n) {
			for _, k := range n.kids {
				walk(k)
			}
			return
		}
		tp := tmplByName[n.kind]
		if sv := singleVerdict(n.kind); !sv.ok && sv.skip == "" {
			d := sv.describe()
			if n != t || 1 < t.deviations() {
				d += from
			}
			add(fmt.Sprintf("form=%s:%s kind=%s", tp.family, tp.name, sv.kind), d)
			cut[n] = true
			return
		}
		for i, k := range n.kids {
			if isTemplate(k) && singleVerdict(k.kind).ok {
				if pv := pairVerdict(n.kind, i, k.kind); !pv.ok && pv.skip == "" {
					d := pv.describe()
					if n != t || 2 < t.deviations() {
						d += from
					}
					if sig, note := pairClash(n.kind, i, k.kind, pv); sig != "" {
						add(sig, d+note)
						cut[k] = true
						continue
					}
					inner := k.kind
					// does it fail the same way with just any filling? then the inner form is not part of what fails
					for _, canon := range []string{"lst", "add", "pg1"} {
						if cv := pairVerdict(n.kind, i, canon); cv.skip == "" && cv.text != "" {
							if !cv.ok && cv.kind == pv.kind {
								inner = "*"
							}
							break
						}
					}
					add(pairSig(tp, i, inner, pv.kind), d)
					cut[k] = true
					continue
				}
			}
			if strings.HasPrefix(k.kind, "$") {
				// an environment leaf in a hole that fails with just any filling: same signature as for a template there
				for _, canon := range []string{"lst", "add", "pg1"} {
					if cv := pairVerdict(n.kind, i, canon); cv.skip == "" && cv.text != "" {
						if !cv.ok && singleVerdict(canon).ok {
							add(pairSig(tp, i, "*", cv.kind), cv.describe()+from)
							cut[k] = true
						}
						break
					}
				}
				if cut[k] {
					continue
				}
			}
			walk(k)
		}
	}
	walk(t)
	rest := t
	if 0 < len(cut) {
		if cut[t] {
			return
		}
		var rebuild func(n *term) *term
		rebuild = func(n *term) *term {
			if cut[n] {
				return leafTerm()
			}
			c := &term{kind: n.kind}
			for _, k := range n.kids {
				c.kids = append(c.kids, rebuild(k))
			}
			return c
		}
		rest = rebuild(t)
		rv := judge(rest, prefix+"r")
		if rv.ok || rv.skip != "" {
			return
		}
	}
	budget := 300
	if whole.kind == "runaway" {
		budget = 40 // every probe that still runs away is slow
	}
	core, cv := minimise(rest, prefix, budget)
	d := cv.describe()
	if core.String() != t.String() {
		d += from
	}
	// Triage by alpha-conversion: give the variables of one inner form fresh names. The meaning of the program
	// does not change (checked: the reference must give the same value and trace). If slip then agrees with the
	// reference, what fails is that a variable of that form is confused with a like-named variable elsewhere in
	// the program - one defect, whatever the forms around it, so it is named by that inner form alone.
	if sig, note := nameClash(core, &cv, prefix); sig != "" {
		add(sig, d+note)
		return
	}
	add(coreSig(core, cv.kind), d)
	return
}

func nameClash(core *term, cv *verdict, prefix string) (sig, note string) {
	var insts []*term
	var walk func(n *term)
	walk = func(n *term) {
		if n != core && isTemplate(n) {
			insts = append(insts, n)
		}
		for _, k := range n.kids {
			walk(k)
		}
	}
	walk(core)
	// innermost first: the smallest form whose renaming is enough names the defect
	for a, b := 0, len(insts)-1; a < b; a, b = a+1, b-1 {
		insts[a], insts[b] = insts[b], insts[a]
	}
	for i, inst := range insts {
		rv := judgeRenaming(core, fmt.Sprintf("%sa%d", prefix, i), inst)
		if rv.skip != "" || rv.want != cv.want || !sameTrace(rv.wantTr, cv.wantTr) {
			continue // not an alpha-conversion of this program (the instance has free variables)
		}
		if rv.ok {
			tp := tmplByName[inst.kind]
			return fmt.Sprintf("variable-name-clash inner=%s:%s kind=%s", tp.family, tp.name, cv.kind),
				fmt.Sprintf(" [with the variables of the inner %s form renamed slip agrees: %s]", tp.name, rv.text)
		}
	}
	return "", ""
}

func pairSig(outer *tmpl, i int, inner, kind string) string {
	class := outer.holes[i].class
	if strings.HasPrefix(class, "function-body") {
		class += "-of-" + outer.family // what matters is who calls the function
	}
	if inner == "*" {
		return fmt.Sprintf("at=%s inner=any-form kind=%s", class, kind)
	}
	return fmt.Sprintf("at=%s inner=%s:%s kind=%s", class, tmplByName[inner].family, inner, kind)
}

// coreSig names a reduced failing term; terms of one or two templates get the
// same names as in steps 1 and 2 of attribute.
func coreSig(core *term, kind string) string {
	if isTemplate(core) {
		tp := tmplByName[core.kind]
		nonDefault, at := 0, -1
		for i, k := range core.kids {
			if k.kind != "_" {
				nonDefault++
				at = i
			}
		}
		if nonDefault == 0 {
			return fmt.Sprintf("form=%s:%s kind=%s", tp.family, tp.name, kind)
		}
		if nonDefault == 1 && isTemplate(core.kids[at]) && core.kids[at].deviations() == 1 {
			return pairSig(tp, at, core.kids[at].kind, kind)
		}
	}
	// a chain (one filled hole per node) is named by the path of position classes
	var b strings.Builder
	for n := core; ; {
		b.WriteString(n.kind)
		if !isTemplate(n) && !strings.HasPrefix(n.kind, "$c") {
			return fmt.Sprintf("core=%s kind=%s", b.String(), kind)
		}
		var next *term
		at := -1
		for i, k := range n.kids {
			if k.kind != "_" {
				if next != nil {
					return fmt.Sprintf("core=%s kind=%s", core, kind)
				}
				next, at = k, i
			}
		}
		if next == nil {
			return fmt.Sprintf("core=%s kind=%s", b.String(), kind)
		}
		if isTemplate(n) {
			b.WriteString("[" + tmplByName[n.kind].holes[at].class + "]")
		} else {
			b.WriteString("[call-argument]")
		}
		n = next
	}
}
